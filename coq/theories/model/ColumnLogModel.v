(* C18, extension of ColumnModel: logs of issued ciphertexts with MANY entries and histories of
   EncryptColumn.Value() calls.  Definitions only; proofs are in proof/ColumnLog.v.

   A log entry is (key, nonce, ciphertext||tag, plaintext) — `log_entry`, `log_open`, `log_issued`
   are in ColumnModel.v.  Here: the boolean well-formedness predicates of a log and the log / the
   list of stored values produced by a history of Value() calls (the encryption oracle of the
   ideal world). *)
From Ekit Require Import Common ColumnModel.

Definition kn_eqb (k n k' n' : bytes) : bool := bytes_eqb k k' && bytes_eqb n n'.

(* (k, n) is not the (key, nonce) of any entry *)
Definition nonce_fresh (log : list log_entry) (k n : bytes) : bool :=
  forallb (fun e : log_entry => let '(k', n', _, _) := e in negb (kn_eqb k n k' n')) log.

(* no nonce was used twice under one key *)
Fixpoint nonces_distinct (log : list log_entry) : bool :=
  match log with
  | [] => true
  | e :: t => let '(k, n, _, _) := e in nonce_fresh t k n && nonces_distinct t
  end.

(* every nonce has 12 bytes *)
Definition nonces_sized (log : list log_entry) : bool :=
  forallb (fun e : log_entry => let '(_, n, _, _) := e in (length n =? nonce_size)%nat) log.

(* pairwise distinct byte strings / (key, nonce) pairs *)
Fixpoint bytes_distinct (l : list bytes) : bool :=
  match l with
  | [] => true
  | x :: t => forallb (fun y => negb (bytes_eqb x y)) t && bytes_distinct t
  end.
Fixpoint kn_distinct (l : list (bytes * bytes)) : bool :=
  match l with
  | [] => true
  | (k, n) :: t => forallb (fun p => negb (kn_eqb k n (fst p) (snd p))) t && kn_distinct t
  end.

Section ValueHistory.
  Variable V : Type.
  Variable json_enc : V -> option bytes.
  Variable seal : bytes -> bytes -> bytes -> bytes.

  (* one call of Value(): the nonce drawn from crypto/rand and the column (Val, Valid, Key) *)
  Definition vcall := (bytes * column V)%type.
  Definition call_kn (x : vcall) : bytes * bytes := (ckey (snd x), fst x).

  (* what a call adds to the log of the encryption oracle: nothing when Value() fails *)
  Definition issue (x : vcall) : option log_entry :=
    let (n, c) := x in
    match value V json_enc seal n c, encode V json_enc (val c) with
    | COk _, COk pt => Some (ckey c, n, seal (ckey c) n pt, pt)
    | _, _ => None
    end.

  (* the log after a history of calls (newest entry first) *)
  Fixpoint run_values (h : list vcall) (log : list log_entry) : list log_entry :=
    match h with
    | [] => log
    | x :: t => run_values t (match issue x with Some e => e :: log | None => log end)
    end.

  (* the stored values returned by the successful calls, in call order *)
  Fixpoint outputs (h : list vcall) : list bytes :=
    match h with
    | [] => []
    | (n, c) :: t =>
      match value V json_enc seal n c with
      | COk stored => stored :: outputs t
      | _ => outputs t
      end
    end.

  (* the nonces of a history are fresh: 12 bytes each, no (key, nonce) pair twice *)
  Definition history_fresh (h : list vcall) : bool :=
    forallb (fun x : vcall => (length (fst x) =? nonce_size)%nat) h && kn_distinct (map call_kn h).
  (* stronger: no nonce twice at all (what crypto/rand gives with overwhelming probability) *)
  Definition history_nonces_distinct (h : list vcall) : bool :=
    forallb (fun x : vcall => (length (fst x) =? nonce_size)%nat) h && bytes_distinct (map fst h).
End ValueHistory.

(* the outcome the property asks for on bad input: an error of the decryption stage,
   the column (Val, Valid, Key) exactly as before *)
Definition rejected (V : Type) (json_dec : V -> bytes -> V * bool)
  (open : bytes -> bytes -> bytes -> option bytes) (c : column V) (s : src) : Prop :=
  exists e, scan V json_dec open false c s = (c, SErr e) /\ (e = CKeyLen \/ e = CShort \/ e = CAuth).

(* values of the types that do not go through JSON, in the range of their type *)
Definition plain_ok (V : Type) (x : cval V) : Prop :=
  match x with
  | VStr _ | VBytes _ => True
  | VNum k z => in_range k z = true
  | VJson _ => False
  end.

Arguments call_kn {V} x.
Arguments history_fresh {V} h.
Arguments history_nonces_distinct {V} h.
