(* C20, memory level: the struct copiers over a store of cells (model/CopierModel.v is the
   tree-level model; this file adds addresses).  Definitions only; proofs in
   proof/CopierMemProof.v, statements in props/C20_mem.v.

   Part 1 restates the SPECIFICATION vocabulary of C20 (`copy_post` = `post` of
   proof/CopierProof.v, proved equal there) so that it is visible in model/.

   Part 2: values with addresses.
   * `mvalue`: a Go value as laid out in memory: struct fields inline, a pointer is an
     address of a pointer cell, a slice is a header (backing-array cell, offset, len, cap),
     a map is the id of a map cell; chan/func/array/time.Time stay opaque.
   * `store`: pointer cells (each holds the pointee's mvalue), backing arrays, map cells.
   * `aval` ("annotated value"): an mvalue with the pointer cells it owns loaded, i.e. the
     part of the store a copier call can read or write through the struct / pointer
     structure it traverses.  `load` reads it from the store type-directedly, `flush`
     writes it back; `erase_a` forgets the addresses (gives the tree-level `value`).
   * `actn` transcribes copyTreeNode on annotated values:
       - a leaf `dstValue.Set(srcValue)` copies the source's mvalue: a slice header / map id
         is copied as it is, so the destination SHARES the backing array / the map with the
         source; a `*T` leaf copies the pointee T (the pointers are not shared);
       - nested structs are copied by recursion (deep), through single pointers;
       - `dstValue.Set(reflect.New(T))` for a nil destination pointer allocates a FRESH cell;
       - a converter receives the erased (tree) value of the source field and its result is
         stored (`embed`); the memory model covers converters whose results hold no
         references (`flat`), stated as a hypothesis of the theorems.
     `mem_copy_to` / `mem_copy` are ReflectCopier.CopyTo / Copy on a store:
     load the two structs, run `actn`, flush the destination.
   Domain of faithfulness: the destination is tree-shaped (the pointer cells it owns are
   pairwise distinct: `NoDup (addrs ...)`), as for every Go value built from literals; slice
   and map ELEMENT types hold no pointers (`erase_m` does not follow them).  The plain
   recursive CopyTo of pure_reflect_copier.go is not transcribed at this level. *)
From Ekit Require Import Common CopierModel.

(* ================================================================ Part 1: the specification *)
Definition spec_sfield (sv : value) (i : nat) : option value :=
  match sv with VStruct vs => nth_opt vs i | _ => None end.

(* the value behind an optional single pointer; None = nil pointer *)
Definition spec_deref (t : ty) (v : value) : option value :=
  match t with
  | Ptr _ => match v with VPtr p => p | _ => None end
  | _ => Some v
  end.

(* the destination behind an optional single pointer, allocated (zero) when nil *)
Definition spec_deref_dst (t : ty) (v : value) : value :=
  match t with
  | Ptr e => match v with VPtr (Some x) => x | _ => zero_value e end
  | _ => v
  end.

Definition spec_field_post (o : options) (dn : Z) (sft : ty) (y : value) (dft : ty) (x x' : value)
  (rec : value -> value -> value -> Prop) : Prop :=
  let sb := unptr sft in
  let db := unptr dft in
  if is_shadow_kind (kind_of sb) || is_atomic_type sb then
    match spec_deref sft y with
    | None => x' = x
    | Some y1 =>
      match find_conv o dn with
      | Some c => cv_src c = sft /\ cv_fun c y = Some (CDyn dft x')     (* the result's dynamic type is the field's type *)
      | None =>
        sb = db /\
        exists x1', x' = rewrap (is_ptr_kind dft) x1' /\
          (is_zero y1 = true -> x1' = spec_deref_dst dft x) /\
          (is_zero y1 = false \/ spec_deref_dst dft x = zero_value db -> x1' = y1)
      end
    end
  else if is_struct_kind sb then
    match spec_deref sft y with
    | None => x' = x
    | Some y1 => exists x1', x' = rewrap (is_ptr_kind dft) x1' /\ rec y1 (spec_deref_dst dft x) x1'
    end
  else x' = x.

Fixpoint copy_post (o : options) (st : ty) (sv : value) (dt : ty) (dv dv' : value) {struct dt} : Prop :=
  match fields_of st with
  | COk sfs =>
    match dt with
    | Struct _ dfs0 =>
      match dv, dv' with
      | VStruct dvs0, VStruct dvs0' =>
        (fix each (dfs : list (Z * bool * ty)) (dvs dvs' : list value) {struct dfs} : Prop :=
           match dfs, dvs, dvs' with
           | [], [], [] => True
           | (dn, dexp, dft) :: r, x :: xr, x' :: xr' =>
             match (if dexp && negb (in_ignore o dn)
                    then assoc_find (field_map sfs 0 []) dn else None) with
             | None => x' = x
             | Some si =>
               match nth_opt sfs si, spec_sfield sv si with
               | Some (_, _, sft), Some y =>
                   spec_field_post o dn sft y dft x x'
                     (fun y1 x1 x1' =>
                        copy_post o (unptr sft) y1 (match dft with Ptr e => e | _ => dft end) x1 x1')
               | _, _ => False
               end
             end /\ each r xr xr'
           | _, _, _ => False
           end) dfs0 dvs0 dvs0'
      | _, _ => False
      end
    | _ => dv' = dv
    end
  | _ => False
  end.


(* ================================================================ Part 2: values with addresses *)
Inductive mvalue :=
| MNum (z : Z)
| MStr (s : list Z)
| MStruct (fs : list mvalue)
| MPtr (p : option nat)                          (* address of a pointer cell *)
| MSlice (s : option (nat * nat * nat * nat))    (* backing array cell, offset, len, cap *)
| MMap (m : option nat)                          (* map cell *)
| MOpaque (z : Z).

Record store := {
  ptrs : list mvalue;                       (* pointer cells: the pointee *)
  arrs : list (list mvalue);                (* backing arrays *)
  maps : list (list (mvalue * mvalue)) }.   (* map cells *)

(* the tree value of an mvalue that holds no pointers (slice / map contents, leaves) *)
Fixpoint erase_m (ar : list (list mvalue)) (mp : list (list (mvalue * mvalue))) (t : ty) (m : mvalue)
  {struct t} : value :=
  match t with
  | Basic _ | Named _ _ =>
      match m with MNum z => VNum z | MStr s => VStr s | _ => VOpaque 0 end
  | Struct _ fs =>
      match m with
      | MStruct ms =>
          VStruct ((fix go (l : list (Z * bool * ty)) (xs : list mvalue) {struct l} : list value :=
                      match l, xs with
                      | (_, _, ft) :: r, x :: xr => erase_m ar mp ft x :: go r xr
                      | _, _ => []
                      end) fs ms)
      | _ => VOpaque 0
      end
  | Ptr _ => VPtr None                    (* outside the fragment: no pointers inside elements *)
  | Slice e =>
      match m with
      | MSlice None => VSlice None
      | MSlice (Some (id, off, len, _)) =>
          VSlice (Some (map (erase_m ar mp e) (firstn len (skipn off (nth id ar [])))))
      | _ => VOpaque 0
      end
  | Map k e =>
      match m with
      | MMap None => VMap None
      | MMap (Some id) =>
          VMap (Some (map (fun kv => (erase_m ar mp k (fst kv), erase_m ar mp e (snd kv))) (nth id mp [])))
      | _ => VOpaque 0
      end
  | Atomic | Other _ _ =>
      match m with MOpaque z => VOpaque z | _ => VOpaque 0 end
  end.

Inductive aval :=
| ALeaf (m : mvalue)
| AStruct (fs : list aval)
| APtr (p : option (nat * aval)).        (* address of the cell and the loaded pointee *)

Fixpoint erase_a (ar : list (list mvalue)) (mp : list (list (mvalue * mvalue))) (t : ty) (a : aval)
  {struct t} : value :=
  match t with
  | Struct _ fs =>
      match a with
      | AStruct xs =>
          VStruct ((fix go (l : list (Z * bool * ty)) (xs : list aval) {struct l} : list value :=
                      match l, xs with
                      | (_, _, ft) :: r, x :: xr => erase_a ar mp ft x :: go r xr
                      | _, _ => []
                      end) fs xs)
      | _ => VOpaque 0
      end
  | Ptr e =>
      match a with
      | APtr None => VPtr None
      | APtr (Some (_, x)) => VPtr (Some (erase_a ar mp e x))
      | _ => VOpaque 0
      end
  | _ => erase_m ar mp t (match a with ALeaf m => m | AStruct _ => MStruct [] | APtr _ => MPtr None end)
  end.

(* load the pointer cells a value owns (type-directed) *)
Fixpoint load (p : list mvalue) (t : ty) (m : mvalue) {struct t} : aval :=
  match t with
  | Struct _ fs =>
      match m with
      | MStruct ms =>
          AStruct ((fix go (l : list (Z * bool * ty)) (xs : list mvalue) {struct l} : list aval :=
                      match l, xs with
                      | (_, _, ft) :: r, x :: xr => load p ft x :: go r xr
                      | _, _ => []
                      end) fs ms)
      | _ => ALeaf m
      end
  | Ptr e =>
      match m with
      | MPtr None => APtr None
      | MPtr (Some a) =>
          match nth_opt p a with
          | Some x => APtr (Some (a, load p e x))
          | None => APtr (Some (a, ALeaf (MOpaque 0)))    (* dangling: not a Go state *)
          end
      | _ => ALeaf m
      end
  | _ => ALeaf m
  end.

(* forget the loaded pointees *)
Fixpoint strip (a : aval) : mvalue :=
  match a with
  | ALeaf m => m
  | AStruct xs => MStruct (map strip xs)
  | APtr None => MPtr None
  | APtr (Some (ad, _)) => MPtr (Some ad)
  end.

(* the pointer cells an annotated value owns *)
Fixpoint addrs (a : aval) : list nat :=
  match a with
  | ALeaf _ => []
  | AStruct xs => flat_map addrs xs
  | APtr None => []
  | APtr (Some (ad, x)) => ad :: addrs x
  end.

(* write the owned pointer cells back *)
Fixpoint flush (a : aval) (p : list mvalue) {struct a} : list mvalue :=
  match a with
  | ALeaf _ => p
  | AStruct xs => fold_left (fun acc x => flush x acc) xs p
  | APtr None => p
  | APtr (Some (ad, x)) => set_nth (flush x p) ad (strip x)
  end.

Definition mzero (t : ty) : mvalue :=
  match t with
  | Basic k | Named _ k => if is_string_kind k then MStr [] else MNum 0
  | Slice _ => MSlice None
  | Map _ _ => MMap None
  | _ => MOpaque 0
  end.

Fixpoint azero (t : ty) : aval :=
  match t with
  | Struct _ fs =>
      AStruct ((fix go (l : list (Z * bool * ty)) : list aval :=
                  match l with [] => [] | (_, _, ft) :: r => azero ft :: go r end) fs)
  | Ptr _ => APtr None
  | _ => ALeaf (mzero t)
  end.

(* store a converter's result (a tree value without references) *)
Fixpoint embed (t : ty) (v : value) {struct t} : aval :=
  match t with
  | Struct _ fs =>
      match v with
      | VStruct vs =>
          AStruct ((fix go (l : list (Z * bool * ty)) (xs : list value) {struct l} : list aval :=
                      match l, xs with
                      | (_, _, ft) :: r, x :: xr => embed ft x :: go r xr
                      | _, _ => []
                      end) fs vs)
      | _ => ALeaf (MOpaque 0)
      end
  | Ptr _ => APtr None
  | Basic _ | Named _ _ =>
      match v with VNum z => ALeaf (MNum z) | VStr s => ALeaf (MStr s) | _ => ALeaf (MOpaque 0) end
  | Slice _ => ALeaf (MSlice None)
  | Map _ _ => ALeaf (MMap None)
  | Atomic | Other _ _ =>
      match v with VOpaque z => ALeaf (MOpaque z) | _ => ALeaf (MOpaque 0) end
  end.

(* a tree value that holds no references: what `embed` stores faithfully *)
Fixpoint flat (t : ty) (v : value) {struct t} : bool :=
  match t with
  | Struct _ fs =>
      match v with
      | VStruct vs =>
          (fix go (l : list (Z * bool * ty)) (xs : list value) {struct l} : bool :=
             match l, xs with
             | [], [] => true
             | (_, _, ft) :: r, x :: xr => flat ft x && go r xr
             | _, _ => false
             end) fs vs
      | _ => false
      end
  | Ptr _ => match v with VPtr None => true | _ => false end
  | Basic _ | Named _ _ => match v with VNum _ | VStr _ => true | _ => false end
  | Slice _ => match v with VSlice None => true | _ => false end
  | Map _ _ => match v with VMap None => true | _ => false end
  | Atomic | Other _ _ => match v with VOpaque _ => true | _ => false end
  end.

(* ---------------------------------------------------------------- reflect.Value over annotated values *)
Record arv := { aty : ty; aval_ : aval; aaddr : bool; aro : bool }.

Definition a_can_set (v : arv) : bool := aaddr v && negb (aro v).

Definition a_field (v : arv) (i : nat) : cres arv :=
  match aty v, aval_ v with
  | Struct _ fs, AStruct xs =>
      match nth_opt fs i, nth_opt xs i with
      | Some (_, e, t), Some x =>
          COk {| aty := t; aval_ := x; aaddr := aaddr v; aro := aro v || negb e |}
      | _, _ => CPanic
      end
  | _, _ => CPanic
  end.

Definition a_set_field (parent : aval) (i : nat) (x : aval) : aval :=
  match parent with
  | AStruct xs => AStruct (set_nth xs i x)
  | _ => parent
  end.

Definition a_with_val (v : arv) (x : aval) : arv :=
  {| aty := aty v; aval_ := x; aaddr := aaddr v; aro := aro v |}.

(* the destination slot again: behind pointer cell `ad` when the field is a pointer *)
Definition arewrap (p : option nat) (x : aval) : aval :=
  match p with Some ad => APtr (Some (ad, x)) | None => x end.

Definition a_src_unwrap (s : arv) : cres (option arv) :=
  match aty s with
  | Ptr et =>
      match aval_ s with
      | APtr None => COk None
      | APtr (Some (_, x)) => COk (Some {| aty := et; aval_ := x; aaddr := true; aro := aro s |})
      | _ => CPanic
      end
  | _ => COk (Some s)
  end.

(* `next` = the next fresh pointer cell; a nil destination pointer takes it *)
Definition a_dst_unwrap (d : arv) (next : nat) : cres (arv * option nat * nat) :=
  match aty d with
  | Ptr et =>
      match aval_ d with
      | APtr None =>
          if a_can_set d
          then COk ({| aty := et; aval_ := azero et; aaddr := true; aro := aro d |}, Some next, S next)
          else CPanic
      | APtr (Some (ad, x)) =>
          COk ({| aty := et; aval_ := x; aaddr := true; aro := aro d |}, Some ad, next)
      | _ => CPanic
      end
  | _ => COk (d, None, next)
  end.

(* the leaf case of copyTreeNode *)
Definition a_copy_leaf (ar : list (list mvalue)) (mp : list (list (mvalue * mvalue)))
  (o : options) (name : Z) (s s1 d d1 : arv) (p : option nat) : aval * status :=
  if negb (a_can_set d1) then (arewrap p (aval_ d1), SOk) else
  match find_conv o name with
  | None =>
      if negb (ty_eqb (aty s1) (aty d1)) then (arewrap p (aval_ d1), SErr CType)
      else if is_zero (erase_a ar mp (aty s1) (aval_ s1)) then (arewrap p (aval_ d1), SOk)
      else if aro s1 then (arewrap p (aval_ d1), SPanic)
      else (arewrap p (ALeaf (strip (aval_ s1))), SOk)   (* Set: the source's mvalue, references shared *)
  | Some c =>
      if negb (a_can_set d) then (arewrap p (aval_ d1), SOk)
      else if aro s then (arewrap p (aval_ d1), SPanic)
      else match apply_conv c (aty s) (erase_a ar mp (aty s) (aval_ s)) with
           | CPanic => (arewrap p (aval_ d1), SPanic)
           | CErr e => (arewrap p (aval_ d1), SErr e)
           | COk CNil => (arewrap p (aval_ d1), SErr CType)
           | COk (CDyn t r) =>
               if negb (ty_eqb t (aty d)) then (arewrap p (aval_ d1), SErr CType)
               else (embed t r, SOk)
           end
  end.

(* copyTreeNode on annotated values; returns the new slot, the next fresh cell, the status *)
Fixpoint actn (ar : list (list mvalue)) (mp : list (list (mvalue * mvalue)))
  (o : options) (n : node) (s d : arv) (next : nat) {struct n} : aval * nat * status :=
  match n with
  | Node name _ _ leaf kids =>
    match a_src_unwrap s with
    | CPanic => (aval_ d, next, SPanic)
    | CErr e => (aval_ d, next, SErr e)
    | COk None => (aval_ d, next, SOk)
    | COk (Some s1) =>
      match a_dst_unwrap d next with
      | CPanic => (aval_ d, next, SPanic)
      | CErr e => (aval_ d, next, SErr e)
      | COk (d1, p, next1) =>
        if leaf then
          let '(x, stt) := a_copy_leaf ar mp o name s s1 d d1 p in (x, next1, stt)
        else
          let '(v', next2, stt) :=
            (fix loop (ks : list node) (cur : aval) (nx : nat) {struct ks} : aval * nat * status :=
               match ks with
               | [] => (cur, nx, SOk)
               | k :: rest =>
                 match k with
                 | Node cname si di _ _ =>
                   if in_ignore o cname then loop rest cur nx else
                   match a_field s1 si, a_field (a_with_val d1 cur) di with
                   | COk cs, COk cd =>
                       let '(x, nx', stt) := actn ar mp o k cs cd nx in
                       let cur' := a_set_field cur di x in
                       match stt with
                       | SOk => loop rest cur' nx'
                       | _ => (cur', nx', stt)
                       end
                   | _, _ => (cur, nx, SPanic)
                   end
                 end
               end) kids (aval_ d1) next1 in
          (arewrap p v', next2, stt)
      end
    end
  end.

(* a leaf node copies a value of a leaf type (basic kind, slice, map, chan, array, time.Time):
   what createFieldNodes guarantees about the trees it builds (proved in CopierMemProof.v) *)
Definition is_leaf_ty (t : ty) : bool :=
  match t with Struct _ _ | Ptr _ => false | _ => true end.

Fixpoint node_ok (n : node) (t : ty) {struct n} : Prop :=
  match n with
  | Node _ _ _ leaf kids =>
    if leaf then is_leaf_ty (unptr t) = true
    else
      (fix all (ks : list node) {struct ks} : Prop :=
         match ks with
         | [] => True
         | k :: r =>
           match k with
           | Node _ si _ _ _ =>
             match fields_of (unptr t) with
             | COk fs =>
                 match nth_opt fs si with
                 | Some (_, _, ft) => node_ok k ft
                 | None => False
                 end
             | _ => False
             end
           end /\ all r
         end) kids
  end.

(* ---------------------------------------------------------------- CopyTo / Copy on a store *)
Definition load_root (p : list mvalue) (t : ty) (a : option nat) : aval :=
  match a with
  | None => APtr None
  | Some ad =>
      match nth_opt p ad with
      | Some m => APtr (Some (ad, load p t m))
      | None => APtr None
      end
  end.

Definition pad (p : list mvalue) (n : nat) : list mvalue := p ++ repeat (MOpaque 0) (n - length p).

(* the annotated run of ReflectCopier.CopyTo(src, dst, opts...): src / dst are the addresses
   of the two structs (None = nil pointer) *)
Definition mem_copy_to_run (c : copier) (st dt : ty) (S : store) (src dst : option nat) (ps : list opt)
  : aval * nat * status :=
  let o := apply_opts (copy_default_options (c_defaults c)) ps in
  actn (arrs S) (maps S) o (c_root c)
    {| aty := Ptr st; aval_ := load_root (ptrs S) st src; aaddr := false; aro := false |}
    {| aty := Ptr dt; aval_ := load_root (ptrs S) dt dst; aaddr := false; aro := false |}
    (length (ptrs S)).

Definition mem_copy_to (c : copier) (st dt : ty) (S : store) (src dst : option nat) (ps : list opt)
  : store * status :=
  let '(r, next, stt) := mem_copy_to_run c st dt S src dst ps in
  ({| ptrs := flush r (pad (ptrs S) next); arrs := arrs S; maps := maps S |}, stt).

(* Copy: dst := new(Dst) is a fresh cell holding the zero struct *)
Definition mem_copy (c : copier) (st dt : ty) (S : store) (src : option nat) (ps : list opt)
  : store * nat * status :=
  let da := length (ptrs S) in
  let S1 := {| ptrs := ptrs S ++ [strip (azero dt)]; arrs := arrs S; maps := maps S |} in
  let '(S2, stt) := mem_copy_to c st dt S1 src (Some da) ps in
  (S2, da, stt).

(* the tree-level view of the struct at address `a` *)
Definition erase_at (S : store) (t : ty) (a : option nat) : option value :=
  match a with
  | None => None
  | Some ad =>
      match nth_opt (ptrs S) ad with
      | Some m => Some (erase_a (arrs S) (maps S) t (load (ptrs S) t m))
      | None => None
      end
  end.

(* the pointer cells reachable from the struct at address `a` (itself included) *)
Definition cells_of (S : store) (t : ty) (a : option nat) : list nat :=
  addrs (load_root (ptrs S) t a).

(* an annotated value has the shape of its type (what `load` yields on a well-typed store) *)
Fixpoint shaped (t : ty) (a : aval) {struct t} : Prop :=
  match t with
  | Struct _ fs =>
      match a with
      | AStruct xs =>
          (fix go (l : list (Z * bool * ty)) (xs : list aval) {struct l} : Prop :=
             match l, xs with
             | [], [] => True
             | (_, _, ft) :: r, x :: xr => shaped ft x /\ go r xr
             | _, _ => False
             end) fs xs
      | _ => False
      end
  | Ptr e =>
      match a with
      | APtr None => True
      | APtr (Some (_, x)) => shaped e x
      | _ => False
      end
  | _ => match a with ALeaf _ => True | _ => False end
  end.

(* the struct at address `a` is a proper, tree-shaped Go value in the store: its cells exist,
   are pairwise distinct, and the loaded value has the shape of its type *)
Definition proper (S : store) (t : ty) (a : option nat) : Prop :=
  match a with
  | None => True
  | Some ad =>
      nth_opt (ptrs S) ad <> None /\
      shaped (Ptr t) (load_root (ptrs S) t a) /\
      NoDup (cells_of S t a) /\
      forall b, In b (cells_of S t a) -> (b < length (ptrs S))%nat
  end.

(* the leaf mvalues of an annotated value (slice headers, map ids, numbers, ...) *)
Fixpoint leaves (a : aval) : list mvalue :=
  match a with
  | ALeaf m => [m]
  | AStruct xs => flat_map leaves xs
  | APtr None => []
  | APtr (Some (_, x)) => leaves x
  end.

(* an mvalue that refers to no array / map / pointer cell *)
Definition inert (m : mvalue) : Prop :=
  match m with
  | MSlice (Some _) | MMap (Some _) | MPtr (Some _) | MStruct _ => False
  | _ => True
  end.

(* hypothesis of the memory-level theorems: converter results hold no references *)
Definition convs_flat (o : options) : Prop :=
  forall n c v t r, find_conv o n = Some c -> cv_fun c v = Some (CDyn t r) -> flat t r = true.

(* the struct at `a` exists cell by cell and owns none of the cells `dcells` *)
Definition untouched (S : store) (t : ty) (a : option nat) (dcells : list nat) : Prop :=
  forall b, In b (cells_of S t a) -> (b < length (ptrs S))%nat /\ ~ In b dcells.

(* ---------------------------------------------------------------- building a store from a tree value
   (used by the correspondence driver: every pointer, slice and map of a literal gets its own
   cell, as for a Go value built from composite literals; slices have cap = len) *)
Fixpoint inject (t : ty) (v : value) (S : store) {struct t} : mvalue * store :=
  match t with
  | Basic _ | Named _ _ =>
      (match v with VNum z => MNum z | VStr s => MStr s | _ => MOpaque 0 end, S)
  | Struct _ fs =>
      match v with
      | VStruct vs =>
          let '(ms, S') :=
            (fix go (l : list (Z * bool * ty)) (xs : list value) (S0 : store) {struct l}
               : list mvalue * store :=
               match l, xs with
               | (_, _, ft) :: r, x :: xr =>
                   let '(m, S1) := inject ft x S0 in
                   let '(mr, S2) := go r xr S1 in (m :: mr, S2)
               | _, _ => ([], S0)
               end) fs vs S in
          (MStruct ms, S')
      | _ => (MOpaque 0, S)
      end
  | Ptr e =>
      match v with
      | VPtr (Some x) =>
          let '(m, S1) := inject e x S in
          (MPtr (Some (length (ptrs S1))),
           {| ptrs := ptrs S1 ++ [m]; arrs := arrs S1; maps := maps S1 |})
      | _ => (MPtr None, S)
      end
  | Slice e =>
      match v with
      | VSlice (Some l) =>
          let '(ms, S1) :=
            fold_left (fun acc x => let '(m, S0) := inject e x (snd acc) in (fst acc ++ [m], S0)) l ([], S) in
          (MSlice (Some (length (arrs S1), 0%nat, length ms, length ms)),
           {| ptrs := ptrs S1; arrs := arrs S1 ++ [ms]; maps := maps S1 |})
      | _ => (MSlice None, S)
      end
  | Map k e =>
      match v with
      | VMap (Some l) =>
          let '(ms, S1) :=
            fold_left (fun acc kv =>
                         let '(mk, S0) := inject k (fst kv) (snd acc) in
                         let '(mv, S0') := inject e (snd kv) S0 in
                         (fst acc ++ [(mk, mv)], S0')) l ([], S) in
          (MMap (Some (length (maps S1))),
           {| ptrs := ptrs S1; arrs := arrs S1; maps := maps S1 ++ [ms] |})
      | _ => (MMap None, S)
      end
  | Atomic | Other _ _ =>
      (match v with VOpaque z => MOpaque z | _ => MOpaque 0 end, S)
  end.

(* put a struct value into a fresh pointer cell; returns its address *)
Definition inject_at (t : ty) (v : value) (S : store) : nat * store :=
  let '(m, S1) := inject t v S in
  (length (ptrs S1), {| ptrs := ptrs S1 ++ [m]; arrs := arrs S1; maps := maps S1 |}).

Definition empty_store : store := {| ptrs := []; arrs := []; maps := [] |}.
