(* Executable model of /repo/bean/copier (reflect_copier.go, pure_reflect_copier.go,
   copy.go, errors.go, converter/converter.go) and bean/option — C20.
   Definitions only; proofs are in proof/CopierProof.v.

   The reflected universe is a deep embedding: types `ty`, values `value` (by
   structure), and `rv` = a reflect.Value (type, value, flagAddr, flagRO).  Every
   reflect call the code makes is a function here whose precondition failure is
   `CPanic` / `SPanic`, so "never panics" is a theorem about the checks the code
   performs, not a by-product of totality.

   Conventions / restrictions of the universe (stated again in props/C20.v):
   * field and type names are numbers (`Z`); name 0 is the empty string.
     `fexp` is Go's IsExported (in Go a function of the name; the generator keeps
     the two consistent).  Go forbids two fields with the same name in one struct;
     the model's name map nevertheless overrides like Go's map (last wins).
   * no embedded fields, no struct tags, one package; so structural equality of
     `ty` (with the optional type name) is Go's type identity, provided a type name
     determines its definition (well-formed program).
   * defined types are `Named n k` (underlying basic kind) and `Struct (Some n) _`.
   * `Atomic` is time.Time: Kind() = Struct, three unexported fields, member of
     defaultAtomicTypes; its values are opaque (`VOpaque z`, z = 0 the zero Time).
   * `Other k id` are opaque types of kind chan / array (both "shadow copy" kinds),
     func / interface / unsafe.Pointer (skipped by both copiers); values `VOpaque z`,
     z = 0 the zero value (nil chan/func/interface, all-zero array).
   * `VNum z`: bool, integers, floats and complex numbers in a canonical integer
     encoding in which 0 (and only 0) is the value IsZero accepts (for floats the
     IEEE bits with -0.0 identified with +0.0, as Go's `v.Float() == 0` does).
   * values are trees: pointer-typed fields of the destination alias neither each
     other nor the source (Set of a slice/map shares the backing store in Go; no
     later write goes through it, so the tree view is exact for the observables).
   * converters are total pure functions `value -> option cvres` (None = the user's
     converter returned an error; CNil = a converter to an interface type returned the
     nil interface; CDyn t v = the dynamic value v : t); their Src is a non-interface type. *)
From Ekit Require Import Common.

(* ---------------------------------------------------------------- types *)
Inductive kind :=
| KBool | KInt | KInt8 | KInt16 | KInt32 | KInt64
| KUint | KUint8 | KUint16 | KUint32 | KUint64 | KUintptr
| KFloat32 | KFloat64 | KComplex64 | KComplex128 | KString.

Inductive okind := OChan | OArray | OFunc | OIface | OUnsafe.

Inductive ty :=
| Basic (k : kind)                                   (* predeclared bool, int, ..., string *)
| Named (n : Z) (k : kind)                           (* type Tn <basic kind k> *)
| Struct (n : option Z) (fs : list (Z * bool * ty))  (* fields: (name, exported, type) *)
| Ptr (t : ty)
| Slice (t : ty)
| Map (k v : ty)
| Atomic                                             (* time.Time *)
| Other (k : okind) (id : Z).

Notation fld := (Z * bool * ty)%type (only parsing).
Definition fname (f : fld) : Z := fst (fst f).
Definition fexp (f : fld) : bool := snd (fst f).
Definition ftyp (f : fld) : ty := snd f.

Definition kind_code (k : kind) : Z :=
  match k with
  | KBool => 1 | KInt => 2 | KInt8 => 3 | KInt16 => 4 | KInt32 => 5 | KInt64 => 6
  | KUint => 7 | KUint8 => 8 | KUint16 => 9 | KUint32 => 10 | KUint64 => 11 | KUintptr => 12
  | KFloat32 => 13 | KFloat64 => 14 | KComplex64 => 15 | KComplex128 => 16 | KString => 17
  end.
Definition kind_eqb (a b : kind) : bool := Z.eqb (kind_code a) (kind_code b).

Definition okind_code (k : okind) : Z :=
  match k with OChan => 1 | OArray => 2 | OFunc => 3 | OIface => 4 | OUnsafe => 5 end.
Definition okind_eqb (a b : okind) : bool := Z.eqb (okind_code a) (okind_code b).

(* reflect.Kind *)
Inductive rkind := RK (k : kind) | RStruct | RPtr | RSlice | RMap | RO (k : okind).

Definition kind_of (t : ty) : rkind :=
  match t with
  | Basic k | Named _ k => RK k
  | Struct _ _ | Atomic => RStruct
  | Ptr _ => RPtr
  | Slice _ => RSlice
  | Map _ _ => RMap
  | Other k _ => RO k
  end.

Definition rkind_eqb (a b : rkind) : bool :=
  match a, b with
  | RK k, RK k' => kind_eqb k k'
  | RStruct, RStruct | RPtr, RPtr | RSlice, RSlice | RMap, RMap => true
  | RO k, RO k' => okind_eqb k k'
  | _, _ => false
  end.

Definition is_struct_kind (t : ty) : bool :=
  match kind_of t with RStruct => true | _ => false end.
Definition is_ptr_kind (t : ty) : bool :=
  match t with Ptr _ => true | _ => false end.

(* isShadowCopyType: Bool ... Complex128, String, Slice, Map, Chan, Array *)
Definition is_shadow_kind (k : rkind) : bool :=
  match k with
  | RK _ | RSlice | RMap | RO OChan | RO OArray => true
  | _ => false
  end.

(* r.isAtomicType: identity with an element of defaultAtomicTypes = [time.Time] *)
Definition is_atomic_type (t : ty) : bool :=
  match t with Atomic => true | _ => false end.

Definition optz_eqb (a b : option Z) : bool :=
  match a, b with
  | None, None => true
  | Some x, Some y => Z.eqb x y
  | _, _ => false
  end.

(* type identity (reflect.Type ==) *)
Fixpoint ty_eqb (a b : ty) {struct a} : bool :=
  match a, b with
  | Basic k, Basic k' => kind_eqb k k'
  | Named n k, Named n' k' => Z.eqb n n' && kind_eqb k k'
  | Struct n fs, Struct n' fs' =>
      optz_eqb n n' &&
      (fix go (l l' : list (Z * bool * ty)) {struct l} : bool :=
         match l, l' with
         | [], [] => true
         | (fn, fe, ft) :: r, (fn', fe', ft') :: r' =>
             Z.eqb fn fn' && Bool.eqb fe fe' && ty_eqb ft ft' && go r r'
         | _, _ => false
         end) fs fs'
  | Ptr t, Ptr t' => ty_eqb t t'
  | Slice t, Slice t' => ty_eqb t t'
  | Map k v, Map k' v' => ty_eqb k k' && ty_eqb v v'
  | Atomic, Atomic => true
  | Other k i, Other k' i' => okind_eqb k k' && Z.eqb i i'
  | _, _ => false
  end.

(* time.Time's fields wall uint64, ext int64, loc *Location: all unexported *)
Definition atomic_fields : list fld :=
  [(1, false, Basic KUint64); (2, false, Basic KInt64); (3, false, Ptr (Other OUnsafe 0))].

(* ---------------------------------------------------------------- values *)
Inductive value :=
| VNum (z : Z)
| VStr (s : list Z)
| VStruct (fs : list value)
| VPtr (p : option value)
| VSlice (s : option (list value))
| VMap (m : option (list (value * value)))
| VOpaque (z : Z).

Definition is_string_kind (k : kind) : bool :=
  match k with KString => true | _ => false end.

Fixpoint zero_value (t : ty) : value :=
  match t with
  | Basic k | Named _ k => if is_string_kind k then VStr [] else VNum 0
  | Struct _ fs =>
      VStruct ((fix go (l : list (Z * bool * ty)) : list value :=
                  match l with [] => [] | (_, _, ft) :: r => zero_value ft :: go r end) fs)
  | Ptr _ => VPtr None
  | Slice _ => VSlice None
  | Map _ _ => VMap None
  | Atomic => VOpaque 0
  | Other _ _ => VOpaque 0
  end.

Fixpoint has_type (t : ty) (v : value) {struct t} : bool :=
  match t, v with
  | Basic k, VNum _ | Named _ k, VNum _ => negb (is_string_kind k)
  | Basic k, VStr _ | Named _ k, VStr _ => is_string_kind k
  | Struct _ fs, VStruct vs =>
      (fix go (l : list (Z * bool * ty)) (xs : list value) {struct l} : bool :=
         match l, xs with
         | [], [] => true
         | (_, _, ft) :: r, x :: xr => has_type ft x && go r xr
         | _, _ => false
         end) fs vs
  | Ptr _, VPtr None => true
  | Ptr e, VPtr (Some x) => has_type e x
  | Slice _, VSlice None => true
  | Slice e, VSlice (Some l) => forallb (has_type e) l
  | Map _ _, VMap None => true
  | Map k e, VMap (Some l) => forallb (fun kv => has_type k (fst kv) && has_type e (snd kv)) l
  | Atomic, VOpaque _ => true
  | Other _ _, VOpaque _ => true
  | _, _ => false
  end.

(* reflect.Value.IsZero *)
Fixpoint is_zero (v : value) : bool :=
  match v with
  | VNum z => Z.eqb z 0
  | VStr s => match s with [] => true | _ => false end
  | VStruct fs => forallb is_zero fs
  | VPtr p => match p with None => true | Some _ => false end
  | VSlice s => match s with None => true | Some _ => false end
  | VMap m => match m with None => true | Some _ => false end
  | VOpaque z => Z.eqb z 0
  end.

(* ---------------------------------------------------------------- results *)
Inductive cerr :=
| CEntry      (* newErrTypeError: entry point given a non-struct *)
| CKind       (* newErrKindNotMatchError *)
| CType       (* newErrTypeNotMatchError *)
| CMultiPtr   (* newErrMultiPointer *)
| CConvType   (* errConvertFieldTypeNotMatch *)
| CUser.      (* the error returned by a user's converter *)

Inductive cres (A : Type) := COk (a : A) | CErr (e : cerr) | CPanic.
Arguments COk {A} a.
Arguments CErr {A} e.
Arguments CPanic {A}.

Inductive status := SOk | SErr (e : cerr) | SPanic.

(* ---------------------------------------------------------------- reflect primitives *)
(* a reflect.Value: dynamic type, contents, flagAddr, flagRO *)
Record rv := { rty : ty; rval : value; raddr : bool; rro : bool }.

(* Value.CanSet *)
Definition can_set (v : rv) : bool := raddr v && negb (rro v).

(* Type.NumField / Type.Field: panic unless Kind() == Struct *)
Definition fields_of (t : ty) : cres (list fld) :=
  match t with
  | Struct _ fs => COk fs
  | Atomic => COk atomic_fields
  | _ => CPanic
  end.

(* Value.Field(i) (with Type.Field(i)): panics unless a struct with more than i fields;
   the result is addressable iff the struct is, read-only iff the struct is or the
   field is unexported.  (time.Time's fields are never reached by the code; the model
   answers CPanic there, and the totality theorems show it is unreachable.) *)
Definition r_field (v : rv) (i : nat) : cres rv :=
  match rty v, rval v with
  | Struct _ fs, VStruct vs =>
      match nth_opt fs i, nth_opt vs i with
      | Some (_, e, t), Some x =>
          COk {| rty := t; rval := x; raddr := raddr v; rro := rro v || negb e |}
      | _, _ => CPanic
      end
  | _, _ => CPanic
  end.

Definition set_field (parent : value) (i : nat) (x : value) : value :=
  match parent with
  | VStruct vs => VStruct (set_nth vs i x)
  | _ => parent
  end.

Definition with_val (v : rv) (x : value) : rv :=
  {| rty := rty v; rval := x; raddr := raddr v; rro := rro v |}.

(* ---------------------------------------------------------------- options (copy.go) *)
(* What a converterWrapper returns besides the error: an `any`.  For a converter whose Dst is a
   non-interface type it is always `CDyn Dst v`; for an interface Dst (ConvertField[string, any],
   ConvertField[int, error]) it is the nil interface (`CNil`) or a dynamic value `CDyn t v` of some
   non-interface type t.  reflect.TypeOf gives nil / t, reflect.ValueOf the zero Value / v. *)
Inductive cvres := CNil | CDyn (t : ty) (v : value).

(* cv_dst is the declared Dst type parameter (documentation; the code only ever sees the
   dynamic type of the result) *)
Record conv := { cv_src : ty; cv_dst : ty; cv_fun : value -> option cvres }.

(* options{ignoreFields *set.MapSet[string]; convertFields map[string]converterWrapper};
   None = nil.  The association list is searched from the front and extended at the
   front, so a later assignment to the same key wins, like the Go map. *)
Record options := { o_ignore : option (list Z); o_conv : option (list (Z * conv)) }.

Definition new_options : options := {| o_ignore := None; o_conv := None |}.

(* options.InIgnoreFields *)
Definition in_ignore (o : options) (n : Z) : bool :=
  match o_ignore o with
  | None => false
  | Some l => existsb (Z.eqb n) l
  end.

Fixpoint assoc_find {A} (l : list (Z * A)) (n : Z) : option A :=
  match l with
  | [] => None
  | (k, a) :: r => if Z.eqb k n then Some a else assoc_find r n
  end.

(* opts.convertFields[name] (reading a nil map is allowed) *)
Definition find_conv (o : options) (n : Z) : option conv :=
  match o_conv o with
  | None => None
  | Some l => assoc_find l n
  end.

(* an option.Option[options] value built by IgnoreFields(...) / ConvertField(name, c);
   `OConvert n None` is ConvertField with a nil converter *)
Inductive opt :=
| OIgnore (names : list Z)
| OConvert (name : Z) (c : option conv).

Definition apply_opt (o : options) (p : opt) : options :=
  match p with
  | OIgnore names =>
      match names with
      | [] => o                                            (* len(fields) < 1 *)
      | _ =>
          let cur := match o_ignore o with None => [] | Some l => l end in
          {| o_ignore := Some (fold_left (fun acc n => n :: acc) names cur);
             o_conv := o_conv o |}
      end
  | OConvert name c =>
      match c with
      | None => o                                          (* converter == nil *)
      | Some c =>
          if Z.eqb name 0 then o                           (* field == "" *)
          else
            let cur := match o_conv o with None => [] | Some l => l end in
            {| o_ignore := o_ignore o; o_conv := Some ((name, c) :: cur) |}
      end
  end.

(* option.Apply *)
Definition apply_opts (o : options) (ps : list opt) : options := fold_left apply_opt ps o.

(* the converterWrapper closure built by ConvertField: `src.(Src)` then Convert *)
Definition apply_conv (c : conv) (t : ty) (v : value) : cres cvres :=
  if negb (ty_eqb t (cv_src c)) then CErr CConvType
  else match cv_fun c v with
       | Some r => COk r
       | None => CErr CUser
       end.

(* ---------------------------------------------------------------- the field-node trie *)
Inductive node :=
| Node (nname : Z) (nsrc ndst : nat) (nleaf : bool) (nkids : list node).

Definition node_name (n : node) : Z := match n with Node a _ _ _ _ => a end.
Definition node_kids (n : node) : list node := match n with Node _ _ _ _ k => k end.

(* fieldMap[name] = i for every exported source field, in index order *)
Fixpoint field_map (fs : list fld) (i : nat) (acc : list (Z * nat)) : list (Z * nat) :=
  match fs with
  | [] => acc
  | (n, e, _) :: r => field_map r (S i) (if e then (n, i) :: acc else acc)
  end.

(* Kind() == Pointer && Elem().Kind() == Pointer *)
Definition multi_ptr (t : ty) : bool :=
  match t with
  | Ptr (Ptr _) => true
  | _ => false
  end.

Definition unptr (t : ty) : ty :=
  match t with Ptr e => e | _ => t end.

(* createFieldNodes(root, srcTyp, dstTyp) -> root.fields.
   `pin = true` is the code before commit 79cd082 (no kind check before recursing). *)
Fixpoint create_field_nodes (pin : bool) (st dt : ty) {struct dt} : cres (list node) :=
  match fields_of st with                       (* srcTyp.NumField() *)
  | CPanic => CPanic
  | CErr e => CErr e
  | COk sfs =>
    let fm := field_map sfs 0 [] in
    match dt with                               (* dstTyp.NumField() *)
    | Struct _ dfs =>
      (fix loop (dfs : list (Z * bool * ty)) (di : nat) {struct dfs} : cres (list node) :=
         match dfs with
         | [] => COk []
         | (dn, dexp, dft) :: rest =>
           if negb dexp then loop rest (S di) else
           match assoc_find fm dn with
           | None => loop rest (S di)
           | Some si =>
             match nth_opt sfs si with            (* srcTyp.Field(srcIndex) *)
             | None => CPanic
             | Some (_, _, sft) =>
               if multi_ptr sft then CErr CMultiPtr else
               if multi_ptr dft then CErr CMultiPtr else
               let fst_ := unptr sft in
               let finish (kids : list node) (leaf : bool) : cres (list node) :=
                 match loop rest (S di) with
                 | COk ns => COk (Node dn si di leaf kids :: ns)
                 | r => r
                 end in
               if is_shadow_kind (kind_of fst_) then finish [] true
               else if is_atomic_type fst_ then finish [] true
               else if is_struct_kind fst_ then
                 if negb pin && negb (is_struct_kind (unptr dft)) then CErr CKind
                 else
                   match create_field_nodes pin fst_ (match dft with Ptr e => e | _ => dft end) with
                   | COk kids => finish kids false
                   | CErr e => CErr e
                   | CPanic => CPanic
                   end
               else loop rest (S di)
             end
           end
         end) dfs 0%nat
    | Atomic => COk []          (* wall, ext, loc: unexported, all skipped *)
    | _ => CPanic               (* NumField of non-struct type *)
    end
  end.

Record copier := { c_root : node; c_defaults : options }.

(* NewReflectCopier[Src, Dst](opts...) *)
Definition new_reflect_copier_gen (pin : bool) (st dt : ty) (ps : list opt) : cres copier :=
  if negb (is_struct_kind st) then CErr CEntry
  else if negb (is_struct_kind dt) then CErr CEntry
  else match create_field_nodes pin st dt with
       | COk kids =>
           COk {| c_root := Node 0 0 0 false kids;
                  c_defaults := apply_opts new_options ps |}
       | CErr e => CErr e
       | CPanic => CPanic
       end.

Definition new_reflect_copier := new_reflect_copier_gen false.
Definition new_reflect_copier_pinned := new_reflect_copier_gen true.

(* ---------------------------------------------------------------- the tree-driven copy *)
Definition rewrap (p : bool) (x : value) : value := if p then VPtr (Some x) else x.

(* copyTreeNode.  Returns the new contents of the destination slot and the status;
   on SErr the slot holds what had been written before the error. *)
Fixpoint copy_tree_node_gen (zs : bool) (o : options) (n : node) (s d : rv) {struct n} : value * status :=
  match n with
  | Node name _ _ leaf kids =>
    (* if srcValue.Kind() == Pointer { if IsNil return nil; Elem() } *)
    match
      (match rty s with
       | Ptr et =>
           match rval s with
           | VPtr None => COk None
           | VPtr (Some x) => COk (Some {| rty := et; rval := x; raddr := true; rro := rro s |})
           | _ => CPanic
           end
       | _ => COk (Some s)
       end)
    with
    | CPanic => (rval d, SPanic)
    | CErr e => (rval d, SErr e)
    | COk None => (rval d, SOk)
    | COk (Some s1) =>
      (* if dstValue.Kind() == Pointer { if IsNil { Set(New(Elem)) }; Elem() } *)
      match
        (match rty d with
         | Ptr et =>
             match rval d with
             | VPtr None =>
                 if can_set d
                 then COk ({| rty := et; rval := zero_value et; raddr := true; rro := rro d |}, true)
                 else CPanic
             | VPtr (Some x) => COk ({| rty := et; rval := x; raddr := true; rro := rro d |}, true)
             | _ => CPanic
             end
         | _ => COk (d, false)
         end)
      with
      | CPanic => (rval d, SPanic)
      | CErr e => (rval d, SErr e)
      | COk (d1, p) =>
        if leaf then
          if negb (can_set d1) then (rewrap p (rval d1), SOk) else
          match find_conv o name with
          | None =>
              if negb (ty_eqb (rty s1) (rty d1)) then (rewrap p (rval d1), SErr CType)
              else if zs && is_zero (rval s1) then (rewrap p (rval d1), SOk)
              else if rro s1 then (rewrap p (rval d1), SPanic)      (* Set: value from unexported field *)
              else (rewrap p (rval s1), SOk)
          | Some c =>
              if negb (can_set d) then (rewrap p (rval d1), SOk)
              else if rro s then (rewrap p (rval d1), SPanic)       (* Interface() *)
              else match apply_conv c (rty s) (rval s) with
                   | CPanic => (rewrap p (rval d1), SPanic)
                   | CErr e => (rewrap p (rval d1), SErr e)
                   | COk CNil =>
                       (* reflect.TypeOf(nil) is the nil Type: `srcConvType != originDstVal.Type()` *)
                       (rewrap p (rval d1), SErr CType)
                   | COk (CDyn t r) =>
                       if negb (ty_eqb t (rty d)) then (rewrap p (rval d1), SErr CType)
                       else (r, SOk)                                 (* originDstVal.Set(srcConvVal) *)
                   end
          end
        else
          let '(v', stt) :=
            (fix loop (ks : list node) (cur : value) {struct ks} : value * status :=
               match ks with
               | [] => (cur, SOk)
               | k :: rest =>
                 match k with
                 | Node cname si di _ _ =>
                   if in_ignore o cname then loop rest cur else
                   match r_field s1 si, r_field (with_val d1 cur) di with
                   | COk cs, COk cd =>
                       let '(x, stt) := copy_tree_node_gen zs o k cs cd in
                       let cur' := set_field cur di x in
                       match stt with
                       | SOk => loop rest cur'
                       | _ => (cur', stt)
                       end
                   | _, _ => (cur, SPanic)
                   end
                 end
               end) kids (rval d1) in
          (rewrap p v', stt)
      end
    end
  end.

(* `zs = true` is the code as it is: `if srcValue.IsZero() { return nil }` (the zero-skip).
   `zs = false` is the REPAIRED variant without that test (a zero-valued source leaf is
   copied like any other value); it exists only so that the correspondence check accepts
   either behaviour for the known finding C20:copy:zero-skip.  All theorems are about
   `copy_tree_node` = the code as it is. *)
Definition copy_tree_node := copy_tree_node_gen true.

(* copyDefaultOptions: a fresh options value holding copies of the default ignore set
   (when non-nil) and of the default converter map (allocated on the first entry) *)
Definition copy_default_options (defaults : options) : options :=
  {| o_ignore := match o_ignore defaults with
                 | None => None
                 | Some l => Some (fold_left (fun acc n => n :: acc) l [])
                 end;
     o_conv := match o_conv defaults with
               | None => None
               | Some [] => None
               | Some l => Some (fold_right (fun kc acc => kc :: acc) [] l)
               end |}.

(* ReflectCopier.CopyTo(src *Src, dst *Dst, opts...): src / dst are the two pointers
   (`None` = nil).  Returns the pointer dst afterwards and the status. *)
Definition reflect_copy_to_gen (zs : bool) (c : copier) (st dt : ty) (src dst : option value) (ps : list opt)
  : option value * status :=
  let o := apply_opts (copy_default_options (c_defaults c)) ps in
  let s := {| rty := Ptr st; rval := VPtr src; raddr := false; rro := false |} in
  let d := {| rty := Ptr dt; rval := VPtr dst; raddr := false; rro := false |} in
  match copy_tree_node_gen zs o (c_root c) s d with
  | (VPtr p, stt) => (p, stt)
  | (_, stt) => (dst, stt)
  end.

Definition reflect_copy_to := reflect_copy_to_gen true.

(* ReflectCopier.Copy(src, opts...): dst := new(Dst) *)
Definition reflect_copy (c : copier) (st dt : ty) (src : option value) (ps : list opt)
  : option value * status :=
  reflect_copy_to c st dt src (Some (zero_value dt)) ps.

(* ---------------------------------------------------------------- the plain recursive CopyTo *)
(* copyData, with the recursive call to copyStruct abstracted as `rec` (the caller
   passes copy_struct at the destination type) *)
Definition copy_data (rec : rv -> value -> bool -> bool -> value * status) (s d : rv)
  : value * status :=
  if is_ptr_kind (rty s) then (rval d, SErr CMultiPtr)
  else if negb (rkind_eqb (kind_of (rty s)) (kind_of (rty d))) then (rval d, SErr CKind)
  else if is_shadow_kind (kind_of (rty s)) then
    if negb (ty_eqb (rty s) (rty d)) then (rval d, SErr CType)
    else if can_set d then
      if rro s then (rval d, SPanic) else (rval s, SOk)
    else (rval d, SOk)
  else if is_struct_kind (rty s) then rec s (rval d) (raddr d) (rro d)
  else (rval d, SOk).

(* copyStruct(srcTyp, srcValue, dstTyp, dstValue) with copyStructField inlined in the loop *)
Fixpoint copy_struct (s : rv) (dt : ty) (dval : value) (daddr dro : bool) {struct dt}
  : value * status :=
  match fields_of (rty s) with                  (* srcTyp.NumField() *)
  | CPanic => (dval, SPanic)
  | CErr e => (dval, SErr e)
  | COk sfs =>
    let fm := field_map sfs 0 [] in
    match dt with                               (* dstTyp.NumField() *)
    | Struct dn_ dfs0 =>
      (fix loop (dfs : list (Z * bool * ty)) (i : nat) (cur : value) {struct dfs} : value * status :=
         match dfs with
         | [] => (cur, SOk)
         | (dn, dexp, dft) :: rest =>
           if negb dexp then loop rest (S i) cur else
           match assoc_find fm dn with
           | None => loop rest (S i) cur
           | Some idx =>
             (* copyStructField *)
             match nth_opt sfs idx with           (* srcTyp.Field(srcFieldIndex) *)
             | None => (cur, SPanic)
             | Some (_, _, sft) =>
               if negb (rkind_eqb (kind_of sft) (kind_of dft)) then (cur, SErr CKind) else
               let d := {| rty := Struct dn_ dfs0; rval := cur; raddr := daddr; rro := dro |} in
               match r_field s idx, r_field d i with
               | COk sf, COk df =>
                 let '(x, stt) :=
                   match sft with
                   | Ptr set_ =>
                     match rval sf with
                     | VPtr None => (rval df, SOk)
                     | VPtr (Some sx) =>
                       match dft with
                       | Ptr det =>
                         match
                           (match rval df with
                            | VPtr None => if can_set df then COk (zero_value det) else CPanic
                            | VPtr (Some dx) => COk dx
                            | _ => CPanic
                            end)
                         with
                         | COk dx =>
                           let '(x', stt) :=
                             copy_data (fun s' v a r => copy_struct s' det v a r)
                               {| rty := set_; rval := sx; raddr := true; rro := rro sf |}
                               {| rty := det; rval := dx; raddr := true; rro := rro df |} in
                           (VPtr (Some x'), stt)
                         | _ => (rval df, SPanic)
                         end
                       | _ => (rval df, SPanic)      (* Type.Elem of a non-pointer: excluded by the kind check *)
                       end
                     | _ => (rval df, SPanic)
                     end
                   | _ =>
                     copy_data (fun s' v a r => copy_struct s' dft v a r) sf df
                   end in
                 let cur' := set_field cur i x in
                 match stt with
                 | SOk => loop rest (S i) cur'
                 | _ => (cur', stt)
                 end
               | _, _ => (cur, SPanic)
               end
             end
           end
         end) dfs0 0%nat dval
    | Atomic => (dval, SOk)      (* wall, ext, loc: unexported, all skipped *)
    | _ => (dval, SPanic)
    end
  end.

(* CopyTo(src any, dst any): `sty`/`dty` are the dynamic types of the two interface
   values (non-nil interfaces), `src`/`dst` their contents. *)
Definition pure_copy_to (sty : ty) (src : value) (dty : ty) (dst : value) : value * status :=
  match sty with
  | Ptr st =>
    if negb (is_struct_kind st) then (dst, SErr CEntry) else
    match dty with
    | Ptr dt =>
      if negb (is_struct_kind dt) then (dst, SErr CEntry) else
      match src, dst with
      | VPtr (Some sv), VPtr (Some dv) =>
          let '(x, stt) :=
            copy_struct {| rty := st; rval := sv; raddr := true; rro := false |} dt dv true false in
          (VPtr (Some x), stt)
      | _, _ => (dst, SPanic)   (* nil *Src / *Dst: outside the modelled domain (see props/C20.v) *)
      end
    | _ => (dst, SErr CEntry)
    end
  | _ => (dst, SErr CEntry)
  end.

(* ---------------------------------------------------------------- boolean equalities
   (used by the vm_compute cross-check of the extraction and by examples) *)
Fixpoint list_eqb {A} (eqb : A -> A -> bool) (a b : list A) : bool :=
  match a, b with
  | [], [] => true
  | x :: r, y :: r' => eqb x y && list_eqb eqb r r'
  | _, _ => false
  end.

Fixpoint value_eqb (a b : value) {struct a} : bool :=
  match a, b with
  | VNum x, VNum y => Z.eqb x y
  | VStr x, VStr y => list_eqb Z.eqb x y
  | VStruct x, VStruct y =>
      (fix go (l l' : list value) {struct l} : bool :=
         match l, l' with
         | [], [] => true
         | u :: r, w :: r' => value_eqb u w && go r r'
         | _, _ => false
         end) x y
  | VPtr None, VPtr None => true
  | VPtr (Some x), VPtr (Some y) => value_eqb x y
  | VSlice None, VSlice None => true
  | VSlice (Some x), VSlice (Some y) =>
      (fix go (l l' : list value) {struct l} : bool :=
         match l, l' with
         | [], [] => true
         | u :: r, w :: r' => value_eqb u w && go r r'
         | _, _ => false
         end) x y
  | VMap None, VMap None => true
  | VMap (Some x), VMap (Some y) =>
      (fix go (l l' : list (value * value)) {struct l} : bool :=
         match l, l' with
         | [], [] => true
         | (k, u) :: r, (k', w) :: r' => value_eqb k k' && value_eqb u w && go r r'
         | _, _ => false
         end) x y
  | VOpaque x, VOpaque y => Z.eqb x y
  | _, _ => false
  end.

Definition cerr_code (e : cerr) : Z :=
  match e with CEntry => 1 | CKind => 2 | CType => 3 | CMultiPtr => 4 | CConvType => 5 | CUser => 6 end.

Definition status_eqb (a b : status) : bool :=
  match a, b with
  | SOk, SOk | SPanic, SPanic => true
  | SErr e, SErr e' => Z.eqb (cerr_code e) (cerr_code e')
  | _, _ => false
  end.

Definition optvalue_eqb (a b : option value) : bool :=
  match a, b with
  | None, None => true
  | Some x, Some y => value_eqb x y
  | _, _ => false
  end.

(* ---------------------------------------------------------------- a small converter language
   (used by the correspondence driver; the theorems quantify over all `conv`) *)
Inductive cfun :=
| FConst (v : value)      (* returns v (of the declared Dst type), nil *)
| FFail                   (* returns the zero value and an error *)
| FAdd (k : Z)            (* numbers: x + k *)
| FId                     (* returns its argument *)
| FLen                    (* string -> number: len(s) *)
| FNil                    (* interface Dst only: returns the nil interface, nil *)
| FDyn (t : ty) (v : value)           (* interface Dst only: returns the dynamic value v : t, nil *)
| FNilIf (z : value) (t : ty) (v : value).  (* interface Dst: nil interface when the argument is z, else v : t *)

Definition is_iface (t : ty) : bool :=
  match t with Other OIface _ => true | _ => false end.

Definition run_cfun (s d : ty) (f : cfun) (v : value) : option cvres :=
  let dyn := if is_iface d then s else d in     (* dynamic type of a result computed from the argument *)
  match f with
  | FConst c => Some (CDyn d c)
  | FFail => None
  | FAdd k => match v with VNum z => Some (CDyn dyn (VNum (z + k))) | _ => Some (CDyn dyn v) end
  | FId => Some (CDyn dyn v)
  | FLen =>
      let t := if is_iface d then Basic KInt else d in
      match v with VStr b => Some (CDyn t (VNum (Z.of_nat (length b)))) | _ => Some (CDyn t (VNum 0)) end
  | FNil => Some CNil
  | FDyn t c => Some (CDyn t c)
  | FNilIf z t c => if value_eqb v z then Some CNil else Some (CDyn t c)
  end.

Definition mk_conv (s d : ty) (f : cfun) : conv :=
  {| cv_src := s; cv_dst := d; cv_fun := run_cfun s d f |}.

(* ---------------------------------------------------------------- one correspondence case *)
Inductive call :=
| CallCopy (src : option value) (ps : list opt)
| CallCopyTo (src dst : option value) (ps : list opt)
| CallPure (src dst : value).         (* CopyTo(&src, &dst) of pure_reflect_copier.go *)

Definition run_call_gen (zs : bool) (c : copier) (st dt : ty) (k : call) : option value * status :=
  match k with
  | CallCopy src ps => reflect_copy_to_gen zs c st dt src (Some (zero_value dt)) ps
  | CallCopyTo src dst ps => reflect_copy_to_gen zs c st dt src dst ps
  | CallPure src dst =>
      match pure_copy_to (Ptr st) (VPtr (Some src)) (Ptr dt) (VPtr (Some dst)) with
      | (VPtr p, stt) => (p, stt)
      | (_, stt) => (None, stt)
      end
  end.

Definition run_call := run_call_gen true.
(* the repaired variant (no zero-skip), only for the known-finding tolerance of the check *)
Definition run_call_nozeroskip := run_call_gen false.

