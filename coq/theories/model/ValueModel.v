(* Executable model of /repo/value.go (AnyValue accessors) — C17.
   Definitions only; proofs are in proof/ValueProof.v. *)
From Ekit Require Import Common.

(* ---- the universe of held values ---- *)
Inductive ikind := I | I8 | I16 | I32 | I64 | U | U8 | U16 | U32 | U64.

Definition ikind_eqb (a b : ikind) : bool :=
  match a, b with
  | I, I | I8, I8 | I16, I16 | I32, I32 | I64, I64
  | U, U | U8, U8 | U16, U16 | U32, U32 | U64, U64 => true
  | _, _ => false
  end.

Definition signed (k : ikind) : bool :=
  match k with I | I8 | I16 | I32 | I64 => true | _ => false end.
Definition bits (k : ikind) : Z :=
  match k with
  | I | I64 | U | U64 => 64
  | I8 | U8 => 8 | I16 | U16 => 16 | I32 | U32 => 32
  end.
Definition fits (k : ikind) (z : Z) : bool :=
  if signed k then in_s (bits k) z else in_u (bits k) z.
(* the narrowing conversion intN(x) / uintN(x) *)
Definition narrow (k : ikind) (z : Z) : Z :=
  if signed k then wrap_s (bits k) z else wrap_u (bits k) z.

(* `named` = the dynamic type is a defined type whose underlying type is the
   one shown (type MyInt int): type assertions fail, reflect.Kind matches. *)
Inductive held :=
| HNil
| HInt (k : ikind) (named : bool) (z : Z)
| HF32 (named : bool) (fbits : Z)
| HF64 (named : bool) (fbits : Z)
| HStr (named : bool) (s : list Z)
| HBytes (named : bool) (b : list Z)
| HBool (named : bool) (b : bool)
| HSliceOther            (* a slice whose element kind is not uint8 *)
| HOther.                (* pointer (incl. typed nil), struct, map, array, func ... *)

Record anyvalue := { val : held; has_err : bool }.

Inductive res :=
| RInt (z : Z)
| RF32 (fbits : Z)
| RF64 (fbits : Z)
| RStr (s : list Z)
| RBytes (b : list Z)
| RBool (b : bool)
| RParseFloat (w : Z) (s : list Z)   (* strconv.ParseFloat: opaque *)
| RFmtFloat (w : Z) (fbits : Z)      (* strconv.FormatFloat: opaque *)
| RJsonScan (data : list Z).         (* JSONScan: json.Unmarshal of these bytes into the target: opaque *)

(* ---- model of strconv.ParseUint / ParseInt, base 10 ---- *)
Definition is_digit (c : Z) : bool := (48 <=? c) && (c <=? 57).

(* ParseUint(s, 10, w): left to right, *eager* range error exactly as the
   library (n >= cutoff, or n*10+d > maxVal, returns ErrRange at once). *)
Fixpoint parse_digits (w : Z) (s : list Z) (n : Z) : outcome Z :=
  match s with
  | [] => Ok n
  | c :: t =>
    if is_digit c then
      if (2 ^ 64 - 1) / 10 + 1 <=? n then Err ERange
      else let n1 := n * 10 + (c - 48) in
           if (2 ^ 64 <=? n1) || (2 ^ w - 1 <? n1) then Err ERange
           else parse_digits w t n1
    else Err ESyntax
  end.

Definition parse_uint (w : Z) (s : list Z) : outcome Z :=
  match s with
  | [] => Err ESyntax
  | _ => parse_digits w s 0
  end.

Definition parse_int (w : Z) (s : list Z) : outcome Z :=
  match s with
  | [] => Err ESyntax
  | c :: t =>
    let neg := c =? 45 in
    let body := if (c =? 43) || (c =? 45) then t else s in
    match parse_uint 64 body with
    | Err ESyntax => Err ESyntax
    | Panic => Panic
    | r =>
      let un := match r with Ok n => n | _ => 2 ^ 64 - 1 end in
      let cutoff := 2 ^ (w - 1) in
      if negb neg && (cutoff <=? un) then Err ERange
      else if neg && (cutoff <? un) then Err ERange
      else Ok (if neg then - un else un)
    end
  end.

(* strconv.FormatInt / FormatUint, base 10 *)
Fixpoint fmt_pos_fuel (fuel : nat) (n : Z) (acc : list Z) : list Z :=
  match fuel with
  | O => acc
  | S f => if n <? 10 then (48 + n) :: acc
           else fmt_pos_fuel f (n / 10) ((48 + n mod 10) :: acc)
  end.
Definition format_int (z : Z) : list Z :=
  if z <? 0 then 45 :: fmt_pos_fuel 20 (- z) [] else fmt_pos_fuel 20 z [].

(* ---- accessors ---- *)
Inductive ty := TInt (k : ikind) | TF32 | TF64 | TStr | TBytes | TBool.
Inductive aty := AsI (k : ikind) | AsF32 | AsF64 | AsStr | AsBytes.

Inductive acc :=
| AExact (t : ty)
| AAs (t : aty)
| AOrDef (t : ty) (d : res)
| AJsonScan.                        (* JSONScan(val): data, err := av.AsBytes(); if err != nil return err; json.Unmarshal(data, val) *)

(* val, ok := av.Val.(T) *)
Definition exact (t : ty) (v : held) : outcome res :=
  match t, v with
  | TInt k, HInt k' false z => if ikind_eqb k k' then Ok (RInt z) else Err EInvalidType
  | TF32, HF32 false b => Ok (RF32 b)
  | TF64, HF64 false b => Ok (RF64 b)
  | TStr, HStr false s => Ok (RStr s)
  | TBytes, HBytes false b => Ok (RBytes b)
  | TBool, HBool false b => Ok (RBool b)
  | _, _ => Err EInvalidType
  end.

Section WithBits.
  (* the bit size the code passes to strconv for each target kind *)
  Variable parse_bits : ikind -> Z.
  (* does AsString guard against a nil interface before reflecting on it? *)
  Variable nil_guard : bool.

  Definition as_int (k : ikind) (v : held) : outcome res :=
    match v with
    | HInt k' false z =>
      if ikind_eqb k k' then Ok (RInt z) else Err EInvalidType
    | HStr false s =>
      match (if signed k then parse_int (parse_bits k) s
             else parse_uint (parse_bits k) s) with
      | Ok n => Ok (RInt (narrow k n))
      | Err e => Err e
      | Panic => Panic
      end
    | _ => Err EInvalidType
    end.

  Definition as_string (v : held) : outcome res :=
    match v with
    | HNil => if nil_guard then Err EInvalidType else Panic
    | HStr _ s => Ok (RStr s)
    | HInt _ _ z => Ok (RStr (format_int z))
    | HF32 _ b => Ok (RFmtFloat 32 b)
    | HF64 _ b => Ok (RFmtFloat 64 b)
    | HBytes _ b => Ok (RStr b)
    | HSliceOther => Err EInvalidType
    | HBool _ _ | HOther => Err EOther
    end.

  Definition as_ (t : aty) (v : held) : outcome res :=
    match t with
    | AsI k => as_int k v
    | AsF32 => match v with
               | HF32 false b => Ok (RF32 b)
               | HStr false s => Ok (RParseFloat 32 s)
               | _ => Err EInvalidType end
    | AsF64 => match v with
               | HF64 false b => Ok (RF64 b)
               | HStr false s => Ok (RParseFloat 64 s)
               | _ => Err EInvalidType end
    | AsStr => as_string v
    | AsBytes => match v with
                 | HBytes false b => Ok (RBytes b)
                 | HStr false s => Ok (RBytes s)
                 | _ => Err EInvalidType end
    end.

  Definition access (a : acc) (av : anyvalue) : outcome res :=
    match a with
    | AExact t => if has_err av then Err EStored else exact t (val av)
    | AAs t => if has_err av then Err EStored else as_ t (val av)
    | AOrDef t d =>
      match (if has_err av then Err EStored else exact t (val av)) with
      | Ok r => Ok r
      | _ => Ok d
      end
    | AJsonScan =>
      if has_err av then Err EStored
      else match as_ AsBytes (val av) with
           | Ok (RBytes b) => Ok (RJsonScan b)
           | Ok _ => Err EOther
           | Err e => Err e
           | Panic => Panic
           end
    end.
End WithBits.

(* the code as it is now (after the two fix: commits) *)
Definition bits_now (k : ikind) : Z := bits k.
Definition access_now := access bits_now true.
Definition as_int_now := as_int bits_now.
Definition as_string_now := as_string true.

(* the pinned code before the fixes: AsInt8 parsed with bit size 64 and
   AsString reflected on a nil interface *)
Definition bits_pinned (k : ikind) : Z := match k with I8 => 64 | _ => bits k end.
Definition access_pinned := access bits_pinned false.
