(* Memory-level model of /repo/slice (+ internal/slice/{add,delete}.go, mapx Keys/Values) — C16.
   A Go slice is a HEADER (backing array, offset, len, cap) or nil; the store is the list of all
   backing arrays (array id = position; an array never changes its length).  The functions are
   transcribed at the level of the operations Go performs on memory:
     make([]T, len, cap)   a fresh zeroed array appended to the store
     s[i] (read)           load: Panic unless i < len(s)
     s[i] = v              store_at: Panic unless i < len(s)
     append(s, v)          in place (writes slot off+len of s's array) when len < cap, otherwise a
                           fresh array holding a copy; `extra` is the growth policy (any function)
     s[lo:hi]              reslice: same array, Panic unless lo <= hi <= cap
   Go maps are not slices; as in SliceModel they are duplicate-free lists (set_put / set_del).
   Definitions only; proofs are in proof/SliceMemProof.v, which also shows that the CONTENTS
   computed here equal the functions of SliceModel. *)
From Ekit Require Import Common SliceModel.

Definition store := list (list Z).
Record hdr := mkhdr { h_arr : nat; h_off : nat; h_len : nat; h_cap : nat }.
Definition mslice := option hdr.                       (* None = nil *)
Definition nil_hdr : hdr := mkhdr 0 0 0 0.
Definition hdr_of (s : mslice) : hdr := match s with Some h => h | None => nil_hdr end.
Definition mlen (s : mslice) : nat := h_len (hdr_of s).
Definition arr_of (st : store) (a : nat) : list Z := nth a st [].

Definition make (st : store) (len cap : nat) : store * hdr :=
  (st ++ [repeat 0 cap], mkhdr (length st) 0 len cap).

Definition load (st : store) (h : hdr) (i : nat) : outcome Z :=
  if (i <? h_len h)%nat then
    match nth_opt (arr_of st (h_arr h)) (h_off h + i) with Some v => Ok v | None => Panic end
  else Panic.

Definition store_at (st : store) (h : hdr) (i : nat) (v : Z) : outcome store :=
  if (i <? h_len h)%nat then
    let a := arr_of st (h_arr h) in
    if (h_off h + i <? length a)%nat then Ok (set_nth st (h_arr h) (set_nth a (h_off h + i) v)) else Panic
  else Panic.

(* s[lo:hi]; a nil slice can only be resliced [0:0] and stays nil *)
Definition reslice (s : mslice) (lo hi : nat) : outcome mslice :=
  match s with
  | None => if (Nat.eqb lo 0 && Nat.eqb hi 0)%bool then Ok None else Panic
  | Some h =>
      if ((lo <=? hi)%nat && (hi <=? h_cap h)%nat)%bool
      then Ok (Some (mkhdr (h_arr h) (h_off h + lo) (hi - lo) (h_cap h - lo)))
      else Panic
  end.

Section Mem.
  Variable extra : nat -> nat.      (* growth policy of append: new cap = len + 1 + extra len *)

  Definition append (st : store) (s : mslice) (v : Z) : store * hdr :=
    let h := hdr_of s in
    if (h_len h <? h_cap h)%nat then
      let a := arr_of st (h_arr h) in
      (set_nth st (h_arr h) (set_nth a (h_off h + h_len h) v),
       mkhdr (h_arr h) (h_off h) (S (h_len h)) (h_cap h))
    else
      let old := firstn (h_len h) (skipn (h_off h) (arr_of st (h_arr h))) in
      (st ++ [old ++ v :: repeat 0 (extra (h_len h))],
       mkhdr (length st) 0 (S (h_len h)) (S (h_len h) + extra (h_len h))).

  (* ---------------- in-place functions ---------------- *)
  (* slice/reverse.go ReverseSelf *)
  Fixpoint reverse_self_loop_m (fuel : nat) (st : store) (h : hdr) (i j : Z) : outcome store :=
    if i <? j then
      match fuel with
      | O => Err EOther
      | S f =>
          obind (load st h (Z.to_nat i)) (fun vi =>
          obind (load st h (Z.to_nat j)) (fun vj =>
          obind (store_at st h (Z.to_nat i) vj) (fun st1 =>
          obind (store_at st1 h (Z.to_nat j) vi) (fun st2 =>
          reverse_self_loop_m f st2 h (i + 1) (j - 1)))))
      end
    else Ok st.
  Definition reverse_self_m (st : store) (s : mslice) : outcome store :=
    reverse_self_loop_m (mlen s) st (hdr_of s) 0 (Z.of_nat (mlen s) - 1).

  (* internal/slice/delete.go Delete, slice/delete.go Delete *)
  Fixpoint shift_left_m (st : store) (h : hdr) (i n : nat) : outcome store :=
    match n with
    | O => Ok st
    | S n' => obind (load st h (i + 1)) (fun v =>
              obind (store_at st h i v) (fun st' => shift_left_m st' h (S i) n'))
    end.
  Definition delete_internal_m (st : store) (s : mslice) (index : Z) : outcome (store * mslice * Z) :=
    let length := Z.of_nat (mlen s) in
    if (index <? 0) || (index >=? length) then Err EIndex
    else
      let ix := Z.to_nat index in
      obind (load st (hdr_of s) ix) (fun res =>
      obind (shift_left_m st (hdr_of s) ix (mlen s - 1 - ix)) (fun st' =>
      obind (reslice s 0 (mlen s - 1)) (fun r => Ok (st', r, res)))).
  Definition delete_m (st : store) (s : mslice) (index : Z) : outcome (store * mslice) :=
    obind (delete_internal_m st s index) (fun r => Ok (fst (fst r), snd (fst r))).

  (* slice/delete.go FilterDelete *)
  Fixpoint filter_delete_loop_m (mp : Z -> Z -> bool) (st : store) (h : hdr) (empty idx n : nat)
    : outcome (store * nat) :=
    match n with
    | O => Ok (st, empty)
    | S n' =>
        obind (load st h idx) (fun v =>
          if mp (Z.of_nat idx) v then filter_delete_loop_m mp st h empty (S idx) n'
          else obind (store_at st h empty v) (fun st' => filter_delete_loop_m mp st' h (S empty) (S idx) n'))
    end.
  Definition filter_delete_m (mp : Z -> Z -> bool) (st : store) (s : mslice) : outcome (store * mslice) :=
    obind (filter_delete_loop_m mp st (hdr_of s) 0 0 (mlen s)) (fun r =>
    obind (reslice s 0 (snd r)) (fun rs => Ok (fst r, rs))).

  (* internal/slice/add.go Add, slice/add.go Add *)
  Fixpoint shift_right_m (st : store) (h : hdr) (index n : nat) : outcome store :=
    match n with
    | O => Ok st
    | S n' => let i := (index + n)%nat in
              obind (load st h (i - 1)) (fun v =>
              obind (store_at st h i v) (fun st' => shift_right_m st' h index n'))
    end.
  Definition add_m (st : store) (s : mslice) (element index : Z) : outcome (store * mslice) :=
    let length := Z.of_nat (mlen s) in
    if (index <? 0) || (index >? length) then Err EIndex
    else
      let r := append st s 0 in                         (* src = append(src, zeroValue) *)
      let ix := Z.to_nat index in
      obind (shift_right_m (fst r) (snd r) ix (h_len (snd r) - 1 - ix)) (fun st2 =>
      obind (store_at st2 (snd r) ix element) (fun st3 => Ok (st3, Some (snd r)))).

  (* ---------------- functions that must not write into their arguments ---------------- *)
  (* for i, v := range src { a = f(a, v) } *)
  Fixpoint range_fold {A} (f : A -> Z -> A) (st : store) (h : hdr) (i n : nat) (a : A) : outcome A :=
    match n with
    | O => Ok a
    | S n' => obind (load st h i) (fun v => range_fold f st h (S i) n' (f a v))
    end.
  (* for _, v := range src { if p(v) { return true } }; return false *)
  Fixpoint contains_loop (p : Z -> bool) (st : store) (h : hdr) (i n : nat) : outcome bool :=
    match n with
    | O => Ok false
    | S n' => obind (load st h i) (fun v => if p v then Ok true else contains_loop p st h (S i) n')
    end.
  Definition contains_func_m (st : store) (s : mslice) (p : Z -> bool) : outcome bool :=
    contains_loop p st (hdr_of s) 0 (mlen s).

  (* for i, v := range src { if g(i, v) gives w { ret = append(ret, w) } };  g may read memory *)
  Fixpoint fm_loop (g : store -> nat -> Z -> outcome (option Z)) (st : store) (src : hdr) (i n : nat) (ret : hdr)
    : outcome (store * hdr) :=
    match n with
    | O => Ok (st, ret)
    | S n' =>
        obind (load st src i) (fun v =>
        obind (g st i v) (fun o =>
          match o with
          | Some w => let r := append st (Some ret) w in fm_loop g (fst r) src (S i) n' (snd r)
          | None => fm_loop g st src (S i) n' ret
          end))
    end.
  Definition ret_some (r : outcome (store * hdr)) : outcome (store * mslice) :=
    obind r (fun x => Ok (fst x, Some (snd x))).

  (* slice/map.go FilterMap: res := make([]Dst, 0, len(src)) *)
  Definition filter_map_m (mf : Z -> Z -> Z) (mp : Z -> Z -> bool) (st : store) (s : mslice) : outcome (store * mslice) :=
    let mk := make st 0 (mlen s) in
    ret_some (fm_loop (fun _ i v => Ok (if mp (Z.of_nat i) v then Some (mf (Z.of_nat i) v) else None))
                      (fst mk) (hdr_of s) 0 (mlen s) (snd mk)).
  (* slice/find.go FindAll: res := make([]T, 0, len(src)>>3+1) *)
  Definition find_all_m (mt : Z -> bool) (st : store) (s : mslice) : outcome (store * mslice) :=
    let mk := make st 0 (Nat.div (mlen s) 8 + 1) in
    ret_some (fm_loop (fun _ _ v => Ok (if mt v then Some v else None)) (fst mk) (hdr_of s) 0 (mlen s) (snd mk)).
  (* slice/index.go IndexAllFunc: indexes := make([]int, 0, len(src)) *)
  Definition index_all_func_m (mt : Z -> bool) (st : store) (s : mslice) : outcome (store * mslice) :=
    let mk := make st 0 (mlen s) in
    ret_some (fm_loop (fun _ i v => Ok (if mt v then Some (Z.of_nat i) else None)) (fst mk) (hdr_of s) 0 (mlen s) (snd mk)).

  (* slice/reverse.go Reverse: ret := make([]T, 0, len(src)); for i := len-1; i >= 0; i-- { ret = append(ret, src[i]) } *)
  Fixpoint reverse_loop_m (st : store) (src : hdr) (n : nat) (ret : hdr) : outcome (store * hdr) :=
    match n with
    | O => Ok (st, ret)
    | S i => obind (load st src i) (fun v =>
             let r := append st (Some ret) v in reverse_loop_m (fst r) src i (snd r))
    end.
  Definition reverse_m (st : store) (s : mslice) : outcome (store * mslice) :=
    let mk := make st 0 (mlen s) in
    ret_some (reverse_loop_m (fst mk) (hdr_of s) (mlen s) (snd mk)).

  (* slice/map.go Map: dst := make([]Dst, len(src)); for i, s := range src { dst[i] = m(i, s) } *)
  Fixpoint map_loop_m (mf : Z -> Z -> Z) (st : store) (src dst : hdr) (i n : nat) : outcome store :=
    match n with
    | O => Ok st
    | S n' => obind (load st src i) (fun v =>
              obind (store_at st dst i (mf (Z.of_nat i) v)) (fun st' => map_loop_m mf st' src dst (S i) n'))
    end.
  Definition map_m (mf : Z -> Z -> Z) (st : store) (s : mslice) : outcome (store * mslice) :=
    let mk := make st (mlen s) (mlen s) in
    obind (map_loop_m mf (fst mk) (hdr_of s) (snd mk) 0 (mlen s)) (fun st' => Ok (st', Some (snd mk))).

  (* ret := make([]T, 0, len(m)); for key := range m { ret = append(ret, key) } *)
  Fixpoint append_all (st : store) (ret : hdr) (xs : list Z) : store * hdr :=
    match xs with
    | [] => (st, ret)
    | x :: t => let r := append st (Some ret) x in append_all (fst r) (snd r) t
    end.
  Definition keys_to_slice (st : store) (m : list Z) : store * mslice :=
    let mk := make st 0 (length m) in
    let r := append_all (fst mk) (snd mk) m in (fst r, Some (snd r)).

  (* slice/map.go toMap *)
  Definition to_map_m (st : store) (s : mslice) : outcome (list Z) :=
    range_fold (fun m v => set_put v m) st (hdr_of s) 0 (mlen s) [].

  (* slice/union.go UnionSet *)
  Definition union_set_m (st : store) (src dst : mslice) : outcome (store * mslice) :=
    obind (to_map_m st src) (fun sm =>
    obind (to_map_m st dst) (fun dm =>
    Ok (keys_to_slice st (fold_left (fun d k => set_put k d) sm dm)))).
  (* slice/diff.go DiffSet *)
  Definition diff_set_m (st : store) (src dst : mslice) : outcome (store * mslice) :=
    obind (to_map_m st src) (fun sm =>
    obind (range_fold (fun s v => set_del v s) st (hdr_of dst) 0 (mlen dst) sm) (fun sm' =>
    Ok (keys_to_slice st sm'))).
  (* slice/symmetric_diff.go SymmetricDiffSet *)
  Definition symdiff_set_m (st : store) (src dst : mslice) : outcome (store * mslice) :=
    obind (to_map_m st src) (fun sm =>
    obind (to_map_m st dst) (fun dm =>
    Ok (keys_to_slice st
          (fold_left (fun s k => if set_mem k s then set_del k s else set_put k s) dm sm)))).
  (* slice/intersect.go IntersectSet: ret := make([]T, 0, len(src)); loop over dst; deduplicate(ret) *)
  Definition intersect_set_m (st : store) (src dst : mslice) : outcome (store * mslice) :=
    obind (to_map_m st src) (fun sm =>
    let mk := make st 0 (mlen src) in
    obind (fm_loop (fun _ _ v => Ok (if set_mem v sm then Some v else None)) (fst mk) (hdr_of dst) 0 (mlen dst) (snd mk))
      (fun r =>
    obind (to_map_m (fst r) (Some (snd r))) (fun dm =>           (* deduplicate(ret) *)
    Ok (keys_to_slice (fst r) dm)))).

  (* slice/map.go deduplicateFunc: newData := make([]T, 0, len(data));
     for k, v := range data { if !ContainsFunc(data[k+1:], equal(., v)) { newData = append(newData, v) } } *)
  Definition dedup_cond (equal : Z -> Z -> bool) (data : mslice) (st : store) (k : nat) (v : Z) : outcome (option Z) :=
    obind (reslice data (k + 1) (mlen data)) (fun tl =>
    obind (contains_func_m st tl (fun s => equal s v)) (fun b => Ok (if b then None else Some v))).
  Definition deduplicate_func_m (equal : Z -> Z -> bool) (st : store) (data : mslice) : outcome (store * mslice) :=
    let mk := make st 0 (mlen data) in
    ret_some (fm_loop (dedup_cond equal data) (fst mk) (hdr_of data) 0 (mlen data) (snd mk)).

  (* slice/diff.go DiffSetFunc *)
  Definition diff_set_func_m (equal : Z -> Z -> bool) (st : store) (src dst : mslice) : outcome (store * mslice) :=
    let mk := make st 0 (mlen src) in
    obind (fm_loop (fun st' _ v => obind (contains_func_m st' dst (fun s => equal s v))
                                         (fun b => Ok (if negb b then Some v else None)))
                   (fst mk) (hdr_of src) 0 (mlen src) (snd mk)) (fun r =>
    deduplicate_func_m equal (fst r) (Some (snd r))).
  (* slice/intersect.go IntersectSetFunc *)
  Definition intersect_set_func_m (equal : Z -> Z -> bool) (st : store) (src dst : mslice) : outcome (store * mslice) :=
    let mk := make st 0 (mlen src) in
    obind (fm_loop (fun st' _ v => obind (contains_func_m st' src (fun t => equal t v))
                                         (fun b => Ok (if b then Some v else None)))
                   (fst mk) (hdr_of dst) 0 (mlen dst) (snd mk)) (fun r =>
    deduplicate_func_m equal (fst r) (Some (snd r))).

  (* mapx/map.go Keys / Values (the map is a value, not memory) *)
  Definition keys_m (st : store) (m : gmap) : store * mslice := keys_to_slice st (map_keys m).
  Definition values_m (st : store) (m : gmap) : store * mslice := keys_to_slice st (map_values m).

  (* ---------------- functions that only read ---------------- *)
  (* slice/index.go IndexFunc *)
  Fixpoint index_loop (mt : Z -> bool) (st : store) (h : hdr) (i n : nat) : outcome Z :=
    match n with
    | O => Ok (-1)
    | S n' => obind (load st h i) (fun v => if mt v then Ok (Z.of_nat i) else index_loop mt st h (S i) n')
    end.
  Definition index_func_m (mt : Z -> bool) (st : store) (s : mslice) : outcome Z :=
    index_loop mt st (hdr_of s) 0 (mlen s).
  (* slice/index.go LastIndexFunc *)
  Fixpoint last_index_loop_m (mt : Z -> bool) (st : store) (h : hdr) (n : nat) : outcome Z :=
    match n with
    | O => Ok (-1)
    | S i => obind (load st h i) (fun v => if mt v then Ok (Z.of_nat i) else last_index_loop_m mt st h i)
    end.
  Definition last_index_func_m (mt : Z -> bool) (st : store) (s : mslice) : outcome Z :=
    last_index_loop_m mt st (hdr_of s) (mlen s).
  (* slice/aggregate.go Sum (Max / Min analogous) *)
  Definition sum_m (st : store) (s : mslice) : outcome Z :=
    range_fold (fun res n => wrap_s 64 (res + n)) st (hdr_of s) 0 (mlen s) 0.
  Definition max_m (st : store) (s : mslice) : outcome Z :=
    obind (load st (hdr_of s) 0) (fun x =>
    range_fold (fun res v => if v >? res then v else res) st (hdr_of s) 1 (mlen s - 1) x).
  Definition min_m (st : store) (s : mslice) : outcome Z :=
    obind (load st (hdr_of s) 0) (fun x =>
    range_fold (fun res v => if v <? res then v else res) st (hdr_of s) 1 (mlen s - 1) x).
End Mem.
