(* Executable models of the decorators of /repo/mapx: LinkedMap (linkedmap.go) and
   MultiMap (multi_map.go), as functors over ANY implementation `B : backing M U` of
   the `mapi` interface (HashMap for C03, TreeMap for C01), and of MapSet (set/set.go)
   and builtinMap (builtin_map.go).  Definitions only; proofs in proof/DecorProof.v. *)
From Ekit Require Import Common DecorSpec.

(* ================= LinkedMap ================= *)
(* Go: m mapi[K,*linkedKV]; head, tail sentinels; length.  A *linkedKV is a node id
   (nat); the heap maps ids to node contents.  Ids 0 and 1 are the sentinels head and
   tail; `nalloc` is the next unused id (&linkedKV{...} allocates it).  Unlinked nodes
   stay in the heap as garbage, as in Go until the collector frees them. *)
Section Linked.
  Variable V : Type.
  Variable vzero : V.
  Variable M : Type.
  Variable B : backing M nat.

  Record lnode := { lkey : Z; lval : V; lprev : nat; lnext : nat }.
  Record lstate := { lm : M; heap : nat -> lnode; nalloc : nat; llen : Z }.

  Definition HEAD : nat := 0.
  Definition TAIL : nat := 1.

  Definition upd (h : nat -> lnode) (i : nat) (n : lnode) : nat -> lnode :=
    fun j => if Nat.eqb j i then n else h j.
  Definition set_val (n : lnode) (v : V) := {| lkey := lkey n; lval := v; lprev := lprev n; lnext := lnext n |}.
  Definition set_prev (n : lnode) (p : nat) := {| lkey := lkey n; lval := lval n; lprev := p; lnext := lnext n |}.
  Definition set_next (n : lnode) (x : nat) := {| lkey := lkey n; lval := lval n; lprev := lprev n; lnext := x |}.

  (* NewLinkedHashMap / NewLinkedTreeMap: head.prev = head.next = tail; tail.prev = tail.next = head *)
  Definition linit (m0 : M) : lstate :=
    {| lm := m0;
       heap := fun j => if Nat.eqb j HEAD
                        then {| lkey := 0; lval := vzero; lprev := TAIL; lnext := TAIL |}
                        else {| lkey := 0; lval := vzero; lprev := HEAD; lnext := HEAD |};
       nalloc := 2; llen := 0 |}.

  Definition lput (key : Z) (val : V) (ch : option nat) (s : lstate) : lstate :=
    match mget B key (lm s) with
    | (id, true) =>                                  (* lk.value = val *)
        {| lm := lm s; heap := upd (heap s) id (set_val (heap s id) val);
           nalloc := nalloc s; llen := llen s |}
    | (_, false) =>
        let id := nalloc s in
        let lk := {| lkey := key; lval := val; lprev := lprev (heap s TAIL); lnext := TAIL |} in
        let h1 := upd (heap s) id lk in
        let m' := mput B key id ch (lm s) in
        (* lk.prev.next, lk.next.prev = lk, lk *)
        let h2 := upd h1 (lprev lk) (set_next (h1 (lprev lk)) id) in
        let h3 := upd h2 (lnext lk) (set_prev (h2 (lnext lk)) id) in
        {| lm := m'; heap := h3; nalloc := S id; llen := llen s + 1 |}
    end.

  Definition lget (key : Z) (s : lstate) : V * bool :=
    match mget B key (lm s) with
    | (id, true) => (lval (heap s id), true)
    | (_, false) => (vzero, false)
    end.

  Definition ldelete (key : Z) (s : lstate) : lstate * (V * bool) :=
    match mdel B key (lm s) with
    | (m', (id, true)) =>
        let lk := heap s id in
        let h1 := upd (heap s) (lprev lk) (set_next (heap s (lprev lk)) (lnext lk)) in   (* lk.prev.next = lk.next *)
        let h2 := upd h1 (lnext lk) (set_prev (h1 (lnext lk)) (lprev lk)) in              (* lk.next.prev = lk.prev *)
        ({| lm := m'; heap := h2; nalloc := nalloc s; llen := llen s - 1 |}, (lval lk, true))
    | (m', (_, false)) =>
        ({| lm := m'; heap := heap s; nalloc := nalloc s; llen := llen s |}, (vzero, false))
    end.

  (* for cur := l.head.next; cur != l.tail; cur = cur.next — fuel = number of ids ever allocated *)
  Fixpoint lwalk (h : nat -> lnode) (fuel : nat) (cur : nat) : option (list nat) :=
    match fuel with
    | O => if Nat.eqb cur TAIL then Some [] else None
    | S f => if Nat.eqb cur TAIL then Some []
             else match lwalk h f (lnext (h cur)) with
                  | Some l => Some (cur :: l)
                  | None => None
                  end
    end.
  Definition lorder (s : lstate) : option (list nat) :=
    lwalk (heap s) (nalloc s) (lnext (heap s HEAD)).

  Definition lstep (s : lstate) (o : mop V) : lstate * mout V :=
    match o with
    | MPut k v ch => (lput k v ch s, RPut (Ok tt))
    | MGet k => let (v, ok) := lget k s in (s, RFound v ok)
    | MDelete k => let '(s', (v, ok)) := ldelete k s in (s', RFound v ok)
    | MKeys => (s, match lorder s with
                   | Some ids => RKeys (map (fun i => lkey (heap s i)) ids)
                   | None => ROutOfFuel
                   end)
    | MValues => (s, match lorder s with
                     | Some ids => RVals (map (fun i => lval (heap s i)) ids)
                     | None => ROutOfFuel
                     end)
    | MLen => (s, RLen (llen s))
    end.
End Linked.

Arguments lkey {V} _.
Arguments lval {V} _.
Arguments lprev {V} _.
Arguments lnext {V} _.
Arguments lm {V M} _.
Arguments heap {V M} _.
Arguments nalloc {V M} _.
Arguments llen {V M} _.

(* ================= MultiMap ================= *)
(* Go: m mapi[K, []V].  A slice is a list; copying a slice (append([]V{}, v...)) is the
   identity on lists: in this functional model a returned value can not alias the
   stored one, so "the returned slice is a copy" holds by construction (the harness
   checks the real code by scribbling over every returned slice). *)
Section Multi.
  Variable V : Type.
  Variable M : Type.
  Variable B : backing M (list V).

  Inductive mmop :=
  | MMPutMany (k : Z) (vs : list V) (ch : option nat)     (* Put k v = PutMany k [v] *)
  | MMGet (k : Z)
  | MMDelete (k : Z)
  | MMKeys
  | MMValues
  | MMLen.

  Inductive mmout :=
  | MRPut
  | MRFound (vs : list V) (ok : bool)
  | MRKeys (l : list Z)
  | MRVals (l : list (list V))
  | MRLen (n : Z).

  Definition copy_slice (l : list V) : list V := l ++ [].   (* append([]V{}, v...) *)

  Definition mm_get (k : Z) (m : M) : list V * bool :=
    match mget B k m with
    | (v, true) => (copy_slice v, true)
    | (_, false) => ([], false)
    end.

  Definition mm_put_many (k : Z) (vs : list V) (ch : option nat) (m : M) : M :=
    let (val, _) := mm_get k m in
    mput B k (val ++ vs) ch m.

  Definition mmstep (m : M) (o : mmop) : M * mmout :=
    match o with
    | MMPutMany k vs ch => (mm_put_many k vs ch m, MRPut)
    | MMGet k => let (v, ok) := mm_get k m in (m, MRFound v ok)
    | MMDelete k => let '(m', (v, ok)) := mdel B k m in (m', MRFound v ok)
    | MMKeys => (m, MRKeys (mkeys B m))
    | MMValues => (m, MRVals (map copy_slice (mvals B m)))
    | MMLen => (m, MRLen (mlen B m))
    end.

  (* specification: an abstract map of lists *)
  Variable eqb : Z -> Z -> bool.
  Definition mm_spec_step (a : list (Z * list V)) (o : mmop) : list (Z * list V) * mmout :=
    match o with
    | MMPutMany k vs _ =>
        (aput eqb k (match aget eqb k a with Some l => l | None => [] end ++ vs) a, MRPut)
    | MMGet k => let (v, ok) := afound [] eqb k a in (a, MRFound v ok)
    | MMDelete k => let (v, ok) := afound [] eqb k a in (adel eqb k a, MRFound v ok)
    | MMKeys => (a, MRKeys (map fst a))
    | MMValues => (a, MRVals (map snd a))
    | MMLen => (a, MRLen (Z.of_nat (length a)))
    end.

  Definition mmout_equiv (a b : mmout) : Prop :=
    match a, b with
    | MRKeys l1, MRKeys l2 => Permutation l1 l2
    | MRVals l1, MRVals l2 => Permutation l1 l2
    | _, _ => a = b
    end.
End Multi.
Arguments MMPutMany {V} k vs ch.
Arguments MMGet {V} k.
Arguments MMDelete {V} k.
Arguments MMKeys {V}.
Arguments MMValues {V}.
Arguments MMLen {V}.
Arguments MRPut {V}.
Arguments MRFound {V} vs ok.
Arguments MRKeys {V} l.
Arguments MRVals {V} l.
Arguments MRLen {V} n.

(* ================= MapSet and builtinMap ================= *)
(* Both are thin wrappers over Go's builtin map with a comparable key type; the
   builtin map is TRUSTED to be the abstract map keyed by ==.  Their models are the
   abstract map / set themselves (keys are Z, == is Z.eqb). *)
Inductive setop := SAdd (k : Z) | SDelete (k : Z) | SExist (k : Z) | SKeys.
Inductive setout := SRUnit | SRBool (b : bool) | SRKeys (l : list Z).

Definition set_step (s : list (Z * unit)) (o : setop) : list (Z * unit) * setout :=
  match o with
  | SAdd k => (aput eqb_exact k tt s, SRUnit)
  | SDelete k => (adel eqb_exact k s, SRUnit)
  | SExist k => (s, SRBool (snd (afound tt eqb_exact k s)))
  | SKeys => (s, SRKeys (map fst s))
  end.

Definition builtin_step (a : list (Z * Z)) (o : mop Z) : list (Z * Z) * mout Z :=
  astep 0 eqb_exact a o.

Arguments upd {V} h i n _.
Arguments set_val {V} n v.
Arguments set_prev {V} n p.
Arguments set_next {V} n x.
Arguments linit {V} vzero {M} m0.
Arguments lput {V M} B key val ch s.
Arguments lget {V} vzero {M} B key s.
Arguments ldelete {V} vzero {M} B key s.
Arguments lwalk {V} h fuel cur.
Arguments lorder {V M} s.
Arguments lstep {V} vzero {M} B s o.
Arguments copy_slice {V} l.
Arguments mm_get {V M} B k m.
Arguments mm_put_many {V M} B k vs ch m.
Arguments mmstep {V M} B m o.
Arguments mm_spec_step {V} eqb a o.
Arguments mmout_equiv {V} a b.
