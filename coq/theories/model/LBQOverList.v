(* ConcurrentLinkedBlockingQueue over an IMPLEMENTATION of its inner list (C07 composed with C04).

   model/LBQModel.v keeps the inner `list.LinkedList` as an abstract sequence ([q_items]).  Here
   the same statement-granular control skeleton runs over an arbitrary list implementation
   [istep : IL -> ListModel.op -> option (IL * outcome out)] (None = the call panics): the five
   statements that touch the list
       for c.maxSize > 0 && c.linkedlist.Len() == c.maxSize     (Enqueue; Len is not called when maxSize <= 0)
       for c.linkedlist.Len() == 0                               (Dequeue; also the re-check after c.mutex.Lock())
       err := c.linkedlist.Append(t)
       val, err := c.linkedlist.Delete(0)
       return c.linkedlist.Len()   /   res := c.linkedlist.AsSlice()
   call the implementation (operations OpLen, OpAppend [v], OpDelete 0, OpAsSlice of ListModel)
   and use WHAT IT RETURNS: the length it reports decides the loop, the error of Append/Delete
   is what the call returns, a panic of the list or a result of the wrong shape kills the
   goroutine ([RPanic], [q_bad]).  Every other statement is LBQModel's own transition on the
   control part (its [q_items] field is not used here and stays []).

   Instances: ListModel's LinkedList ([ll_step]) and the pointer-level LinkedPtrModel
   ([pstep]).  Definitions only; proofs in proof/LBQGap.v. *)
From Ekit Require Import Common Conc ListModel.
From Ekit Require LinkedPtrModel.
From Ekit Require Import LBQModel.

Section Over.
  Variable IL : Type.
  Variable istep : IL -> op -> option (IL * outcome out).

  Definition ocfg : Type := (lbq_cfg * IL)%type.
  Definition oresult : Type := option (ocfg * list (tid * lbq_obs)).

  (* does event e execute one of the statements that call the inner list? *)
  Definition reads_list (c : lbq_cfg) (e : lbq_ev) : bool :=
    match e with
    | QStep t =>
      match lookup t (q_thr c) with
      | None => false
      | Some l =>
        if is_qop (l_op l)
        then match l_pc l with PFor | PLock1 | PAct => true | _ => false end
        else match l_pc l with
             | RBody => match l_op l with OAsSlice => true | _ => false end
             | RRet => match l_op l with LBQModel.OLen => true | _ => false end
             | _ => false
             end
      end
    | _ => false
    end.

  (* the goroutine dies: panic inside the list, or a result no list operation can deliver *)
  Definition ocrash (c : lbq_cfg) (il : IL) (t : tid) : oresult :=
    Some ((add_hist (set_bad (set_thr c (remove t (q_thr c)))) (HRet t RPanic), il), [(t, ORet RPanic)]).

  (* c.linkedlist.Len() *)
  Definition olen (il : IL) : option (IL * Z) :=
    match istep il OpLen with
    | Some (il', Ok (ListModel.OLen n)) => Some (il', n)
    | _ => None
    end.

  (* the loop condition of o: Some (list afterwards, must wait?) *)
  Definition oeval_wait (c : lbq_cfg) (il : IL) (o : lbq_op) : option (IL * bool) :=
    match o with
    | ODeq => match olen il with Some (il', n) => Some (il', n =? 0) | None => None end
    | _ =>
      if 0 <? q_max c
      then match olen il with Some (il', n) => Some (il', n =? q_max c) | None => None end
      else Some (il, false)
    end.

  Definition omv (c : lbq_cfg) (il : IL) (t : tid) (l' : lbq_loc) : oresult :=
    Some ((set_thr c (update t l' (q_thr c)), il), [(t, OAt (l_op l') (l_pc l'))]).

  Definition ofin (c : lbq_cfg) (il : IL) (t : tid) (r : lbq_res) : oresult :=
    Some ((add_hist (set_thr c (remove t (q_thr c))) (HRet t r), il), [(t, ORet r)]).

  Definition ostep_list (c : lbq_cfg) (il : IL) (t : tid) (l : lbq_loc) : oresult :=
    let o := l_op l in
    match l_pc l with
    | PFor =>
      match oeval_wait c il o with
      | Some (il', w) => omv c il' t (set_pc l (if w then PSig else PAct))
      | None => ocrash c il t
      end
    | PLock1 =>
      match q_wlock c, q_readers c with
      | None, O =>
        match oeval_wait c il o with
        | Some (il', w) => omv (set_wlock c (Some t)) il' t (set_pc l (if w then PSig else PAct))
        | None => ocrash (set_wlock c (Some t)) il t
        end
      | _, _ => None
      end
    | PAct =>
      match o with
      | OEnq v =>
        match istep il (OpAppend [v]) with
        | Some (il', Ok OUnit) => omv (add_hist c (HLin t o RNil)) il' t (set_res l PBcast RNil)
        | Some (il', Err _) => omv (add_hist c (HLin t o RDelErr)) il' t (set_res l PBcast RDelErr)
        | _ => ocrash c il t
        end
      | _ =>
        match istep il (OpDelete 0) with
        | Some (il', Ok (OVal x)) => omv (add_hist c (HLin t o (RVal x))) il' t (set_res l PBcast (RVal x))
        | Some (il', Err _) => omv (add_hist c (HLin t o RDelErr)) il' t (set_res l PBcast RDelErr)
        | _ => ocrash c il t
        end
      end
    | RBody =>
      match istep il OpAsSlice with
      | Some (il', Ok (OSlice _ s)) => omv (add_hist c (HLin t o (RSlice s))) il' t (set_res l RRet (RSlice s))
      | _ => ocrash c il t
      end
    | RRet =>
      match olen il with
      | Some (il', n) => ofin (add_hist (runlock c) (HLin t o (RLen n))) il' t (RLen n)
      | None => ocrash c il t
      end
    | _ => None
    end.

  Definition olbq_exec1 (s : ocfg) (e : lbq_ev) : oresult :=
    let (c, il) := s in
    if reads_list c e then
      match e with
      | QStep t => match lookup t (q_thr c) with Some l => ostep_list c il t l | None => None end
      | _ => None
      end
    else
      match lbq_exec1 c e with
      | Some (c', obs) => Some ((c', il), obs)
      | None => None
      end.

  Definition olbq_step (s : ocfg) (e : lbq_ev) : option ocfg :=
    match olbq_exec1 s e with Some (s', _) => Some s' | None => None end.

  Definition olbq_init (m : Z) (il0 : IL) : ocfg := (lbq_init m, il0).
End Over.

Arguments reads_list c e : clear implicits.
Arguments olbq_exec1 {IL}. Arguments olbq_step {IL}. Arguments olbq_init {IL}.

(* runs with their observation traces, for both semantics *)
Section Trace.
  Variable S : Type.
  Variable step1 : S -> lbq_ev -> option (S * list (tid * lbq_obs)).
  Fixpoint trace (s : S) (evs : list lbq_ev) : option (S * list (list (tid * lbq_obs))) :=
    match evs with
    | [] => Some (s, [])
    | e :: r =>
      match step1 s e with
      | None => None
      | Some (s1, o) =>
        match trace s1 r with
        | Some (s2, os) => Some (s2, o :: os)
        | None => None
        end
      end
    end.
End Trace.
Arguments trace {S}.

(* ---------- the two instances ---------- *)
(* list.LinkedList as modelled in ListModel.v (ring of nodes + length field) *)
Definition ll_istep (l : llist) (o : op) : option (llist * outcome out) := Some (ll_step l o).
Definition ll_new : llist := {| lnodes := []; llen := 0 |}.

(* the pointer-level model (heap of nodes with prev/next pointers) *)
Definition ptr_istep (s : LinkedPtrModel.lpstate) (o : op) : option (LinkedPtrModel.lpstate * outcome out) :=
  match LinkedPtrModel.pstep o s with
  | LinkedPtrModel.ROk r s' => Some (s', r)
  | LinkedPtrModel.RPanic => None
  end.
