(* POINTER-LEVEL executable model of /repo/internal/tree/red_black_tree.go (C01, C02).

   RBModel.v re-expresses the Go algorithm as structural recursion over an algebraic tree.  This
   file is the literal transcription: a heap of nodes addressed by ids, every node with the Go
   fields  color, key, value, left, right, parent ; the tree object with  root, size ; and every Go
   function statement by statement, in the Go order, with the Go names:

     getColor setColor getParent getLeft getRight getBrother getUncle getGrandParent   (nil-tolerant)
     setNode newRBNode rotateLeft rotateRight
     fixUncleRed fixAddLeftBlack fixAddRightBlack fixAfterAdd
     fixAfterDeleteLeft fixAfterDeleteRight fixAfterDelete
     findNode findSuccessor addNode deleteNode inOrderTraversal
     rbAdd rbDelete rbFind rbSet rbKeyValues rbSize   (= Add Delete Find Set KeyValues Size)

   * nil = None.  A field access `p.f` on a nil pointer is a Go run-time panic: [load]/[store] of
     None return [RPanic] (so does a dangling id, which Go's memory safety excludes).  The
     nil-tolerant getters test for nil first, exactly as the Go methods do.
   * every `for` loop is a Fixpoint on explicit fuel; running out is the outcome [RFuel].  The
     public operations pass [pfuel s] = size field + 2 (computed when the call starts).
     "Never RPanic, never RFuel" is a theorem (props/C02_ptr.v), not an assumption.
   * pointer comparisons `a == b` are [ptr_eqb] on ids.
   * `&rbNode{...}` / newRBNode allocate a fresh id ([alloc]); nothing is ever freed (Go: GC).
     The garbage the Go code allocates is allocated here too (the node built by Add and copied
     by addNode, the throw-away `parent := &rbNode{}`).
   * [pcalls] counts the invocations of rb.compare (ghost instrumentation: the correspondence
     check counts the real comparator's invocations); [ptr_step] resets it when a call starts.
   * Go's `color` is a bool with Red = false, Black = true: `if node.getColor()` = "is Black".
     The zero value of a node (`&rbNode{}`) therefore is Red with key = value = 0.

   Definitions only; proofs are in proof/RBPtrProof*.v. *)
From Ekit Require Import Common RBModel.
From Coq Require Import FMapPositive.

Definition id := positive.
Definition ptr := option id.

Record node := mkn {
  ncol : color; nkey : Z; nval : Z; nleft : ptr; nright : ptr; npar : ptr }.

Definition heap := PositiveMap.t node.
Definition hempty : heap := PositiveMap.empty node.
Definition hget (h : heap) (i : id) : option node := PositiveMap.find i h.
Definition hset (h : heap) (i : id) (n : node) : heap := PositiveMap.add i n h.

Record pstate := mkst {
  pheap : heap;
  proot : ptr;        (* rb.root *)
  psize : Z;          (* rb.size *)
  pnext : id;         (* allocator: next fresh id *)
  pcalls : nat }.     (* ghost: comparator invocations of the current call *)

Definition pinit : pstate := mkst hempty None 0 1%positive O.

Definition ptr_eqb (a b : ptr) : bool :=
  match a, b with
  | None, None => true
  | Some i, Some j => Pos.eqb i j
  | _, _ => false
  end.
Definition isnil (p : ptr) : bool := match p with None => true | Some _ => false end.

(* ---------- the state-and-failure monad ---------- *)
Inductive res (A : Type) :=
| ROk (a : A) (s : pstate)
| RPanic                    (* Go run-time panic: nil dereference / index out of range *)
| RFuel.                    (* the model's loop fuel ran out *)
Arguments ROk {A} a s.
Arguments RPanic {A}.
Arguments RFuel {A}.

Definition M (A : Type) := pstate -> res A.
Definition ret {A} (a : A) : M A := fun s => ROk a s.
Definition bind {A B} (m : M A) (f : A -> M B) : M B :=
  fun s => match m s with ROk a s' => f a s' | RPanic => RPanic | RFuel => RFuel end.
Definition out_of_fuel {A} : M A := fun _ => RFuel.
Definition panic {A} : M A := fun _ => RPanic.

Notation "x <- m ;; k" := (bind m (fun x => k)) (at level 61, m at next level, right associativity).
Notation "m ;;; k" := (bind m (fun _ => k)) (at level 61, right associativity).

(* ---------- primitive accesses ---------- *)
Definition load (p : ptr) : M node := fun s =>
  match p with
  | None => RPanic
  | Some i => match hget (pheap s) i with Some n => ROk n s | None => RPanic end
  end.
Definition store (p : ptr) (f : node -> node) : M unit := fun s =>
  match p with
  | None => RPanic
  | Some i =>
    match hget (pheap s) i with
    | Some n => ROk tt (mkst (hset (pheap s) i (f n)) (proot s) (psize s) (pnext s) (pcalls s))
    | None => RPanic
    end
  end.
Definition alloc (n : node) : M ptr := fun s =>
  ROk (Some (pnext s))
      (mkst (hset (pheap s) (pnext s) n) (proot s) (psize s) (Pos.succ (pnext s)) (pcalls s)).
Definition get_root : M ptr := fun s => ROk (proot s) s.
Definition set_root (p : ptr) : M unit := fun s =>
  ROk tt (mkst (pheap s) p (psize s) (pnext s) (pcalls s)).
Definition get_size : M Z := fun s => ROk (psize s) s.
Definition set_size (z : Z) : M unit := fun s =>
  ROk tt (mkst (pheap s) (proot s) z (pnext s) (pcalls s)).

(* p.f  (panics when p is nil) *)
Definition fld {A} (f : node -> A) (p : ptr) : M A := n <- load p ;; ret (f n).
(* p.f = x *)
Definition with_col (c : color) (n : node) := mkn c (nkey n) (nval n) (nleft n) (nright n) (npar n).
Definition with_key (k : Z) (n : node) := mkn (ncol n) k (nval n) (nleft n) (nright n) (npar n).
Definition with_val (v : Z) (n : node) := mkn (ncol n) (nkey n) v (nleft n) (nright n) (npar n).
Definition with_left (x : ptr) (n : node) := mkn (ncol n) (nkey n) (nval n) x (nright n) (npar n).
Definition with_right (x : ptr) (n : node) := mkn (ncol n) (nkey n) (nval n) (nleft n) x (npar n).
Definition with_par (x : ptr) (n : node) := mkn (ncol n) (nkey n) (nval n) (nleft n) (nright n) x.
Definition set_col (p : ptr) (c : color) : M unit := store p (with_col c).
Definition set_key (p : ptr) (k : Z) : M unit := store p (with_key k).
Definition set_val (p : ptr) (v : Z) : M unit := store p (with_val v).
Definition set_left (p x : ptr) : M unit := store p (with_left x).
Definition set_right (p x : ptr) : M unit := store p (with_right x).
Definition set_par (p x : ptr) : M unit := store p (with_par x).

(* ---------- the nil-tolerant node methods (red_black_tree.go:491-546, 56-61) ---------- *)
Definition getColor (p : ptr) : M color :=
  match p with None => ret Black | Some _ => fld ncol p end.
Definition setColor (p : ptr) (c : color) : M unit :=
  match p with None => ret tt | Some _ => set_col p c end.
Definition getParent (p : ptr) : M ptr :=
  match p with None => ret None | Some _ => fld npar p end.
Definition getLeft (p : ptr) : M ptr :=
  match p with None => ret None | Some _ => fld nleft p end.
Definition getRight (p : ptr) : M ptr :=
  match p with None => ret None | Some _ => fld nright p end.
Definition getBrother (p : ptr) : M ptr :=
  match p with
  | None => ret None
  | Some _ =>
    pp <- getParent p ;; l <- getLeft pp ;;
    if ptr_eqb p l
    then pp1 <- getParent p ;; getRight pp1
    else pp2 <- getParent p ;; getLeft pp2
  end.
Definition getUncle (p : ptr) : M ptr :=
  match p with None => ret None | Some _ => pp <- getParent p ;; getBrother pp end.
Definition getGrandParent (p : ptr) : M ptr :=
  match p with None => ret None | Some _ => pp <- getParent p ;; getParent pp end.
Definition setNode (p : ptr) (v : Z) : M unit :=
  match p with None => ret tt | Some _ => set_val p v end.

(* newRBNode: red, no links *)
Definition newRBNode (k v : Z) : M ptr := alloc (mkn Red k v None None None).

Section WithCmp.
  Variable cmp : Z -> Z -> Z.

  (* rb.compare(a, b) *)
  Definition compare (a b : Z) : M Z := fun s =>
    ROk (cmp a b) (mkst (pheap s) (proot s) (psize s) (pnext s) (S (pcalls s))).

  (* ---------- rotations (go:440-489) ---------- *)
  Definition rotateLeft (nd : ptr) : M unit :=
    match nd with
    | None => ret tt
    | Some _ =>
      nr <- getRight nd ;;
      match nr with
      | None => ret tt
      | Some _ =>
        r <- fld nright nd ;;                                  (* r := node.right *)
        rl <- fld nleft r ;; set_right nd rl ;;;               (* node.right = r.left *)
        rl1 <- fld nleft r ;;
        (if isnil rl1 then ret tt
         else rl2 <- fld nleft r ;; set_par rl2 nd) ;;;        (* r.left.parent = node *)
        np <- fld npar nd ;; set_par r np ;;;                  (* r.parent = node.parent *)
        np1 <- fld npar nd ;;
        (if isnil np1 then set_root r
         else
           np2 <- fld npar nd ;; npl <- fld nleft np2 ;;
           if ptr_eqb npl nd
           then np3 <- fld npar nd ;; set_left np3 r           (* node.parent.left = r *)
           else np4 <- fld npar nd ;; set_right np4 r) ;;;     (* node.parent.right = r *)
        set_left r nd ;;;                                      (* r.left = node *)
        set_par nd r                                           (* node.parent = r *)
      end
    end.

  Definition rotateRight (nd : ptr) : M unit :=
    match nd with
    | None => ret tt
    | Some _ =>
      nl <- getLeft nd ;;
      match nl with
      | None => ret tt
      | Some _ =>
        l <- fld nleft nd ;;                                   (* l := node.left *)
        lr <- fld nright l ;; set_left nd lr ;;;               (* node.left = l.right *)
        lr1 <- fld nright l ;;
        (if isnil lr1 then ret tt
         else lr2 <- fld nright l ;; set_par lr2 nd) ;;;       (* l.right.parent = node *)
        np <- fld npar nd ;; set_par l np ;;;                  (* l.parent = node.parent *)
        np1 <- fld npar nd ;;
        (if isnil np1 then set_root l
         else
           np2 <- fld npar nd ;; npr <- fld nright np2 ;;
           if ptr_eqb npr nd
           then np3 <- fld npar nd ;; set_right np3 l          (* node.parent.right = l *)
           else np4 <- fld npar nd ;; set_left np4 l) ;;;      (* node.parent.left = l *)
        set_right l nd ;;;                                     (* l.right = node *)
        set_par nd l                                           (* node.parent = l *)
      end
    end.

  (* ---------- insertion fix-up (go:287-361) ---------- *)
  Definition fixUncleRed (x y : ptr) : M ptr :=
    p <- getParent x ;; setColor p Black ;;;
    setColor y Black ;;;
    g <- getGrandParent x ;; setColor g Red ;;;
    getGrandParent x.

  Definition fixAddLeftBlack (x : ptr) : M ptr :=
    p <- getParent x ;; pr <- getRight p ;;
    x1 <- (if ptr_eqb x pr
           then x' <- getParent x ;; rotateLeft x' ;;; ret x'
           else ret x) ;;
    p1 <- getParent x1 ;; setColor p1 Black ;;;
    g <- getGrandParent x1 ;; setColor g Red ;;;
    g1 <- getGrandParent x1 ;; rotateRight g1 ;;;
    ret x1.

  Definition fixAddRightBlack (x : ptr) : M ptr :=
    p <- getParent x ;; pl <- getLeft p ;;
    x1 <- (if ptr_eqb x pl
           then x' <- getParent x ;; rotateRight x' ;;; ret x'
           else ret x) ;;
    p1 <- getParent x1 ;; setColor p1 Black ;;;
    g <- getGrandParent x1 ;; setColor g Red ;;;
    g1 <- getGrandParent x1 ;; rotateLeft g1 ;;;
    ret x1.

  (* for x != nil && x != rb.root && x.getParent().getColor() == Red { ... } *)
  Fixpoint fixAfterAdd_loop (fuel : nat) (x : ptr) : M unit :=
    match fuel with
    | O => out_of_fuel
    | S f =>
      if isnil x then ret tt else
      rt <- get_root ;;
      if ptr_eqb x rt then ret tt else
      p <- getParent x ;; pc <- getColor p ;;
      match pc with
      | Black => ret tt
      | Red =>
        uncle <- getUncle x ;; uc <- getColor uncle ;;
        match uc with
        | Red => x' <- fixUncleRed x uncle ;; fixAfterAdd_loop f x'
        | Black =>
          p1 <- getParent x ;; g <- getGrandParent x ;; gl <- getLeft g ;;
          if ptr_eqb p1 gl
          then x' <- fixAddLeftBlack x ;; fixAfterAdd_loop f x'
          else x' <- fixAddRightBlack x ;; fixAfterAdd_loop f x'
        end
      end
    end.

  Definition fixAfterAdd (fuel : nat) (x : ptr) : M unit :=
    set_col x Red ;;;                                          (* x.color = Red *)
    fixAfterAdd_loop fuel x ;;;
    rt <- get_root ;; setColor rt Black.                       (* rb.root.setColor(Black) *)

  (* ---------- addNode (go:145-180) ---------- *)
  (* the descent loop; None = `return ErrRBTreeSameRBNode`, Some (parent, cmp) = loop left *)
  Fixpoint addNode_loop (fuel : nat) (nd t parent : ptr) (c : Z) : M (option (ptr * Z)) :=
    match fuel with
    | O => out_of_fuel
    | S f =>
      if isnil t then ret (Some (parent, c)) else
      let parent := t in
      nk <- fld nkey nd ;; tk <- fld nkey t ;; c <- compare nk tk ;;
      if c <? 0 then t' <- fld nleft t ;; addNode_loop f nd t' parent c
      else if 0 <? c then t' <- fld nright t ;; addNode_loop f nd t' parent c
      else if c =? 0 then ret None
      else addNode_loop f nd t parent c
    end.

  Definition addNode (fuel : nat) (nd : ptr) : M (option eclass) :=
    rt <- get_root ;;
    r <- (if isnil rt
          then
            nk <- fld nkey nd ;; nv <- fld nval nd ;;
            n <- newRBNode nk nv ;; set_root n ;;;
            fx <- get_root ;; ret (Some fx)
          else
            t <- get_root ;;
            parent <- alloc (mkn Red 0 0 None None None) ;;     (* parent := &rbNode[K, V]{} *)
            lr <- addNode_loop fuel nd t parent 0 ;;
            match lr with
            | None => ret None
            | Some (parent, c) =>
              nk <- fld nkey nd ;; nv <- fld nval nd ;;
              fx <- alloc (mkn Red nk nv None None parent) ;;
              (if c <? 0 then set_left parent fx else set_right parent fx) ;;;
              ret (Some fx)
            end) ;;
    match r with
    | None => ret (Some EDuplicate)
    | Some fx =>
      sz <- get_size ;; set_size (sz + 1) ;;;                  (* rb.size++ *)
      fixAfterAdd fuel fx ;;;
      ret None
    end.

  (* ---------- deletion fix-up (go:365-430) ---------- *)
  Definition fixAfterDeleteLeft (x : ptr) : M ptr :=
    p <- getParent x ;; sib <- getRight p ;;
    sc <- getColor sib ;;
    sib <- (match sc with
            | Red =>
              setColor sib Black ;;;
              sp <- getParent sib ;; setColor sp Red ;;;
              p1 <- getParent x ;; rotateLeft p1 ;;;
              p2 <- getParent x ;; getRight p2
            | Black => ret sib
            end) ;;
    sl <- getLeft sib ;; slc <- getColor sl ;;
    both <- (match slc with
             | Black => sr <- getRight sib ;; src <- getColor sr ;;
                        ret (match src with Black => true | Red => false end)
             | Red => ret false
             end) ;;
    if both then
      setColor sib Red ;;;
      getParent x
    else
      sr <- getRight sib ;; src <- getColor sr ;;
      sib <- (match src with
              | Black =>
                sl1 <- getLeft sib ;; setColor sl1 Black ;;;
                setColor sib Red ;;;
                rotateRight sib ;;;
                p3 <- getParent x ;; getRight p3
              | Red => ret sib
              end) ;;
      p4 <- getParent x ;; pc <- getColor p4 ;; setColor sib pc ;;;
      p5 <- getParent x ;; setColor p5 Black ;;;
      sr1 <- getRight sib ;; setColor sr1 Black ;;;
      p6 <- getParent x ;; rotateLeft p6 ;;;
      get_root.

  Definition fixAfterDeleteRight (x : ptr) : M ptr :=
    p <- getParent x ;; sib <- getLeft p ;;
    sc <- getColor sib ;;
    sib <- (match sc with
            | Red =>
              setColor sib Black ;;;
              p0 <- getParent x ;; setColor p0 Red ;;;
              p1 <- getParent x ;; rotateRight p1 ;;;
              getBrother x
            | Black => ret sib
            end) ;;
    sr <- getRight sib ;; src <- getColor sr ;;
    both <- (match src with
             | Black => sl <- getLeft sib ;; slc <- getColor sl ;;
                        ret (match slc with Black => true | Red => false end)
             | Red => ret false
             end) ;;
    if both then
      setColor sib Red ;;;
      getParent x
    else
      sl <- getLeft sib ;; slc <- getColor sl ;;
      sib <- (match slc with
              | Black =>
                sr1 <- getRight sib ;; setColor sr1 Black ;;;
                setColor sib Red ;;;
                rotateLeft sib ;;;
                p3 <- getParent x ;; getLeft p3
              | Red => ret sib
              end) ;;
      p4 <- getParent x ;; pc <- getColor p4 ;; setColor sib pc ;;;
      p5 <- getParent x ;; setColor p5 Black ;;;
      sl1 <- getLeft sib ;; setColor sl1 Black ;;;
      p6 <- getParent x ;; rotateRight p6 ;;;
      get_root.

  (* for x != rb.root && x.getColor() == Black { ... } ; x.setColor(Black) *)
  Fixpoint fixAfterDelete_loop (fuel : nat) (x : ptr) : M ptr :=
    match fuel with
    | O => out_of_fuel
    | S f =>
      rt <- get_root ;;
      if ptr_eqb x rt then ret x else
      xc <- getColor x ;;
      match xc with
      | Red => ret x
      | Black =>
        xp <- fld npar x ;; xpl <- getLeft xp ;;               (* x.parent.getLeft() *)
        if ptr_eqb x xpl
        then x' <- fixAfterDeleteLeft x ;; fixAfterDelete_loop f x'
        else x' <- fixAfterDeleteRight x ;; fixAfterDelete_loop f x'
      end
    end.
  Definition fixAfterDelete (fuel : nat) (x : ptr) : M unit :=
    x' <- fixAfterDelete_loop fuel x ;; setColor x' Black.

  (* ---------- findSuccessor (go:245-264), findNode (go:266-279) ---------- *)
  Fixpoint leftmost_loop (fuel : nat) (p : ptr) : M ptr :=      (* for p.left != nil { p = p.left } *)
    match fuel with
    | O => out_of_fuel
    | S f => pl <- fld nleft p ;; if isnil pl then ret p else pl1 <- fld nleft p ;; leftmost_loop f pl1
    end.
  Fixpoint climb_loop (fuel : nat) (p ch : ptr) : M ptr :=       (* for p != nil && ch == p.right {...} *)
    match fuel with
    | O => out_of_fuel
    | S f =>
      if isnil p then ret p else
      pr <- fld nright p ;;
      if ptr_eqb ch pr then pp <- fld npar p ;; climb_loop f pp p else ret p
    end.
  Definition findSuccessor (fuel : nat) (nd : ptr) : M ptr :=
    if isnil nd then ret None else
    nr <- fld nright nd ;;
    if isnil nr then
      p <- fld npar nd ;; climb_loop fuel p nd
    else
      p <- fld nright nd ;; leftmost_loop fuel p.

  Fixpoint findNode_loop (fuel : nat) (key : Z) (nd : ptr) : M ptr :=
    match fuel with
    | O => out_of_fuel
    | S f =>
      if isnil nd then ret None else
      nk <- fld nkey nd ;; c <- compare key nk ;;
      if c <? 0 then l <- fld nleft nd ;; findNode_loop f key l
      else if 0 <? c then r <- fld nright nd ;; findNode_loop f key r
      else ret nd
    end.
  Definition findNode (fuel : nat) (key : Z) : M ptr :=
    rt <- get_root ;; findNode_loop fuel key rt.

  (* ---------- deleteNode (go:191-240) ---------- *)
  Definition deleteNode (fuel : nat) (tgt : ptr) : M unit :=
    let nd := tgt in
    nl <- fld nleft nd ;;
    both <- (if isnil nl then ret false else nr <- fld nright nd ;; ret (negb (isnil nr))) ;;
    nd <- (if both then
             s <- findSuccessor fuel nd ;;
             sk <- fld nkey s ;; set_key nd sk ;;;              (* node.key = s.key *)
             sv <- fld nval s ;; set_val nd sv ;;;              (* node.value = s.value *)
             ret s                                              (* node = s *)
           else ret nd) ;;
    nl1 <- fld nleft nd ;;
    replacement <- (if isnil nl1 then fld nright nd else fld nleft nd) ;;
    (if negb (isnil replacement) then
       np <- fld npar nd ;; set_par replacement np ;;;          (* replacement.parent = node.parent *)
       np1 <- fld npar nd ;;
       (if isnil np1 then set_root replacement
        else
          np2 <- fld npar nd ;; npl <- fld nleft np2 ;;
          if ptr_eqb nd npl
          then np3 <- fld npar nd ;; set_left np3 replacement
          else np4 <- fld npar nd ;; set_right np4 replacement) ;;;
       set_left nd None ;;; set_right nd None ;;; set_par nd None ;;;
       c <- getColor nd ;;
       match c with Black => fixAfterDelete fuel replacement | Red => ret tt end
     else
       np <- fld npar nd ;;
       if isnil np then set_root None
       else
         c <- getColor nd ;;
         (match c with Black => fixAfterDelete fuel nd | Red => ret tt end) ;;;
         np1 <- fld npar nd ;;
         if isnil np1 then ret tt
         else
           np2 <- fld npar nd ;; npl <- fld nleft np2 ;;
           (if ptr_eqb nd npl
            then np3 <- fld npar nd ;; set_left np3 None
            else
              np4 <- fld npar nd ;; npr <- fld nright np4 ;;
              if ptr_eqb nd npr
              then np5 <- fld npar nd ;; set_right np5 None
              else ret tt) ;;;
           set_par nd None) ;;;
    sz <- get_size ;; set_size (sz - 1).                        (* rb.size-- *)

  (* ---------- inOrderTraversal (go:129-142) with its explicit stack ---------- *)
  Fixpoint push_left_loop (fuel : nat) (stack : list ptr) (curr : ptr) : M (list ptr * ptr) :=
    match fuel with                                             (* for curr != nil { push; curr = curr.left } *)
    | O => out_of_fuel
    | S f =>
      if isnil curr then ret (stack, curr)
      else l <- fld nleft curr ;; push_left_loop f (stack ++ [curr]) l
    end.
  Fixpoint inOrder_loop (fuel ifuel : nat) (stack : list ptr) (curr : ptr) (acc : list (Z * Z))
    : M (list (Z * Z)) :=
    match fuel with
    | O => out_of_fuel
    | S f =>
      if isnil curr && (length stack =? 0)%nat then ret acc else
      sc <- push_left_loop ifuel stack curr ;;
      let '(stack, _) := sc in
      match rev stack with
      | [] => panic                                             (* stack[len(stack)-1] on an empty slice *)
      | top :: rest_rev =>
        let stack := rev rest_rev in                            (* stack = stack[:len(stack)-1] *)
        k <- fld nkey top ;; v <- fld nval top ;;               (* visit(curr) *)
        r <- fld nright top ;;
        inOrder_loop f ifuel stack r (acc ++ [(k, v)])
      end
    end.

  (* ---------- the public methods (go:83-126, 42-47) ---------- *)
  Definition pfuel (s : pstate) : nat := S (S (Z.to_nat (psize s))).

  Definition rbAdd (k v : Z) : M (option eclass) := fun s =>
    (n <- newRBNode k v ;; addNode (pfuel s) n) s.
  Definition rbDelete (k : Z) : M (option Z) := fun s =>
    (nd <- findNode (pfuel s) k ;;
     if isnil nd then ret None
     else v <- fld nval nd ;; deleteNode (pfuel s) nd ;;; ret (Some v)) s.
  Definition rbFind (k : Z) : M (option Z) := fun s =>
    (nd <- findNode (pfuel s) k ;;
     if isnil nd then ret None else v <- fld nval nd ;; ret (Some v)) s.
  Definition rbSet (k v : Z) : M (option eclass) := fun s =>
    (nd <- findNode (pfuel s) k ;;
     if isnil nd then ret (Some EAbsent) else setNode nd v ;;; ret None) s.
  Definition rbKeyValues : M (list (Z * Z)) := fun s =>
    (rt <- get_root ;;
     if isnil rt then ret []
     else rt1 <- get_root ;; inOrder_loop (pfuel s) (pfuel s) [] rt1 []) s.
  Definition rbSize : M Z := get_size.

  (* one call of the RBTree API, same operations and outputs as RBModel.rb_step *)
  Definition reset_calls : M unit := fun s =>
    ROk tt (mkst (pheap s) (proot s) (psize s) (pnext s) O).
  Definition ptr_step (o : rb_op) : M rb_out :=
    reset_calls ;;;
    match o with
    | OAdd k v => e <- rbAdd k v ;; ret (match e with None => RUnit | Some e => RErr e end)
    | ODelete k => r <- rbDelete k ;; ret (match r with Some v => RVal v | None => RAbsent end)
    | OFind k => r <- rbFind k ;; ret (match r with Some v => RVal v | None => RErr EAbsent end)
    | OSet k v => e <- rbSet k v ;; ret (match e with None => RUnit | Some e => RErr e end)
    | OKeyValues => kvs <- rbKeyValues ;; ret (RKVs kvs)
    | OSize => n <- rbSize ;; ret (RSize n)
    end.

  (* a history: the states and outputs after every call *)
  Fixpoint ptr_run (s : pstate) (ops : list rb_op) : res (list (pstate * rb_out)) :=
    match ops with
    | [] => ROk [] s
    | o :: rest =>
      match ptr_step o s with
      | ROk out s' =>
        match ptr_run s' rest with
        | ROk l sf => ROk ((s', out) :: l) sf
        | RPanic => RPanic
        | RFuel => RFuel
        end
      | RPanic => RPanic
      | RFuel => RFuel
      end
    end.
End WithCmp.

(* ---------- reading the pointer structure back ---------- *)
(* the algebraic tree hanging from p, following child links only (parent links ignored);
   fuel bounds the depth (a cyclic heap would otherwise not terminate) *)
Fixpoint abs_fuel (fuel : nat) (h : heap) (p : ptr) : tree :=
  match fuel with
  | O => E
  | S f =>
    match p with
    | None => E
    | Some i =>
      match hget h i with
      | None => E
      | Some n => T (ncol n) (abs_fuel f h (nleft n)) (nkey n) (nval n) (abs_fuel f h (nright n))
      end
    end
  end.
Definition abs_heap (h : heap) (p : ptr) (bound : nat) : tree := abs_fuel bound h p.
(* depth bound: the number of ids ever allocated (every node of the tree is one of them) *)
Definition abs_tree (s : pstate) : tree := abs_fuel (Pos.to_nat (pnext s)) (pheap s) (proot s).

(* the parent-consistency flag exactly as the white-box walker of the correspondence check computes
   it (hooks/internal/tree/x_verif.go): some visited node's parent field is not the node it hangs from *)
Fixpoint bad_parent_fuel (fuel : nat) (h : heap) (p parent : ptr) : bool :=
  match fuel with
  | O => false
  | S f =>
    match p with
    | None => false
    | Some i =>
      match hget h i with
      | None => false
      | Some n =>
        negb (ptr_eqb (npar n) parent) || bad_parent_fuel f h (nleft n) p || bad_parent_fuel f h (nright n) p
      end
    end
  end.
Definition bad_parent (s : pstate) : bool :=
  bad_parent_fuel (Pos.to_nat (pnext s)) (pheap s) (proot s) None.

(* ---------- vocabulary of the theorems about the pointer structure ---------- *)
(* follow child links from p along a path of directions (RBModel.dir: L | R); None = fell off *)
Fixpoint walk (h : heap) (p : ptr) (path : list dir) : ptr :=
  match path with
  | [] => p
  | d :: rest =>
    match p with
    | None => None
    | Some i =>
      match hget h i with
      | None => None
      | Some n => walk h (match d with L => nleft n | R => nright n end) rest
      end
    end
  end.
(* node i is reachable from the root pointer through child links *)
Definition reachable (s : pstate) (i : id) : Prop :=
  exists path, walk (pheap s) (proot s) path = Some i.

(* "parent links consistent with child links, and the reachable structure is a tree":
   1. the root's parent field is nil;
   2. every reachable node exists in the heap and each of its non-nil children points back to it;
   3. every reachable node has exactly ONE access path from the root (no sharing, no cycles). *)
Definition links_ok (s : pstate) : Prop :=
  (forall r n, proot s = Some r -> hget (pheap s) r = Some n -> npar n = None) /\
  (forall i, reachable s i -> exists n, hget (pheap s) i = Some n /\
     (forall c, nleft n = Some c -> exists nc, hget (pheap s) c = Some nc /\ npar nc = Some i) /\
     (forall c, nright n = Some c -> exists nc, hget (pheap s) c = Some nc /\ npar nc = Some i)) /\
  (forall p1 p2 i, walk (pheap s) (proot s) p1 = Some i -> walk (pheap s) (proot s) p2 = Some i -> p1 = p2).

(* comparator calls the recursive model attributes to every call of a history *)
Fixpoint rb_calls_run (cmp : Z -> Z -> Z) (m : rbtree) (ops : list rb_op) : list nat :=
  match ops with
  | [] => []
  | o :: rest =>
    (match o with
     | OAdd k _ | ODelete k | OFind k | OSet k _ => cmp_calls cmp k (root m)
     | OKeyValues | OSize => O
     end) :: rb_calls_run cmp (fst (rb_step cmp m o)) rest
  end.
