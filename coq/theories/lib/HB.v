(* HB.v — the fragment of the Go memory model needed for data-race freedom (C15).
   Library file: definitions AND their lemmas.

   An execution is a finite list of events in the order in which they were executed
   (a sequentially consistent interleaving: by the DRF-SC guarantee of the Go memory
   model a program is data-race-free iff none of its sequentially consistent executions
   has a race).  Events are (thread, action).  Actions:

     Acq l m / Rel l m     sync.Mutex / sync.RWMutex l acquired / released in mode m
                           (Excl = Lock/Unlock, Shared = RLock/RUnlock)
     ARead x / AWrite x / ARmw x
                           sync/atomic load / store / read-modify-write (Add, Swap, CAS;
                           a failed CAS is over-approximated by ARmw) of location x
     SRel o / SAcq o       generic release / acquire on a named synchronisation object:
                           channel send or close -> receive, sync.Pool Put -> Get,
                           sync.Once (end of f -> return of Do), WaitGroup, semaphore
                           Release -> Acquire, context cancel -> Done observed
     Fork c                `go f()` creating thread c
     Read x / Write x      PLAIN (non-atomic) read / write of location x

   Synchronises-with (index i before index j in the execution):
     Rel l m  -> Acq l m'     unless m = m' = Shared (RUnlock -> RLock is no edge in Go)
     AWrite x | ARmw x -> ARead x | ARmw x     (atomics are sequentially consistent; an
                           atomic store is NOT used as an acquire: fewer edges = more
                           races = stronger theorems)
     SRel o   -> SAcq o
     Fork c   -> every event of thread c
   happens-before = transitive closure of program order (same thread, earlier) and
   synchronises-with.  All edges go forward in the execution (lemma hb_lt).

   A data race on x: two accesses to x by different threads, at least one a write, NOT
   both atomic, unordered by happens-before.  (This is the Go definition; it is stronger
   than "two plain accesses": a plain read concurrent with an atomic write is a race.) *)
From Coq Require Import List Arith Lia Bool String Relations.
Import ListNotations.

Definition thread := nat.
(* a location / lock / synchronisation object: "Type.field" and the object instance *)
Definition name := (string * nat)%type.

Inductive mode := Excl | Shared.

Inductive action :=
| Acq (l : name) (m : mode)
| Rel (l : name) (m : mode)
| ARead (x : name)
| AWrite (x : name)
| ARmw (x : name)
| SRel (o : name)
| SAcq (o : name)
| Fork (c : thread)
| Read (x : name)
| Write (x : name).

Record event := mkEv { tid : thread; act : action }.
Definition execution := list event.

Definition mode_eq_dec : forall a b : mode, {a = b} + {a <> b}.
Proof. decide equality. Defined.
Definition name_eq_dec : forall a b : name, {a = b} + {a <> b}.
Proof. decide equality; [apply Nat.eq_dec | apply string_dec]. Defined.
Definition action_eq_dec : forall a b : action, {a = b} + {a <> b}.
Proof.
  decide equality; try apply name_eq_dec; try apply mode_eq_dec; apply Nat.eq_dec.
Defined.

Definition ev_at (e : execution) (i : nat) (ev : event) : Prop := nth_error e i = Some ev.

Lemma ev_at_fun e i a b : ev_at e i a -> ev_at e i b -> a = b.
Proof. unfold ev_at. intros Ha Hb. rewrite Ha in Hb. now injection Hb. Qed.

Lemma ev_at_lt e i a : ev_at e i a -> i < List.length e.
Proof. unfold ev_at. intros H. apply nth_error_Some. now rewrite H. Qed.

(* ---------- synchronises-with, program order, happens-before ---------- *)

(* event a (earlier) releases what event b (later) acquires *)
Definition syncs (a b : event) : Prop :=
  match act a with
  | Fork c => tid b = c
  | Rel l m => match act b with Acq l' m' => l = l' /\ (m = Excl \/ m' = Excl) | _ => False end
  | AWrite x | ARmw x => match act b with ARead x' | ARmw x' => x = x' | _ => False end
  | SRel o => match act b with SAcq o' => o = o' | _ => False end
  | _ => False
  end.

Definition po (e : execution) (i j : nat) : Prop :=
  i < j /\ exists a b, ev_at e i a /\ ev_at e j b /\ tid a = tid b.

Definition sw (e : execution) (i j : nat) : Prop :=
  i < j /\ exists a b, ev_at e i a /\ ev_at e j b /\ syncs a b.

Definition hb1 (e : execution) (i j : nat) : Prop := po e i j \/ sw e i j.
Definition hb (e : execution) : nat -> nat -> Prop := clos_trans nat (hb1 e).

Lemma hb1_lt e i j : hb1 e i j -> i < j.
Proof. intros [[H _]|[H _]]; exact H. Qed.

Lemma hb_lt e i j : hb e i j -> i < j.
Proof.
  intros H. induction H as [i j H|i k j _ IH1 _ IH2].
  - exact (hb1_lt _ _ _ H).
  - lia.
Qed.

Lemma hb_irrefl e i : ~ hb e i i.
Proof. intros H. apply hb_lt in H. lia. Qed.

Lemma hb_trans e i j k : hb e i j -> hb e j k -> hb e i k.
Proof. intros H1 H2. exact (t_trans _ _ _ _ _ H1 H2). Qed.

Lemma hb_po e i j : po e i j -> hb e i j.
Proof. intros H. apply t_step. now left. Qed.

Lemma hb_sw e i j : sw e i j -> hb e i j.
Proof. intros H. apply t_step. now right. Qed.

Lemma po_intro e i j a b :
  i < j -> ev_at e i a -> ev_at e j b -> tid a = tid b -> po e i j.
Proof. intros Hlt Ha Hb Ht. split; [exact Hlt|]. now exists a, b. Qed.

(* ---------- accesses, conflicts, races ---------- *)

(* location, is-a-write, is-atomic *)
Definition access_of (a : action) : option (name * bool * bool) :=
  match a with
  | Read x => Some (x, false, false)
  | Write x => Some (x, true, false)
  | ARead x => Some (x, false, true)
  | AWrite x => Some (x, true, true)
  | ARmw x => Some (x, true, true)
  | _ => None
  end.

(* two accesses to x conflict: at least one writes, not both atomic *)
Definition conflict_on (x : name) (a b : action) : Prop :=
  exists wa aa wb ab,
    access_of a = Some (x, wa, aa) /\ access_of b = Some (x, wb, ab) /\
    (wa = true \/ wb = true) /\ (aa = false \/ ab = false).

(* the events at i and j race on x *)
Definition race_pair (e : execution) (x : name) (i j : nat) : Prop :=
  exists a b, ev_at e i a /\ ev_at e j b /\ tid a <> tid b /\
              conflict_on x (act a) (act b) /\ ~ hb e i j /\ ~ hb e j i.

Definition race_on (e : execution) (x : name) : Prop := exists i j, race_pair e x i j.
Definition race (e : execution) : Prop := exists x, race_on e x.

Lemma conflict_on_sym x a b : conflict_on x a b -> conflict_on x b a.
Proof.
  intros (wa & aa & wb & ab & Ha & Hb & Hw & Hat).
  exists wb, ab, wa, aa. repeat split; try assumption; tauto.
Qed.

Lemma race_pair_sym e x i j : race_pair e x i j -> race_pair e x j i.
Proof.
  intros (a & b & Ha & Hb & Ht & Hc & Hn1 & Hn2).
  exists b, a. repeat split; try assumption.
  - intros E. apply Ht. now symmetry.
  - now apply conflict_on_sym.
Qed.

(* a race can always be presented with the earlier event first *)
Lemma race_on_ordered e x :
  race_on e x -> exists i j, i < j /\ race_pair e x i j.
Proof.
  intros (i & j & H).
  destruct (Nat.lt_trichotomy i j) as [Hlt|[Heq|Hgt]].
  - now exists i, j.
  - subst j. destruct H as (a & b & Ha & Hb & Ht & _).
    rewrite (ev_at_fun _ _ _ _ Ha Hb) in Ht. now contradiction Ht.
  - exists j, i. split; [exact Hgt|]. now apply race_pair_sym.
Qed.

(* ---------- lock ownership and well-formed executions ---------- *)

(* thread t acquired l in mode m at some p < i and has not released it (in that mode)
   strictly between p and i: t holds l in mode m when the event at index i executes *)
Definition holds (e : execution) (t : thread) (l : name) (m : mode) (i : nat) : Prop :=
  exists p, p < i /\
    (exists ev, ev_at e p ev /\ tid ev = t /\ act ev = Acq l m) /\
    (forall k ev, p < k < i -> ev_at e k ev -> ~ (tid ev = t /\ act ev = Rel l m)).

(* "writers exclusively, readers at least shared" *)
Definition holds_at_least (e : execution) (t : thread) (l : name) (m : mode) (i : nat) : Prop :=
  match m with
  | Excl => holds e t l Excl i
  | Shared => holds e t l Shared i \/ holds e t l Excl i
  end.

(* Lock semantics: an acquisition in exclusive mode happens only when nobody holds the
   lock; in shared mode only when nobody holds it exclusively (Go mutexes are not
   re-entrant, so this includes the acquiring thread itself).  Locks are released by the
   thread that holds them (true of all anchored code: every Unlock follows a Lock in the
   same call).  A forked thread has no event before its creation. *)
Record wf (e : execution) : Prop := {
  wf_acq : forall i ev l m, ev_at e i ev -> act ev = Acq l m ->
             forall t', ~ holds e t' l Excl i /\ (m = Excl -> ~ holds e t' l Shared i);
  wf_rel : forall i ev l m, ev_at e i ev -> act ev = Rel l m -> holds e (tid ev) l m i;
  wf_fork : forall i j a b c, ev_at e i a -> act a = Fork c -> ev_at e j b -> tid b = c -> i < j
}.

(* bounded search with a decidable predicate *)
Lemma between_dec (P : nat -> Prop) (Pdec : forall k, {P k} + {~ P k}) p q :
  (forall k, p < k < q -> ~ P k) \/ (exists k, p < k < q /\ P k).
Proof.
  induction q as [|q IH].
  - left. intros k Hk. lia.
  - destruct IH as [IH|(k & Hk & HP)].
    + destruct (Pdec q) as [HP|HN].
      * destruct (lt_dec p q) as [Hpq|Hpq].
        -- right. exists q. split; [lia|exact HP].
        -- left. intros k Hk. lia.
      * left. intros k Hk. destruct (Nat.eq_dec k q) as [->|Hne]; [exact HN|].
        apply IH. lia.
    + right. exists k. split; [lia|exact HP].
Qed.

Definition rel_at (e : execution) (t : thread) (l : name) (m : mode) (k : nat) : Prop :=
  exists ev, ev_at e k ev /\ tid ev = t /\ act ev = Rel l m.

Lemma rel_at_dec e t l m k : {rel_at e t l m k} + {~ rel_at e t l m k}.
Proof.
  unfold rel_at, ev_at. destruct (nth_error e k) as [ev|] eqn:E.
  - destruct (Nat.eq_dec (tid ev) t) as [Ht|Ht].
    + destruct (action_eq_dec (act ev) (Rel l m)) as [Ha|Ha].
      * left. now exists ev.
      * right. intros (ev' & H & _ & Ha'). injection H as <-. now apply Ha.
    + right. intros (ev' & H & Ht' & _). injection H as <-. now apply Ht.
  - right. intros (ev' & H & _). discriminate H.
Qed.

Lemma holds_intro e t l m p i ev :
  p < i -> ev_at e p ev -> tid ev = t -> act ev = Acq l m ->
  (forall k, p < k < i -> ~ rel_at e t l m k) -> holds e t l m i.
Proof.
  intros Hlt Hev Ht Ha Hno. exists p. split; [exact Hlt|]. split.
  - now exists ev.
  - intros k ev' Hk Hev' [Ht' Ha']. apply (Hno k Hk). now exists ev'.
Qed.

(* mutual exclusion: two holders of one lock, one of them exclusive, at (possibly
   different) moments i <= j; then the earlier holder released before the later acquired *)
Lemma holders_ordered e l t1 t2 m1 m2 i j :
  wf e -> t1 <> t2 -> (m1 = Excl \/ m2 = Excl) ->
  holds e t1 l m1 i -> holds e t2 l m2 j -> i < j ->
  exists k p2, i <= k /\ k < p2 /\ p2 < j /\
    rel_at e t1 l m1 k /\
    (exists ev, ev_at e p2 ev /\ tid ev = t2 /\ act ev = Acq l m2).
Proof.
  intros Hwf Hne Hm (p1 & Hp1 & (ev1 & Hev1 & Ht1 & Ha1) & Hno1)
         (p2 & Hp2 & (ev2 & Hev2 & Ht2 & Ha2) & Hno2) Hij.
  assert (Hno1' : forall k, p1 < k < i -> ~ rel_at e t1 l m1 k).
  { intros k Hk (ev & Hev & Ht & Ha). exact (Hno1 k ev Hk Hev (conj Ht Ha)). }
  assert (Hno2' : forall k, p2 < k < j -> ~ rel_at e t2 l m2 k).
  { intros k Hk (ev & Hev & Ht & Ha). exact (Hno2 k ev Hk Hev (conj Ht Ha)). }
  destruct (Nat.lt_trichotomy p1 p2) as [Hlt|[Heq|Hgt]].
  - (* t1 acquired first *)
    destruct (between_dec (rel_at e t1 l m1) (rel_at_dec e t1 l m1) p1 p2) as [Hnone|(k & Hk & Hrel)].
    + (* t1 still holds at p2: contradiction with lock semantics at p2 *)
      exfalso.
      assert (Hh : holds e t1 l m1 p2) by (eapply holds_intro; eauto).
      destruct (wf_acq e Hwf p2 ev2 l m2 Hev2 Ha2 t1) as [HE HS].
      destruct m1.
      * now apply HE.
      * destruct Hm as [Hm|Hm]; [discriminate Hm|]. now apply HS.
    + exists k, p2. repeat split; try lia; try assumption.
      * destruct (le_lt_dec i k) as [Hle|Hki]; [exact Hle|].
        exfalso. apply (Hno1' k); [lia|exact Hrel].
      * now exists ev2.
  - exfalso. subst p2. rewrite (ev_at_fun _ _ _ _ Hev1 Hev2) in Ht1. congruence.
  - (* t2 acquired first and still holds at p1 < i < j *)
    exfalso.
    assert (Hh : holds e t2 l m2 p1).
    { eapply holds_intro; eauto. intros k Hk. apply Hno2'. lia. }
    destruct (wf_acq e Hwf p1 ev1 l m1 Hev1 Ha1 t2) as [HE HS].
    destruct m2.
    + now apply HE.
    + destruct Hm as [Hm|Hm]; [|discriminate Hm]. now apply HS.
Qed.

(* ---------- the three reusable lemmas (+ read-only) ---------- *)

(* every access to x (plain or atomic) happens while its thread holds lock l:
   writers exclusively, readers at least shared *)
Definition guarded (e : execution) (x l : name) : Prop :=
  forall i ev w a, ev_at e i ev -> access_of (act ev) = Some (x, w, a) ->
    holds_at_least e (tid ev) l (if w then Excl else Shared) i.

Lemma holds_at_least_mode e t l (w : bool) i :
  holds_at_least e t l (if w then Excl else Shared) i ->
  exists m, holds e t l m i /\ (w = true -> m = Excl).
Proof.
  destruct w; cbn.
  - intros H. exists Excl. now split.
  - intros [H|H]; [exists Shared|exists Excl]; split; try assumption; discriminate.
Qed.

(* two accesses by different threads, each made while holding l, one of them exclusively:
   the earlier one happens-before the later one *)
Lemma locked_pair_hb e l i j a b m1 m2 :
  wf e -> i < j -> ev_at e i a -> ev_at e j b -> tid a <> tid b ->
  access_of (act a) <> None ->
  holds e (tid a) l m1 i -> holds e (tid b) l m2 j -> (m1 = Excl \/ m2 = Excl) ->
  hb e i j.
Proof.
  intros Hwf Hij Ha Hb Hne Hacc Hh1 Hh2 Hm.
  destruct (holders_ordered e l (tid a) (tid b) m1 m2 i j Hwf Hne Hm Hh1 Hh2 Hij)
    as (k & p2 & Hik & Hkp & Hpj & (evk & Hevk & Htk & Hak) & (ev2 & Hev2 & Ht2 & Ha2)).
  assert (Hik' : i < k).
  { destruct (Nat.eq_dec i k) as [->|Hn]; [|lia].
    rewrite (ev_at_fun _ _ _ _ Ha Hevk) in Hacc. rewrite Hak in Hacc. now contradiction Hacc. }
  apply hb_trans with k.
  { apply hb_po. eapply po_intro; eauto. }
  apply hb_trans with p2.
  { apply hb_sw. split; [exact Hkp|]. exists evk, ev2. repeat split; try assumption.
    unfold syncs. rewrite Hak, Ha2. split; [reflexivity|].
    destruct Hm as [->| ->]; auto. }
  apply hb_po. eapply po_intro; eauto.
Qed.

Theorem guarded_by : forall e x l, wf e -> guarded e x l -> ~ race_on e x.
Proof.
  intros e x l Hwf Hg Hrace.
  apply race_on_ordered in Hrace.
  destruct Hrace as (i & j & Hij & a & b & Ha & Hb & Hne & Hc & Hnhb & _).
  destruct Hc as (wa & aa & wb & ab & Haa & Hab & Hw & _).
  destruct (holds_at_least_mode _ _ _ _ _ (Hg i a wa aa Ha Haa)) as (m1 & Hh1 & Hm1).
  destruct (holds_at_least_mode _ _ _ _ _ (Hg j b wb ab Hb Hab)) as (m2 & Hh2 & Hm2).
  assert (Hm : m1 = Excl \/ m2 = Excl) by (destruct Hw as [Hw|Hw]; [left|right]; auto).
  apply Hnhb. eapply locked_pair_hb; eauto. rewrite Haa. discriminate.
Qed.

(* all accesses to x are atomic *)
Definition atomic_only_on (e : execution) (x : name) : Prop :=
  forall i ev w a, ev_at e i ev -> access_of (act ev) = Some (x, w, a) -> a = true.

Theorem atomic_only : forall e x, atomic_only_on e x -> ~ race_on e x.
Proof.
  intros e x Hat (i & j & a & b & Ha & Hb & _ & Hc & _).
  destruct Hc as (wa & aa & wb & ab & Haa & Hab & _ & [Hf|Hf]); subst.
  - specialize (Hat i a wa false Ha Haa). discriminate Hat.
  - specialize (Hat j b wb false Hb Hab). discriminate Hat.
Qed.

(* x is never written in the execution (read-only after construction) *)
Definition read_only_on (e : execution) (x : name) : Prop :=
  forall i ev w a, ev_at e i ev -> access_of (act ev) = Some (x, w, a) -> w = false.

Theorem read_only : forall e x, read_only_on e x -> ~ race_on e x.
Proof.
  intros e x Hro (i & j & a & b & Ha & Hb & _ & Hc & _).
  destruct Hc as (wa & aa & wb & ab & Haa & Hab & [Hw|Hw] & _); subst.
  - specialize (Hro i a true aa Ha Haa). discriminate Hro.
  - specialize (Hro j b true ab Hb Hab). discriminate Hro.
Qed.

(* x is written only by thread t and only before the event at index r of t (the
   publishing release); every access by another thread is a read that comes after an
   event q of that thread with r happens-before q. *)
Definition published_hb (e : execution) (x : name) (t : thread) (r : nat) : Prop :=
  (forall i ev a, ev_at e i ev -> access_of (act ev) = Some (x, true, a) ->
     tid ev = t /\ i < r /\ exists evr, ev_at e r evr /\ tid evr = t) /\
  (forall i ev w a, ev_at e i ev -> access_of (act ev) = Some (x, w, a) -> tid ev <> t ->
     w = false /\ exists q evq, q < i /\ ev_at e q evq /\ tid evq = tid ev /\ hb e r q).

(* the same with a DIRECT synchronisation edge: the reader's acquire q synchronises with
   the writer's release r (same lock / atomic location / channel / pool / once) *)
Definition published (e : execution) (x : name) (t : thread) (r : nat) : Prop :=
  (forall i ev a, ev_at e i ev -> access_of (act ev) = Some (x, true, a) ->
     tid ev = t /\ i < r /\ exists evr, ev_at e r evr /\ tid evr = t) /\
  (forall i ev w a, ev_at e i ev -> access_of (act ev) = Some (x, w, a) -> tid ev <> t ->
     w = false /\ exists q evq, q < i /\ ev_at e q evq /\ tid evq = tid ev /\ sw e r q).

Theorem publish_once_hb : forall e x t r, published_hb e x t r -> ~ race_on e x.
Proof.
  intros e x t r (Hwr & Hrd) Hrace.
  apply race_on_ordered in Hrace.
  destruct Hrace as (i & j & Hij & a & b & Ha & Hb & Hne & Hc & Hnhb & _).
  destruct Hc as (wa & aa & wb & ab & Haa & Hab & Hw & _).
  destruct Hw as [-> | ->].
  - (* the earlier event writes: it is the creator's, before r *)
    destruct (Hwr i a aa Ha Haa) as (Hta & Hir & evr & Hevr & Htr).
    assert (Htb : tid b <> t) by congruence.
    destruct (Hrd j b wb ab Hb Hab Htb) as (_ & q & evq & Hqj & Hevq & Htq & Hhb).
    apply Hnhb.
    apply hb_trans with r.
    { apply hb_po. eapply po_intro; eauto. congruence. }
    apply hb_trans with q; [exact Hhb|].
    apply hb_po. eapply po_intro; eauto.
  - (* the later event writes (before r); the earlier one is a foreign access after r *)
    destruct (Hwr j b ab Hb Hab) as (Htb & Hjr & _).
    assert (Hta : tid a <> t) by congruence.
    destruct (Hrd i a wa aa Ha Haa Hta) as (_ & q & evq & Hqi & _ & _ & Hhb).
    apply hb_lt in Hhb. lia.
Qed.

Lemma published_published_hb e x t r : published e x t r -> published_hb e x t r.
Proof.
  intros (H2 & H3). split; [exact H2|].
  intros i ev w a Hev Hacc Hne.
  destruct (H3 i ev w a Hev Hacc Hne) as (Hw & q & evq & Hq & Hevq & Htq & Hsw).
  split; [exact Hw|]. exists q, evq. repeat split; try assumption. now apply hb_sw.
Qed.

Theorem publish_once : forall e x t r, published e x t r -> ~ race_on e x.
Proof.
  intros e x t r H. apply publish_once_hb with t r. now apply published_published_hb.
Qed.

(* initialised by its creator t before the event r of t, afterwards accessed only under lock l
   (writers exclusively) by accesses that r happens-before: lazily created, then lock-protected
   state (the combination of the two previous disciplines) *)
Definition init_then_guarded (e : execution) (x l : name) (t : thread) (r : nat) : Prop :=
  forall i ev w a, ev_at e i ev -> access_of (act ev) = Some (x, w, a) ->
    (tid ev = t /\ i < r /\ exists evr, ev_at e r evr /\ tid evr = t) \/
    (hb e r i /\ holds_at_least e (tid ev) l (if w then Excl else Shared) i).

Theorem init_then_guarded_by : forall e x l t r,
  wf e -> init_then_guarded e x l t r -> ~ race_on e x.
Proof.
  intros e x l t r Hwf Hig Hrace.
  apply race_on_ordered in Hrace.
  destruct Hrace as (i & j & Hij & a & b & Ha & Hb & Hne & Hc & Hnhb & _).
  destruct Hc as (wa & aa & wb & ab & Haa & Hab & Hw & _).
  destruct (Hig i a wa aa Ha Haa) as [(Hta & Hir & evr & Hevr & Htr)|(Hra & Hla)];
  destruct (Hig j b wb ab Hb Hab) as [(Htb & Hjr & evr' & Hevr' & Htr')|(Hrb & Hlb)].
  - congruence.
  - apply Hnhb. apply hb_trans with r; [|exact Hrb].
    apply hb_po. eapply po_intro; eauto. congruence.
  - apply hb_lt in Hra. lia.
  - destruct (holds_at_least_mode _ _ _ _ _ Hla) as (m1 & Hh1 & Hm1).
    destruct (holds_at_least_mode _ _ _ _ _ Hlb) as (m2 & Hh2 & Hm2).
    assert (Hm : m1 = Excl \/ m2 = Excl) by (destruct Hw as [Hw|Hw]; [left|right]; auto).
    apply Hnhb. eapply locked_pair_hb; eauto. rewrite Haa. discriminate.
Qed.

Lemma holds_at_least_weaken e t l m i :
  holds_at_least e t l m i -> holds_at_least e t l Shared i.
Proof. destruct m; cbn; intros H; [now right|exact H]. Qed.

(* ---------- executable checkers (used for the concrete examples) ---------- *)

Definition evb (e : execution) (k : nat) (f : event -> bool) : bool :=
  match nth_error e k with Some ev => f ev | None => false end.

Definition is_actb (t : thread) (a : action) (ev : event) : bool :=
  Nat.eqb (tid ev) t && (if action_eq_dec (act ev) a then true else false).

Lemma is_actb_true t a ev : is_actb t a ev = true <-> tid ev = t /\ act ev = a.
Proof.
  unfold is_actb. rewrite andb_true_iff, Nat.eqb_eq.
  destruct (action_eq_dec (act ev) a); intuition congruence.
Qed.

Definition holdsb (e : execution) (t : thread) (l : name) (m : mode) (i : nat) : bool :=
  existsb (fun p => evb e p (is_actb t (Acq l m)) &&
                    forallb (fun k => negb (evb e k (is_actb t (Rel l m)))) (seq (S p) (i - S p)))
          (seq 0 i).

Lemma evb_true e k f : evb e k f = true <-> exists ev, ev_at e k ev /\ f ev = true.
Proof.
  unfold evb, ev_at. destruct (nth_error e k) as [ev|].
  - split; [intros H; now exists ev|intros (ev' & H & Hf); now injection H as <-].
  - split; [discriminate|intros (ev' & H & _); discriminate].
Qed.

Lemma holdsb_true e t l m i : holdsb e t l m i = true <-> holds e t l m i.
Proof.
  unfold holdsb, holds. rewrite existsb_exists. split.
  - intros (p & Hin & H). apply in_seq in Hin. apply andb_true_iff in H as [Hacq Hno].
    apply evb_true in Hacq as (ev & Hev & Hf). apply is_actb_true in Hf as [Ht Ha].
    exists p. split; [lia|]. split; [now exists ev|].
    intros k ev' Hk Hev' Hrel.
    rewrite forallb_forall in Hno.
    assert (Hk' : In k (seq (S p) (i - S p))) by (apply in_seq; lia).
    specialize (Hno k Hk'). apply negb_true_iff in Hno.
    assert (Ht' : evb e k (is_actb t (Rel l m)) = true).
    { apply evb_true. exists ev'. split; [exact Hev'|]. now apply is_actb_true. }
    congruence.
  - intros (p & Hp & (ev & Hev & Ht & Ha) & Hno).
    exists p. split; [apply in_seq; lia|]. apply andb_true_iff. split.
    + apply evb_true. exists ev. split; [exact Hev|]. now apply is_actb_true.
    + apply forallb_forall. intros k Hk. apply in_seq in Hk. apply negb_true_iff.
      destruct (evb e k (is_actb t (Rel l m))) eqn:E; [|reflexivity].
      exfalso. apply evb_true in E as (ev' & Hev' & Hf). apply is_actb_true in Hf.
      apply (Hno k ev'); [lia|exact Hev'|exact Hf].
Qed.

Lemma holds_tid_in e t l m i : holds e t l m i -> In t (map tid e).
Proof.
  intros (p & _ & (ev & Hev & Ht & _) & _). subst t. apply in_map.
  eapply nth_error_In. exact Hev.
Qed.

Definition wf_eventb (e : execution) (i : nat) : bool :=
  match nth_error e i with
  | None => true
  | Some ev =>
      match act ev with
      | Acq l m =>
          forallb (fun t' => negb (holdsb e t' l Excl i) &&
                             match m with Excl => negb (holdsb e t' l Shared i) | Shared => true end)
                  (map tid e)
      | Rel l m => holdsb e (tid ev) l m i
      | Fork c => forallb (fun j => negb (evb e j (fun b => Nat.eqb (tid b) c))) (seq 0 (S i))
      | _ => true
      end
  end.

Definition wfb (e : execution) : bool := forallb (wf_eventb e) (seq 0 (List.length e)).

Lemma wfb_sound e : wfb e = true -> wf e.
Proof.
  unfold wfb. rewrite forallb_forall. intros H.
  assert (Hi : forall i ev, ev_at e i ev -> wf_eventb e i = true).
  { intros i ev Hev. apply H. apply in_seq. apply ev_at_lt in Hev. lia. }
  constructor.
  - intros i ev l m Hev Ha t'. specialize (Hi i ev Hev).
    unfold wf_eventb in Hi. unfold ev_at in Hev. rewrite Hev, Ha in Hi.
    rewrite forallb_forall in Hi.
    split.
    + intros Hh. pose proof (holds_tid_in _ _ _ _ _ Hh) as Hin.
      specialize (Hi t' Hin). apply andb_true_iff in Hi as [Hi _].
      apply negb_true_iff in Hi. apply holdsb_true in Hh. congruence.
    + intros -> Hh. pose proof (holds_tid_in _ _ _ _ _ Hh) as Hin.
      specialize (Hi t' Hin). apply andb_true_iff in Hi as [_ Hi].
      apply negb_true_iff in Hi. apply holdsb_true in Hh. congruence.
  - intros i ev l m Hev Ha. specialize (Hi i ev Hev).
    unfold wf_eventb in Hi. unfold ev_at in Hev. rewrite Hev, Ha in Hi.
    now apply holdsb_true.
  - intros i j a b c Ha Hact Hb Htb. specialize (Hi i a Ha).
    unfold wf_eventb in Hi. unfold ev_at in Ha. rewrite Ha, Hact in Hi.
    rewrite forallb_forall in Hi.
    destruct (lt_dec i j) as [Hlt|Hge]; [exact Hlt|exfalso].
    assert (Hin : In j (seq 0 (S i))) by (apply in_seq; lia).
    specialize (Hi j Hin). apply negb_true_iff in Hi.
    assert (Ht : evb e j (fun b0 => Nat.eqb (tid b0) c) = true).
    { apply evb_true. exists b. split; [exact Hb|]. now apply Nat.eqb_eq. }
    congruence.
Qed.
