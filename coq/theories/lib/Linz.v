(* Linearizability: from the LINEARISATION-POINT form to the TEXTBOOK (Herlihy-Wing, permutation)
   form, once and for all objects (DESIGN 3.2 / 12.9).  Library file: definitions + lemmas.

   PART 1 (Section Linz) — abstract call identifiers.
     A history is a list of events, OLDEST FIRST (chronological),
         Inv i o     call i is invoked with operation (and arguments) o
         Lin i o r   the marked (linearisation) step of call i, with the result r it fixes
         Res i r     call i returns r
     The sequential specification is a relation  sstep s o r s'  ("in state s operation o may return
     r and leave state s'"; a function  spec : state -> op -> state * res  is the special case
     [fun_step spec]; partial / blocking / nondeterministic specifications are covered as well).
     Linearisation-point form = hypotheses of [linpoint_textbook]:
       (H1) [lin_wf h]: a Lin comes after the Inv of its call (same operation), each call has at most
            one Lin, no Lin before the Inv, and a Res only after a Lin of the call with the same result;
       (H2) [legal s0 (map call_or (lin_items h)) s']: replaying the Lin events in history order
            through the specification from s0 is legal (each carries a result the specification
            allows there) and ends in s'.
     Textbook form = conclusion, about the VISIBLE history (invocations and responses only):
       [linearizable_to s0 (visible h) s']: there is a sequential history S (list of (id, op, res),
       oldest first) without repeated identifiers, containing only invoked calls with their
       arguments, containing every completed call with exactly the result it returned (pending calls
       may or may not be in S), legal for the specification from s0 (ending in s'), in which a is
       before b whenever the response of a precedes the invocation of b in the history.
       [linearization_of s0 h s' S] = these five clauses for a given S; the witness is
       S = [lin_items h], the calls in the order of their Lin events ([linpoint_textbook_witness]).
     [hist_wf thr h]: well-formedness of a visible history (one Inv, at most one Res per
       identifier, the Res after the Inv, each thread sequential) — not needed by the theorem,
       established for the histories of Part 2.
     [impossible_result_rejected], [single_call_rejected], [two_calls_rejected]: histories the
       definition rejects.

   PART 2 (Section Tagged) — what all models of this development record: events tagged with the
     THREAD only (TCall t o | TLin t o r | TRet t r), list NEWEST FIRST, each thread running its
     calls one after the other.  [vnumber] numbers the calls (identifier = (thread, k) for the
     k-th call of the thread) and yields the chronological visible history of Part 1
     ([vnumber_faithful]: erasing the numbers gives back the TCall / TRet events in order).
     Hypotheses of [tagged_textbook]:
       [twf late h]: for every thread the events follow (Call o . Lin o r . Ret r)* plus a prefix of
            such a block — or Call o . Ret r with [late o r], a call that takes effect AT its
            response (a read-only method whose return statement is evaluated under the lock; a
            blocking call that gives up with the context's error): it is linearised at the response;
       [legal s0 (treplay h) s']: the marked steps (and late responses), in order, replay through
            the specification.
     Conclusion: [hist_wf fst (vnumber h)] and [linearizable_to s0 (vnumber h) s'], with the witness
     [twitness h] ([tagged_textbook_witness]). *)
From Ekit Require Import Common Conc.
From Coq Require Import Arith PeanoNat.

Local Open Scope nat_scope.

(* ---------- list facts ---------- *)
Lemma lz_snoc_split {A} (H h1 h2 : list A) (e x : A) :
  H ++ [e] = h1 ++ x :: h2 ->
  (h2 = [] /\ x = e /\ h1 = H) \/ (exists h2', h2 = h2' ++ [e] /\ H = h1 ++ x :: h2').
Proof.
  revert H. induction h1 as [|a h1 IH]; intros H Heq; cbn [app] in Heq.
  - destruct H as [|a H]; cbn [app] in Heq.
    + injection Heq as <- <-. left. auto.
    + injection Heq as -> <-. right. exists H. auto.
  - destruct H as [|a' H]; cbn [app] in Heq.
    + injection Heq as _ Heq. destruct h1; discriminate.
    + injection Heq as -> Heq. destruct (IH H Heq) as [(E1 & E2 & E3)|(h2' & E1 & E2)].
      * left. subst. auto.
      * right. exists h2'. subst. auto.
Qed.

Lemma lz_filter_split {A} (f : A -> bool) (l : list A) X x Y :
  filter f l = X ++ x :: Y -> exists X' Y', l = X' ++ x :: Y' /\ filter f X' = X /\ filter f Y' = Y.
Proof.
  revert X. induction l as [|y l IH]; intros X E; cbn in E.
  - destruct X; discriminate.
  - destruct (f y) eqn:Ef.
    + destruct X as [|x0 X]; cbn in E.
      * injection E as -> E. exists [], l. cbn. auto.
      * injection E as -> E. destruct (IH X E) as (X' & Y' & E1 & E2 & E3).
        exists (x0 :: X'), Y'. cbn. rewrite Ef, E1, E2. auto.
    + destruct (IH X E) as (X' & Y' & E1 & E2 & E3).
      exists (y :: X'), Y'. cbn. rewrite Ef, E1, E2. auto.
Qed.

(* ====================================================================================== *)
Section Linz.
  Variables (id op res state : Type).
  Variable sstep : state -> op -> res -> state -> Prop.

  Inductive event :=
  | Inv (i : id) (o : op)
  | Lin (i : id) (o : op) (r : res)
  | Res (i : id) (r : res).

  Definition ev_id (e : event) : id := match e with Inv i _ | Lin i _ _ | Res i _ => i end.

  Definition call := (id * op * res)%type.
  Definition cid (x : call) : id := fst (fst x).
  Definition call_or (x : call) : op * res := (snd (fst x), snd x).

  (* a legal sequential execution of the specification *)
  Inductive legal : state -> list (op * res) -> state -> Prop :=
  | legal_nil s : legal s [] s
  | legal_cons s o r s1 l s2 : sstep s o r s1 -> legal s1 l s2 -> legal s ((o, r) :: l) s2.

  (* ---------- the textbook definition ---------- *)
  (* the response of a precedes the invocation of b *)
  Definition prec (h : list event) (a b : id) : Prop :=
    exists h1 h2 h3 r o, h = h1 ++ Res a r :: h2 ++ Inv b o :: h3.

  (* a stands before b in the sequential history *)
  Definition before (S : list call) (a b : id) : Prop :=
    exists S1 S2 S3 xa xb, S = S1 ++ xa :: S2 ++ xb :: S3 /\ cid xa = a /\ cid xb = b.

  Definition linearizable_to (s0 : state) (h : list event) (s' : state) : Prop :=
    exists S : list call,
      NoDup (map cid S) /\
      (forall i o r, In (i, o, r) S -> In (Inv i o) h) /\
      (forall i r, In (Res i r) h -> exists o, In (i, o, r) S) /\
      legal s0 (map call_or S) s' /\
      (forall a b, prec h a b -> In b (map cid S) -> before S a b).

  Definition linearizable (s0 : state) (h : list event) : Prop := exists s', linearizable_to s0 h s'.

  (* the history of invocations and responses *)
  Definition is_vis (e : event) : bool := match e with Lin _ _ _ => false | _ => true end.
  Definition visible (h : list event) : list event := filter is_vis h.

  (* ---------- the linearisation-point form ---------- *)
  Fixpoint lin_items (h : list event) : list call :=
    match h with
    | [] => []
    | Lin i o r :: h' => (i, o, r) :: lin_items h'
    | _ :: h' => lin_items h'
    end.

  Record lin_wf (h : list event) : Prop := {
    lw_inv : forall h1 i o r h2, h = h1 ++ Lin i o r :: h2 -> In (Inv i o) h1;
    lw_once : forall h1 i o r h2, h = h1 ++ Lin i o r :: h2 -> forall o' r', ~ In (Lin i o' r') h1;
    lw_fresh : forall h1 i o h2, h = h1 ++ Inv i o :: h2 -> forall o' r', ~ In (Lin i o' r') h1;
    lw_res : forall h1 i r h2, h = h1 ++ Res i r :: h2 -> exists o, In (Lin i o r) h1
  }.

  (* well-formedness of the visible history *)
  Record hist_wf (thr : id -> tid) (h : list event) : Prop := {
    hw_inv_once : forall h1 i o h2, h = h1 ++ Inv i o :: h2 -> forall o', ~ In (Inv i o') h1;
    hw_res_once : forall h1 i r h2, h = h1 ++ Res i r :: h2 -> forall r', ~ In (Res i r') h1;
    hw_res_inv : forall h1 i r h2, h = h1 ++ Res i r :: h2 -> exists o, In (Inv i o) h1;
    (* a thread invokes its next call only after all its earlier calls have returned *)
    hw_seq : forall h1 i o h2, h = h1 ++ Inv i o :: h2 ->
               forall j o', thr j = thr i -> In (Inv j o') h1 -> exists r, In (Res j r) h1
  }.

  (* ---------- lemmas ---------- *)
  Lemma lin_items_app h1 h2 : lin_items (h1 ++ h2) = lin_items h1 ++ lin_items h2.
  Proof.
    induction h1 as [|e h1 IH]; [reflexivity|].
    destruct e; cbn [app lin_items]; rewrite IH; reflexivity.
  Qed.

  Lemma in_lin_items h i o r : In (i, o, r) (lin_items h) <-> In (Lin i o r) h.
  Proof.
    induction h as [|e h IH]; [tauto|].
    destruct e as [j p|j p q|j q]; cbn [lin_items In]; rewrite IH; split.
    - auto.
    - intros [E|H]; [discriminate|exact H].
    - intros [E|H]; [injection E as -> -> ->; auto|auto].
    - intros [E|H]; [injection E as -> -> ->; auto|auto].
    - auto.
    - intros [E|H]; [discriminate|exact H].
  Qed.

  Lemma legal_app s l1 s1 l2 s2 : legal s l1 s1 -> legal s1 l2 s2 -> legal s (l1 ++ l2) s2.
  Proof.
    intros H1 H2. induction H1 as [s|s o r sa l sb Hs Hl IH]; [exact H2|].
    cbn [app]. econstructor; [exact Hs|apply IH, H2].
  Qed.

  Lemma legal_snoc s l s1 o r s2 : legal s l s1 -> sstep s1 o r s2 -> legal s (l ++ [(o, r)]) s2.
  Proof. intros H1 H2. eapply legal_app; [exact H1|]. econstructor; [exact H2|constructor]. Qed.

  Lemma legal_in s l s' o r : legal s l s' -> In (o, r) l -> exists s1 s2, sstep s1 o r s2.
  Proof.
    intros H. induction H as [s|s o1 r1 sa l sb Hs Hl IH]; [intros []|].
    intros [E|Hin]; [injection E as -> ->; eauto|auto].
  Qed.

  Lemma nodup_lin_items h : lin_wf h -> NoDup (map cid (lin_items h)).
  Proof.
    intros W. pose proof (lw_once h W) as Honce. clear W.
    induction h as [|e h IH] using rev_ind; [constructor|].
    rewrite lin_items_app, map_app.
    assert (IH' : NoDup (map cid (lin_items h))).
    { apply IH. intros h1 i o r h2 E. apply (Honce h1 i o r (h2 ++ [e])). rewrite E, <- app_assoc. reflexivity. }
    destruct e as [j p|j p q|j q]; cbn [lin_items map]; rewrite ?app_nil_r; try exact IH'.
    assert (Hn : ~ In j (map cid (lin_items h))).
    { intros Hin. apply in_map_iff in Hin. destruct Hin as ([[i o] r] & Ei & Hin). cbn in Ei. subst i.
      apply in_lin_items in Hin. exact (Honce h j p q [] eq_refl o r Hin). }
    clear -IH' Hn. induction (map cid (lin_items h)) as [|x l IHl]; cbn.
    - constructor; [tauto|constructor].
    - inversion IH' as [|? ? Hx Hl]; subst. constructor.
      + rewrite in_app_iff. cbn. intros [H|[H|[]]]; [tauto|]. subst. apply Hn. left. reflexivity.
      + apply IHl; [exact Hl|]. intros H. apply Hn. right. exact H.
  Qed.

  Lemma in_split_cid (S : list call) i o r : In (i, o, r) S -> exists S1 x S2, S = S1 ++ x :: S2 /\ cid x = i.
  Proof. intros H. apply in_split in H. destruct H as (S1 & S2 & E). exists S1, (i, o, r), S2. auto. Qed.

  Lemma prec_order h : lin_wf h ->
    forall a b, prec h a b -> In b (map cid (lin_items h)) -> before (lin_items h) a b.
  Proof.
    intros W a b (h1 & h2 & h3 & r & o & E) Hb.
    destruct (lw_res h W h1 a r _ E) as [oa Ha].
    apply in_map_iff in Hb. destruct Hb as ([[b' ob] rb] & Eb & Hb). cbn in Eb. subst b'.
    apply in_lin_items in Hb.
    assert (E' : h = (h1 ++ Res a r :: h2) ++ Inv b o :: h3) by (rewrite E, <- app_assoc; reflexivity).
    pose proof (lw_fresh h W _ b o _ E' ob rb) as Hfresh.
    assert (Hb3 : In (Lin b ob rb) h3).
    { rewrite E' in Hb. apply in_app_or in Hb. destruct Hb as [Hb|[Hb|Hb]]; [contradiction|discriminate|exact Hb]. }
    apply in_lin_items in Ha, Hb3.
    destruct (in_split_cid _ _ _ _ Ha) as (A & xa & B & EA & Exa).
    destruct (in_split_cid _ _ _ _ Hb3) as (C & xb & D & EC & Exb).
    exists A, (B ++ lin_items h2 ++ C), D, xa, xb. split; [|auto].
    rewrite E. rewrite lin_items_app. cbn [lin_items]. rewrite lin_items_app. cbn [lin_items].
    rewrite EA, EC. repeat (rewrite <- app_assoc || rewrite <- app_comm_cons). reflexivity.
  Qed.

  Lemma in_visible e h : In e (visible h) <-> In e h /\ is_vis e = true.
  Proof. unfold visible. apply filter_In. Qed.

  Lemma prec_visible h a b : prec (visible h) a b -> prec h a b.
  Proof.
    intros (h1 & h2 & h3 & r & o & E). unfold visible in E.
    destruct (lz_filter_split _ _ _ _ _ E) as (h1' & Y & E1 & _ & E3).
    destruct (lz_filter_split _ _ _ _ _ E3) as (h2' & h3' & E4 & _ & _).
    exists h1', h2', h3', r, o. rewrite E1, E4. reflexivity.
  Qed.

  (* the witness, on the full history (marked steps included) *)
  Lemma linpoint_witness s0 h s' :
    lin_wf h -> legal s0 (map call_or (lin_items h)) s' ->
    NoDup (map cid (lin_items h)) /\
    (forall i o r, In (i, o, r) (lin_items h) -> In (Inv i o) h) /\
    (forall i r, In (Res i r) h -> exists o, In (i, o, r) (lin_items h)) /\
    legal s0 (map call_or (lin_items h)) s' /\
    (forall a b, prec h a b -> In b (map cid (lin_items h)) -> before (lin_items h) a b).
  Proof.
    intros W Hl. split; [apply nodup_lin_items, W|]. split; [|split; [|split; [exact Hl|apply prec_order, W]]].
    - intros i o r Hin. apply in_lin_items in Hin. apply in_split in Hin. destruct Hin as (h1 & h2 & E).
      pose proof (lw_inv h W h1 i o r h2 E) as Hi. rewrite E. apply in_or_app. left. exact Hi.
    - intros i r Hin. apply in_split in Hin. destruct Hin as (h1 & h2 & E).
      destruct (lw_res h W h1 i r h2 E) as [o Ho]. exists o. apply in_lin_items. rewrite E.
      apply in_or_app. left. exact Ho.
  Qed.

  (* the five clauses of the textbook definition, for a given candidate S *)
  Definition linearization_of (s0 : state) (h : list event) (s' : state) (S : list call) : Prop :=
    NoDup (map cid S) /\
    (forall i o r, In (i, o, r) S -> In (Inv i o) h) /\
    (forall i r, In (Res i r) h -> exists o, In (i, o, r) S) /\
    legal s0 (map call_or S) s' /\
    (forall a b, prec h a b -> In b (map cid S) -> before S a b).

  Lemma linearization_of_linearizable s0 h s' S : linearization_of s0 h s' S -> linearizable_to s0 h s'.
  Proof. intros H. exists S. exact H. Qed.

  (* THEOREM: linearisation-point form => textbook form; the witness is the sequence of calls in
     the order of their marked steps *)
  Theorem linpoint_textbook_witness s0 h s' :
    lin_wf h -> legal s0 (map call_or (lin_items h)) s' ->
    linearization_of s0 (visible h) s' (lin_items h).
  Proof.
    intros W Hl. destruct (linpoint_witness s0 h s' W Hl) as (H1 & H2 & H3 & H4 & H5).
    split; [exact H1|]. split; [|split; [|split; [exact H4|]]].
    - intros i o r Hin. apply in_visible. split; [eauto|reflexivity].
    - intros i r Hin. apply in_visible in Hin. apply H3, Hin.
    - intros a b Hp Hb. apply H5; [apply prec_visible, Hp|exact Hb].
  Qed.

  Theorem linpoint_textbook s0 h s' :
    lin_wf h -> legal s0 (map call_or (lin_items h)) s' -> linearizable_to s0 (visible h) s'.
  Proof. intros W Hl. eapply linearization_of_linearizable, linpoint_textbook_witness; eassumption. Qed.

  (* the definition only looks at invocations and responses *)
  Lemma linearizable_to_visible s0 h s' : linearizable_to s0 h s' -> linearizable_to s0 (visible h) s'.
  Proof.
    intros (S & H1 & H2 & H3 & H4 & H5). exists S. split; [exact H1|]. split; [|split; [|split; [exact H4|]]].
    - intros i o r Hin. apply in_visible. split; [eauto|reflexivity].
    - intros i r Hin. apply in_visible in Hin. apply H3, Hin.
    - intros a b Hp Hb. apply H5; [apply prec_visible, Hp|exact Hb].
  Qed.

  (* ---------- extending a history by one event ---------- *)
  Lemma lin_wf_nil : lin_wf [].
  Proof. constructor; intros h1; intros; destruct h1; discriminate. Qed.

  Lemma lin_wf_snoc H x :
    lin_wf H ->
    match x with
    | Inv i o => forall o' r', ~ In (Lin i o' r') H
    | Lin i o r => In (Inv i o) H /\ forall o' r', ~ In (Lin i o' r') H
    | Res i r => exists o, In (Lin i o r) H
    end ->
    lin_wf (H ++ [x]).
  Proof.
    intros [W1 W2 W3 W4] Hx. constructor.
    - intros h1 i o r h2 E. destruct (lz_snoc_split _ _ _ _ _ E) as [(-> & <- & ->)|(h2' & -> & E')].
      + apply Hx.
      + eapply W1; eauto.
    - intros h1 i o r h2 E. destruct (lz_snoc_split _ _ _ _ _ E) as [(-> & <- & ->)|(h2' & -> & E')].
      + apply Hx.
      + eapply W2; eauto.
    - intros h1 i o h2 E. destruct (lz_snoc_split _ _ _ _ _ E) as [(-> & <- & ->)|(h2' & -> & E')].
      + apply Hx.
      + eapply W3; eauto.
    - intros h1 i r h2 E. destruct (lz_snoc_split _ _ _ _ _ E) as [(-> & <- & ->)|(h2' & -> & E')].
      + apply Hx.
      + eapply W4; eauto.
  Qed.

  Lemma hist_wf_nil thr : hist_wf thr [].
  Proof. constructor; intros h1; intros; destruct h1; discriminate. Qed.

  Lemma hist_wf_snoc thr H x :
    hist_wf thr H ->
    match x with
    | Inv i o => (forall o', ~ In (Inv i o') H) /\
                 (forall j o', thr j = thr i -> In (Inv j o') H -> exists r, In (Res j r) H)
    | Lin _ _ _ => True
    | Res i r => (forall r', ~ In (Res i r') H) /\ exists o, In (Inv i o) H
    end ->
    hist_wf thr (H ++ [x]).
  Proof.
    intros [W1 W2 W3 W4] Hx. constructor.
    - intros h1 i o h2 E. destruct (lz_snoc_split _ _ _ _ _ E) as [(-> & <- & ->)|(h2' & -> & E')].
      + apply Hx.
      + eapply W1; eauto.
    - intros h1 i r h2 E. destruct (lz_snoc_split _ _ _ _ _ E) as [(-> & <- & ->)|(h2' & -> & E')].
      + apply Hx.
      + eapply W2; eauto.
    - intros h1 i r h2 E. destruct (lz_snoc_split _ _ _ _ _ E) as [(-> & <- & ->)|(h2' & -> & E')].
      + apply Hx.
      + eapply W3; eauto.
    - intros h1 i o h2 E. destruct (lz_snoc_split _ _ _ _ _ E) as [(-> & <- & ->)|(h2' & -> & E')].
      + apply Hx.
      + eapply W4; eauto.
  Qed.

  Lemma hist_wf_visible thr h : hist_wf thr h -> hist_wf thr (visible h).
  Proof.
    intros [W1 W2 W3 W4].
    assert (Hsub : forall h1' e, In e (filter is_vis h1') -> In e h1') by (intros h1' e He; apply filter_In in He; tauto).
    constructor.
    - intros h1 i o h2 E. destruct (lz_filter_split _ _ _ _ _ E) as (h1' & h2' & E1 & <- & _).
      intros o' Hin. exact (W1 _ _ _ _ E1 o' (Hsub _ _ Hin)).
    - intros h1 i r h2 E. destruct (lz_filter_split _ _ _ _ _ E) as (h1' & h2' & E1 & <- & _).
      intros r' Hin. exact (W2 _ _ _ _ E1 r' (Hsub _ _ Hin)).
    - intros h1 i r h2 E. destruct (lz_filter_split _ _ _ _ _ E) as (h1' & h2' & E1 & <- & _).
      destruct (W3 _ _ _ _ E1) as [o Ho]. exists o. apply filter_In. auto.
    - intros h1 i o h2 E. destruct (lz_filter_split _ _ _ _ _ E) as (h1' & h2' & E1 & <- & _).
      intros j o' Et Hin. destruct (W4 _ _ _ _ E1 j o' Et (Hsub _ _ Hin)) as [r Hr].
      exists r. apply filter_In. auto.
  Qed.

  (* ---------- what the definition rejects ---------- *)
  (* a completed call whose result the specification cannot produce in ANY state *)
  Theorem impossible_result_rejected s0 h i o r :
    In (Res i r) h -> (forall o', In (Inv i o') h -> o' = o) ->
    (forall s s', ~ sstep s o r s') -> ~ linearizable s0 h.
  Proof.
    intros Hres Huniq Himp (s' & S & _ & Hinv & Hcomp & Hleg & _).
    destruct (Hcomp i r Hres) as [o' Ho']. pose proof (Huniq o' (Hinv _ _ _ Ho')) as ->.
    destruct (legal_in _ _ _ o r Hleg) as (s1 & s2 & Hs).
    - apply in_map_iff. exists (i, o, r). split; [reflexivity|exact Ho'].
    - exact (Himp _ _ Hs).
  Qed.

  (* a single call, alone in the history, returning what the specification does not allow in the
     initial state *)
  Theorem single_call_rejected s0 i o r :
    (forall s', ~ sstep s0 o r s') -> ~ linearizable s0 [Inv i o; Res i r].
  Proof.
    intros Himp (s' & S & Hnd & Hinv & Hcomp & Hleg & _).
    destruct (Hcomp i r) as [o' Ho']; [right; left; reflexivity|].
    assert (Hall : forall x, In x S -> cid x = i /\ snd (fst x) = o).
    { intros [[j p] q] Hx. specialize (Hinv j p q Hx). destruct Hinv as [E|[E|[]]]; [|discriminate].
      injection E as <- <-. auto. }
    destruct S as [|x S]; [contradiction|].
    destruct S as [|y S].
    - destruct Ho' as [->|[]]. cbn in Hleg. inversion Hleg as [|? ? ? s1 ? ? Hs _]; subst.
      destruct (Hall (i, o', r)) as [_ E]; [left; reflexivity|]. cbn in E. subst o'.
      exact (Himp _ Hs).
    - cbn [map] in Hnd. inversion Hnd as [|? ? Hn _]; subst. apply Hn. left.
      destruct (Hall x) as [-> _]; [left; reflexivity|]. destruct (Hall y) as [-> _]; [right; left; reflexivity|].
      reflexivity.
  Qed.
  (* two calls one after the other (the first has returned before the second is invoked): the
     second result must be possible in the state the first one leaves *)
  Theorem two_calls_rejected s0 a oa ra b ob rb :
    a <> b ->
    (forall s1 s2, sstep s0 oa ra s1 -> ~ sstep s1 ob rb s2) ->
    ~ linearizable s0 [Inv a oa; Res a ra; Inv b ob; Res b rb].
  Proof.
    intros Hab Himp (s' & S & Hnd & Hinv & Hcomp & Hleg & Hrt).
    destruct (Hcomp a ra) as [oa' Ha]; [right; left; reflexivity|].
    destruct (Hcomp b rb) as [ob' Hb]; [do 3 right; left; reflexivity|].
    assert (Eoa : oa' = oa).
    { destruct (Hinv _ _ _ Ha) as [E|[E|[E|[E|[]]]]]; try discriminate; injection E; intros; congruence. }
    assert (Eob : ob' = ob).
    { destruct (Hinv _ _ _ Hb) as [E|[E|[E|[E|[]]]]]; try discriminate; injection E; intros; congruence. }
    subst oa' ob'.
    assert (Hbef : before S a b).
    { apply Hrt.
      - exists [Inv a oa], [], [Res b rb], ra, ob. reflexivity.
      - apply in_map_iff. exists (b, ob, rb). auto. }
    destruct Hbef as (S1 & S2 & S3 & xa & xb & ES & Ea & Eb).
    assert (Hincl : incl (map cid S) [a; b]).
    { intros i Hi. apply in_map_iff in Hi. destruct Hi as ([[j o] r] & Ej & Hx). cbn in Ej. subst j.
      destruct (Hinv _ _ _ Hx) as [E|[E|[E|[E|[]]]]]; try discriminate; injection E as <- _;
        [left|right; left]; reflexivity. }
    pose proof (NoDup_incl_length Hnd Hincl) as Hlen. rewrite map_length, ES in Hlen.
    rewrite app_length in Hlen. cbn [length] in Hlen. rewrite app_length in Hlen. cbn [length] in Hlen.
    destruct S1; [|cbn [length] in Hlen; lia]. destruct S2; [|cbn [length] in Hlen; lia].
    destruct S3; [|cbn [length] in Hlen; lia].
    cbn [app] in ES. subst S.
    destruct Ha as [E|[E|[]]]; [|rewrite E in Eb; cbn in Eb; congruence].
    destruct Hb as [E'|[E'|[]]]; [rewrite E' in Ea; cbn in Ea; congruence|].
    subst xa xb. cbn in Hleg.
    inversion Hleg as [|? ? ? s1 ? ? Hs1 Hl1]; subst.
    inversion Hl1 as [|? ? ? s2 ? ? Hs2 Hl2]; subst.
    exact (Himp _ _ Hs1 Hs2).
  Qed.
End Linz.

Arguments Inv {id op res}. Arguments Lin {id op res}. Arguments Res {id op res}.
Arguments ev_id {id op res}.
Arguments cid {id op res}. Arguments call_or {id op res}.
Arguments legal {op res state}.
Arguments prec {id op res}. Arguments before {id op res}.
Arguments linearizable_to {id op res state}.
Arguments linearizable {id op res state}.
Arguments linearization_of {id op res state}.
Arguments is_vis {id op res}. Arguments visible {id op res}.
Arguments lin_items {id op res}.
Arguments lin_wf {id op res}.
Arguments hist_wf {id op res}.

(* a deterministic, total specification given as a function *)
Definition fun_step {state op res} (spec : state -> op -> state * res) : state -> op -> res -> state -> Prop :=
  fun s o r s' => spec s o = (s', r).

(* ====================================================================================== *)
Section Tagged.
  Variables (op res state : Type).
  Variable sstep : state -> op -> res -> state -> Prop.
  Variable late : op -> res -> Prop.

  (* what the models record: events tagged with the thread; lists NEWEST FIRST *)
  Inductive tev :=
  | TCall (t : tid) (o : op)
  | TLin (t : tid) (o : op) (r : res)
  | TRet (t : tid) (r : res).

  Definition tev_tid (e : tev) : tid := match e with TCall t _ | TLin t _ _ | TRet t _ => t end.

  Inductive tphase :=
  | TIdle
  | TCalled (o : op)
  | TLinned (o : op) (r : res).

  Inductive tadvance : tphase -> tev -> tphase -> Prop :=
  | ta_call t o : tadvance TIdle (TCall t o) (TCalled o)
  | ta_lin t o r : tadvance (TCalled o) (TLin t o r) (TLinned o r)
  | ta_ret t o r : tadvance (TLinned o r) (TRet t r) TIdle
  | ta_late t o r : late o r -> tadvance (TCalled o) (TRet t r) TIdle.

  Inductive tphase_of (t : tid) : list tev -> tphase -> Prop :=
  | tp_nil : tphase_of t [] TIdle
  | tp_other e h p : tev_tid e <> t -> tphase_of t h p -> tphase_of t (e :: h) p
  | tp_own e h p p' : tev_tid e = t -> tphase_of t h p -> tadvance p e p' -> tphase_of t (e :: h) p'.

  Definition twf (h : list tev) : Prop := forall t, exists p, tphase_of t h p.

  (* ---------- numbering the calls: identifier = (thread, k) for the thread's k-th call ---------- *)
  Definition opid := (tid * nat)%type.
  Definition nev := event opid op res.

  Fixpoint ncalls (t : tid) (h : list tev) : nat :=
    match h with
    | [] => 0
    | TCall t' _ :: r => (if Nat.eqb t' t then 1 else 0) + ncalls t r
    | _ :: r => ncalls t r
    end.

  (* the identifier of the latest call of t *)
  Definition cur (t : tid) (h : list tev) : opid := (t, ncalls t h - 1).

  (* the operation of t's call in flight that has not passed a marked step *)
  Fixpoint pending (t : tid) (h : list tev) : option op :=
    match h with
    | [] => None
    | e :: h' =>
      if Nat.eqb (tev_tid e) t then match e with TCall _ o => Some o | _ => None end
      else pending t h'
    end.

  (* the visible history: chronological, calls numbered *)
  Definition vnumber1 (e : tev) (h : list tev) : list nev :=
    match e with
    | TCall t o => [Inv (t, ncalls t h) o]
    | TLin _ _ _ => []
    | TRet t r => [Res (cur t h) r]
    end.
  Fixpoint vnumber (h : list tev) : list nev :=
    match h with [] => [] | e :: h' => vnumber h' ++ vnumber1 e h' end.

  (* the same with the marked steps; a late response is preceded by its linearisation event *)
  Definition number1 (e : tev) (h : list tev) : list nev :=
    match e with
    | TCall t o => [Inv (t, ncalls t h) o]
    | TLin t o r => [Lin (cur t h) o r]
    | TRet t r =>
      match pending t h with
      | Some o => [Lin (cur t h) o r; Res (cur t h) r]
      | None => [Res (cur t h) r]
      end
    end.
  Fixpoint number (h : list tev) : list nev :=
    match h with [] => [] | e :: h' => number h' ++ number1 e h' end.

  (* the marked steps and late responses, oldest first *)
  Definition treplay1 (e : tev) (h : list tev) : list (op * res) :=
    match e with
    | TCall _ _ => []
    | TLin _ o r => [(o, r)]
    | TRet t r => match pending t h with Some o => [(o, r)] | None => [] end
    end.
  Fixpoint treplay (h : list tev) : list (op * res) :=
    match h with [] => [] | e :: h' => treplay h' ++ treplay1 e h' end.

  (* erasing the identifiers gives back the recorded invocations and responses *)
  Definition untag (e : nev) : tev :=
    match e with Inv i o => TCall (fst i) o | Lin i o r => TLin (fst i) o r | Res i r => TRet (fst i) r end.
  Definition tvis (e : tev) : bool := match e with TLin _ _ _ => false | _ => true end.

  Lemma vnumber_faithful h : map untag (vnumber h) = rev (filter tvis h).
  Proof.
    induction h as [|e h IH]; [reflexivity|].
    cbn [vnumber filter]. rewrite map_app, IH.
    destruct e as [t o|t o r|t r]; cbn; rewrite ?app_nil_r; reflexivity.
  Qed.

  Lemma visible_number h : visible (number h) = vnumber h.
  Proof.
    induction h as [|e h IH]; [reflexivity|].
    cbn [number vnumber]. unfold visible in *. rewrite filter_app. f_equal; [exact IH|].
    destruct e as [t o|t o r|t r]; cbn; [reflexivity|reflexivity|].
    destruct (pending t h); reflexivity.
  Qed.

  Lemma replay_number h : map call_or (lin_items (number h)) = treplay h.
  Proof.
    induction h as [|e h IH]; [reflexivity|].
    cbn [number treplay]. rewrite lin_items_app, map_app. f_equal; [exact IH|].
    destruct e as [t o|t o r|t r]; cbn; [reflexivity|reflexivity|].
    destruct (pending t h); reflexivity.
  Qed.

  (* ---------- phases ---------- *)
  Lemma twf_tail e h : twf (e :: h) -> twf h.
  Proof.
    intros W t. destruct (W t) as [p Hp]. inversion Hp; subst; eauto.
  Qed.

  Lemma twf_head e h : twf (e :: h) -> exists p p', tphase_of (tev_tid e) h p /\ tadvance p e p'.
  Proof.
    intros W. destruct (W (tev_tid e)) as [p Hp]. inversion Hp; subst; [congruence|eauto].
  Qed.

  Lemma pending_phase t h p :
    tphase_of t h p -> pending t h = match p with TCalled o => Some o | _ => None end.
  Proof.
    intros H. induction H as [|e h p Hne H IH|e h p p' He H IH Ha]; [reflexivity| |].
    - cbn [pending]. apply Nat.eqb_neq in Hne. rewrite Hne. exact IH.
    - cbn [pending]. apply Nat.eqb_eq in He. rewrite He. destruct Ha; reflexivity.
  Qed.

  Lemma ncalls_other e h t : tev_tid e <> t -> ncalls t (e :: h) = ncalls t h.
  Proof.
    intros Hne. destruct e as [t' o|t' o r|t' r]; cbn [ncalls]; try reflexivity.
    cbn in Hne. apply Nat.eqb_neq in Hne. rewrite Hne. reflexivity.
  Qed.

  Lemma ncalls_mono e h t : ncalls t h <= ncalls t (e :: h).
  Proof. destruct e as [t' o|t' o r|t' r]; cbn [ncalls]; lia. Qed.

  Lemma number1_tid e h x : In x (number1 e h) -> fst (ev_id x) = tev_tid e.
  Proof.
    destruct e as [t o|t o r|t r]; cbn [number1].
    - intros [<-|[]]. reflexivity.
    - intros [<-|[]]. reflexivity.
    - destruct (pending t h); cbn [In]; [intros [<-|[<-|[]]]|intros [<-|[]]]; reflexivity.
  Qed.

  (* what the phase of a thread says about the numbered history *)
  Definition earlier_done (h : list tev) (t : tid) : Prop :=
    forall k o, In (Inv (t, k) o) (number h) -> (t, k) <> cur t h -> exists r, In (Res (t, k) r) (number h).

  Definition tinv (h : list tev) (t : tid) (p : tphase) : Prop :=
    match p with
    | TIdle => forall k o, In (Inv (t, k) o) (number h) -> exists r, In (Res (t, k) r) (number h)
    | TCalled o =>
      1 <= ncalls t h /\ In (Inv (cur t h) o) (number h) /\
      (forall o' r', ~ In (Lin (cur t h) o' r') (number h)) /\
      (forall r', ~ In (Res (cur t h) r') (number h)) /\ earlier_done h t
    | TLinned o r =>
      1 <= ncalls t h /\ In (Inv (cur t h) o) (number h) /\ In (Lin (cur t h) o r) (number h) /\
      (forall r', ~ In (Res (cur t h) r') (number h)) /\ earlier_done h t
    end.

  Definition tbound (h : list tev) : Prop :=
    forall x, In x (number h) -> snd (ev_id x) < ncalls (fst (ev_id x)) h.

  Lemma opid_eq_dec (a b : opid) : {a = b} + {a <> b}.
  Proof. decide equality; apply Nat.eq_dec. Qed.

  Lemma tinv_other e h t p : tev_tid e <> t -> tinv h t p -> tinv (e :: h) t p.
  Proof.
    intros Hne I.
    assert (Hc : cur t (e :: h) = cur t h) by (unfold cur; rewrite ncalls_other by exact Hne; reflexivity).
    assert (Hnew : forall x, In x (number1 e h) -> fst (ev_id x) <> t).
    { intros x Hx. rewrite (number1_tid _ _ _ Hx). exact Hne. }
    assert (Hneg : forall x, fst (ev_id x) = t -> ~ In x (number h) -> ~ In x (number (e :: h))).
    { intros x Ex Hn Hin. cbn [number] in Hin. apply in_app_or in Hin. destruct Hin as [Hin|Hin]; [auto|].
      exact (Hnew x Hin Ex). }
    assert (Hpos : forall x, In x (number h) -> In x (number (e :: h))).
    { intros x Hx. cbn [number]. apply in_or_app. auto. }
    assert (Hold : forall x, fst (ev_id x) = t -> In x (number (e :: h)) -> In x (number h)).
    { intros x Ex Hin. cbn [number] in Hin. apply in_app_or in Hin. destruct Hin as [Hin|Hin]; [auto|].
      exfalso. exact (Hnew x Hin Ex). }
    assert (Hed : earlier_done h t -> earlier_done (e :: h) t).
    { intros Hd k o Hin Hk. rewrite Hc in Hk. destruct (Hd k o (Hold (Inv (t, k) o) eq_refl Hin) Hk) as [r Hr]. eauto. }
    destruct p as [|o|o r]; unfold tinv in *.
    - intros k o Hin. destruct (I k o (Hold (Inv (t, k) o) eq_refl Hin)) as [r Hr]. eauto.
    - destruct I as (A & B & C & D & E). rewrite Hc, ncalls_other by exact Hne.
      split; [exact A|]. split; [auto|]. split; [|split; [|auto]].
      + intros o' r'. apply Hneg; [reflexivity|apply C].
      + intros r'. apply Hneg; [reflexivity|apply D].
    - destruct I as (A & B & C & D & E). rewrite Hc, ncalls_other by exact Hne.
      split; [exact A|]. split; [auto|]. split; [auto|]. split; [|auto].
      intros r'. apply Hneg; [reflexivity|apply D].
  Qed.

  Lemma tinv_own e h p p' :
    tbound h -> tinv h (tev_tid e) p -> tphase_of (tev_tid e) h p -> tadvance p e p' ->
    tinv (e :: h) (tev_tid e) p'.
  Proof.
    intros Hb I Hph Ha. pose proof (pending_phase _ _ _ Hph) as Hpd.
    destruct Ha as [t o|t o r|t o r|t o r Hlate]; cbn [tev_tid] in *; unfold tinv in *.
    - (* invocation *)
      assert (Hc : cur t (TCall t o :: h) = (t, ncalls t h)).
      { unfold cur. cbn [ncalls]. rewrite Nat.eqb_refl. f_equal. lia. }
      assert (Hfresh : forall x, In x (number h) -> ev_id x <> (t, ncalls t h)).
      { intros x Hx E. apply Hb in Hx. rewrite E in Hx. cbn in Hx. lia. }
      rewrite Hc. cbn [number number1 ncalls]. rewrite Nat.eqb_refl.
      split; [lia|]. split; [apply in_or_app; right; left; reflexivity|]. split; [|split].
      + intros o' r' Hin. apply in_app_or in Hin. destruct Hin as [Hin|[Hin|[]]]; [|discriminate].
        exact (Hfresh _ Hin eq_refl).
      + intros r' Hin. apply in_app_or in Hin. destruct Hin as [Hin|[Hin|[]]]; [|discriminate].
        exact (Hfresh _ Hin eq_refl).
      + intros k o' Hin Hk. fold (number (TCall t o :: h)) in Hk. rewrite Hc in Hk.
        apply in_app_or in Hin. destruct Hin as [Hin|[Hin|[]]]; [|injection Hin as <- _; congruence].
        destruct (I k o' Hin) as [r Hr]. exists r. apply in_or_app. auto.
    - (* marked step *)
      destruct I as (A & B & C & D & E).
      assert (Hc : cur t (TLin t o r :: h) = cur t h) by reflexivity.
      rewrite Hc. cbn [number number1 ncalls].
      split; [exact A|]. split; [apply in_or_app; auto|]. split; [apply in_or_app; right; left; reflexivity|].
      split.
      + intros r' Hin. apply in_app_or in Hin. destruct Hin as [Hin|[Hin|[]]]; [exact (D _ Hin)|discriminate].
      + intros k o' Hin Hk. apply in_app_or in Hin. destruct Hin as [Hin|[Hin|[]]]; [|discriminate].
        destruct (E k o' Hin Hk) as [r0 Hr]. exists r0. apply in_or_app. auto.
    - (* response after a marked step *)
      destruct I as (A & B & C & D & E). cbn [number number1]. rewrite Hpd.
      intros k o' Hin. apply in_app_or in Hin. destruct Hin as [Hin|[Hin|[]]]; [|discriminate].
      destruct (opid_eq_dec (t, k) (cur t h)) as [Ek|Hk].
      + exists r. apply in_or_app. right. left. rewrite Ek. reflexivity.
      + destruct (E k o' Hin Hk) as [r0 Hr]. exists r0. apply in_or_app. auto.
    - (* late response *)
      destruct I as (A & B & C & D & E). cbn [number number1]. rewrite Hpd.
      intros k o' Hin. apply in_app_or in Hin. destruct Hin as [Hin|[Hin|[Hin|[]]]]; [|discriminate|discriminate].
      destruct (opid_eq_dec (t, k) (cur t h)) as [Ek|Hk].
      + exists r. apply in_or_app. right. right. left. rewrite Ek. reflexivity.
      + destruct (E k o' Hin Hk) as [r0 Hr]. exists r0. apply in_or_app. auto.
  Qed.

  Lemma tinv_holds h : twf h -> (forall t p, tphase_of t h p -> tinv h t p) /\ tbound h.
  Proof.
    induction h as [|e h IH]; intros W.
    - split; [|intros x []]. intros t p Hp. inversion Hp; subst. intros k o [].
    - destruct (IH (twf_tail _ _ W)) as [IHi IHb].
      destruct (twf_head _ _ W) as (p0 & p0' & Hp0 & Ha0).
      split.
      + intros t p Hp. inversion Hp as [|? ? ? Hne Hp1|? ? p1 ? He Hp1 Ha]; subst.
        * apply tinv_other; [exact Hne|apply IHi, Hp1].
        * eapply tinv_own; eauto.
      + intros x Hx. cbn [number] in Hx. apply in_app_or in Hx. destruct Hx as [Hx|Hx].
        * pose proof (IHb x Hx) as Hlt. pose proof (ncalls_mono e h (fst (ev_id x))). lia.
        * pose proof (IHi _ _ Hp0) as I0.
          destruct Ha0 as [t o|t o r|t o r|t o r Hlate]; cbn [tev_tid number1] in *.
          -- destruct Hx as [<-|[]]. cbn. rewrite Nat.eqb_refl. lia.
          -- destruct I0 as (A & _). destruct Hx as [<-|[]]. cbn. lia.
          -- destruct I0 as (A & _). destruct (pending t h); cbn in Hx;
               [destruct Hx as [<-|[<-|[]]]|destruct Hx as [<-|[]]]; cbn; lia.
          -- destruct I0 as (A & _). destruct (pending t h); cbn in Hx;
               [destruct Hx as [<-|[<-|[]]]|destruct Hx as [<-|[]]]; cbn; lia.
  Qed.

  (* ---------- (H1) for the numbered history ---------- *)
  Lemma number_lin_wf h : twf h -> lin_wf (number h).
  Proof.
    induction h as [|e h IH]; intros W; [apply lin_wf_nil|].
    pose proof (twf_tail _ _ W) as W'. specialize (IH W').
    destruct (tinv_holds h W') as [Hi Hb].
    destruct (twf_head _ _ W) as (p0 & p0' & Hp0 & Ha0).
    pose proof (Hi _ _ Hp0) as I0. pose proof (pending_phase _ _ _ Hp0) as Hpd.
    cbn [number].
    destruct Ha0 as [t o|t o r|t o r|t o r Hlate]; cbn [tev_tid number1] in *; unfold tinv in I0.
    - apply lin_wf_snoc; [exact IH|]. intros o' r' Hin. apply Hb in Hin. cbn in Hin. lia.
    - destruct I0 as (A & B & C & D & E). apply lin_wf_snoc; [exact IH|]. split; [exact B|exact C].
    - destruct I0 as (A & B & C & D & E). rewrite Hpd. apply lin_wf_snoc; [exact IH|]. eauto.
    - destruct I0 as (A & B & C & D & E). rewrite Hpd.
      change [Lin (cur t h) o r; Res (cur t h) r] with ([Lin (cur t h) o r] ++ [Res (cur t h) r]).
      rewrite app_assoc. apply lin_wf_snoc.
      + apply lin_wf_snoc; [exact IH|]. split; [exact B|exact C].
      + exists o. apply in_or_app. right. left. reflexivity.
  Qed.

  Lemma number_hist_wf h : twf h -> hist_wf fst (number h).
  Proof.
    induction h as [|e h IH]; intros W; [apply hist_wf_nil|].
    pose proof (twf_tail _ _ W) as W'. specialize (IH W').
    destruct (tinv_holds h W') as [Hi Hb].
    destruct (twf_head _ _ W) as (p0 & p0' & Hp0 & Ha0).
    pose proof (Hi _ _ Hp0) as I0. pose proof (pending_phase _ _ _ Hp0) as Hpd.
    cbn [number].
    destruct Ha0 as [t o|t o r|t o r|t o r Hlate]; cbn [tev_tid number1] in *; unfold tinv in I0.
    - apply hist_wf_snoc; [exact IH|]. split.
      + intros o' Hin. apply Hb in Hin. cbn in Hin. lia.
      + intros [t' k] o' Et Hin. cbn in Et. subst t'. apply I0 in Hin. exact Hin.
    - apply hist_wf_snoc; [exact IH|exact I].
    - destruct I0 as (A & B & C & D & E). rewrite Hpd. apply hist_wf_snoc; [exact IH|]. eauto.
    - destruct I0 as (A & B & C & D & E). rewrite Hpd.
      change [Lin (cur t h) o r; Res (cur t h) r] with ([Lin (cur t h) o r] ++ [Res (cur t h) r]).
      rewrite app_assoc. apply hist_wf_snoc.
      + apply hist_wf_snoc; [exact IH|exact I].
      + split.
        * intros r' Hin. apply in_app_or in Hin. destruct Hin as [Hin|[Hin|[]]]; [exact (D _ Hin)|discriminate].
        * exists o. apply in_or_app. auto.
  Qed.

  (* without late responses the replayed steps are exactly the marked ones *)
  Fixpoint tlins (h : list tev) : list (op * res) :=
    match h with
    | [] => []
    | TLin _ o r :: h' => tlins h' ++ [(o, r)]
    | _ :: h' => tlins h'
    end.

  Lemma treplay_no_late h : (forall o r, ~ late o r) -> twf h -> treplay h = tlins h.
  Proof.
    intros Hno. induction h as [|e h IH]; intros W; [reflexivity|].
    cbn [treplay]. rewrite (IH (twf_tail _ _ W)).
    destruct (twf_head _ _ W) as (p0 & p0' & Hp0 & Ha0). pose proof (pending_phase _ _ _ Hp0) as Hpd.
    destruct Ha0 as [t o|t o r|t o r|t o r Hlate]; cbn [tev_tid treplay1 tlins] in *.
    - apply app_nil_r.
    - reflexivity.
    - rewrite Hpd. apply app_nil_r.
    - destruct (Hno _ _ Hlate).
  Qed.

  (* THEOREM: thread-tagged histories in linearisation-point form => textbook form.
     The witness [twitness h]: the calls in the order of their marked steps / late responses. *)
  Definition twitness (h : list tev) : list (call opid op res) := lin_items (number h).

  Theorem tagged_textbook_witness s0 h s' :
    twf h -> legal sstep s0 (treplay h) s' ->
    linearization_of sstep s0 (vnumber h) s' (twitness h).
  Proof.
    intros W Hl. rewrite <- visible_number. unfold twitness.
    apply linpoint_textbook_witness; [apply number_lin_wf, W|]. rewrite replay_number. exact Hl.
  Qed.

  Theorem tagged_textbook s0 h s' :
    twf h -> legal sstep s0 (treplay h) s' ->
    hist_wf fst (vnumber h) /\ linearizable_to sstep s0 (vnumber h) s'.
  Proof.
    intros W Hl. split.
    - rewrite <- visible_number. apply hist_wf_visible, number_hist_wf, W.
    - eapply linearization_of_linearizable, tagged_textbook_witness; eassumption.
  Qed.
End Tagged.

Arguments TCall {op res}. Arguments TLin {op res}. Arguments TRet {op res}.
Arguments tev_tid {op res}.
Arguments TIdle {op res}. Arguments TCalled {op res}. Arguments TLinned {op res}.
Arguments tadvance {op res}. Arguments tphase_of {op res}. Arguments twf {op res}.
Arguments ncalls {op res}. Arguments cur {op res}. Arguments pending {op res}.
Arguments vnumber {op res}. Arguments number {op res}. Arguments treplay {op res}. Arguments tlins {op res}.
Arguments tagged_textbook {op res state}.
Arguments twitness {op res}.

Definition no_late {op res : Type} : op -> res -> Prop := fun _ _ => False.
