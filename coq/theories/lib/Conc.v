(* Small library for statement-granular interleaving models: a thread table
   (tid -> per-call program counter + locals), counting, and the generic
   "invariant of every reachable configuration" induction.
   Executable definitions and their lemmas (library file). *)
From Ekit Require Import Common.
From Coq Require Import Arith PeanoNat.

Definition tid := nat.

Section Threads.
  Variable pc : Type.
  Definition threads := list (tid * pc).

  Fixpoint lookup (t : tid) (l : threads) : option pc :=
    match l with
    | [] => None
    | (t', p) :: r => if Nat.eqb t t' then Some p else lookup t r
    end.

  (* replace the entry of t (first occurrence); no-op when absent *)
  Fixpoint update (t : tid) (p : pc) (l : threads) : threads :=
    match l with
    | [] => []
    | (t', p') :: r => if Nat.eqb t t' then (t', p) :: r else (t', p') :: update t p r
    end.

  Fixpoint remove (t : tid) (l : threads) : threads :=
    match l with
    | [] => []
    | (t', p') :: r => if Nat.eqb t t' then r else (t', p') :: remove t r
    end.

  Definition spawn (t : tid) (p : pc) (l : threads) : threads := l ++ [(t, p)].

  Fixpoint count (f : pc -> bool) (l : threads) : Z :=
    match l with
    | [] => 0
    | (_, p) :: r => (if f p then 1 else 0) + count f r
    end.

  Definition tids (l : threads) : list tid := map fst l.

  Lemma count_nonneg f l : 0 <= count f l.
  Proof. induction l as [|[t p] r IH]; cbn; [lia|destruct (f p); lia]. Qed.

  Lemma count_le_length f l : count f l <= Z.of_nat (length l).
  Proof.
    induction l as [|[t p] r IH]; cbn [count length]; [lia|].
    destruct (f p); lia.
  Qed.

  Lemma count_app f l1 l2 : count f (l1 ++ l2) = count f l1 + count f l2.
  Proof. induction l1 as [|[t p] r IH]; cbn; [lia|rewrite IH; lia]. Qed.

  Lemma count_spawn f t p l :
    count f (spawn t p l) = count f l + (if f p then 1 else 0).
  Proof. unfold spawn. rewrite count_app. cbn. lia. Qed.

  Lemma count_update f t p p0 l :
    lookup t l = Some p0 ->
    count f (update t p l) = count f l - (if f p0 then 1 else 0) + (if f p then 1 else 0).
  Proof.
    induction l as [|[t' p'] r IH]; cbn; [discriminate|].
    destruct (Nat.eqb t t') eqn:E.
    - intros H; injection H as ->. cbn. lia.
    - intros H. cbn. rewrite (IH H). lia.
  Qed.

  Lemma count_remove f t p0 l :
    lookup t l = Some p0 ->
    count f (remove t l) = count f l - (if f p0 then 1 else 0).
  Proof.
    induction l as [|[t' p'] r IH]; cbn; [discriminate|].
    destruct (Nat.eqb t t') eqn:E.
    - intros H; injection H as ->. lia.
    - intros H. cbn. rewrite (IH H). lia.
  Qed.

  Lemma length_update t p l : length (update t p l) = length l.
  Proof.
    induction l as [|[t' p'] r IH]; cbn; [reflexivity|].
    destruct (Nat.eqb t t'); cbn; [reflexivity|rewrite IH; reflexivity].
  Qed.

  Lemma length_remove t p0 l :
    lookup t l = Some p0 -> S (length (remove t l)) = length l.
  Proof.
    induction l as [|[t' p'] r IH]; cbn; [discriminate|].
    destruct (Nat.eqb t t'); [reflexivity|]. intros H. cbn. rewrite (IH H). reflexivity.
  Qed.

  Lemma length_spawn t p l : length (spawn t p l) = S (length l).
  Proof. unfold spawn. rewrite app_length. cbn. lia. Qed.

  Lemma lookup_none_not_in t l : lookup t l = None <-> ~ In t (tids l).
  Proof.
    induction l as [|[t' p'] r IH]; cbn; [tauto|].
    destruct (Nat.eqb t t') eqn:E.
    - apply Nat.eqb_eq in E. subst. split; [discriminate|intros H; exfalso; apply H; auto].
    - apply Nat.eqb_neq in E. rewrite IH. split; [intros H [X|X]; [congruence|tauto]|tauto].
  Qed.

  Lemma tids_update t p l : tids (update t p l) = tids l.
  Proof.
    unfold tids. induction l as [|[t' p'] r IH]; cbn [update map fst]; [reflexivity|].
    destruct (Nat.eqb t t'); cbn [map fst]; [reflexivity|rewrite IH; reflexivity].
  Qed.

  Lemma tids_spawn t p l : tids (spawn t p l) = tids l ++ [t].
  Proof. unfold spawn, tids. rewrite map_app. reflexivity. Qed.

  Lemma nodup_remove t l : NoDup (tids l) -> NoDup (tids (remove t l)).
  Proof.
    induction l as [|[t' p'] r IH]; cbn; [auto|].
    intros H. inversion H as [|x xs Hn Hr]; subst.
    destruct (Nat.eqb t t'); [exact Hr|]. cbn. constructor; [|apply IH, Hr].
    intros Hin. apply Hn. clear -Hin.
    induction r as [|[t2 p2] r2 IH2]; cbn in *; [tauto|].
    destruct (Nat.eqb t t2); cbn in *; tauto.
  Qed.

  Lemma nodup_spawn t p l : NoDup (tids l) -> lookup t l = None -> NoDup (tids (spawn t p l)).
  Proof.
    intros Hn Hl. rewrite tids_spawn. apply lookup_none_not_in in Hl.
    induction (tids l) as [|x xs IH]; cbn.
    - constructor; [tauto|constructor].
    - inversion Hn as [|y ys Hx Hxs]; subst. constructor.
      + rewrite in_app_iff. cbn. intros [H|[H|[]]]; [tauto|]. subst. apply Hl. left; reflexivity.
      + apply IH; [exact Hxs|]. intros H. apply Hl. right; exact H.
  Qed.

  Lemma lookup_update_same t p l p0 : lookup t l = Some p0 -> lookup t (update t p l) = Some p.
  Proof.
    induction l as [|[t' p'] r IH]; cbn; [discriminate|].
    destruct (Nat.eqb t t') eqn:E; cbn; rewrite E; [reflexivity|exact IH].
  Qed.

  Lemma lookup_update_other t t2 p l : t2 <> t -> lookup t2 (update t p l) = lookup t2 l.
  Proof.
    intros Hne. induction l as [|[t' p'] r IH]; cbn [update lookup]; [reflexivity|].
    destruct (Nat.eqb t t') eqn:E; cbn [lookup].
    - apply Nat.eqb_eq in E. subst t'.
      destruct (Nat.eqb t2 t) eqn:E2; [apply Nat.eqb_eq in E2; congruence|reflexivity].
    - rewrite IH. reflexivity.
  Qed.
End Threads.

Arguments lookup {pc}. Arguments update {pc}. Arguments remove {pc}.
Arguments spawn {pc}. Arguments count {pc}. Arguments tids {pc}.

(* generic induction: a predicate that holds initially and is preserved by every enabled
   event holds after every event sequence the (partial) executable semantics accepts *)
Section Reach.
  Variables (cfg ev : Type) (exec1 : cfg -> ev -> option cfg).

  Fixpoint exec (c : cfg) (evs : list ev) : option cfg :=
    match evs with
    | [] => Some c
    | e :: r => match exec1 c e with Some c' => exec c' r | None => None end
    end.

  Lemma exec_app c evs1 evs2 :
    exec c (evs1 ++ evs2) = match exec c evs1 with Some c' => exec c' evs2 | None => None end.
  Proof.
    revert c; induction evs1 as [|e r IH]; intros c; cbn; [reflexivity|].
    destruct (exec1 c e); [apply IH|reflexivity].
  Qed.

  Lemma invariant_reachable (Inv : cfg -> Prop) :
    (forall c e c', Inv c -> exec1 c e = Some c' -> Inv c') ->
    forall evs c c', Inv c -> exec c evs = Some c' -> Inv c'.
  Proof.
    intros Hstep evs. induction evs as [|e r IH]; intros c c' Hc; cbn.
    - intros H; injection H as <-; exact Hc.
    - destruct (exec1 c e) as [c1|] eqn:E; [|discriminate].
      apply IH. eapply Hstep; eassumption.
  Qed.
End Reach.
Arguments exec {cfg ev}.
