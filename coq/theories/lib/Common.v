(* Common definitions shared by all models: the outcome type (Go's
   "(value, error)" + run-time panic as an explicit result), error classes,
   integer wrap-around, list-as-array helpers. *)
From Coq Require Export List ZArith Bool Lia.
Export ListNotations.
Open Scope Z_scope.

(* Error classes: messages are never compared, only the class. *)
Inductive eclass :=
| EStored          (* the error stored in the value itself, returned unchanged *)
| EInvalidType
| ESyntax
| ERange
| EIndex           (* index out of range *)
| EDuplicate
| EAbsent
| EEmpty
| EFull
| ECtx
| EOther.

Inductive outcome (A : Type) :=
| Ok (a : A)
| Err (e : eclass)
| Panic.
Arguments Ok {A} a.
Arguments Err {A} e.
Arguments Panic {A}.

Definition is_panic {A} (o : outcome A) : bool :=
  match o with Panic => true | _ => false end.
Definition is_ok {A} (o : outcome A) : bool :=
  match o with Ok _ => true | _ => false end.

Definition obind {A B} (o : outcome A) (f : A -> outcome B) : outcome B :=
  match o with Ok a => f a | Err e => Err e | Panic => Panic end.

(* two's complement wrap of z into a signed / unsigned w-bit integer *)
Definition wrap_u (w : Z) (z : Z) : Z := z mod 2 ^ w.
Definition wrap_s (w : Z) (z : Z) : Z :=
  let m := z mod 2 ^ w in if m <? 2 ^ (w - 1) then m else m - 2 ^ w.

Definition in_u (w z : Z) : bool := (0 <=? z) && (z <? 2 ^ w).
Definition in_s (w z : Z) : bool := (- 2 ^ (w - 1) <=? z) && (z <? 2 ^ (w - 1)).

(* list-as-array helpers *)
Fixpoint nth_opt {A} (l : list A) (n : nat) : option A :=
  match l, n with
  | [], _ => None
  | x :: _, O => Some x
  | _ :: t, S n' => nth_opt t n'
  end.

Fixpoint set_nth {A} (l : list A) (n : nat) (a : A) : list A :=
  match l, n with
  | [], _ => []
  | _ :: t, O => a :: t
  | x :: t, S n' => x :: set_nth t n' a
  end.

Fixpoint insert_at {A} (l : list A) (n : nat) (a : A) : list A :=
  match n, l with
  | O, _ => a :: l
  | S n', x :: t => x :: insert_at t n' a
  | S _, [] => [a]
  end.

Fixpoint remove_at {A} (l : list A) (n : nat) : list A :=
  match l, n with
  | [], _ => []
  | _ :: t, O => t
  | x :: t, S n' => x :: remove_at t n'
  end.
