(* C12 (observable form) - pool.OnDemandBlockTaskPool: the done channel returned by Shutdown does not close
   early, stated WITHOUT the ghost flag g_grace in the premises.  Only statements here; proofs are
   `exact <lemma>` from proof/PoolProofC1.v.  Model: model/PoolModel.v; companion file: props/C12_pool.v.

   props/C12_pool.v proves  g_grace => (queue empty, nobody counted, all accepted tasks done)  and
   g_grace => (stopped, context cancelled, g_shut, not g_now).  Here is the converse and its consequence:

     cancelled_without_shutdownnow_is_graceful   context cancelled /\ no ShutdownNow has won its CAS => g_grace
     shutdown_excludes_shutdownnow               a successful Shutdown excludes a successful ShutdownNow
     done_closed_after_shutdown_is_graceful      g_shut /\ context cancelled => g_grace
     done_not_early_shut                         g_shut /\ context cancelled => nothing queued / counted / pending
     done_not_early_observable                   a Shutdown call RETURNED nil (an ORet observation of the run),
                                                 later the context is cancelled => no ShutdownNow succeeded,
                                                 nothing queued / counted / pending
     internal_runs_bounded                       ranking function mu (proof/PoolProofC3.v): from a configuration without
                                                 client calls in flight every run of statements / timer ticks / ends
                                                 of user functions has at most mu(c) events
     shutdown_completes_within                   ... so after a successful Shutdown the done channel is closed within
                                                 mu(c) such events (the bounded form of shutdown_completes)
   The first three hold for EVERY record of params and every pinned / repaired variant (the interrupt context
   is cancelled by three statements only: ShutdownNow's, after its CAS, and the two graceful ones; new
   invariant layer S in PoolProofC1.v).  The exact side condition of the converse is `g_now = false`; a
   ShutdownNow CALL is allowed as long as it does not win its CAS (it then returns an error and cancels
   nothing), and after a successful Shutdown it never can. *)
From Ekit Require Import Common Conc PoolModel PoolProof PoolProof5 PoolExamples PoolProofB PoolProofB0 PoolProofB4d
  PoolProofB8 PoolProofC1 PoolProofC3.

Theorem cancelled_without_shutdownnow_is_graceful : forall P evs c,
  exec pstep_cfg (pinit P) evs = Some c ->
  s_ictx (c_sh c) = true -> g_now (c_gh c) = false -> g_grace (c_gh c) = true.
Proof. exact cancelled_without_shutdownnow_is_graceful_lemma. Qed.
Print Assumptions cancelled_without_shutdownnow_is_graceful.

Theorem shutdown_excludes_shutdownnow : forall P evs c,
  exec pstep_cfg (pinit P) evs = Some c -> g_shut (c_gh c) = true -> g_now (c_gh c) = false.
Proof. exact shutdown_excludes_shutdownnow_lemma. Qed.
Print Assumptions shutdown_excludes_shutdownnow.

Theorem done_closed_after_shutdown_is_graceful : forall P evs c,
  exec pstep_cfg (pinit P) evs = Some c ->
  g_shut (c_gh c) = true -> s_ictx (c_sh c) = true -> g_grace (c_gh c) = true.
Proof. exact done_closed_after_shutdown_is_graceful_lemma. Qed.
Print Assumptions done_closed_after_shutdown_is_graceful.

(* done_not_early of props/C12_pool.v with `Shutdown succeeded` and `the context is cancelled` in place of
   g_grace (valid params, code as it is) *)
Theorem done_not_early_shut : forall P evs c,
  pvalid P -> pfixed P -> exec pstep_cfg (pinit P) evs = Some c ->
  g_shut (c_gh c) = true -> s_ictx (c_sh c) = true ->
  s_q (c_sh c) = [] /\
  (forall t x, lookup t (c_thr c) = Some x -> g_cnt (pc x) = 0) /\
  (forall i, PoolProof.tsum (held i) (c_thr c) = 0) /\
  (forall i, In i (g_acc (c_gh c)) -> In i (g_done (c_gh c))).
Proof. exact done_not_early_shut_lemma. Qed.
Print Assumptions done_not_early_shut.

(* The observable statement.  Somewhere in the execution (after evs1, event e) a client thread t RETURNS from
   Shutdown with error nil - this is an observation of the run, not a ghost flag; evs2 is ANY continuation
   (it may contain ShutdownNow calls, Submits, anything); at its end the channel Shutdown returned is seen
   closed (s_ictx).  Then: no ShutdownNow ever succeeded, the queue is empty, no goroutine is still counted
   in totalGo (g_cnt: a goroutine between its start and its decrement of totalGo; in particular nobody is
   inside or about to run a task), no goroutine holds a task, every accepted task is done. *)
Theorem done_not_early_observable : forall P evs1 c1 e c2 obs t evs2 c,
  pvalid P -> pfixed P ->
  exec pstep_cfg (pinit P) evs1 = Some c1 -> pexec1 c1 e = Some (c2, obs) -> In (t, ORet (RShutdown PENone)) obs ->
  exec pstep_cfg c2 evs2 = Some c -> s_ictx (c_sh c) = true ->
  g_now (c_gh c) = false /\
  s_q (c_sh c) = [] /\
  (forall u x, lookup u (c_thr c) = Some x -> g_cnt (pc x) = 0) /\
  (forall i, PoolProof.tsum (held i) (c_thr c) = 0) /\
  (forall i, In i (g_acc (c_gh c)) -> In i (g_done (c_gh c))).
Proof. exact done_not_early_observable_lemma. Qed.
Print Assumptions done_not_early_observable.

(* non-vacuity: PoolExamples.wit_hang on the code as it is, cut at the statement with which Shutdown returns.
   At that moment (c2) the channel is still open and both workers are still counted; after the two workers
   have run on (evs2) it is closed, tasks 0 and 1 - both accepted - are done and no goroutine is left. *)
Example done_not_early_observable_applies :
  pvalid wit_hang_P /\ pfixed wit_hang_P /\
  obs_ex_b = [DRun 101%nat 60; DRun 100%nat 60] /\
  exec pstep_cfg (pinit wit_hang_P) obs_ex_evs1 = Some obs_ex_c1 /\
  obs_ex_e = PStep 3%nat C0 /\
  pexec1 obs_ex_c1 obs_ex_e = Some (obs_ex_c2, [(3%nat, ORet (RShutdown PENone))]) /\
  s_ictx (c_sh obs_ex_c2) = false /\ s_q (c_sh obs_ex_c2) = [] /\ s_total (c_sh obs_ex_c2) = 2 /\
  exec pstep_cfg obs_ex_c2 obs_ex_evs2 = Some obs_ex_c /\
  s_ictx (c_sh obs_ex_c) = true /\ g_now (c_gh obs_ex_c) = false /\
  g_acc (c_gh obs_ex_c) = [0; 1]%nat /\ g_done (c_gh obs_ex_c) = [0; 1]%nat /\ c_thr obs_ex_c = [].
Proof. exact done_not_early_observable_example_lemma. Qed.

(* ---------- a step bound for shutdown_completes (ranking function) ---------- *)
(* mu c = sum over the goroutines of rk + sum over the queued tasks of (L0 + 26 * wrapper depth), where
   rk th = position of the statement in the worker's loop body (pos, spacing 4, decreasing along the control flow)
         + timer state (armed 2, fired 1, dead 0)
         + while the worker carries a task: L0 (= pos WSelect + 1, pays for the jump back to the select) and
           the wrapper frames still to be entered / left.
   only_workers c: every entry of the goroutine table is at a worker statement (no Submit / Start / Shutdown /
   ShutdownNow call is in flight).  internal e: e is PStep, PFire or PFinish.
   Each internal event of such a configuration lowers mu by at least 1 (PoolProofC3.rank_step), for EVERY record
   of params and every variant of the code; a parked worker does not move, a worker blocked on a mutex has no
   enabled statement, and new calls are inputs (excluded: they add a goroutine). *)
Theorem internal_runs_bounded : forall c evs c',
  only_workers c -> forallb internal evs = true -> exec pstep_cfg c evs = Some c' ->
  Z.of_nat (length evs) <= mu c /\ Z.of_nat (length evs) <= mu c - mu c' /\ only_workers c'.
Proof. exact internal_runs_bounded_lemma. Qed.
Print Assumptions internal_runs_bounded.

(* After a successful Shutdown, in any reachable configuration c without client calls in flight: every internal
   continuation has at most mu(c) events, one that can still be continued has strictly fewer, and one that cannot
   (stuck, proof/PoolProofB.v) ends stopped with the done channel closed and every accepted task done.  Hence
   the channel is closed after at most mu(c) events of the pool's own goroutines, under EVERY scheduler. *)
Theorem shutdown_completes_within : forall P evs0 c,
  pvalid P -> pfixed P -> i_fixc P = true ->
  exec pstep_cfg (pinit P) evs0 = Some c -> g_shut (c_gh c) = true -> only_workers c ->
  forall evs c', forallb internal evs = true -> exec pstep_cfg c evs = Some c' ->
    Z.of_nat (length evs) <= mu c /\
    (forall e c'', internal e = true -> pstep_cfg c' e = Some c'' -> Z.of_nat (length evs) + 1 <= mu c) /\
    (stuck c' ->
       s_state (c_sh c') = SStopped /\ s_ictx (c_sh c') = true /\
       (forall i, In i (g_acc (c_gh c')) -> In i (g_done (c_gh c')))).
Proof. exact shutdown_completes_within_lemma. Qed.
Print Assumptions shutdown_completes_within.

(* non-vacuity: the configuration of the Example above in which Shutdown has just returned: two workers
   (one committed to its idle-timer exit, one woken by the close), mu = 532; the run to the end has 32 events *)
Example shutdown_completes_within_applies :
  only_workers obs_ex_c2 /\ g_shut (c_gh obs_ex_c2) = true /\ mu obs_ex_c2 = 532 /\
  forallb internal obs_ex_evs2 = true /\ exec pstep_cfg obs_ex_c2 obs_ex_evs2 = Some obs_ex_c /\
  length obs_ex_evs2 = 32%nat /\ c_thr obs_ex_c = [] /\ mu obs_ex_c = 0 /\ s_ictx (c_sh obs_ex_c) = true.
Proof. exact shutdown_completes_within_example_lemma. Qed.
