(* C09 (ConcurrentLinkedBlockingQueue part) — "after any pattern of cancellations the queue
   still accepts exactly `capacity` elements without blocking".
   Only statements here; every proof is `exact <lemma>` from proof/LBQProofCap.v.
   Same model (model/LBQModel.v) and trusted specifications as props/C07_lbq.v / C09_lbq.v.

   Vocabulary (model/LBQModel.v and the head of proof/LBQProofCap.v):
     exec lbq_step (lbq_init m) evs = Some c
                          c is reached by the event list evs (CALL / STEP / STEP-ctx / CANCEL of
                          any goroutines in any order: every pattern of calls and cancellations)
     quiescent c          no call is in flight (q_thr c = [])
     call_alone c t o     goroutine t calls o in c and ONLY its statements run until it returns:
                          Some (c', Some r) = it returned r, every statement of it was enabled in
                          turn (it never parked, never waited for the mutex);
                          Some (c', None)   = it got stuck: its next statement is not enabled
     fill_alone c calls   the Enqueues (t, v) of calls, one after the other, each by call_alone;
                          Some c' = each of them returned nil
     parked_full c t v    the only call in flight is t's Enqueue(v); it is parked inside its
                          select with a live context on the CURRENT channel of notFull, which is
                          open; the mutex is free; STEP t is not enabled *)
From Ekit Require Import Common Conc LBQModel LBQProof LBQProof2 LBQProof3 LBQProof4 LBQProofCap.

(* In EVERY reachable quiescent configuration c of a queue with maxSize m:
   m > 0:  any m - Len successive solo Enqueues all return nil without ever parking, each
           appends its value (so the queue is then full, and again reachable and quiescent), and
           ANY further solo Enqueue parks in its select, the list untouched; any shorter sequence
           completes as well and no longer sequence does: the queue accepts EXACTLY m - Len;
   m <= 0: every sequence of solo Enqueues completes.
   Nothing is assumed about how c was reached: in particular calls cancelled at any of their
   statements (before the lock, between signalCh's unlock and the select, while parked, after
   being woken) leave neither a held mutex nor a closed current channel nor a lost slot behind. *)
Theorem capacity_after_cancellations : forall m evs c,
  exec lbq_step (lbq_init m) evs = Some c -> quiescent c ->
  (0 < m ->
     (forall calls, Z.of_nat (length calls) = m - qlen c ->
        exists c',
          fill_alone c calls = Some c' /\
          q_items c' = q_items c ++ map snd calls /\ qlen c' = m /\ quiescent c' /\
          (exists evs', exec lbq_step (lbq_init m) evs' = Some c') /\
          forall t v, exists c'',
            call_alone c' t (OEnq v) = Some (c'', None) /\
            parked_full c'' t v /\ q_items c'' = q_items c') /\
     (forall calls, Z.of_nat (length calls) <= m - qlen c ->
        exists c', fill_alone c calls = Some c' /\ q_items c' = q_items c ++ map snd calls /\ quiescent c') /\
     (forall calls, m - qlen c < Z.of_nat (length calls) -> fill_alone c calls = None)) /\
  (m <= 0 ->
     forall calls, exists c',
       fill_alone c calls = Some c' /\ q_items c' = q_items c ++ map snd calls /\ quiescent c').
Proof. exact capacity_after_cancellations_lemma. Qed.
Print Assumptions capacity_after_cancellations.

(* the two building blocks, one call each *)
Theorem enqueue_alone_completes_with_room : forall m evs c t v,
  exec lbq_step (lbq_init m) evs = Some c -> quiescent c ->
  (0 < m -> qlen c < m) ->
  exists c' evs',
    call_alone c t (OEnq v) = Some (c', Some RNil) /\
    q_items c' = q_items c ++ [v] /\ quiescent c' /\
    exec lbq_step (lbq_init m) evs' = Some c'.
Proof. exact enqueue_alone_completes. Qed.
Print Assumptions enqueue_alone_completes_with_room.

Theorem enqueue_alone_parks_on_full : forall m evs c t v,
  exec lbq_step (lbq_init m) evs = Some c -> quiescent c ->
  0 < m -> qlen c = m ->
  exists c',
    call_alone c t (OEnq v) = Some (c', None) /\
    parked_full c' t v /\ q_items c' = q_items c.
Proof. exact enqueue_alone_parks_when_full. Qed.
Print Assumptions enqueue_alone_parks_on_full.

(* "the next Enqueue is not enabled to complete until a Dequeue or a cancel": in ANY
   configuration, an event that moves a parked Enqueue is its own CANCEL or the `close(old)`
   statement of a Dequeue's notFull.broadcast() for exactly the channel it waits on; every other
   event leaves its entry (pc = parked, locals) as it is *)
Theorem parked_enqueue_moved_only_by_cancel_or_dequeue : forall c e c' obs t l v,
  lbq_exec1 c e = Some (c', obs) -> lookup t (q_thr c) = Some l -> l_pc l = PParked ->
  l_op l = OEnq v ->
  lookup t (q_thr c') = Some l \/
  e = QCancel t \/
  (exists b lb, e = QStep b /\ b <> t /\ lookup b (q_thr c) = Some lb /\ l_pc lb = BClose /\
                l_op lb = ODeq /\ l_old lb = l_sig l).
Proof. exact parked_enqueue_moved_only_by_lemma. Qed.
Print Assumptions parked_enqueue_moved_only_by_cancel_or_dequeue.

(* ================= non-vacuity ================= *)
(* maxSize 3.  A Dequeue parks on the empty queue and is cancelled; three Enqueues fill the
   queue; an Enqueue parks on the full queue and is cancelled while parked; another one is
   cancelled in the window between signalCh's Unlock and its select (it takes the ctx.Done()
   case); two Dequeues take 7 and 8.  The configuration reached is quiescent with 1 of 3 slots
   used; two solo Enqueues return nil, the third parks. *)
Definition c09_cap_schedule : list lbq_ev :=
  [QCall 8%nat ODeq] ++ lbq_steps 8%nat 8 ++ [QCancel 8%nat] ++ lbq_steps 8%nat 2 ++
  [QCall 1%nat (OEnq 7)] ++ lbq_steps 1%nat 11 ++
  [QCall 2%nat (OEnq 8)] ++ lbq_steps 2%nat 11 ++
  [QCall 3%nat (OEnq 9)] ++ lbq_steps 3%nat 11 ++
  [QCall 4%nat (OEnq 10)] ++ lbq_steps 4%nat 8 ++ [QCancel 4%nat] ++ lbq_steps 4%nat 2 ++
  [QCall 5%nat (OEnq 11)] ++ lbq_steps 5%nat 6 ++ [QCancel 5%nat] ++ lbq_steps 5%nat 4 ++
  [QCall 6%nat ODeq] ++ lbq_steps 6%nat 11 ++
  [QCall 7%nat ODeq] ++ lbq_steps 7%nat 11.

Example c09_cap_nonvacuous :
  (* the schedule is accepted and ends quiescent with [9] in a queue of 3 *)
  option_map lbq_summary (lbq_run 3 c09_cap_schedule) =
    Some ([9], None, 0%nat, (3%nat, [2%nat; 1%nat; 0%nat]), (2%nat, [1%nat; 0%nat]), []) /\
  (* the cancelled calls returned the context error, and the Enqueue 4 was really parked *)
  lbq_obs_of 3 (firstn 57 c09_cap_schedule) (QStep 4%nat) = None /\
  lbq_obs_of 3 (firstn 59 c09_cap_schedule) (QStep 4%nat) = Some [(4%nat, ORet RCtx)] /\
  lbq_obs_of 3 (firstn 71 c09_cap_schedule) (QStep 5%nat) = Some [(5%nat, ORet RCtx)] /\
  (* two solo Enqueues complete, the third parks *)
  (match lbq_run 3 c09_cap_schedule with
   | Some c =>
     match fill_alone c [(10%nat, 20); (11%nat, 21)] with
     | Some c2 =>
       match call_alone c2 12%nat (OEnq 22) with
       | Some (c3, None) => Some (lbq_summary c2, lbq_summary c3, step_enabled c3 12%nat)
       | _ => None
       end
     | None => None
     end
   | None => None
   end) =
    Some (([9; 20; 21], None, 0%nat, (5%nat, [4%nat; 3%nat; 2%nat; 1%nat; 0%nat]), (2%nat, [1%nat; 0%nat]), []),
          ([9; 20; 21], None, 0%nat, (5%nat, [4%nat; 3%nat; 2%nat; 1%nat; 0%nat]), (2%nat, [1%nat; 0%nat]),
           [(12%nat, PParked, 2%nat)]),
          false) /\
  (* three do not *)
  (match lbq_run 3 c09_cap_schedule with
   | Some c => fill_alone c [(10%nat, 20); (11%nat, 21); (12%nat, 22)]
   | None => None
   end) = None.
Proof. repeat split; vm_compute; reflexivity. Qed.

(* the hypotheses of the theorem are satisfiable by that configuration, and its conclusion
   instantiates to the concrete numbers: 3 - 1 = 2 *)
Example c09_cap_instance :
  exists c, exec lbq_step (lbq_init 3) c09_cap_schedule = Some c /\ quiescent c /\ 3 - qlen c = 2 /\
    forall t1 v1 t2 v2, exists c',
      fill_alone c [(t1, v1); (t2, v2)] = Some c' /\ q_items c' = [9; v1; v2] /\
      forall t v, exists c'', call_alone c' t (OEnq v) = Some (c'', None) /\ parked_full c'' t v.
Proof.
  destruct (exec lbq_step (lbq_init 3) c09_cap_schedule) as [c|] eqn:E; [|vm_compute in E; discriminate E].
  exists c. split; [reflexivity|].
  assert (Hq : quiescent c).
  { unfold quiescent. revert E. vm_compute. intros E. injection E as <-. reflexivity. }
  assert (Hi : q_items c = [9]).
  { revert E. vm_compute. intros E. injection E as <-. reflexivity. }
  split; [exact Hq|].
  assert (Hlen : 3 - qlen c = 2) by (unfold qlen; rewrite Hi; reflexivity).
  split; [exact Hlen|].
  intros t1 v1 t2 v2.
  destruct (capacity_two_left 3 c09_cap_schedule c E Hq eq_refl Hlen t1 v1 t2 v2) as [c' [A1 [A2 A3]]].
  exists c'. rewrite Hi in A2. auto.
Qed.
