(* C05, skip-list half, layer B — GENERAL SIMULATION: the statement-by-statement pointer model of
   /repo/internal/list/skip_list.go (SkipModel.v, Section Ptr: heap id -> (value, Forward list),
   the Go statements one by one, loops with fuel, PPanic = nil dereference / index out of range,
   PFuel = out of fuel) simulates the verified heights model for ALL histories — this replaces
   the bounded sweep props/C05_skip.v:ptr_matches_heights_bounded.  Only statements here; every
   proof is `exact <lemma>` from proof/SkipPtrProof.v + proof/SkipPtrProof2.v.

   Vocabulary.  [p_run T cmp ops] (SkipPtrProof2) = the pointer model run from NewSkipList
   (p_empty) over the history [ops], p_step after p_step, giving the final pointer state and the
   outputs in order, or PPanic / PFuel as soon as one operation panics / runs out of fuel.  The
   fuel discipline is the model's own: every loop of an operation on state sp gets
   p_fuel sp = pnext sp + 1 (number of nodes ever created + 2), NOT a parameter of the theorems.
   Histories: Insert with every tower height in [1,32] ([OInsert v r] carries the number r of
   successful draws of randomLevel; props/C05_skip.v:random_level_covers_1_32), DeleteElement,
   Search, Get, Peek, Len, AsSlice; FromSlice = the history of Inserts (ptr_from_slice).
   [final]/[outs]/[step] = the heights model (SkipModel.v), [cmp_total_preorder] as in C05_skip.v.

   THE REPRESENTATION RELATION [ptr_rep T sp sh] (SkipPtrProof2): level, size and next identity
   agree; for every level i < 32 the chain obtained by following Forward[i] from the header
   (p_chain, the pointer model's own walk, with its fuel) is exactly [chain i sh] of the heights
   model as node identities in order; the header cell has 32 pointers and no value; every node of
   the heights model has a cell with its value whose Forward list is as long as its tower; and no
   pointer stored in the header or in a listed node is dangling (it is the identity of a listed
   node).  Cells of deleted nodes stay in the heap as unreachable garbage (Go's collector). *)
From Ekit Require Import Common SkipModel SkipProof SkipPtrProof SkipPtrProof2.
From Coq Require Import Sorting.Sorted Sorting.Permutation.

(* HEADLINE.  For every history and every total-preorder comparator the pointer model never
   yields PPanic or PFuel (the run is POk), every output equals the heights model's output, and
   the representation relation holds in the final state — hence, the theorem being about ALL
   histories, after every operation (every prefix is a history; ptr_run_prefix).  The two dumps
   the correspondence check compares with the implementation agree as well. *)
Theorem ptr_simulates_heights : forall (T : Type) (cmp : T -> T -> Z),
  cmp_total_preorder T cmp -> forall ops,
    exists sp, p_run T cmp ops = POk (sp, outs T cmp ops) /\ ptr_rep T sp (final T cmp ops) /\
               p_towers T sp = POk (towers T (final T cmp ops)) /\
               p_heights T sp = POk (heights T (final T cmp ops)).
Proof. exact ptr_simulates_tp. Qed.
Print Assumptions ptr_simulates_heights.

(* a run over a ++ b passes through the state reached by a: the states "after every operation"
   are the final states of the prefixes *)
Theorem ptr_run_prefix : forall (T : Type) (cmp : T -> T -> Z) a b sp,
  p_run_from T cmp sp (a ++ b) =
  pbind (p_run_from T cmp sp a) (fun sr =>
  pbind (p_run_from T cmp (fst sr) b) (fun sr2 => POk (fst sr2, snd sr ++ snd sr2))).
Proof. exact p_run_from_app. Qed.
Print Assumptions ptr_run_prefix.

(* The same as a simulation diagram: the initial states are related, and ONE operation from ANY
   pair of related states (heights state satisfying the invariants I1-I5) neither panics nor
   runs out of fuel, returns the heights model's output and re-establishes the relation and the
   invariants.  So ptr_rep is inductive by itself. *)
Theorem ptr_rep_initial : forall T : Type, ptr_rep T (p_empty T) empty.
Proof. exact ptr_rep_empty. Qed.
Print Assumptions ptr_rep_initial.

Theorem ptr_rep_preserved_by_every_operation : forall (T : Type) (cmp : T -> T -> Z),
  cmp_total_preorder T cmp -> forall sp s o, skip_inv T cmp s -> ptr_rep T sp s ->
    exists sp', p_step T cmp sp o = POk (sp', snd (step T cmp s o)) /\
                ptr_rep T sp' (fst (step T cmp s o)) /\ skip_inv T cmp (fst (step T cmp s o)).
Proof. exact ptr_rep_step_tp. Qed.
Print Assumptions ptr_rep_preserved_by_every_operation.

(* ptr_rep (stated through the chain walk) is equivalent to the position-wise relation the proofs
   work with: every position p of the heights model (0 = header, k+1 = k-th node) has a cell
   with its value and height (Rnode), and Forward[i] of p is the identity of the node at
   [fwd i nodes p] for every i below its height (Rlev) *)
Theorem ptr_rep_pointwise : forall (T : Type) (cmp : T -> T -> Z) sp s, skip_inv T cmp s ->
  (ptr_rep T sp s <->
   plevel T sp = level s /\ psize T sp = size s /\ pnext T sp = nextid s /\
   Rnode T (heap T sp) (nodes s) /\ forall i, Rlev T (heap T sp) (nodes s) i).
Proof. exact ptr_rep_iff_SR. Qed.
Print Assumptions ptr_rep_pointwise.

(* ---------- the theorems of props/C05_skip.v, on the pointer level ---------- *)
(* no history makes the pointer model panic (nil dereference in traverse / Insert / DeleteElement
   / Get / Peek / AsSlice, index out of range on update[] or Forward[]) or run out of fuel, and
   no Get / Peek result is the modelled nil dereference *)
Theorem ptr_never_panics : forall (T : Type) (cmp : T -> T -> Z),
  cmp_total_preorder T cmp -> forall ops,
    exists sp rs, p_run T cmp ops = POk (sp, rs) /\ ~ In (RVal Panic) rs.
Proof. exact ptr_never_panics_tp. Qed.
Print Assumptions ptr_never_panics.

(* after every history AsSlice (the walk along Forward[0], values read from the heap) is
   ascending and holds exactly inserted-minus-deleted (SkipModel.contents_rel) *)
Theorem ptr_asslice_sorted_multiset : forall (T : Type) (cmp : T -> T -> Z),
  cmp_total_preorder T cmp -> forall ops,
    exists sp l, p_run T cmp ops = POk (sp, outs T cmp ops) /\ p_as_slice T sp = POk l /\
                 sortedT T cmp l /\ contents_rel T cmp ops l.
Proof. exact ptr_asslice_tp. Qed.
Print Assumptions ptr_asslice_sorted_multiset.

(* every operation acts on AsSlice as on a sorted multiset (SkipModel.sorted_multiset_step):
   the pointer-level form of skiplist_refines_sorted_multiset *)
Theorem ptr_refines_sorted_multiset : forall (T : Type) (cmp : T -> T -> Z),
  cmp_total_preorder T cmp -> forall ops o,
    exists sp sp' r l l', p_run T cmp ops = POk (sp, outs T cmp ops) /\ p_step T cmp sp o = POk (sp', r) /\
      p_as_slice T sp = POk l /\ p_as_slice T sp' = POk l' /\
      sortedT T cmp l /\ sortedT T cmp l' /\ sorted_multiset_step T cmp l o l' r.
Proof. exact ptr_step_multiset_tp. Qed.
Print Assumptions ptr_refines_sorted_multiset.

(* all outputs and the final AsSlice equal those of the executable sorted-list specification *)
Theorem ptr_outputs_eq_spec : forall (T : Type) (cmp : T -> T -> Z),
  cmp_total_preorder T cmp -> forall ops,
    exists sp, p_run T cmp ops = POk (sp, snd (ms_run T cmp ops)) /\
               p_as_slice T sp = POk (fst (ms_run T cmp ops)).
Proof. exact ptr_outputs_eq_spec_tp. Qed.
Print Assumptions ptr_outputs_eq_spec.

(* NewSkipListFromSlice on the pointer level (NewSkipList + Insert of every element, any tower
   heights): no panic, related to the heights model's from_slice, sorted permutation of the slice *)
Theorem ptr_from_slice : forall (T : Type) (cmp : T -> T -> Z),
  cmp_total_preorder T cmp -> forall l,
    exists sp l', p_from_slice T cmp l = POk sp /\ ptr_rep T sp (from_slice T cmp l) /\
      p_as_slice T sp = POk l' /\ sortedT T cmp l' /\ Permutation l' (map fst l).
Proof. exact ptr_from_slice_tp. Qed.
Print Assumptions ptr_from_slice.

(* ---------- non-vacuity ---------- *)
(* a tie-heavy history (keys mod 3; tags tell equal elements apart) with towers 1,3,1,2,32,
   run on the POINTER model: outputs, fields, the lowest chains and the top chain *)
Definition exp_ops : list (op (Z * Z)) :=
  [OInsert (1, 1) 0%nat; OInsert (2, 2) 2%nat; OInsert (3, 3) 0%nat; OInsert (4, 4) 1%nat; OInsert (5, 5) 40%nat].
Example exp_state :
  match p_run (Z * Z) cmp_mod3 exp_ops with
  | POk (sp, rs) =>
      plevel _ sp = 32%nat /\ psize _ sp = 5 /\ p_as_slice _ sp = POk [(3, 3); (4, 4); (1, 1); (5, 5); (2, 2)] /\
      match p_towers _ sp with
      | POk t => firstn 4 t = [[3; 4; 1; 5; 2]; [4; 5; 2]; [5; 2]; [5]]%nat /\ nth 31 t [] = [5%nat]
      | _ => False
      end
  | _ => False
  end.
Proof. vm_compute. repeat split. Qed.
(* deleting the 32-high tower trims the level back to 3; further deletes, probes *)
Example exp_outputs :
  match p_run (Z * Z) cmp_mod3
          (exp_ops ++ [ODelete (8, 0); OSearch (9, 0); OSearch (6, 0); OGet 1; OGet 5; OPeek; OLen; OAsSlice;
                       ODelete (5, 0); ODelete (5, 0); ODelete (7, 7)]) with
  | POk (sp, rs) =>
      rs = [RUnit; RUnit; RUnit; RUnit; RUnit; RBool true; RBool true; RBool true; RVal (Ok (4, 4));
            RVal (Err EIndex); RVal (Ok (3, 3)); RLen 4; RSlice [(3, 3); (4, 4); (1, 1); (2, 2)];
            RBool true; RBool true; RBool true] /\
      plevel _ sp = 1%nat /\ psize _ sp = 2 /\ p_heights _ sp = POk [(3, 1); (1, 1)]%nat
  | _ => False
  end.
Proof. vm_compute. repeat split. Qed.
Example exp_level_after_delete :
  match p_run (Z * Z) cmp_mod3 (exp_ops ++ [ODelete (8, 0)]) with
  | POk (sp, _) => plevel _ sp = 3%nat
  | _ => False
  end.
Proof. vm_compute. reflexivity. Qed.
