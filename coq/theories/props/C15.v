(* C15 — thread-safe types are free of data races under any concurrent use.
   Only statements here; every proof is `exact <lemma>` from lib/HB.v and proof/FootprintProof.v.

   WHAT IS PROVED.  lib/HB.v defines executions (lists of (thread, action) events: lock
   acquire/release in exclusive or shared mode, atomic read/write/RMW, generic release/acquire
   pairs for channels, sync.Pool, sync.Once, semaphores, goroutine creation, PLAIN read/write),
   well-formedness (lock semantics), happens-before (program order + synchronises-with, closed
   transitively) and `race` (two accesses to one location by different threads, at least one a
   write, not both atomic, unordered by happens-before: the Go definition).  For ALL well-formed
   executions it proves the reusable disciplines guarded_by / atomic_only / publish_once (and
   read_only, init_then_guarded_by).  model/FootprintModel.v declares, per thread-safe type, the
   footprint table (per method or statement: location, access kind, guard) and the boolean
   checker `disciplined`.  `drf_<type>`: every well-formed execution ALL of whose memory accesses
   are instances of the table's rows with the declared guards held (`guards_respected`) has no
   data race — for any number of threads, calls and objects, any schedule.

   LIMITS (also in the evidence).  The theorems are about the FOOTPRINT MODEL under
   `guards_respected`: that the code's accesses are exactly the table's rows is checked by
   re-deriving the table from /repo's current source on every run (tools/footprint, syntactic),
   that the guards are really held at run time is validated only dynamically (race detector on
   a pairwise method matrix under chaos scheduling: it sees only executed pairs).  The Go
   run-time, sync.Mutex/RWMutex, sync/atomic, channels, x/sync/semaphore, sync.Pool, sync.Map
   and context internals are trusted (delegations are rows of kind KDelegate, not footprinted).
   The client publishes the instance safely (constructor writes are outside the tables) and
   does not touch the elements it handed over.  Elements stored in the containers are opaque. *)
From Coq Require Import List String.
From Ekit Require Import HB FootprintModel FootprintProof.
Import ListNotations.
Open Scope string_scope.

(* ================= the Go-memory-model lemmas, for ALL well-formed executions ================= *)

(* every access to x happens while its thread holds lock l (writers exclusively, readers at
   least shared) => no race on x *)
Theorem guarded_by : forall e x l, wf e -> guarded e x l -> ~ race_on e x.
Proof. exact HB.guarded_by. Qed.
Print Assumptions guarded_by.

(* no plain access to x => no race on x *)
Theorem atomic_only : forall e x, atomic_only_on e x -> ~ race_on e x.
Proof. exact HB.atomic_only. Qed.
Print Assumptions atomic_only.

(* x is written only by thread t and only before t's event r (a release); every access by another
   thread is a read after an acquire q of that thread that synchronises with r => no race on x *)
Theorem publish_once : forall e x t r, published e x t r -> ~ race_on e x.
Proof. exact HB.publish_once. Qed.
Print Assumptions publish_once.

(* the same through a chain of synchronisation (r happens-before the reader's acquire) *)
Theorem publish_once_hb : forall e x t r, published_hb e x t r -> ~ race_on e x.
Proof. exact HB.publish_once_hb. Qed.
Print Assumptions publish_once_hb.

(* never written => no race *)
Theorem read_only : forall e x, read_only_on e x -> ~ race_on e x.
Proof. exact HB.read_only. Qed.
Print Assumptions read_only.

(* initialised by its creator before r, afterwards only under lock l by accesses that r
   happens-before (lazily created, then lock-protected state) => no race *)
Theorem init_then_guarded_by : forall e x l t r,
  wf e -> init_then_guarded e x l t r -> ~ race_on e x.
Proof. exact HB.init_then_guarded_by. Qed.
Print Assumptions init_then_guarded_by.

(* happens-before only relates an earlier to a later event of the execution *)
Theorem hb_forward : forall e i j, hb e i j -> i < j.
Proof. exact HB.hb_lt. Qed.
Print Assumptions hb_forward.

(* ================= table => data-race freedom ================= *)

Theorem disciplined_table_is_race_free : forall t e,
  disciplined t = true -> wf e -> guards_respected t e -> ~ race e.
Proof. exact disciplined_no_race. Qed.
Print Assumptions disciplined_table_is_race_free.

(* ================= per type ================= *)

Theorem drf_CopyOnWriteArrayList : forall e, wf e -> guards_respected cow_table e -> ~ race e.
Proof. exact drf_cow_lemma. Qed.
Print Assumptions drf_CopyOnWriteArrayList.

Theorem drf_ConcurrentList : forall e, wf e -> guards_respected clist_table e -> ~ race e.
Proof. exact drf_clist_lemma. Qed.
Print Assumptions drf_ConcurrentList.

Theorem drf_ConcurrentLinkedQueue : forall e, wf e -> guards_respected clq_table e -> ~ race e.
Proof. exact drf_clq_lemma. Qed.
Print Assumptions drf_ConcurrentLinkedQueue.

Theorem drf_ConcurrentArrayBlockingQueue : forall e, wf e -> guards_respected abq_table e -> ~ race e.
Proof. exact drf_abq_lemma. Qed.
Print Assumptions drf_ConcurrentArrayBlockingQueue.

Theorem drf_ConcurrentLinkedBlockingQueue : forall e, wf e -> guards_respected lbq_table e -> ~ race e.
Proof. exact drf_lbq_lemma. Qed.
Print Assumptions drf_ConcurrentLinkedBlockingQueue.

Theorem drf_DelayQueue : forall e, wf e -> guards_respected dq_table e -> ~ race e.
Proof. exact drf_dq_lemma. Qed.
Print Assumptions drf_DelayQueue.

Theorem drf_ConcurrentPriorityQueue : forall e, wf e -> guards_respected cpq_table e -> ~ race e.
Proof. exact drf_cpq_lemma. Qed.
Print Assumptions drf_ConcurrentPriorityQueue.

Theorem drf_Cond : forall e, wf e -> guards_respected cond_table e -> ~ race e.
Proof. exact drf_cond_lemma. Qed.
Print Assumptions drf_Cond.

Theorem drf_Map : forall e, wf e -> guards_respected map_table e -> ~ race e.
Proof. exact drf_map_lemma. Qed.
Print Assumptions drf_Map.

Theorem drf_Pool : forall e, wf e -> guards_respected pool_table e -> ~ race e.
Proof. exact drf_pool_lemma. Qed.
Print Assumptions drf_Pool.

Theorem drf_LimitPool : forall e, wf e -> guards_respected limitpool_table e -> ~ race e.
Proof. exact drf_limitpool_lemma. Qed.
Print Assumptions drf_LimitPool.

Theorem drf_SegmentKeysLock : forall e, wf e -> guards_respected segkey_table e -> ~ race e.
Proof. exact drf_segkey_lemma. Qed.
Print Assumptions drf_SegmentKeysLock.

Theorem drf_AtomicValue : forall e, wf e -> guards_respected value_table e -> ~ race e.
Proof. exact drf_value_lemma. Qed.
Print Assumptions drf_AtomicValue.

Theorem drf_OnDemandBlockTaskPool : forall e, wf e -> guards_respected taskpool_table e -> ~ race e.
Proof. exact drf_taskpool_lemma. Qed.
Print Assumptions drf_OnDemandBlockTaskPool.

Theorem drf_ExponentialBackoffRetryStrategy : forall e, wf e -> guards_respected expo_table e -> ~ race e.
Proof. exact drf_expo_lemma. Qed.
Print Assumptions drf_ExponentialBackoffRetryStrategy.

Theorem drf_FixedIntervalRetryStrategy : forall e, wf e -> guards_respected fixed_table e -> ~ race e.
Proof. exact drf_fixed_lemma. Qed.
Print Assumptions drf_FixedIntervalRetryStrategy.

Theorem drf_ReflectCopier : forall e, wf e -> guards_respected copier_table e -> ~ race e.
Proof. exact drf_copier_lemma. Qed.
Print Assumptions drf_ReflectCopier.

(* ================= refuted on the pinned code (documented defects, repaired by fix: commits) ================= *)

(* CopyOnWriteArrayList before 60536f5: Get's plain read of `vals` races with Append's plain write
   under a mutex the reader does not take — a well-formed execution of the pinned table's rows,
   guards held, with a race *)
Theorem cow_race_refuted : exists e, wf e /\ guards_respected cow_pinned_table e /\ race e.
Proof. exact cow_race_refuted_lemma. Qed.
Print Assumptions cow_race_refuted.

(* syncx.Cond before 989ed9d: the plain read of `checker` in checkCopy races with the CAS of another
   goroutine's first use *)
Theorem cond_checker_race_refuted : exists e, wf e /\ guards_respected cond_pinned_table e /\ race e.
Proof. exact cond_checker_race_refuted_lemma. Qed.
Print Assumptions cond_checker_race_refuted.

Theorem pinned_tables_not_disciplined :
  disciplined cow_pinned_table = false /\ disciplined cond_pinned_table = false /\
  undisciplined cond_pinned_table = ["Cond.checker"].
Proof. exact pinned_not_disciplined. Qed.
Print Assumptions pinned_tables_not_disciplined.

(* ================= non-vacuity ================= *)

(* the hypotheses are satisfiable by interesting executions: two threads contending for the
   ABQ mutex (writer exclusive, reader shared) and an Enqueue/Dequeue hand-over through the CAS *)
Example c15_nonvacuous :
  (wf abq_exec /\ guards_respected abq_table abq_exec /\ ~ race abq_exec) /\
  (wf clq_exec /\ guards_respected clq_table clq_exec /\ ~ race clq_exec) /\
  (* and the definition of race does flag an unsynchronised pair *)
  (wf racy_exec /\ race racy_exec).
Proof.
  split; [|split].
  - destruct abq_exec_ok as [Hwf Hgr]. split; [exact Hwf|]. split; [exact Hgr|]. exact (drf_abq_lemma _ Hwf Hgr).
  - destruct clq_exec_ok as [Hwf Hgr]. split; [exact Hwf|]. split; [exact Hgr|]. exact (drf_clq_lemma _ Hwf Hgr).
  - exact racy_exec_races.
Qed.
