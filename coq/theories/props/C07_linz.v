(* C07 — linearizability of the two blocking queues in the TEXTBOOK form (Herlihy-Wing: a legal
   sequential permutation of the completed calls, plus some pending ones, that respects real-time
   order), derived from their linearisation-point theorems (props/C07_abq.v [abq_linearizable] +
   [abq_return_values]; props/C07_lbq.v [lbq_linearizable]) by the generic theorem of lib/Linz.v
   (stated in props/C06_linz.v) — for EVERY event list of the models, CANCEL events included.

   Only statements here; every proof is `exact <lemma>` from proof/LinzInst2.v (linked queue) and
   proof/LinzInst3.v (array queue).  Definitions of [hist_wf], [linearizable_to],
   [linearization_of], [twitness]: lib/Linz.v (summary at the head of props/C06_linz.v).

   Sequential specification.  Both queues are BLOCKING and take a context: the specification is a
   relation (state, operation, result, state'),
     Enqueue v -> nil        enabled only below capacity; appends v            ([spec_enq] / [lbq_spec])
     Dequeue   -> (x, nil)   enabled only on a non-empty queue; removes the oldest element x
     Enqueue / Dequeue -> the context's error    possible in every state, no effect
     Len -> n,  AsSlice -> l   the length / contents, no effect
   ([abq_rel cap], [lbq_rel m]).  "Blocking" is what "not enabled" means: in a legal sequential
   history an Enqueue never succeeds on a full queue and a Dequeue never on an empty one.

   Histories.  Linked queue: the model's ghost history [q_hist] (HCall / HRet; the HLin events are
   erased), calls numbered (goroutine, k): [lbq_history].  Array queue: its model keeps no event
   history, so the history of a run is defined from the run itself ([abq_history cap evs], via
   [abq_hev]): each CALL event is an invocation, each observed return [ORet r] a response
   ([abq_history_is_the_runs]).  Calls without a marked step (context error; in the array queue
   also Len and AsSlice, which evaluate their result in the return statement under the read lock)
   are linearised at their response. *)
From Ekit Require Import Common Conc Linz.
From Ekit Require ABQModel LBQModel LinzInst2 LinzInst3.

(* ===================== 1. ConcurrentArrayBlockingQueue ===================== *)
Module ABQ.
Import ABQModel LinzInst3.

Theorem abq_linearizable_textbook :
  forall cap evs c, 1 <= cap -> exec abq_next (abq_init cap) evs = Some c ->
    hist_wf fst (abq_history cap evs) /\
    linearizable_to (abq_rel cap) [] (abq_history cap evs) (abq_abs c).
Proof. exact abq_textbook_lemma. Qed.
Print Assumptions abq_linearizable_textbook.

Theorem abq_linearizable_textbook_witness :
  forall cap evs c, 1 <= cap -> exec abq_next (abq_init cap) evs = Some c ->
    hist_wf fst (abq_history cap evs) /\
    linearization_of (abq_rel cap) [] (abq_history cap evs) (abq_abs c) (twitness (abq_ghost cap evs)).
Proof. exact abq_witness_lemma. Qed.
Print Assumptions abq_linearizable_textbook_witness.

(* the history is the run's: the visible events collected for one event of the run are its
   invocation (CALL) or the returns among its observations (STEP), nothing for CANCEL *)
Theorem abq_history_is_the_runs :
  forall c e o,
    filter (tvis abq_op abq_ret) (abq_hev c e o) =
    match e with ACall t op => [TCall t op] | AStep _ => abq_rets o | ACancel _ => [] end.
Proof. exact abq_hev_visible. Qed.
Print Assumptions abq_history_is_the_runs.

(* non-vacuity, capacity 1, two goroutines with OVERLAPPING calls: T1's Dequeue parks on the empty
   queue; T2's Enqueue(5) runs to completion (its Release wakes T1); T1 takes the lock, reads 5 and
   returns.  Dequeue is invoked first and returns last; the witness orders Enqueue before Dequeue *)
Local Open Scope nat_scope.
Definition linz_abq_sched : list abq_ev :=
  [ACall 1 OpDeq; AStep 1; ACall 2 (OpEnq 5%Z)] ++ repeat (AStep 2) 12 ++ repeat (AStep 1) 12.
Definition linz_abq_hist : list (event opid abq_op abq_ret) :=
  [Inv (1, 0) OpDeq; Inv (2, 0) (OpEnq 5%Z); Res (2, 0) RNil; Res (1, 0) (RVal 5%Z)].
Definition linz_abq_S : list (call opid abq_op abq_ret) :=
  [((2, 0), OpEnq 5%Z, RNil); ((1, 0), OpDeq, RVal 5%Z)].

Example abq_textbook_nonvacuous :
  exists c, exec abq_next (abq_init 1%Z) linz_abq_sched = Some c /\
            abq_history 1%Z linz_abq_sched = linz_abq_hist /\
            twitness (abq_ghost 1%Z linz_abq_sched) = linz_abq_S /\
            abq_abs c = [] /\
            linearization_of (abq_rel 1%Z) [] linz_abq_hist [] linz_abq_S.
Proof.
  remember (exec abq_next (abq_init 1%Z) linz_abq_sched) as r eqn:E.
  pose proof E as E0. vm_compute in E.
  match type of E with _ = Some ?c0 => exists c0 end.
  assert (He : exec abq_next (abq_init 1%Z) linz_abq_sched = Some
                 match r with Some c => c | None => abq_init 1%Z end)
    by (rewrite <- E0, E; reflexivity).
  split; [exact E|]. split; [vm_compute; reflexivity|]. split; [vm_compute; reflexivity|].
  split; [vm_compute; reflexivity|].
  rewrite E in He. exact (proj2 (abq_witness_lemma 1%Z _ _ ltac:(lia) He)).
Qed.

(* the other order is not legal: a Dequeue cannot deliver 5 from the empty queue *)
Example abq_other_order_illegal :
  forall s', ~ legal (abq_rel 1%Z) [] [(OpDeq, RVal 5%Z); (OpEnq 5%Z, RNil)] s'.
Proof. intros s' H. inversion H as [|? ? ? s1 ? ? H1 H2]; subst. cbn in H1. discriminate H1. Qed.

(* late responses: T1 Enqueue(7) completes (capacity 1: the queue is full); T2 Enqueue(8) parks,
   T1 calls Len, T2's context is cancelled and it returns the context's error, Len returns 1.
   The cancelled Enqueue is in the witness with the context's error and without effect *)
Definition linz_abq_sched2 : list abq_ev :=
  [ACall 1 (OpEnq 7%Z)] ++ repeat (AStep 1) 12 ++
  [ACall 2 (OpEnq 8%Z); AStep 2; ACall 1 OpLen; AStep 1; AStep 1; ACancel 2; AStep 2; AStep 2; AStep 1].

Example abq_textbook_nonvacuous_cancel :
  (abq_history 1%Z linz_abq_sched2, twitness (abq_ghost 1%Z linz_abq_sched2),
   option_map abq_abs (exec abq_next (abq_init 1%Z) linz_abq_sched2))
  = ([Inv (1, 0) (OpEnq 7%Z); Res (1, 0) RNil; Inv (2, 0) (OpEnq 8%Z); Inv (1, 1) OpLen;
      Res (2, 0) RCtx; Res (1, 1) (RLen 1%Z)],
     [((1, 0), OpEnq 7%Z, RNil); ((2, 0), OpEnq 8%Z, RCtx); ((1, 1), OpLen, RLen 1%Z)],
     Some [7%Z]).
Proof. vm_compute. reflexivity. Qed.

(* the definition rejects: a Dequeue that returns 5 from the never-filled queue; an Enqueue that
   succeeds on a full queue of capacity 1 would be rejected in the same way ([spec_enq] = None) *)
Example abq_textbook_rejects_invented_value :
  forall cap, ~ linearizable (abq_rel cap) [] [Inv (1, 0) OpDeq; Res (1, 0) (RVal 5%Z)].
Proof. intros cap. apply single_call_rejected. intros s' H. cbn in H. discriminate H. Qed.
End ABQ.

(* ===================== 2. ConcurrentLinkedBlockingQueue ===================== *)
Module LBQ.
Import LBQModel LinzInst2.

Theorem lbq_linearizable_textbook :
  forall m evs c, exec lbq_step (lbq_init m) evs = Some c ->
    hist_wf fst (lbq_history (q_hist c)) /\
    linearizable_to (lbq_rel m) [] (lbq_history (q_hist c)) (q_items c).
Proof. exact lbq_textbook_lemma. Qed.
Print Assumptions lbq_linearizable_textbook.

Theorem lbq_linearizable_textbook_witness :
  forall m evs c, exec lbq_step (lbq_init m) evs = Some c ->
    hist_wf fst (lbq_history (q_hist c)) /\
    linearization_of (lbq_rel m) [] (lbq_history (q_hist c)) (q_items c) (twitness (lbq_tagged (q_hist c))).
Proof. exact lbq_witness_lemma. Qed.
Print Assumptions lbq_linearizable_textbook_witness.

(* non-vacuity, maxSize 1, two goroutines with OVERLAPPING calls: T1's Dequeue finds the queue
   empty and parks in its select; T2 enqueues 7, its broadcast wakes T1; T1 re-locks, deletes and
   returns 7 (the schedule of props/C07_lbq.v) *)
Local Open Scope nat_scope.
Definition linz_lbq_sched : list lbq_ev :=
  [QCall 1 ODeq] ++ lbq_steps 1 8 ++ [QCall 2 (OEnq 7%Z)] ++ lbq_steps 2 11 ++ lbq_steps 1 10.
Definition linz_lbq_hist : list (event opid lbq_op lbq_res) :=
  [Inv (1, 0) ODeq; Inv (2, 0) (OEnq 7%Z); Res (2, 0) RNil; Res (1, 0) (RVal 7%Z)].
Definition linz_lbq_S : list (call opid lbq_op lbq_res) :=
  [((2, 0), OEnq 7%Z, RNil); ((1, 0), ODeq, RVal 7%Z)].

Example lbq_textbook_nonvacuous :
  exists c, exec lbq_step (lbq_init 1%Z) linz_lbq_sched = Some c /\
            lbq_history (q_hist c) = linz_lbq_hist /\
            twitness (lbq_tagged (q_hist c)) = linz_lbq_S /\
            q_items c = [] /\
            linearization_of (lbq_rel 1%Z) [] linz_lbq_hist [] linz_lbq_S.
Proof.
  remember (exec lbq_step (lbq_init 1%Z) linz_lbq_sched) as r eqn:E.
  pose proof E as E0. vm_compute in E.
  match type of E with _ = Some ?c0 => exists c0 end.
  assert (He : exec lbq_step (lbq_init 1%Z) linz_lbq_sched = Some
                 match r with Some c => c | None => lbq_init 1%Z end)
    by (rewrite <- E0, E; reflexivity).
  split; [exact E|]. split; [reflexivity|]. split; [reflexivity|]. split; [reflexivity|].
  rewrite E in He. exact (proj2 (lbq_witness_lemma 1%Z _ _ He)).
Qed.

(* late responses: the queue (maxSize 1) is full, T2's Enqueue parks; T1 calls Len; T2 is cancelled
   and returns the context's error; Len returns 1 *)
Definition linz_lbq_sched2 : list lbq_ev :=
  [QCall 1 (OEnq 1%Z)] ++ lbq_steps 1 11 ++ [QCall 2 (OEnq 2%Z)] ++ lbq_steps 2 8 ++
  [QCall 1 OLen; QStep 1; QCancel 2; QStep 2; QStep 2; QStep 1; QStep 1].

Example lbq_textbook_nonvacuous_cancel :
  option_map (fun c => (lbq_history (q_hist c), twitness (lbq_tagged (q_hist c)), q_items c))
             (exec lbq_step (lbq_init 1%Z) linz_lbq_sched2)
  = Some ([Inv (1, 0) (OEnq 1%Z); Res (1, 0) RNil; Inv (2, 0) (OEnq 2%Z); Inv (1, 1) OLen;
           Res (2, 0) RCtx; Res (1, 1) (RLen 1%Z)],
          [((1, 0), OEnq 1%Z, RNil); ((2, 0), OEnq 2%Z, RCtx); ((1, 1), OLen, RLen 1%Z)],
          [1%Z]).
Proof. vm_compute. reflexivity. Qed.

(* the definition rejects: an Enqueue that succeeds on the full queue — maxSize 1, after
   Enqueue(1) returned nil, Enqueue(2) returning nil too is not linearizable (it must block) *)
Example lbq_textbook_rejects_enqueue_on_full :
  ~ linearizable (lbq_rel 1%Z) []
      [Inv (1, 0) (OEnq 1%Z); Res (1, 0) RNil; Inv (1, 1) (OEnq 2%Z); Res (1, 1) RNil].
Proof.
  apply two_calls_rejected; [discriminate|].
  intros s1 s2 [H1|(_ & H1 & _)] [H2|(_ & H2 & _)]; try discriminate.
  cbn in H1. injection H1 as <-. cbn in H2. discriminate H2.
Qed.
End LBQ.
