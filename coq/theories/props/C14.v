(* C14 — LimitPool bounds outstanding objects; SegmentKeysLock excludes per key.
   Only statements here; every proof is `exact <lemma>` from proof/LimitPoolProof.v and
   proof/SegKeyProof.v.

   LimitPool: the model (model/LimitPoolModel.v) interleaves the individual Go statements of
   any number of concurrent Get/Put calls; the theorems quantify over EVERY event sequence
   the semantics accepts.  The counter is an atomic.Int64 (since the fix: commit).
   Hypotheses: 0 <= maxTokens < 2^63 (i.e. a non-negative Go int) and at most n <= 2^63
   calls in flight at a time ([lp_step_n n]; implied by "all thread ids < n").  The pinned
   code kept the counter in an int32 and truncated maxTokens >= 2^31:
   [lp_truncation_refuted] documents that defect, [lp_large_max_first_get] its repair.

   SegmentKeysLock: hash, index and dispatch are the library's code; the RWMutex record is a
   specification of sync.RWMutex's non-blocking contract (see proof/SegKeyProof.v). *)
From Ekit Require Import Common Conc LimitPoolModel SegKeyModel LimitPoolProof SegKeyProof.

(* ================= LimitPool ================= *)

(* 1. the inductive invariant of every reachable configuration: counter = maxTokens -
   outstanding - pending compensations; 0 <= held; 0 <= outstanding <= maxTokens; distinct
   thread ids; the counter never left the int64 range *)
Theorem lp_inv_reachable : forall m n,
  0 <= m < 2 ^ 63 -> Z.of_nat n <= 2 ^ 63 ->
  forall evs c, exec (lp_step_n n) (lp_init m) evs = Some c ->
  lp_max c = m /\
  lp_tokens c = m - lp_outstanding c - count (is_pc GetComp) (lp_thr c) /\
  0 <= lp_held c /\ 0 <= lp_outstanding c <= m /\
  NoDup (tids (lp_thr c)) /\ - 2 ^ 63 <= lp_tokens c < 2 ^ 63.
Proof. exact lp_inv_reachable_explicit_lemma. Qed.
Print Assumptions lp_inv_reachable.

(* no atomic add ever wraps: each step changes the counter by its mathematical delta *)
Theorem lp_no_wrap : forall m n,
  0 <= m < 2 ^ 63 -> Z.of_nat n <= 2 ^ 63 ->
  forall evs c e c',
    exec (lp_step_n n) (lp_init m) evs = Some c -> lp_step_n n c e = Some c' ->
    lp_tokens c' = lp_tokens c + lp_delta c e /\ - 2 ^ 63 <= lp_tokens c' < 2 ^ 63.
Proof. exact lp_no_wrap_lemma. Qed.
Print Assumptions lp_no_wrap.

(* 2. never more than maxTokens successful Gets outstanding, for every interleaving *)
Theorem lp_outstanding_le_max : forall m n,
  0 <= m < 2 ^ 63 -> Z.of_nat n <= 2 ^ 63 ->
  forall evs c, Forall (fun e => (ev_tid e < n)%nat) evs ->
  exec lp_step (lp_init m) evs = Some c -> lp_outstanding c <= m.
Proof. exact lp_outstanding_le_max_tids_lemma. Qed.
Print Assumptions lp_outstanding_le_max.

(* the same with the bound stated on the number of simultaneous calls instead of on tids *)
Theorem lp_outstanding_le_max_bounded : forall m n,
  0 <= m < 2 ^ 63 -> Z.of_nat n <= 2 ^ 63 ->
  forall evs c, exec (lp_step_n n) (lp_init m) evs = Some c -> 0 <= lp_outstanding c <= m.
Proof. exact lp_outstanding_le_max_lemma. Qed.
Print Assumptions lp_outstanding_le_max_bounded.

(* schedules using only thread ids < n are schedules with at most n calls in flight *)
Theorem lp_tids_schedule_is_bounded : forall m n evs c,
  Forall (fun e => (ev_tid e < n)%nat) evs ->
  exec lp_step (lp_init m) evs = Some c -> exec (lp_step_n n) (lp_init m) evs = Some c.
Proof. exact exec_tids_bounded_init. Qed.
Print Assumptions lp_tids_schedule_is_bounded.

(* 3. conservation: with no call in flight the counter is exactly maxTokens - held *)
Theorem lp_conservation_at_quiescence : forall m n,
  0 <= m < 2 ^ 63 -> Z.of_nat n <= 2 ^ 63 ->
  forall evs c, exec (lp_step_n n) (lp_init m) evs = Some c ->
  lp_thr c = [] -> lp_tokens c = m - lp_held c /\ 0 <= lp_held c <= m.
Proof. exact lp_conservation_at_quiescence_lemma. Qed.
Print Assumptions lp_conservation_at_quiescence.

(* a Get run alone from a quiescent configuration succeeds iff the counter is positive and
   takes one token exactly then *)
Theorem lp_get_alone_exact : forall m c t,
  0 <= m < 2 ^ 63 -> lp_inv m c -> lp_thr c = [] ->
  exists c',
    lp_get_alone c t = Some (c', 0 <? lp_tokens c) /\
    lp_thr c' = [] /\ lp_inv m c' /\
    lp_tokens c' = lp_tokens c - (if 0 <? lp_tokens c then 1 else 0) /\
    lp_held c' = lp_held c + (if 0 <? lp_tokens c then 1 else 0).
Proof. exact lp_get_alone_quiescent. Qed.
Print Assumptions lp_get_alone_exact.

(* once everything borrowed has been Put back — whatever interleaving of Gets, failed Gets
   and Puts occurred — exactly maxTokens further Gets succeed and the next one fails *)
Theorem lp_exactly_max_after_return : forall m n,
  0 <= m < 2 ^ 63 -> Z.of_nat n <= 2 ^ 63 ->
  forall evs c ts, exec (lp_step_n n) (lp_init m) evs = Some c ->
  lp_thr c = [] -> lp_held c = 0 -> length ts = S (Z.to_nat m) ->
  exists c', lp_gets_alone c ts = Some (c', repeat true (Z.to_nat m) ++ [false]).
Proof. exact lp_exactly_max_after_return_lemma. Qed.
Print Assumptions lp_exactly_max_after_return.

(* with h objects still held at quiescence exactly maxTokens - h further Gets succeed *)
Theorem lp_remaining_gets : forall m n,
  0 <= m < 2 ^ 63 -> Z.of_nat n <= 2 ^ 63 ->
  forall evs c ts, exec (lp_step_n n) (lp_init m) evs = Some c -> lp_thr c = [] ->
  exists c', lp_gets_alone c ts =
    Some (c', repeat true (Nat.min (length ts) (Z.to_nat (m - lp_held c)))
              ++ repeat false (length ts - Z.to_nat (m - lp_held c))).
Proof. exact lp_remaining_gets_lemma. Qed.
Print Assumptions lp_remaining_gets.

(* 4. documentation of the repaired defect: the pinned 32-bit constructor truncates
   maxTokens = 2^31 + 5 to a negative counter, from which the first Get fails *)
Theorem lp_truncation_refuted :
  exists m, 2 ^ 31 <= m < 2 ^ 63 /\ lp_init_pinned32 m = - 2 ^ 31 + 5 /\ lp_init_pinned32 m < 0 /\
    exists c', lp_get_alone {| lp_max := m; lp_tokens := lp_init_pinned32 m;
                               lp_thr := []; lp_held := 0 |} 0%nat = Some (c', false).
Proof. exact lp_truncation_refuted_lemma. Qed.
Print Assumptions lp_truncation_refuted.

(* ... and on the current code (64-bit counter) the same maxTokens is inside the hypotheses:
   the counter starts at maxTokens and the first Get executed alone succeeds;
   [lp_exactly_max_after_return] covers every maxTokens up to 2^63 - 1 *)
Theorem lp_large_max_first_get :
  lp_tokens (lp_init (2 ^ 31 + 5)) = 2 ^ 31 + 5 /\
  exists c', lp_get_alone (lp_init (2 ^ 31 + 5)) 0%nat = Some (c', true) /\
             lp_tokens c' = 2 ^ 31 + 4 /\ lp_held c' = 1.
Proof. exact lp_large_max_first_get_lemma. Qed.
Print Assumptions lp_large_max_first_get.

Theorem lp_init_exact_in_range : forall m, 0 <= m < 2 ^ 63 -> lp_tokens (lp_init m) = m.
Proof. exact lp_init_exact. Qed.
Print Assumptions lp_init_exact_in_range.

(* ================= SegmentKeysLock ================= *)

(* 5. the hash is a uint32, the slice index is always in range (no panic for size >= 1) *)
Theorem fnv1a_range : forall key, 0 <= fnv1a key < 2 ^ 32.
Proof. exact fnv1a_range_lemma. Qed.
Print Assumptions fnv1a_range.

Theorem seg_index_range : forall size key, 0 < size -> 0 <= seg_index size key < size.
Proof. exact seg_index_range_lemma. Qed.
Print Assumptions seg_index_range.

(* the lock an operation touches depends only on (size, bytes of the key) ... *)
Theorem same_bytes_same_lock : forall size (k1 k2 : list Z),
  k1 = k2 -> seg_index size k1 = seg_index size k2.
Proof. exact same_bytes_same_lock_lemma. Qed.
Print Assumptions same_bytes_same_lock.

(* ... and on the key only through its index *)
Theorem seg_step_index_only : forall s o k1 k2,
  seg_index (seg_size s) k1 = seg_index (seg_size s) k2 ->
  seg_step s (op_with_key o k1) = seg_step s (op_with_key o k2).
Proof. exact seg_step_index_only_lemma. Qed.
Print Assumptions seg_step_index_only.

(* 6. every reachable state: right size, every lock well-formed (writer => no readers,
   readers >= 0), only slots 0..size-1 touched *)
Theorem seg_inv_reachable : forall size ops,
  0 < size ->
  let s := seg_final (seg_init size) ops in
  seg_size s = size /\
  (forall i, (rw_writer (lock_at s i) = true -> rw_readers (lock_at s i) = 0) /\
             0 <= rw_readers (lock_at s i)) /\
  Forall (fun jr => 0 <= fst jr < size) (seg_locks s).
Proof. exact seg_inv_reachable_explicit_lemma. Qed.
Print Assumptions seg_inv_reachable.

(* a successful TryLock/Lock acquires the write lock, and it could only succeed because
   nobody held a read or write lock of that segment *)
Theorem lock_acquires : forall s k s',
  (seg_step s (STryLock k) = (s', SBool true) \/ seg_step s (SLock k) = (s', SUnit)) ->
  write_held s' k /\ rw_readers (lock_of s k) = 0 /\ rw_writer (lock_of s k) = false.
Proof. exact lock_acquires_lemma. Qed.
Print Assumptions lock_acquires.

(* state form: while k is write-held, every acquisition on a key of the same segment fails *)
Theorem write_excludes_all : forall s k k',
  write_held s k -> same_seg s k' k ->
  seg_step s (STryLock k') = (s, SBool false) /\
  seg_step s (STryRLock k') = (s, SBool false) /\
  seg_step s (SLock k') = (s, SWouldBlock) /\
  seg_step s (SRLock k') = (s, SWouldBlock).
Proof. exact write_excludes_all_lemma. Qed.
Print Assumptions write_excludes_all.

Theorem write_held_no_readers : forall size s k,
  seg_inv size s -> write_held s k -> rw_readers (lock_of s k) = 0.
Proof. exact write_held_no_readers_lemma. Qed.
Print Assumptions write_held_no_readers.

(* only an Unlock of that segment releases a held write lock *)
Theorem write_held_persists : forall size s k o,
  seg_inv size s -> write_held s k ->
  ~ is_unlock_of s (seg_index (seg_size s) k) o ->
  write_held (fst (seg_step s o)) k /\
  (same_seg s (op_key o) k -> seg_step s o = (s, snd (seg_step s o))).
Proof. exact write_held_persists_lemma. Qed.
Print Assumptions write_held_persists.

(* history form: after any history, a successful TryLock(k)/Lock(k) not followed by an Unlock
   of its segment makes TryLock and TryRLock on every key with the same index (in
   particular every key with equal bytes) answer false, and Lock/RLock would block *)
Theorem trylock_fails_while_held : forall size ops1 ops2 k k' s1,
  0 < size ->
  (seg_step (seg_final (seg_init size) ops1) (STryLock k) = (s1, SBool true) \/
   seg_step (seg_final (seg_init size) ops1) (SLock k) = (s1, SUnit)) ->
  Forall (fun o => ~ is_unlock_of s1 (seg_index size k) o) ops2 ->
  seg_index size k' = seg_index size k ->
  let s2 := seg_final s1 ops2 in
  seg_step s2 (STryLock k') = (s2, SBool false) /\
  seg_step s2 (STryRLock k') = (s2, SBool false) /\
  seg_step s2 (SLock k') = (s2, SWouldBlock) /\
  seg_step s2 (SRLock k') = (s2, SWouldBlock).
Proof. exact write_excludes_all_reachable_lemma. Qed.
Print Assumptions trylock_fails_while_held.

(* ... and every acquisition attempted in between was denied *)
Theorem no_acquisition_while_write_held : forall size k, 0 < size ->
  forall ops s, seg_inv size s -> write_held s k ->
  Forall (fun o => ~ is_unlock_of s (seg_index (seg_size s) k) o) ops ->
  write_held (seg_final s ops) k /\
  Forall2 (fun o out => is_acquire o -> same_seg s (op_key o) k -> acquire_denied out)
          ops (seg_run s ops).
Proof. exact write_excludes_history. Qed.
Print Assumptions no_acquisition_while_write_held.

(* TryLock answers true exactly when the segment is free (it fails under read locks too);
   TryRLock answers true exactly when there is no writer *)
Theorem trylock_true_iff_free : forall s k,
  snd (seg_step s (STryLock k)) = SBool true <->
  rw_writer (lock_of s k) = false /\ rw_readers (lock_of s k) = 0.
Proof. exact trylock_true_iff_free_lemma. Qed.
Print Assumptions trylock_true_iff_free.

Theorem tryrlock_true_iff_no_writer : forall s k,
  snd (seg_step s (STryRLock k)) = SBool true <-> rw_writer (lock_of s k) = false.
Proof. exact tryrlock_true_iff_no_writer_lemma. Qed.
Print Assumptions tryrlock_true_iff_no_writer.

(* read locks on one key are shared *)
Theorem readers_share : forall s k,
  rw_writer (lock_of s k) = false ->
  exists s', seg_step s (STryRLock k) = (s', SBool true) /\
    rw_readers (lock_of s' k) = rw_readers (lock_of s k) + 1 /\
    rw_writer (lock_of s' k) = false.
Proof. exact readers_share_lemma. Qed.
Print Assumptions readers_share.

Theorem readers_share_any_number : forall s k n,
  rw_writer (lock_of s k) = false ->
  seg_run s (repeat (STryRLock k) n) = repeat (SBool true) n /\
  rw_readers (lock_of (seg_final s (repeat (STryRLock k) n)) k)
    = rw_readers (lock_of s k) + Z.of_nat n /\
  rw_writer (lock_of (seg_final s (repeat (STryRLock k) n)) k) = false.
Proof. exact readers_share_many. Qed.
Print Assumptions readers_share_any_number.

(* operations on other segments do not interfere *)
Theorem seg_step_other_segment : forall s o i,
  op_index s o <> i -> lock_at (fst (seg_step s o)) i = lock_at s i.
Proof. exact seg_step_other_segment_lemma. Qed.
Print Assumptions seg_step_other_segment.

(* when nothing is held every TryLock succeeds *)
Theorem all_trylocks_succeed_when_idle : forall s k,
  seg_idle s -> snd (seg_step s (STryLock k)) = SBool true.
Proof. exact all_trylocks_succeed_when_idle_lemma. Qed.
Print Assumptions all_trylocks_succeed_when_idle.

Theorem all_trylocks_succeed_initially : forall size k,
  snd (seg_step (seg_init size) (STryLock k)) = SBool true.
Proof. exact all_trylocks_succeed_initially_lemma. Qed.
Print Assumptions all_trylocks_succeed_initially.

Theorem trylock_succeeds_when_free : forall s k,
  seg_free_at s k -> exists s', seg_step s (STryLock k) = (s', SBool true) /\ write_held s' k.
Proof. exact trylock_succeeds_when_free_lemma. Qed.
Print Assumptions trylock_succeeds_when_free.

(* a balanced Lock/Unlock (RLock/RUnlock) restores idleness *)
Theorem lock_unlock_restores_idle : forall s k s1,
  seg_idle s -> seg_step s (STryLock k) = (s1, SBool true) ->
  snd (seg_step s1 (SUnlock k)) = SUnit /\ seg_idle (fst (seg_step s1 (SUnlock k))).
Proof. exact lock_unlock_restores_idle_lemma. Qed.
Print Assumptions lock_unlock_restores_idle.

Theorem rlock_runlock_restores_idle : forall s k s1,
  seg_idle s -> seg_step s (STryRLock k) = (s1, SBool true) ->
  snd (seg_step s1 (SRUnlock k)) = SUnit /\ seg_idle (fst (seg_step s1 (SRUnlock k))).
Proof. exact rlock_runlock_restores_idle_lemma. Qed.
Print Assumptions rlock_runlock_restores_idle.

(* ================= non-vacuity ================= *)

(* two Gets race for the single token of a pool with maxTokens = 1: both decrement (the
   counter is transiently -1), goroutine 0 succeeds, goroutine 1 sees -1, compensates and
   fails; then the object is Put back and a later Get succeeds again *)
Definition c14_race : list lp_ev :=
  [LCallGet 0%nat; LCallGet 1%nat; LStep 0%nat; LStep 1%nat].
Definition c14_race_rest : list lp_ev :=
  [LStep 0%nat; LStep 1%nat; LStep 1%nat; LCallPut 0%nat; LStep 0%nat; LStep 0%nat].

Example c14_limitpool_nonvacuous :
  Forall (fun e => (ev_tid e < 2)%nat) (c14_race ++ c14_race_rest) /\
  lp_run (lp_init 1) c14_race =
    Some ({| lp_max := 1; lp_tokens := -1;
             lp_thr := [(0%nat, GetRetT); (1%nat, GetComp)]; lp_held := 0 |},
          [LAt GetDec; LAt GetDec; LAt GetRetT; LAt GetComp]) /\
  lp_run (lp_init 1) (c14_race ++ c14_race_rest) =
    Some ({| lp_max := 1; lp_tokens := 1; lp_thr := []; lp_held := 0 |},
          [LAt GetDec; LAt GetDec; LAt GetRetT; LAt GetComp;
           LRetGet true; LAt GetRetF; LRetGet false; LAt PutPool; LAt PutAdd; LRetPut]) /\
  exec (lp_step_n 2) (lp_init 1) (c14_race ++ c14_race_rest) =
    Some {| lp_max := 1; lp_tokens := 1; lp_thr := []; lp_held := 0 |} /\
  (exists c', lp_gets_alone {| lp_max := 1; lp_tokens := 1; lp_thr := []; lp_held := 0 |}
                [5%nat; 6%nat] = Some (c', [true; false])).
Proof.
  split; [repeat constructor|].
  split; [vm_compute; reflexivity|].
  split; [vm_compute; reflexivity|].
  split; [vm_compute; reflexivity|].
  eexists. vm_compute. reflexivity.
Qed.

(* "a" and "e" fall into the same of 4 segments (FNV-1a("a") = 0xe40c292c), "b" does not:
   holding Lock("a") makes TryLock/TryRLock("a") and ("e") fail, TryLock("b") succeed; after
   Unlock the read locks on "a" and "e" are shared and exclude the writer.
   Note the caveat: exclusion is per segment — distinct colliding keys exclude each other. *)
Example c14_segkey_nonvacuous :
  fnv1a [97] = 3826002220 /\
  seg_index 4 [97] = 0 /\ seg_index 4 [101] = 0 /\ seg_index 4 [98] = 1 /\
  seg_run (seg_init 4)
    [STryLock [97]; STryLock [97]; STryRLock [97]; STryLock [101]; STryRLock [101];
     STryLock [98]; SUnlock [101]; STryRLock [97]; STryRLock [101]; STryLock [97];
     SRUnlock [97]; SRUnlock [97]; SUnlock [98]; STryLock [101]]
  = [SBool true; SBool false; SBool false; SBool false; SBool false;
     SBool true; SUnit; SBool true; SBool true; SBool false;
     SUnit; SUnit; SUnit; SBool true].
Proof. repeat split; vm_compute; reflexivity. Qed.
