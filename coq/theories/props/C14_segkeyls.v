(* C14, object `segkeyls` - syncx.SegmentKeysLock under CONCURRENCY: "while a goroutine holds Lock(k), no other
   goroutine holds a read or write lock for an equal key string and TryLock/TryRLock on it fail; read locks on
   one key can be shared; and when nothing is held every TryLock succeeds" - for every interleaving.
   Only statements here; every proof is `exact <lemma>` from proof/SegKeyLSProof.v.

   Model (model/SegKeyLSModel.v): any number of goroutines call Lock/Unlock/RLock/RUnlock/TryLock/TryRLock on
   byte-list keys; one step = one Go statement of segment_key_lock.go (the method statement, the two statements of
   getLock, the three of hash; the FNV-1a hash is computed across hash's statements into a local); the step that
   leaves `return s.locks[hash%s.size]` indexes the slice (explicit run-time panics), performs the RWMutex operation
   and returns.  A Lock/RLock that would block is not enabled.  The theorems quantify over EVERY event list
   [evs] accepted by the semantics - any number of goroutines, any interleaving - and every size >= 1.

   Trusted specification: the record [rw] with [can_write]/[can_read] (model/SegKeyModel.v) stands for
   sync.RWMutex (Lock enabled iff no writer and no reader; RLock iff no writer; the Try variants answer that).
   Client discipline (built into which CALL events are enabled): a goroutine calls Unlock(k)/RUnlock(k) only
   while it holds a write/read acquisition of k's segment; [segkeyls_index_in_range] shows that then no release
   step is a misuse.  Ghost state [sk_holds] records who holds what; [writers_at]/[readers_at] count the recorded
   write/read acquisitions of a slice index. *)
From Ekit Require Import Common Conc SegKeyModel SegKeyProof SegKeyLSModel SegKeyLSProof.

(* 1. mutual exclusion, per slice index, in every reachable configuration: at most one write holder, and then
   no read holder; the model's lock word is exactly the set of holders *)
Theorem segkeyls_mutual_exclusion : forall size evs c,
  1 <= size -> exec sk_step (sk_init size) evs = Some c ->
  forall i,
    0 <= writers_at c i <= 1 /\ 0 <= readers_at c i /\ (writers_at c i = 1 -> readers_at c i = 0) /\
    rw_writer (get_lock i (sk_locks c)) = (writers_at c i =? 1) /\
    rw_readers (get_lock i (sk_locks c)) = readers_at c i.
Proof. exact segkeyls_mutual_exclusion_lemma. Qed.
Print Assumptions segkeyls_mutual_exclusion.

(* the same on the acquisition records: a write acquisition of an index is the only acquisition of that index *)
Theorem segkeyls_write_holder_alone : forall size evs c,
  1 <= size -> exec sk_step (sk_init size) evs = Some c ->
  forall h1 h2, In h1 (sk_holds c) -> In h2 (sk_holds c) ->
    h_idx h1 = h_idx h2 -> h_write h1 = true -> h1 = h2.
Proof. exact segkeyls_write_holder_alone_lemma. Qed.
Print Assumptions segkeyls_write_holder_alone.

(* 2. while goroutine t holds Lock(k): nobody (else, and t not a second time) holds a read or write lock for an
   equal key, every TryLock/TryRLock on an equal key that completes answers false, and no Lock/RLock on it
   completes (such a completion would be an ORet with RUnit) *)
Theorem segkeyls_lock_excludes_equal_keys : forall size evs c t k,
  1 <= size -> exec sk_step (sk_init size) evs = Some c -> holds_lock c t k ->
  (forall t' k' (w : bool), k' = k ->
     (if w then holds_lock c t' k' else holds_rlock c t' k') -> t' = t /\ w = true) /\
  (forall e c' o k' r, sk_exec1 c e = Some (c', ORet o k' r) -> k' = k -> is_acquire o = true ->
     r = RBool false).
Proof. exact segkeyls_lock_excludes_equal_keys_lemma. Qed.
Print Assumptions segkeyls_lock_excludes_equal_keys.

(* ... more generally for every key of the same segment (colliding distinct keys share the lock): the write
   acquisition is the only acquisition recorded for the segment *)
Theorem segkeyls_lock_excludes_same_segment : forall size evs c t k,
  1 <= size -> exec sk_step (sk_init size) evs = Some c -> holds_lock c t k ->
  (forall h, In h (sk_holds c) -> seg_index size (h_key h) = seg_index size k ->
     h = {| h_tid := t; h_key := k; h_idx := seg_index size k; h_write := true |}) /\
  (forall e c' o k' r, sk_exec1 c e = Some (c', ORet o k' r) ->
     seg_index size k' = seg_index size k -> is_acquire o = true -> r = RBool false).
Proof. exact segkeyls_lock_excludes_same_segment_lemma. Qed.
Print Assumptions segkeyls_lock_excludes_same_segment.

(* 3. read locks are shared: an RLock / TryRLock about to execute its last statement on a segment without a
   write holder is enabled and succeeds ([ret_of]: true for the Try variant) however many read holders there
   are; the earlier holders stay and the reader count grows by one *)
Theorem segkeyls_readers_share : forall size evs c t o k,
  1 <= size -> exec sk_step (sk_init size) evs = Some c ->
  at_last c t o k -> o = ORLock \/ o = OTryRLock ->
  writers_at c (seg_index size k) = 0 ->
  exists c', sk_exec1 c (SStep t) = Some (c', ORet o k (ret_of o)) /\
             sk_holds c' = sk_holds c ++ [{| h_tid := t; h_key := k; h_idx := seg_index size k; h_write := false |}] /\
             readers_at c' (seg_index size k) = readers_at c (seg_index size k) + 1 /\
             writers_at c' (seg_index size k) = 0 /\
             holds_rlock c' t k.
Proof. exact segkeyls_readers_share_lemma. Qed.
Print Assumptions segkeyls_readers_share.

(* 4. when nothing is held: every acquiring call at its last statement is enabled, and every acquiring call that
   completes - whichever goroutine, whichever key, whatever other calls are in flight - succeeds *)
Theorem segkeyls_trylock_succeeds_when_idle : forall size evs c,
  1 <= size -> exec sk_step (sk_init size) evs = Some c -> sk_holds c = [] ->
  (forall t o k, at_last c t o k -> is_acquire o = true ->
     exists c', sk_exec1 c (SStep t) = Some (c', ORet o k (ret_of o))) /\
  (forall e c' o k r, sk_exec1 c e = Some (c', ORet o k r) -> is_acquire o = true -> r = ret_of o).
Proof. exact segkeyls_trylock_succeeds_when_idle_lemma. Qed.
Print Assumptions segkeyls_trylock_succeeds_when_idle.

(* ... as whole calls: CALL + six steps without interleaving from any configuration with nothing held *)
Theorem segkeyls_call_alone_succeeds_when_idle : forall size evs c t o k,
  1 <= size -> exec sk_step (sk_init size) evs = Some c -> sk_holds c = [] ->
  lookup t (sk_thr c) = None -> is_acquire o = true ->
  exists c', sk_call_alone c t o k = Some (c', ORet o k (ret_of o)).
Proof. exact segkeyls_call_alone_succeeds_when_idle_lemma. Qed.
Print Assumptions segkeyls_call_alone_succeeds_when_idle.

(* ... and per segment: Lock / TryLock succeeds when its own segment is idle, whatever is held elsewhere *)
Theorem segkeyls_trylock_succeeds_on_idle_segment : forall size evs c t o k,
  1 <= size -> exec sk_step (sk_init size) evs = Some c ->
  at_last c t o k -> o = OLock \/ o = OTryLock ->
  writers_at c (seg_index size k) = 0 -> readers_at c (seg_index size k) = 0 ->
  exists c', sk_exec1 c (SStep t) = Some (c', ORet o k (ret_of o)) /\ holds_lock c' t k.
Proof. exact segkeyls_trylock_succeeds_on_idle_segment_lemma. Qed.
Print Assumptions segkeyls_trylock_succeeds_on_idle_segment.

(* 5. never panics: whenever a goroutine is about to execute `return s.locks[hash%s.size]` the divisor is not 0
   and the index is inside the slice (it is [seg_index] of the key: the hash was computed correctly across the
   three statements of hash); no step yields a panic, and no release is a misuse *)
Theorem segkeyls_index_in_range : forall size evs c,
  1 <= size -> exec sk_step (sk_init size) evs = Some c ->
  (forall t f, lookup t (sk_thr c) = Some f -> f_pc f = PGet2 ->
     sk_size c <> 0 /\ 0 <= f_h f mod sk_size c < size /\ f_h f mod sk_size c = seg_index size (f_key f)) /\
  (forall e c' o, sk_exec1 c e = Some (c', o) -> o <> OPanic /\ o <> OMisuse).
Proof. exact segkeyls_index_in_range_lemma. Qed.
Print Assumptions segkeyls_index_in_range.

(* ---------------- non-vacuity ---------------- *)
Definition demo_call (t : tid) (o : sk_op) (k : list Z) : list sk_ev := SCall t o k :: repeat (SStep t) 6.
(* two calls interleaved statement by statement: both goroutines are inside getLock/hash at the same time and
   both stand at `return s.locks[hash%s.size]` before either executes it *)
Definition demo_both (t1 : tid) (o1 : sk_op) (k1 : list Z) (t2 : tid) (o2 : sk_op) (k2 : list Z) : list sk_ev :=
  [SCall t1 o1 k1; SCall t2 o2 k2] ++ concat (repeat [SStep t1; SStep t2] 5) ++ [SStep t1; SStep t2].
Definition demo_key : list Z := [107; 101; 121].          (* "key" *)
Definition demo_key2 : list Z := [233; 148; 174].         (* a non-ASCII key (UTF-8 of U+952E) *)

(* 3 segments.  Goroutines 1 and 2 race through getLock for the first access to the segment: TryLock answers
   true to exactly one.  While 1 holds Lock("key"), TryLock and TryRLock on an equal key by 3 and 4 (again
   interleaved) fail.  After Unlock, 2 and 3 take read locks on the key together; a TryLock by 4 fails while they
   hold them; and the final configuration has two read holders of one key. *)
Definition demo_evs : list sk_ev :=
  demo_both 1%nat OTryLock demo_key 2%nat OTryLock demo_key ++
  demo_both 3%nat OTryLock demo_key 4%nat OTryRLock demo_key ++
  demo_call 1%nat OUnlock demo_key ++
  demo_both 2%nat ORLock demo_key 3%nat OTryRLock demo_key ++
  demo_call 4%nat OTryLock demo_key.

Example segkeyls_nonvacuous :
  exists c,
    exec sk_step (sk_init 3) demo_evs = Some c /\
    map snd (sk_rets (sk_init 3) demo_evs) =
      [ORet OTryLock demo_key (RBool true); ORet OTryLock demo_key (RBool false);
       ORet OTryLock demo_key (RBool false); ORet OTryRLock demo_key (RBool false);
       ORet OUnlock demo_key RUnit;
       ORet ORLock demo_key RUnit; ORet OTryRLock demo_key (RBool true);
       ORet OTryLock demo_key (RBool false)] /\
    holds_rlock c 2%nat demo_key /\ holds_rlock c 3%nat demo_key /\
    readers_at c (seg_index 3 demo_key) = 2 /\ writers_at c (seg_index 3 demo_key) = 0 /\ sk_thr c = [].
Proof.
  eexists. split; [vm_compute; reflexivity|].
  split; [vm_compute; reflexivity|].
  split; [exists (seg_index 3 demo_key); vm_compute; auto|].
  split; [exists (seg_index 3 demo_key); vm_compute; auto|].
  repeat split; vm_compute; reflexivity.
Qed.

(* the configuration in the middle of the schedule: goroutine 1 holds Lock("key") while 3 and 4 both stand at the
   last statement of their attempts on an equal key - the premises of theorem 2 are met by a real configuration *)
Example segkeyls_nonvacuous_exclusion :
  exists c,
    exec sk_step (sk_init 3)
         (demo_both 1%nat OTryLock demo_key 2%nat OTryLock demo_key ++
          [SCall 3%nat OTryLock demo_key; SCall 4%nat OTryRLock demo_key] ++
          concat (repeat [SStep 3%nat; SStep 4%nat] 5)) = Some c /\
    holds_lock c 1%nat demo_key /\ at_last c 3%nat OTryLock demo_key /\ at_last c 4%nat OTryRLock demo_key.
Proof.
  eexists. split; [vm_compute; reflexivity|].
  split; [exists (seg_index 3 demo_key); vm_compute; auto|].
  split; eexists; (split; [vm_compute; reflexivity|]); auto.
Qed.

(* colliding DISTINCT keys share a lock: with one segment, Lock("key") makes TryRLock on the non-ASCII key fail;
   with 3 segments the two keys are in different segments and both TryLocks succeed *)
Example segkeyls_nonvacuous_collision :
  map snd (sk_rets (sk_init 1) (demo_call 1%nat OLock demo_key ++ demo_call 2%nat OTryRLock demo_key2)) =
    [ORet OLock demo_key RUnit; ORet OTryRLock demo_key2 (RBool false)] /\
  seg_index 3 demo_key <> seg_index 3 demo_key2 /\
  map snd (sk_rets (sk_init 3) (demo_both 1%nat OTryLock demo_key 2%nat OTryLock demo_key2)) =
    [ORet OTryLock demo_key (RBool true); ORet OTryLock demo_key2 (RBool true)].
Proof. repeat split; vm_compute; try reflexivity. discriminate. Qed.

(* a blocking Lock on a held key is NOT ENABLED at its last statement (the controller never grants it) *)
Example segkeyls_nonvacuous_lock_blocks :
  exists c, exec sk_step (sk_init 2) (demo_call 1%nat ORLock demo_key ++ SCall 2%nat OLock demo_key :: repeat (SStep 2%nat) 5) = Some c /\
            at_last c 2%nat OLock demo_key /\ sk_exec1 c (SStep 2%nat) = None.
Proof.
  eexists. split; [vm_compute; reflexivity|]. split; [|vm_compute; reflexivity].
  eexists; (split; [vm_compute; reflexivity|]); auto.
Qed.

(* size 0 is outside the hypotheses for a reason: the model reproduces Go's integer-divide-by-zero panic *)
Example segkeyls_size0_panics :
  map snd (sk_rets (sk_init 0) (demo_call 1%nat OTryLock demo_key)) = [OPanic].
Proof. vm_compute. reflexivity. Qed.
