(* C01 (continued) — the tree-backed LINKED and MULTI maps: mapx.NewLinkedTreeMap,
   mapx.NewMultiTreeMap.  Only statements here; every proof is `exact <lemma>` from
   proof/RBDecor.v, which discharges the assumption `backing_refines` of the generic decorator
   theorems of props/C03.v (linkedmap_refines_insertion_ordered_map,
   multimap_refines_map_of_lists: LinkedMap / MultiMap over ANY backing that refines the
   abstract map) for mapx.TreeMap, out of C01's own simulation (proof/RBRefineSim.v: tm_step_sim)
   and the permutation lemmas of proof/DecorSpecProof.v.

   Models:  model/DecorModel.v    LinkedMap (lstep: index map + doubly linked order list in a
                                  heap of nodes) and MultiMap (mmstep) as functors over a `backing`
            model/TreeMapModel.v  mapx.TreeMap (tm_step) — the backing here:
            proof/RBDecor.v       tree_backing uzero cmp : backing (rbtree * list U) U.  Every field
                                  is tm_step of the public method the decorators call (Put / Get /
                                  Delete / Keys / Values / Len).  RBModel's values are Z, the
                                  decorators store *linkedKV (node ids) resp. []V: the value a tree
                                  node holds is a HANDLE into an append-only store of U values
                                  (the Go tree never inspects values, it only stores / overwrites /
                                  moves them).
   Spec:    model/DecorSpec.v     astep: the association list keyed up to `eqb`, in FIRST-INSERTION
                                  order of the live key classes (a new class is appended, an
                                  existing one is updated in place keeping its first inserted
                                  representative, a deleted one is removed in place);
            model/DecorModel.v    mm_spec_step: the abstract map of lists (PutMany appends).
   Key equality of the spec:      cmp_eqb cmp a b := (cmp a b =? 0)   — only the comparator
                                  defines equality of keys.

   All theorems are for EVERY history, every value type and EVERY comparator cmp : Z -> Z -> Z
   that is a strict weak order — the same three Section hypotheses as props/C01.v.

   TreeMap.Put's error result (which LinkedMap.Put / MultiMap.PutMany would pass on) has no slot
   in the `backing` interface; linked_treemap_put_never_fails shows it is nil in every reachable
   state (and treemap_refines_map of props/C01.v shows the same for the bare TreeMap). *)
From Ekit Require Import Common RBModel TreeMapModel DecorSpec DecorModel RBRefineSim RBDecor.
From Coq Require Import Sorted.

Section C01_decor.
  Variable cmp : Z -> Z -> Z.
  Hypothesis cmp_antisym : forall a b, cmp a b < 0 <-> cmp b a > 0.
  Hypothesis cmp_trans : forall a b c, cmp a b < 0 -> cmp b c < 0 -> cmp a c < 0.
  Hypothesis cmp_eq_lt : forall a b c, cmp a b = 0 -> cmp a c < 0 -> cmp b c < 0.

  (* "the comparator returns 0" is an equivalence (the law the decorator spec needs of eqb) *)
  Theorem cmp_eqb_is_equivalence : eqb_equivalence (cmp_eqb cmp).
  Proof. exact (cmp_eqb_equivalence_lemma cmp cmp_antisym cmp_trans cmp_eq_lt). Qed.

  (* mapx.TreeMap[K, U] satisfies the assumption of the decorator theorems, for every value type *)
  Theorem tree_backing_refines : forall (U : Type) (uzero : U),
    backing_refines uzero (cmp_eqb cmp) (tree_backing uzero cmp) (tree_R uzero cmp).
  Proof. exact (tree_backing_refines_lemma cmp cmp_antisym cmp_trans cmp_eq_lt). Qed.

  (* NewLinkedTreeMap: every output of every history — Put / Get / Delete results, Len, and
     Keys / Values AS SEQUENCES — equals that of the insertion-ordered abstract map: Keys and
     Values list the live key classes in first-insertion order (NOT in comparator order), each by
     its first inserted representative and its latest value; the walk of the order list never
     runs out of fuel (ROutOfFuel is not an output of astep) *)
  Theorem linked_treemap_refines_insertion_ordered_map :
    forall (V : Type) (vzero : V) (ops : list (mop V)),
      snd (run (lstep vzero (tree_backing 0%nat cmp)) (linit vzero tree_init) ops)
      = snd (run (astep vzero (cmp_eqb cmp)) [] ops).
  Proof. exact (linked_treemap_lemma cmp cmp_antisym cmp_trans cmp_eq_lt). Qed.

  (* NewMultiTreeMap: Get / Delete results, Len, and Keys / Values (as multisets) equal those of
     the abstract map of lists, where PutMany k vs appends vs to the list stored under k's class *)
  Theorem multi_treemap_refines_map_of_lists :
    forall (V : Type) (ops : list (mmop V)),
      Forall2 (@mmout_equiv V) (snd (run (mmstep (tree_backing [] cmp)) tree_init ops))
                               (snd (run (mm_spec_step (cmp_eqb cmp)) [] ops)).
  Proof. exact (multi_treemap_lemma cmp cmp_antisym cmp_trans cmp_eq_lt). Qed.

  (* ... and over the tree MultiMap.Keys() is not just the right multiset: after every history it
     is strictly ascending by the comparator (hence every live key class exactly once) *)
  Theorem multi_treemap_keys_ascending :
    forall (V : Type) (ops : list (mmop V)),
      let s := fst (run (mmstep (tree_backing [] cmp)) tree_init ops) in
      let a := fst (run (mm_spec_step (cmp_eqb cmp)) [] ops) in
      StronglySorted (fun a b => cmp a b < 0) (mkeys (tree_backing [] cmp) s) /\
      Permutation (mkeys (tree_backing [] cmp) s) (map fst a).
  Proof. exact (multi_treemap_keys_sorted_lemma cmp cmp_antisym cmp_trans cmp_eq_lt). Qed.

  (* the error LinkedMap.Put would pass on from TreeMap.Put is nil after every history *)
  Theorem linked_treemap_put_never_fails :
    forall (V : Type) (vzero : V) (ops : list (mop V)) k h,
      snd (tm_step cmp (fst (lm (fst (run (lstep vzero (tree_backing 0%nat cmp)) (linit vzero tree_init) ops))))
                   (TPut k h)) = TUnit.
  Proof. exact (linked_treemap_put_never_fails_lemma cmp cmp_antisym cmp_trans cmp_eq_lt). Qed.
End C01_decor.

Print Assumptions cmp_eqb_is_equivalence.
Print Assumptions tree_backing_refines.
Print Assumptions linked_treemap_refines_insertion_ordered_map.
Print Assumptions multi_treemap_refines_map_of_lists.
Print Assumptions multi_treemap_keys_ascending.
Print Assumptions linked_treemap_put_never_fails.

(* ---- non-vacuity ---- *)
(* the hypotheses hold for the comparator families of the correspondence check (cmp_asc_is_lawful,
   cmp_half_is_lawful in props/C01.v), and for them the key equality is the Equals family the
   decorator correspondence run uses on its specification side (eqb_exact / eqb_half) *)
Example linked_treemap_half : forall (V : Type) (vzero : V) (ops : list (mop V)),
  snd (run (lstep vzero (tree_backing 0%nat cmp_half)) (linit vzero tree_init) ops)
  = snd (run (astep vzero eqb_half) [] ops).
Proof. exact linked_treemap_half_lemma. Qed.
Example linked_treemap_asc : forall (V : Type) (vzero : V) (ops : list (mop V)),
  snd (run (lstep vzero (tree_backing 0%nat cmp_asc)) (linit vzero tree_init) ops)
  = snd (run (astep vzero eqb_exact) [] ops).
Proof. exact linked_treemap_asc_lemma. Qed.
Example multi_treemap_half : forall (V : Type) (ops : list (mmop V)),
  Forall2 (@mmout_equiv V) (snd (run (mmstep (tree_backing [] cmp_half)) tree_init ops))
                           (snd (run (mm_spec_step eqb_half) [] ops)).
Proof. exact multi_treemap_half_lemma. Qed.

(* a concrete history with keys that are distinct but compare equal (4 ~ 5, 8 ~ 9 under k/2):
   Put 5 after Put 4 replaces the value and keeps the first inserted representative 4 at its
   place; Keys is in insertion order 4, 9, 0 (the tree's own order is 0, 4, 9); Delete through
   the other representative 8 removes 9; a key put again after its deletion goes to the end *)
Definition linked_history : list (mop Z) :=
  [MPut 4 1 None; MPut 9 2 None; MPut 0 3 None; MPut 5 7 None; MKeys; MValues; MLen;
   MGet 5; MDelete 8; MGet 9; MKeys; MPut 8 6 None; MKeys; MValues; MLen].
Example linked_history_half :
  snd (run (lstep 0 (tree_backing 0%nat cmp_half)) (linit 0 tree_init) linked_history)
  = [RPut (Ok tt); RPut (Ok tt); RPut (Ok tt); RPut (Ok tt); RKeys [4; 9; 0]; RVals [7; 2; 3]; RLen 3;
     RFound 7 true; RFound 2 true; RFound 0 false; RKeys [4; 0]; RPut (Ok tt); RKeys [4; 0; 8];
     RVals [7; 3; 6]; RLen 3].
Proof. vm_compute. reflexivity. Qed.
Example linked_history_half_spec :
  snd (run (astep 0 (cmp_eqb cmp_half)) [] linked_history)
  = [RPut (Ok tt); RPut (Ok tt); RPut (Ok tt); RPut (Ok tt); RKeys [4; 9; 0]; RVals [7; 2; 3]; RLen 3;
     RFound 7 true; RFound 2 true; RFound 0 false; RKeys [4; 0]; RPut (Ok tt); RKeys [4; 0; 8];
     RVals [7; 3; 6]; RLen 3].
Proof. vm_compute. reflexivity. Qed.

(* the multi map over the same comparator: PutMany through the other representative 5 appends to
   4's list; Keys comes out in the tree's ascending order, the specification's in insertion order
   (equal as multisets) *)
Definition multi_history : list (mmop Z) :=
  [MMPutMany 4 [1] None; MMPutMany 9 [8] None; MMPutMany 5 [2; 3] None; MMPutMany 0 [] None;
   MMGet 4; MMKeys; MMValues; MMLen; MMDelete 5; MMGet 4; MMKeys; MMLen].
Example multi_history_half :
  snd (run (mmstep (tree_backing [] cmp_half)) tree_init multi_history)
  = [MRPut; MRPut; MRPut; MRPut; MRFound [1; 2; 3] true; MRKeys [0; 4; 9]; MRVals [[]; [1; 2; 3]; [8]];
     MRLen 3; MRFound [1; 2; 3] true; MRFound [] false; MRKeys [0; 9]; MRLen 2].
Proof. vm_compute. reflexivity. Qed.
Example multi_history_half_spec :
  snd (run (mm_spec_step (cmp_eqb cmp_half)) [] multi_history)
  = [MRPut; MRPut; MRPut; MRPut; MRFound [1; 2; 3] true; MRKeys [4; 9; 0]; MRVals [[1; 2; 3]; [8]; []];
     MRLen 3; MRFound [1; 2; 3] true; MRFound [] false; MRKeys [9; 0]; MRLen 2].
Proof. vm_compute. reflexivity. Qed.
