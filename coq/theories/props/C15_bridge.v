(* C15 (bridge) — the hypothesis `guards_respected` of the data-race-freedom theorems drf_<type>
   (props/C15.v) discharged from the statement-granular interleaving models of C06–C13, which are
   validated against the real goroutines in lock-step.  Only statements here; every proof is
   `exact <lemma>` from proof/C15Bridge*.v.

   WHAT IS PROVED, per object O (LBQ, ABQ, DQ, Cond, CPQ, CList, COW, Pool):
     guards_respected_<O>   for EVERY event list the model accepts from its initial configuration,
       every thread t in flight whose program counter p carries the statement text s
       (rstmt_of_pc = "inline path: " ++ stmt_of_pc, the key of the footprint rows) and every row r
       of the type's footprint table with r_func = func_of_pc p, r_stmt = s, r_guard = GLock l m:
       (l, m') is in locks_held_<O> c t with m' at least m (mode_ge: Excl satisfies Shared).
       I.e. whenever a thread is about to execute a statement it holds every lock the table declares
       for that statement's plain accesses.  [guards_respected_at] is that statement.
     section_locks_held_<O> the table-independent form: a thread inside a lock-bracketed section of
       the source (read off its pc) holds that lock.  (The footprint tables carry ONE representative
       statement per (method, location, access kind, guard); this lemma covers the others too.)
     all_glock_rows_matched_<O>  non-vacuity: every GLock row of the table is the statement of some
       program counter (computed); for OnDemandBlockTaskPool the single exception is listed
       (States$go1, the ticker goroutine of States(): no program counter in the model).
   locks_held_<O> is read off the model's lock words: where the model's mutex has an owner (LBQ write
   lock, DQ, Cond: l.mu and c.L) the owner holds it; where it is a flag / reader counter without
   owners (ABQ, CPQ, CList, COW, Pool; reader side of LBQ) thread t holds the lock iff the word is
   set and t is inside a section of that lock — the proved counting invariants (flag set iff exactly
   one thread inside; counter = number of threads inside) make that the thread whose Lock/RLock step
   set the word.  The definition that does not depend on program counters at all is the trace-level
   one below.

   THE COMPOSITION (ConcurrentLinkedBlockingQueue, ConcurrentArrayBlockingQueue, DelayQueue,
   ConcurrentPriorityQueue, ConcurrentList): <o>_trace maps every step of a model run to the
   HB events of the statement it executes (plain reads/writes and Lock/Unlock/RLock/RUnlock of
   the mutex, transcribed from the Go statements and checked by computation to cover the table's rows
   of that statement; deferred unlocks are emitted at the returns).  For EVERY event list:
   the execution is well-formed (lock semantics: HB.wf), respects the guards of lbq_table
   (FootprintModel.guards_respected, with HB.holds evaluated on the trace: an Acq of that thread not
   followed by its Rel) and therefore has no data race.  Channel operations are not emitted (fewer
   happens-before edges: conservative).  For the other objects (Cond, CopyOnWriteArrayList,
   OnDemandBlockTaskPool: their tables also carry publication guards and, for Cond / the pool, two
   locks) the composition "interleaving model |- guards_respected => drf" is by the reader: the hypothesis of drf_<type> asks that the declared
   lock is held (in the HB sense) at every access; guards_respected_<O> proves that the thread
   stands inside the lock-bracketed section (lock word set, mutual exclusion proved) at every
   statement whose row declares the lock.

   NOT COVERED: rows guarded by publication (GPubBefore / GPubAfter: CopyOnWriteArrayList.vals[],
   Cond's lazily built list) — their hypothesis is a happens-before fact, not a lock; the types
   without lock guards (ConcurrentLinkedQueue, LimitPool, SegmentKeysLock, Map, Pool, Value, retry
   strategies, ReflectCopier); methods without a program counter (States(), NumGo(), ...).
   The tie between stmt_of_pc_<O> and the lock-step drivers' label_of_pc is checked on every run
   (checks/part_c15bridge.py). *)
From Coq Require Import List String ZArith.
From Ekit Require Import Common HB FootprintModel C15Bridge Conc.
From Ekit Require Import LBQModel ABQModel DQModel CondModel LockedModel CowModel PoolModel PoolProof.
From Ekit Require Import C15BridgeLBQ C15BridgeABQ C15BridgeABQ2 C15BridgeDQ C15BridgeDQ2 C15BridgeCond C15BridgeLocked C15BridgeLocked2
                         C15BridgeCow C15BridgePool.
Import ListNotations.
Open Scope string_scope.

(* ================= generic: an admissible trace is well-formed and respects the guards ================= *)
Theorem admissible_trace_wf_guards : forall (L : string) (tbl : table) (es : list event),
  all_ok L tbl (ls0) es -> wf es /\ guards_respected tbl es.
Proof. exact all_ok_wf_guards. Qed.
Print Assumptions admissible_trace_wf_guards.

(* ================= ConcurrentLinkedBlockingQueue ================= *)
Theorem guards_respected_LBQ : forall m evs c t l,
  exec lbq_step (lbq_init m) evs = Some c -> lookup t (LBQModel.q_thr c) = Some l ->
  guards_respected_at lbq_table (func_of_pc_LBQ (l_op l) (l_pc l)) (rstmt_of_pc_LBQ (l_op l) (l_pc l))
                      (locks_held_LBQ c t).
Proof. exact guards_respected_LBQ_lemma. Qed.
Print Assumptions guards_respected_LBQ.

Theorem section_locks_held_LBQ : forall m evs c t l,
  exec lbq_step (lbq_init m) evs = Some c -> lookup t (LBQModel.q_thr c) = Some l ->
  incl (pc_locks_LBQ (l_pc l)) (locks_held_LBQ c t).
Proof. exact section_locks_held_LBQ_lemma. Qed.
Print Assumptions section_locks_held_LBQ.

(* the composed corollary *)
Theorem lbq_trace_drf : forall m evs c,
  exec lbq_step (lbq_init m) evs = Some c ->
  wf (lbq_trace m evs) /\ guards_respected lbq_table (lbq_trace m evs) /\ ~ race (lbq_trace m evs).
Proof. exact lbq_trace_drf_lemma. Qed.
Print Assumptions lbq_trace_drf.

(* ================= ConcurrentArrayBlockingQueue ================= *)
Theorem guards_respected_ABQ : forall cap evs c t th,
  (1 <= cap)%Z -> exec abq_next (abq_init cap) evs = Some c -> lookup t (ABQModel.q_thr c) = Some th ->
  guards_respected_at abq_table (func_of_pc_ABQ (ABQModel.t_pc th)) (rstmt_of_pc_ABQ (ABQModel.t_pc th))
                      (locks_held_ABQ c t).
Proof. exact guards_respected_ABQ_lemma. Qed.
Print Assumptions guards_respected_ABQ.

Theorem section_locks_held_ABQ : forall cap evs c t th,
  (1 <= cap)%Z -> exec abq_next (abq_init cap) evs = Some c -> lookup t (ABQModel.q_thr c) = Some th ->
  incl (pc_locks_ABQ th) (locks_held_ABQ c t).
Proof. exact section_locks_held_ABQ_lemma. Qed.
Print Assumptions section_locks_held_ABQ.

(* the composed corollary (plain accesses + Lock/RLock per statement, deferred unlocks at the returns) *)
Theorem abq_trace_drf : forall cap evs c,
  (1 <= cap)%Z -> exec abq_next (abq_init cap) evs = Some c ->
  wf (abq_trace cap evs) /\ guards_respected abq_table (abq_trace cap evs) /\ ~ race (abq_trace cap evs).
Proof. exact abq_trace_drf_lemma. Qed.
Print Assumptions abq_trace_drf.

(* ================= DelayQueue ================= *)
Theorem guards_respected_DQ : forall cap old evs c t th,
  exec dq_step (dq_init cap old) evs = Some c -> lookup t (DQModel.q_thr c) = Some th ->
  guards_respected_at dq_table (func_of_pc_DQ (t_site th) (DQModel.t_pc th)) (rstmt_of_pc_DQ (DQModel.t_pc th))
                      (locks_held_DQ c t).
Proof. exact guards_respected_DQ_lemma. Qed.
Print Assumptions guards_respected_DQ.

Theorem section_locks_held_DQ : forall cap old evs c t th,
  exec dq_step (dq_init cap old) evs = Some c -> lookup t (DQModel.q_thr c) = Some th ->
  incl (pc_locks_DQ (DQModel.t_pc th)) (locks_held_DQ c t).
Proof. exact section_locks_held_DQ_lemma. Qed.
Print Assumptions section_locks_held_DQ.

(* the composed corollary (TICK / FIRE / CANCEL events included; the lock state is the model's owner word) *)
Theorem dq_trace_drf : forall cap old evs c,
  exec dq_step (dq_init cap old) evs = Some c ->
  wf (dq_trace cap old evs) /\ guards_respected dq_table (dq_trace cap old evs) /\ ~ race (dq_trace cap old evs).
Proof. exact dq_trace_drf_lemma. Qed.
Print Assumptions dq_trace_drf.

(* ================= syncx.Cond ================= *)
Theorem guards_respected_Cond : forall copied evs c t p,
  cond_run copied evs = Some c -> lookup t (CondModel.c_thr c) = Some p ->
  guards_respected_at cond_table (func_of_pc_Cond p) (rstmt_of_pc_Cond p) (locks_held_Cond c t).
Proof. exact guards_respected_Cond_lemma. Qed.
Print Assumptions guards_respected_Cond.

Theorem section_locks_held_Cond : forall copied evs c t p,
  cond_run copied evs = Some c -> lookup t (CondModel.c_thr c) = Some p ->
  incl (pc_locks_Cond p) (locks_held_Cond c t).
Proof. exact section_locks_held_Cond_lemma. Qed.
Print Assumptions section_locks_held_Cond.

(* ================= ConcurrentPriorityQueue, ConcurrentList ================= *)
Theorem guards_respected_CPQ : forall capacity items evs c t o p,
  exec cpq_step (cpq_init capacity items) evs = Some c -> lookup t (LockedModel.s_thr c) = Some (o, p) ->
  guards_respected_at cpq_table (func_of_pc_CPQ o p) (rstmt_of_pc_CPQ o p) (locks_held_CPQ c t).
Proof. exact guards_respected_CPQ_lemma. Qed.
Print Assumptions guards_respected_CPQ.

Theorem guards_respected_CList : forall items evs c t o p,
  exec clist_step (clist_init items) evs = Some c -> lookup t (LockedModel.s_thr c) = Some (o, p) ->
  guards_respected_at clist_table (func_of_pc_CList o p) (rstmt_of_pc_CList o p) (locks_held_CList c t).
Proof. exact guards_respected_CList_lemma. Qed.
Print Assumptions guards_respected_CList.

(* the composed corollaries: every execution generated by the lock-bracketed models (Acq at the Lock/RLock
   statement, the plain accesses of `return c.inner.Op(args)`, Rel at the return) is well-formed, respects the
   guards of the table and has no data race *)
Theorem cpq_trace_drf : forall capacity items evs c,
  exec cpq_step (cpq_init capacity items) evs = Some c ->
  wf (cpq_trace capacity items evs) /\ guards_respected cpq_table (cpq_trace capacity items evs) /\
  ~ race (cpq_trace capacity items evs).
Proof. exact cpq_trace_drf_lemma. Qed.
Print Assumptions cpq_trace_drf.

Theorem clist_trace_drf : forall items evs c,
  exec clist_step (clist_init items) evs = Some c ->
  wf (clist_trace items evs) /\ guards_respected clist_table (clist_trace items evs) /\
  ~ race (clist_trace items evs).
Proof. exact clist_trace_drf_lemma. Qed.
Print Assumptions clist_trace_drf.

(* ================= CopyOnWriteArrayList ================= *)
Theorem guards_respected_COW : forall items evs c t o p,
  exec cow_step (cow_init items) evs = Some c -> lookup t (LockedModel.s_thr c) = Some (o, p) ->
  guards_respected_at cow_table (func_of_pc_COW o p) (rstmt_of_pc_COW p) (locks_held_COW c t).
Proof. exact guards_respected_COW_lemma. Qed.
Print Assumptions guards_respected_COW.

Theorem section_locks_held_COW : forall items evs c t x,
  exec cow_step (cow_init items) evs = Some c -> lookup t (LockedModel.s_thr c) = Some x ->
  incl (pc_locks_COW x) (locks_held_COW c t).
Proof. exact section_locks_held_COW_lemma. Qed.
Print Assumptions section_locks_held_COW.

(* ================= OnDemandBlockTaskPool ================= *)
(* the lock words of b.mutex and g.mu are exactly the goroutines inside their sections *)
Theorem pool_lock_discipline : forall P c, preach P c -> LInv c.
Proof. exact linv_reach. Qed.
Print Assumptions pool_lock_discipline.

Theorem guards_respected_Pool : forall P c t th s,
  preach P c -> lookup t (PoolModel.c_thr c) = Some th -> In s (rstmts_of_pc_Pool (PoolModel.pc th)) ->
  guards_respected_at taskpool_table (func_of_pc_Pool (PoolModel.pc th)) s (locks_held_Pool c t).
Proof. exact guards_respected_Pool_lemma. Qed.
Print Assumptions guards_respected_Pool.

Theorem section_locks_held_Pool : forall P c t th,
  preach P c -> lookup t (PoolModel.c_thr c) = Some th ->
  incl (pc_locks_Pool (PoolModel.pc th)) (locks_held_Pool c t).
Proof. exact section_locks_held_Pool_lemma. Qed.
Print Assumptions section_locks_held_Pool.

(* ================= non-vacuity ================= *)
(* every lock-guarded row of each table is the statement of some program counter (rows / total) *)
Theorem glock_rows_matched :
  (unmatched lbq_table keys_LBQ = [] /\ List.length (glock_rows lbq_table) = 10%nat) /\
  (unmatched abq_table keys_ABQ = [] /\ List.length (glock_rows abq_table) = 15%nat) /\
  (unmatched dq_table keys_DQ = [] /\ List.length (glock_rows dq_table) = 7%nat) /\
  (unmatched cond_table keys_Cond = [] /\ List.length (glock_rows cond_table) = 18%nat) /\
  (unmatched cpq_table keys_CPQ = [] /\ List.length (glock_rows cpq_table) = 5%nat) /\
  (unmatched clist_table keys_CList = [] /\ List.length (glock_rows clist_table) = 9%nat) /\
  (unmatched cow_table keys_COW = [] /\ List.length (glock_rows cow_table) = 13%nat) /\
  (map (fun r => (r_func r, r_loc r)) (unmatched taskpool_table keys_Pool) =
     [("States$go1", "OnDemandBlockTaskPool.totalGo")] /\
   List.length (glock_rows taskpool_table) = 15%nat).
Proof.
  exact (conj all_glock_rows_matched_LBQ (conj all_glock_rows_matched_ABQ (conj all_glock_rows_matched_DQ
        (conj all_glock_rows_matched_Cond (conj all_glock_rows_matched_CPQ (conj all_glock_rows_matched_CList
        (conj all_glock_rows_matched_COW unmatched_glock_rows_Pool))))))).
Qed.
Print Assumptions glock_rows_matched.

(* the composed theorem is about real executions: a writer (Enqueue 7) and a reader (Len) of one
   queue; the trace contains the Write of the list under the exclusive lock and the reader's Read
   under the shared lock, 18 events, no race *)
Definition lbq_demo : list lbq_ev :=
  [QCall 1%nat (OEnq 7%Z); QCall 2%nat OLen] ++ lbq_steps 1%nat 11 ++ lbq_steps 2%nat 3.

Example c15_bridge_nonvacuous :
  (exists c, exec lbq_step (lbq_init 2%Z) lbq_demo = Some c /\ LBQModel.q_items c = [7%Z]) /\
  List.length (lbq_trace 2%Z lbq_demo) = 18%nat /\
  In (mkEv 1%nat (Write (lname "ConcurrentLinkedBlockingQueue.linkedlist.*"))) (lbq_trace 2%Z lbq_demo) /\
  In (mkEv 2%nat (Read (lname "ConcurrentLinkedBlockingQueue.linkedlist.*"))) (lbq_trace 2%Z lbq_demo) /\
  In (mkEv 2%nat (Acq (lname "ConcurrentLinkedBlockingQueue.mutex") Shared)) (lbq_trace 2%Z lbq_demo) /\
  ~ race (lbq_trace 2%Z lbq_demo).
Proof.
  split; [eexists; split; vm_compute; reflexivity|].
  split; [vm_compute; reflexivity|].
  split; [vm_compute; tauto|]. split; [vm_compute; tauto|]. split; [vm_compute; tauto|].
  assert (H : exists c, exec lbq_step (lbq_init 2%Z) lbq_demo = Some c) by (eexists; vm_compute; reflexivity).
  destruct H as [c Hc]. exact (proj2 (proj2 (lbq_trace_drf_lemma _ _ _ Hc))).
Qed.
