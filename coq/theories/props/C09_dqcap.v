(* C09 (DelayQueue part) - capacity after cancellations: "after any pattern of cancellations the queue still
   accepts and delivers exactly `capacity` elements without blocking".
   Only statements here; every proof is `exact <lemma>` from proof/DQCapacity.v.

   Setting: ANY reachable configuration c of the interleaving model (model/DQModel.v; every event list:
   successful calls, calls cancelled before the lock / between signalCh's unlock and the select / while
   parked on either cond or on the timer / after being woken, ticks, timer fires; every capacity, both
   timer-channel semantics) in which no call is in flight (q_thr c = []).  A LONE thread t then runs
   calls one after the other: [enq_alone] / [deq_alone] = CALL + the thread's own statements (choice 0)
   until it returns (Some r) or cannot step because it is parked (None), at most 13 / 20 statements;
   [deq_timed_alone] additionally, when the call sleeps on its timer, advances the clock to the timer's
   instant, delivers the tick (DTick, DFire) and runs at most 20 more statements. *)
From Ekit Require Import Common Conc DQModel DQProof DQProof2 DQProof3 DQProof4 DQProof5 DQProof6 DQProof7 DQCapacity.
From Coq Require Import Permutation.

(* what cancelled (and completed) calls leave behind: nothing that matters *)
Theorem dq_quiescent_state : forall cap old c,
  dq_reach cap old c -> q_thr c = [] ->
  q_mutex c = None /\ q_bad c = false /\
  mem_nat (c_cur (q_esig c)) (c_closed (q_esig c)) = false /\
  mem_nat (c_cur (q_dsig c)) (c_closed (q_dsig c)) = false /\
  (0 < q_cap c -> Z.of_nat (length (q_heap c)) <= q_cap c) /\ q_cap c = cap.
Proof. exact quiescent_facts. Qed.
Print Assumptions dq_quiescent_state.

(* one lone Enqueue: completes with nil within 13 own statements, never parking, iff the heap is not full
   (and then appends its element and leaves a reachable quiescent configuration); parks iff it is full *)
Theorem dq_lone_enqueue : forall cap old c t x,
  dq_reach cap old c -> q_thr c = [] ->
  (heap_full (q_cap c) (q_heap c) = false ->
     exists c', enq_alone c t x = (c', Some RNil) /\ q_thr c' = [] /\ q_heap c' = q_heap c ++ [x] /\
                q_now c' = q_now c /\ q_okd c' = x :: q_okd c /\ dq_reach cap old c') /\
  (heap_full (q_cap c) (q_heap c) = true ->
     exists c' th, enq_alone c t x = (c', None) /\ q_thr c' = [(t, th)] /\ t_pc th = EPark1 /\
                   q_heap c' = q_heap c /\ q_mutex c' = None).
Proof. exact dq_enq_alone_lemma. Qed.
Print Assumptions dq_lone_enqueue.

(* one lone Dequeue: empty heap -> parks (correctly); otherwise it delivers a minimum v of the heap: at once
   (<= 18 own statements, no parking) when v has expired; when not, it sleeps on a timer armed for exactly
   deadline(v) (lag 0) and returns v after the clock reached deadline(v) and the tick was delivered *)
Theorem dq_lone_dequeue : forall cap old c t,
  dq_reach cap old c -> q_thr c = [] ->
  (q_heap c = [] ->
     exists c' th, deq_alone c t = (c', None) /\ q_thr c' = [(t, th)] /\ t_pc th = DPark2 /\ q_heap c' = [] /\ q_mutex c' = None) /\
  (q_heap c <> [] ->
     exists v c', deq_timed_alone c t = (c', Some (RVal v)) /\ is_min v (q_heap c) /\
                  q_heap c' = remove_first v (q_heap c) /\ q_thr c' = [] /\
                  q_now c' = Z.max (q_now c) (e_dl v) /\ q_out c' = v :: q_out c /\ dq_reach cap old c' /\
                  (e_dl v <= q_now c -> deq_alone c t = (c', Some (RVal v))) /\
                  (q_now c < e_dl v ->
                     exists c1 th, deq_alone c t = (c1, None) /\ q_thr c1 = [(t, th)] /\ t_pc th = DPark1 /\
                                   t_tm th = Some (Tm (Some (e_dl v)) false) /\ t_lag th = 0)).
Proof. exact dq_deq_alone_lemma. Qed.
Print Assumptions dq_lone_dequeue.

(* the wake-up signal state left behind by cancelled waiters never makes a later lone call park although it
   could proceed: a lone Enqueue parks only on a full heap, a lone Dequeue only on an empty heap or an
   unexpired head *)
Theorem dq_lone_call_parks_only_if_it_cannot_proceed : forall cap old c t,
  dq_reach cap old c -> q_thr c = [] ->
  (forall x, snd (enq_alone c t x) = None -> heap_full (q_cap c) (q_heap c) = true) /\
  (snd (deq_alone c t) = None -> q_heap c = [] \/ exists v, is_min v (q_heap c) /\ q_now c < e_dl v).
Proof. exact dq_lone_call_parks_only_if_cannot_proceed_lemma. Qed.
Print Assumptions dq_lone_call_parks_only_if_it_cannot_proceed.

(* capacity after cancellations, bounded variant: of any sequence vs of lone Enqueues exactly
   min(|vs|, capacity - len) return nil, each without parking; when |vs| = capacity - len the queue then
   holds old contents + vs and is full, ANY further Enqueue parks, and `capacity` lone Dequeues deliver
   exactly those elements, each a minimum of what is left (non-decreasing deadlines), none before its
   expiry, leaving an empty quiescent queue *)
Theorem dq_capacity_after_cancellations : forall cap old c t vs,
  dq_reach cap old c -> q_thr c = [] -> 0 < cap ->
  q_mutex c = None /\ q_cap c = cap /\
  exists c', enqs_alone c t vs = (c', Nat.min (length vs) (room c)) /\
    q_thr c' = [] /\ q_heap c' = q_heap c ++ firstn (Nat.min (length vs) (room c)) vs /\
    (length vs = room c ->
       q_heap c' = q_heap c ++ vs /\ Z.of_nat (length (q_heap c')) = cap /\
       (forall x, exists c2 th, enq_alone c' t x = (c2, None) /\ q_thr c2 = [(t, th)] /\ t_pc th = EPark1 /\ q_heap c2 = q_heap c') /\
       exists c'' out, deqs_alone c' t (Z.to_nat cap) = (c'', out) /\ length out = Z.to_nat cap /\
                       drained (q_heap c ++ vs) out /\ Permutation (q_heap c ++ vs) out /\
                       q_heap c'' = [] /\ q_thr c'' = [] /\ Forall (fun v => e_dl v <= q_now c'') out).
Proof. exact dq_capacity_after_cancellations_lemma. Qed.
Print Assumptions dq_capacity_after_cancellations.

(* unbounded variant (capacity <= 0): every sequence of lone Enqueues completes, and everything is delivered *)
Theorem dq_unbounded_after_cancellations : forall cap old c t vs,
  dq_reach cap old c -> q_thr c = [] -> cap <= 0 ->
  exists c', enqs_alone c t vs = (c', length vs) /\ q_heap c' = q_heap c ++ vs /\ q_thr c' = [] /\
    exists c'' out, deqs_alone c' t (length (q_heap c')) = (c'', out) /\ drained (q_heap c ++ vs) out /\
                    Permutation (q_heap c ++ vs) out /\ q_heap c'' = [] /\ q_thr c'' = [].
Proof. exact dq_unbounded_after_cancellations_lemma. Qed.
Print Assumptions dq_unbounded_after_cancellations.

(* any number k <= len of lone Dequeues from a quiescent configuration *)
Theorem dq_lone_dequeues_deliver : forall cap old t k c,
  dq_reach cap old c -> q_thr c = [] -> (k <= length (q_heap c))%nat ->
  exists c' out, deqs_alone c t k = (c', out) /\ length out = k /\ drained (q_heap c) out /\
                 length (q_heap c') = (length (q_heap c) - k)%nat /\ Permutation (q_heap c) (out ++ q_heap c') /\
                 q_thr c' = [] /\ q_now c <= q_now c' /\ Forall (fun v => e_dl v <= q_now c') out /\ dq_reach cap old c'.
Proof. exact deqs_alone_lemma. Qed.
Print Assumptions dq_lone_dequeues_deliver.

(* ---------- non-vacuity ---------- *)
Definition stc (t : tid) (n : nat) : list dq_ev := repeat (DStep t 0) n.

(* capacity 2.  A Dequeue sleeping on the timer of (1, 50) is cancelled; the queue is filled; a third Enqueue
   parks on the full queue and is cancelled.  Quiescent, full, two cancelled waiters in the history. *)
Definition cancelled_history : list dq_ev :=
  [DCallEnq 1%nat (1, 50)] ++ stc 1%nat 13 ++ [DCallDeq 2%nat] ++ stc 2%nat 16 ++ [DCancel 2%nat] ++ stc 2%nat 4 ++
  [DCallEnq 3%nat (2, 5)] ++ stc 3%nat 13 ++ [DCallEnq 4%nat (3, 9)] ++ stc 4%nat 11 ++ [DCancel 4%nat] ++ stc 4%nat 2.

Definition after_cancellations : dq_cfg :=
  match exec dq_step (dq_init 2 true) cancelled_history with Some c => c | None => dq_init 2 true end.

Example cancelled_history_is_quiescent_and_full :
  exec dq_step (dq_init 2 true) cancelled_history = Some after_cancellations /\
  q_thr after_cancellations = [] /\ q_heap after_cancellations = [(1, 50); (2, 5)] /\ q_now after_cancellations = 0 /\
  q_okd after_cancellations = [(2, 5); (1, 50)] /\ c_closed (q_esig after_cancellations) <> [].
Proof. vm_compute. repeat split; try reflexivity. discriminate. Qed.

(* full: the next lone Enqueue parks; two lone Dequeues deliver (2,5) then (1,50), the clock ending at 50 *)
Example full_queue_rejects_then_delivers_in_order :
  snd (enq_alone after_cancellations 7%nat (9, 0)) = None /\
  snd (deqs_alone after_cancellations 7%nat 2) = [(2, 5); (1, 50)] /\
  q_now (fst (deqs_alone after_cancellations 7%nat 2)) = 50 /\
  q_heap (fst (deqs_alone after_cancellations 7%nat 2)) = [].
Proof. vm_compute. repeat split; reflexivity. Qed.

(* drained: exactly `capacity` = 2 of three lone Enqueues are accepted *)
Example drained_queue_accepts_exactly_capacity :
  let c := fst (deqs_alone after_cancellations 7%nat 2) in
  snd (enqs_alone c 8%nat [(10, 60); (11, 55); (12, 70)]) = 2%nat /\
  q_heap (fst (enqs_alone c 8%nat [(10, 60); (11, 55); (12, 70)])) = [(10, 60); (11, 55)] /\
  snd (deqs_alone (fst (enqs_alone c 8%nat [(10, 60); (11, 55); (12, 70)])) 9%nat 2) = [(11, 55); (10, 60)].
Proof. vm_compute. repeat split; reflexivity. Qed.
