(* C07 (ConcurrentLinkedBlockingQueue part) — composition with C04: the inner list.LinkedList
   is no longer its own specification.  Only statements here; proofs are `exact <lemma>` from
   proof/LBQGap.v (part 2).

   model/LBQModel.v keeps the inner list as an abstract sequence [q_items].  model/LBQOverList.v
   runs the SAME statement-granular control skeleton over a list IMPLEMENTATION: the statements
   `c.linkedlist.Len()` (both loop conditions, the re-check after Lock, Len), `Append(t)`,
   `Delete(0)`, `AsSlice()` call the implementation and use what it returns (its length decides
   the loop, its error is what the call returns, a panic or an impossible result kills the
   goroutine).  Instances: ListModel's LinkedList ([ll_istep], from [ll_new]) and the
   pointer-level LinkedPtrModel ([ptr_istep], from any well-formed empty state, e.g. the one
   NewLinkedList() builds).  [proj] maps a composed state to the LBQModel configuration whose
   [q_items] is the sequence the implementation represents ([lnodes] / [fwd_vals]);
   [trace step s evs] = final state and the list of observation lists of the run of evs.

   Theorems: (1) soundness — every run of the composed system is a run of LBQModel with EQUAL
   observations (arrivals at yield points, wake-ups, return values) and projected final state;
   (2) completeness — every run of LBQModel is a run of the composed system (the implementation
   never blocks, fails or panics where the sequence proceeds); hence (3) the C07 theorems hold
   with the inner list replaced by the implementation; in particular Delete(0) is only called
   on a non-empty implementation list and never returns its error.
   The per-operation facts used are exactly C04's: props/C04.v (ll_step_refines behind
   linkedlist_refines_seq) and props/C04_llptr.v llptr_step_refines. *)
From Ekit Require Import Common Conc ListModel.
From Ekit Require LinkedPtrModel LinkedPtrProof.
From Ekit Require Import LBQModel LBQOverList LBQProof LBQProof2 LBQProof3 LBQProof4 LBQProofCap LBQGap.

(* ---------- over ListModel's LinkedList ---------- *)
Theorem lbq_over_linkedlist_projects : forall m evs s tr,
  trace (olbq_exec1 ll_istep) (olbq_init m ll_new) evs = Some (s, tr) ->
  trace lbq_exec1 (lbq_init m) evs = Some (proj llist lnodes s, tr) /\
  exec lbq_step (lbq_init m) evs = Some (proj llist lnodes s) /\ ll_ok (snd s).
Proof. exact lbq_over_linkedlist_projects_lemma. Qed.
Print Assumptions lbq_over_linkedlist_projects.

Theorem lbq_over_linkedlist_complete : forall m evs ca,
  exec lbq_step (lbq_init m) evs = Some ca ->
  exists s tr, trace (olbq_exec1 ll_istep) (olbq_init m ll_new) evs = Some (s, tr) /\
               ca = proj llist lnodes s /\ trace lbq_exec1 (lbq_init m) evs = Some (ca, tr).
Proof. exact lbq_over_linkedlist_complete_lemma. Qed.
Print Assumptions lbq_over_linkedlist_complete.

Theorem lbq_over_linkedlist_c07 : forall m evs s tr,
  trace (olbq_exec1 ll_istep) (olbq_init m ll_new) evs = Some (s, tr) ->
  let c := fst s in let its := lnodes (snd s) in
  ll_ok (snd s) /\
  (0 <= Z.of_nat (length its) /\ (0 < m -> Z.of_nat (length its) <= m)) /\
  q_bad c = false /\
  (forall t l, lookup t (q_thr c) = Some l -> in_cs (l_pc l) = true -> q_wlock c = Some t) /\
  lin_run m (q_hist c) = Some its /\
  (forall t, phase t (q_hist c) = Some (cur_phase c t)) /\
  lin_enqs (q_hist c) = lin_deqs (q_hist c) ++ its /\
  Forall clean_obs tr /\
  (forall t l, lookup t (q_thr c) = Some l -> l_op l = ODeq -> l_pc l = PAct -> its <> []).
Proof. exact lbq_over_linkedlist_c07_lemma. Qed.
Print Assumptions lbq_over_linkedlist_c07.

(* ---------- over the pointer-level model ---------- *)
Theorem lbq_over_ptr_projects : forall m s0 evs s tr,
  LinkedPtrModel.ll_wf s0 -> LinkedPtrModel.fwd_vals s0 = [] ->
  trace (olbq_exec1 ptr_istep) (olbq_init m s0) evs = Some (s, tr) ->
  trace lbq_exec1 (lbq_init m) evs = Some (proj _ LinkedPtrModel.fwd_vals s, tr) /\
  exec lbq_step (lbq_init m) evs = Some (proj _ LinkedPtrModel.fwd_vals s) /\ LinkedPtrModel.ll_wf (snd s).
Proof. exact lbq_over_ptr_projects_lemma. Qed.
Print Assumptions lbq_over_ptr_projects.

Theorem lbq_over_ptr_complete : forall m s0 evs ca,
  LinkedPtrModel.ll_wf s0 -> LinkedPtrModel.fwd_vals s0 = [] ->
  exec lbq_step (lbq_init m) evs = Some ca ->
  exists s tr, trace (olbq_exec1 ptr_istep) (olbq_init m s0) evs = Some (s, tr) /\
               ca = proj _ LinkedPtrModel.fwd_vals s /\ trace lbq_exec1 (lbq_init m) evs = Some (ca, tr).
Proof. exact lbq_over_ptr_complete_lemma. Qed.
Print Assumptions lbq_over_ptr_complete.

Theorem lbq_over_ptr_c07 : forall m s0 evs s tr,
  LinkedPtrModel.ll_wf s0 -> LinkedPtrModel.fwd_vals s0 = [] ->
  trace (olbq_exec1 ptr_istep) (olbq_init m s0) evs = Some (s, tr) ->
  let c := fst s in let its := LinkedPtrModel.fwd_vals (snd s) in
  LinkedPtrModel.ll_wf (snd s) /\
  (0 <= Z.of_nat (length its) /\ (0 < m -> Z.of_nat (length its) <= m)) /\
  q_bad c = false /\
  (forall t l, lookup t (q_thr c) = Some l -> in_cs (l_pc l) = true -> q_wlock c = Some t) /\
  lin_run m (q_hist c) = Some its /\
  (forall t, phase t (q_hist c) = Some (cur_phase c t)) /\
  lin_enqs (q_hist c) = lin_deqs (q_hist c) ++ its /\
  Forall clean_obs tr /\
  (forall t l, lookup t (q_thr c) = Some l -> l_op l = ODeq -> l_pc l = PAct -> its <> []).
Proof. exact lbq_over_ptr_c07_lemma. Qed.
Print Assumptions lbq_over_ptr_c07.

(* NewLinkedList() of the pointer model yields a legal initial inner list *)
Theorem lbq_over_ptr_initial_state :
  exists s0, LinkedPtrModel.pNew LinkedPtrModel.lp_empty = LinkedPtrModel.ROk tt s0 /\
             LinkedPtrModel.ll_wf s0 /\ LinkedPtrModel.fwd_vals s0 = [].
Proof. exact ptr_new_ok. Qed.
Print Assumptions lbq_over_ptr_initial_state.

(* the generic step: for ANY list implementation that satisfies C04's per-operation refinement,
   the composed system and LBQModel take the same steps with the same observations *)
Theorem lbq_over_list_step_projects :
  forall (IL : Type) (istep : IL -> op -> option (IL * outcome out)) (iview : IL -> list Z) (iwf : IL -> Prop),
  (forall s o, iwf s ->
     exists r s', istep s o = Some (s', r) /\ iwf s' /\
                  canon r = snd (seq_step (iview s) o) /\ iview s' = fst (seq_step (iview s) o)) ->
  forall s ca e, osim IL iview iwf s ca ->
    match olbq_exec1 istep s e with
    | Some (s', obs) => exists ca', lbq_exec1 ca e = Some (ca', obs) /\ osim IL iview iwf s' ca'
    | None => lbq_exec1 ca e = None
    end.
Proof. exact olbq_step_projects. Qed.
Print Assumptions lbq_over_list_step_projects.

(* ================= non-vacuity ================= *)
(* maxSize 1: a Dequeue parks on the empty queue, Enqueue(7) wakes it, it re-locks, re-checks
   (Len() of the IMPLEMENTATION), Delete(0) returns 7; Enqueue(8); Len() = 1; AsSlice() = [8].
   Over ListModel's LinkedList and over the pointer model (heap of doubly linked nodes built by
   NewLinkedList()), and in LBQModel: the same 52 observations. *)
Definition c07_compose_sched : list lbq_ev :=
  [QCall 1%nat ODeq] ++ lbq_steps 1%nat 8 ++ [QCall 2%nat (OEnq 7)] ++ lbq_steps 2%nat 11 ++ lbq_steps 1%nat 10 ++
  [QCall 3%nat (OEnq 8)] ++ lbq_steps 3%nat 11 ++ [QCall 4%nat LBQModel.OLen] ++ lbq_steps 4%nat 3 ++
  [QCall 4%nat OAsSlice] ++ lbq_steps 4%nat 4.

(* a list whose Delete always fails: the composed system DOES exhibit the failure (the model can
   show what the theorems exclude; the refinement hypothesis is not vacuous) *)
Definition bad_istep (l : llist) (o : op) : option (llist * outcome out) :=
  match o with OpDelete _ => Some (l, Err EIndex) | _ => ll_istep l o end.

Example c07_lbqcompose_nonvacuous :
  option_map (fun p => (lnodes (snd (fst p)), llen (snd (fst p)), length (concat (snd p))))
             (trace (olbq_exec1 ll_istep) (olbq_init 1 ll_new) c07_compose_sched) = Some ([8], 1, 52%nat) /\
  option_map (fun p => concat (snd p)) (trace (olbq_exec1 ll_istep) (olbq_init 1 ll_new) c07_compose_sched) =
  option_map (fun p => concat (snd p)) (trace lbq_exec1 (lbq_init 1) c07_compose_sched) /\
  option_map (fun p => (LinkedPtrModel.fwd_vals (snd (fst p)), LinkedPtrModel.bwd_vals (snd (fst p)),
                        LinkedPtrModel.lp_len (snd (fst p))))
             (trace (olbq_exec1 ptr_istep) (olbq_init 1 LinkedPtrProof.new_state) c07_compose_sched) =
    Some ([8], [8], 1) /\
  option_map (fun p => concat (snd p)) (trace (olbq_exec1 ptr_istep) (olbq_init 1 LinkedPtrProof.new_state) c07_compose_sched) =
  option_map (fun p => concat (snd p)) (trace lbq_exec1 (lbq_init 1) c07_compose_sched) /\
  option_map (fun p => existsb (fun o => match o with (1%nat, ORet RDelErr) => true | _ => false end) (concat (snd p)))
             (trace (olbq_exec1 bad_istep) (olbq_init 1 ll_new) (firstn 31 c07_compose_sched)) = Some true.
Proof.
  split; [vm_compute; reflexivity|]. split; [vm_compute; reflexivity|].
  split; [vm_compute; reflexivity|]. split; [vm_compute; reflexivity|].
  vm_compute; reflexivity.
Qed.
