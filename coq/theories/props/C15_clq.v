(* C15 (ConcurrentLinkedQueue part) — the model-level facts behind the data-race-freedom argument
   for /repo/queue/concurrent_linked_queue.go.  Footprint (table in tools/manifest.d/part_clq.txt):
   c.head, c.tail and node.next are accessed ONLY through sync/atomic (LoadPointer /
   CompareAndSwapPointer) after construction; the only plain accesses are the initialisation
   `&node[T]{val: t}` (val and the nil next of a node no other goroutine can reach yet) and the read
   `headNext.val`.  The publish-once pattern needs exactly the three facts below: the value is
   written once, before the node is linked; an unlinked node is private to its Enqueue; the value
   is read only from a linked node, by a call that obtained the pointer through its own atomic
   load of head.next (program order: DeqLoadNext -> DeqCASHead -> DeqHeadNext -> DeqRetVal), which
   reads-from the releasing link CAS or a later one.
   Only statements here; every proof is `exact <lemma>` from proof/CLQProof3.v. *)
From Ekit Require Import Common Conc CLQModel CLQProof CLQProof2 CLQProof3.

(* node.val is never written after the allocation statement: the value array only grows *)
Theorem clq_val_written_once : forall c e c' o,
  clq_exec1 c e = Some (c', o) -> exists ext, q_vals c' = q_vals c ++ ext.
Proof. exact vals_append_only. Qed.
Print Assumptions clq_val_written_once.

(* a node that is allocated and not yet linked is not reachable from head / tail (not in the
   chain) and no other call holds it *)
Theorem clq_unpublished_node_private : forall evs c t l x,
  clq_reach evs c -> lookup t (q_thr c) = Some l -> owned l = Some x ->
  exists chain hi ti, shape c chain hi ti /\ ~ In x chain /\
    forall t2 l2, t2 <> t -> lookup t2 (q_thr c) = Some l2 -> owned l2 <> Some x.
Proof. exact reach_unpublished_private. Qed.
Print Assumptions clq_unpublished_node_private.

(* `return headNext.val, nil` reads the value of a node that was published by a link CAS *)
Theorem clq_val_read_published : forall evs c t l,
  clq_reach evs c -> lookup t (q_thr c) = Some l -> q_pc l = DeqRetVal ->
  exists chain hi ti x v, shape c chain hi ti /\ q_headNext l = Some x /\ In x chain /\
                          nth_error (q_vals c) x = Some v.
Proof. exact reach_val_read_published. Qed.
Print Assumptions clq_val_read_published.

(* non-vacuity: (1) T1 has allocated node 1 (value 7), not yet linked: it owns it, nexts are all nil;
   (2) after a complete Enqueue(7), T2's Dequeue stands at `return headNext.val, nil` with headNext = node 1 *)
Local Open Scope nat_scope.
Example clq_example_private_node :
  option_map (fun c => (q_vals c, q_nexts c, map (fun p => (fst p, owned (snd p))) (q_thr c)))
             (exec clq_step clq_init (QCallEnq 1 7%Z :: repeat (QStep 1) 4))
  = Some ([0%Z; 7%Z], [None; None], [(1, Some 1)]).
Proof. vm_compute. reflexivity. Qed.

Example clq_example_value_read :
  option_map (fun c => map (fun p => (fst p, q_pc (snd p), q_headNext (snd p))) (q_thr c))
             (exec clq_step clq_init (QCallEnq 1 7%Z :: repeat (QStep 1) 10 ++ QCallDeq 2 :: repeat (QStep 2) 9))
  = Some [(2, DeqRetVal, Some 1)].
Proof. vm_compute. reflexivity. Qed.
