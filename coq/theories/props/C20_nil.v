(* C20 — the entry points after the nil-argument fix (model/CopierNilModel.v): never a panic,
   also for nil arguments.  Only statements; every proof is `exact <lemma>` from
   proof/CopierNilProof.v.  `reflect_copy_to_now` / `reflect_copy_now` / `pure_copy_to_now` are the
   code as it is now; the `_pinned` functions are the code before the fix. *)
From Ekit Require Import Common CopierModel CopierProof CopierProof2 CopierProof3 CopierNilModel CopierNilProof.

(* copy_total of props/C20.v WITHOUT its hypothesis "dst non-nil": for every constructed copier,
   every (possibly nil) source and every (possibly nil) destination, CopyTo and Copy never panic *)
Theorem copy_total_now : forall st dt ps c src dst cps,
  new_reflect_copier st dt ps = COk c ->
  Forall opt_ok ps -> Forall opt_ok cps ->
  match src with None => True | Some sv => has_type st sv = true end ->
  match dst with None => True | Some dv => has_type dt dv = true end ->
  snd (reflect_copy_to_now c st dt src dst cps) <> NStat SPanic /\
  snd (reflect_copy_now c st dt src cps) <> NStat SPanic.
Proof. exact copy_total_now_lemma. Qed.
Print Assumptions copy_total_now.

(* the package-level CopyTo(src, dst any) never panics, whatever the two arguments are: the nil
   interface, typed nil pointers, non-pointers, pointers to non-structs ... *)
Theorem pure_copy_total_now : forall s d,
  arg_typed s -> arg_typed d -> snd (pure_copy_to_now s d) <> NStat SPanic.
Proof. exact pure_copy_total_now_lemma. Qed.
Print Assumptions pure_copy_total_now.

(* exactly which arguments are rejected with errNilPointer, and nothing is written then.
   ReflectCopier.CopyTo: precisely dst == nil (a nil src stays a successful no-op: copy_nil_src). *)
Theorem nil_args_rejected_reflect : forall c st dt src ps,
  reflect_copy_to_now c st dt src None ps = (None, NNil) /\
  forall dv, snd (reflect_copy_to_now c st dt src (Some dv) ps) <> NNil.
Proof. exact reflect_nil_dst_lemma. Qed.
Print Assumptions nil_args_rejected_reflect.

(* CopyTo(src, dst any): the nil interface on either side (checked first), or - only when the four
   entry kind checks pass - a typed nil pointer on either side; the destination is untouched *)
Theorem nil_args_rejected_pure : forall s d,
  (snd (pure_copy_to_now s d) = NNil <->
   (s = None \/ d = None \/
    exists sty sv dty dv, s = Some (sty, sv) /\ d = Some (dty, dv) /\
      pure_entry_error sty dty = None /\ (is_nil_ptr sv || is_nil_ptr dv) = true)) /\
  (snd (pure_copy_to_now s d) = NNil -> fst (pure_copy_to_now s d) = option_map snd d).
Proof. exact pure_nil_args_lemma. Qed.
Print Assumptions nil_args_rejected_pure.

(* on non-nil arguments the new entry points ARE the old functions, so every theorem of
   props/C20.v and props/C20_mem.v about reflect_copy_to / reflect_copy / pure_copy_to transfers *)
Theorem now_agrees_with_old : forall c st dt src dv ps sty a dty b,
  reflect_copy_to_now c st dt src (Some dv) ps =
    (fst (reflect_copy_to c st dt src (Some dv) ps), NStat (snd (reflect_copy_to c st dt src (Some dv) ps))) /\
  reflect_copy_now c st dt src ps =
    (fst (reflect_copy c st dt src ps), NStat (snd (reflect_copy c st dt src ps))) /\
  pure_copy_to_now (Some (sty, VPtr (Some a))) (Some (dty, VPtr (Some b))) =
    (Some (fst (pure_copy_to sty (VPtr (Some a)) dty (VPtr (Some b)))),
     NStat (snd (pure_copy_to sty (VPtr (Some a)) dty (VPtr (Some b))))).
Proof.
  exact (fun c st dt src dv ps sty a dty b =>
           conj (reflect_now_agrees_lemma c st dt src dv ps)
                (conj (reflect_copy_now_agrees_lemma c st dt src ps) (pure_now_agrees_lemma sty a dty b))).
Qed.
Print Assumptions now_agrees_with_old.

(* documentation of the defect: before the fix a nil destination made ReflectCopier.CopyTo panic
   (reflect Set on the unaddressable ValueOf(dst)); now it is the nil error *)
Theorem nil_dst_panicked_before_fix_refuted : forall st dt ps c sv cps,
  new_reflect_copier st dt ps = COk c ->
  snd (reflect_copy_to_pinned c st dt (Some sv) None cps) = NStat SPanic /\
  snd (reflect_copy_to_now c st dt (Some sv) None cps) = NNil.
Proof. exact nil_dst_panicked_lemma. Qed.
Print Assumptions nil_dst_panicked_before_fix_refuted.

(* ... and the package-level CopyTo panicked on a nil interface (nil Type dereference) and on a
   typed nil *Src (Value.Field on the zero Value) *)
Theorem pure_nil_panicked_before_fix_refuted : forall s d,
  (s = None \/ d = None -> snd (pure_copy_to_pinned s d) = NStat SPanic) /\
  (forall st dt a, is_struct_kind st = true -> is_struct_kind dt = true ->
     snd (pure_copy_to_pinned (Some (Ptr st, VPtr None)) (Some (Ptr dt, VPtr (Some a)))) = NStat SPanic /\
     snd (pure_copy_to_now (Some (Ptr st, VPtr None)) (Some (Ptr dt, VPtr (Some a)))) = NNil).
Proof. exact pure_pinned_lemma. Qed.
Print Assumptions pure_nil_panicked_before_fix_refuted.

(* non-vacuity and the ORDER of the checks: T = struct{F1 int} *)
Example c20_nil_nonvacuous :
  let T := Struct None [(1, true, Basic KInt)] in
  let v := VStruct [VNum 4] in
  let I := Basic KInt in
  (exists c, new_reflect_copier T T [] = COk c /\
     reflect_copy_to_now c T T (Some v) None [] = (None, NNil) /\
     reflect_copy_to_now c T T None (Some v) [] = (Some v, NStat SOk) /\
     reflect_copy_now c T T None [] = (Some (VStruct [VNum 0]), NStat SOk) /\
     reflect_copy_to_now c T T (Some v) (Some (VStruct [VNum 0])) [] = (Some v, NStat SOk)) /\
  (* nil interface first: even with a non-pointer on the other side *)
  snd (pure_copy_to_now None (Some (I, VNum 5))) = NNil /\
  snd (pure_copy_to_now (Some (I, VNum 5)) None) = NNil /\
  (* kinds before typed nil pointers *)
  snd (pure_copy_to_now (Some (Ptr T, VPtr None)) (Some (I, VNum 5))) = NStat (SErr CEntry) /\
  snd (pure_copy_to_now (Some (Ptr I, VPtr None)) (Some (Ptr T, VPtr (Some v)))) = NStat (SErr CEntry) /\
  snd (pure_copy_to_now (Some (T, v)) (Some (Ptr T, VPtr None))) = NStat (SErr CEntry) /\
  (* typed nil pointers *)
  pure_copy_to_now (Some (Ptr T, VPtr None)) (Some (Ptr T, VPtr (Some v))) = (Some (VPtr (Some v)), NNil) /\
  snd (pure_copy_to_now (Some (Ptr T, VPtr (Some v))) (Some (Ptr T, VPtr None))) = NNil /\
  (* and a normal call *)
  pure_copy_to_now (Some (Ptr T, VPtr (Some v))) (Some (Ptr T, VPtr (Some (VStruct [VNum 0]))))
    = (Some (VPtr (Some v)), NStat SOk) /\
  arg_typed (Some (Ptr T, VPtr None)) /\ arg_typed None.
Proof.
  cbv zeta. split; [eexists; repeat split; vm_compute; reflexivity|].
  repeat split; vm_compute; reflexivity.
Qed.
