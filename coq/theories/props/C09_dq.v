(* C09 (DelayQueue part) - blocked calls wake when they can proceed; cancellation is prompt and clean.
   Only statements here; every proof is `exact <lemma>` from proof/DQProof*.v.  Model and
   quantification as in props/C08_dq.v: every event sequence, every capacity, both timer semantics.
   Liveness-flavoured clauses are stated as safety of STUCK configurations (no statement and no timer
   tick enabled; only CALL / CANCEL / TICK can change the configuration) plus one-step wake-up facts;
   fairness of the Go scheduler is the stated assumption. *)
From Ekit Require Import Common Conc DQModel DQProof DQProof2 DQProof3 DQProof4 DQProof5 DQProof6 DQProof7.

(* no lost wake-up, for both conds: a thread that has fetched generation g of the cond x it waits on
   (under the lock) and has not yet left its select has g = the current generation of x (so the next
   broadcast on x reads it as `old` and closes it), or g is closed (its select can proceed), or a
   broadcaster that already replaced g is at `c.l.Unlock()` / `close(old)` with old = g (those two
   statements are always enabled) *)
Theorem dq_no_lost_wakeup : forall cap old c t th,
  dq_reach cap old c -> lookup t (q_thr c) = Some th -> is_waiter (t_pc th) = true ->
  (t_sg th <= cur c (wcond (t_site th)))%nat /\
  (t_sg th = cur c (wcond (t_site th)) \/ closedb c (wcond (t_site th)) (t_sg th) = true \/
   exists t' th', lookup t' (q_thr c) = Some th' /\ (t_pc th' = Bc4 \/ t_pc th' = Bc5) /\
                  bcond (t_site th') = wcond (t_site th) /\ t_bold th' = t_sg th).
Proof. exact dq_no_lost_wakeup_final. Qed.
Print Assumptions dq_no_lost_wakeup.

(* the broadcaster's `old` is the generation that was current when it ran `old := c.signal` *)
Theorem dq_broadcast_reads_current : forall cap old c t th,
  dq_reach cap old c -> lookup t (q_thr c) = Some th -> t_pc th = Bc3 -> t_bold th = cur c (bcond (t_site th)).
Proof. exact dq_broadcast_reads_current_final. Qed.
Print Assumptions dq_broadcast_reads_current.

(* stuck implies cannot proceed.  In a reachable configuration in which no STEP and no FIRE is
   enabled: the mutex is free, every call in flight is blocked in a select on the CURRENT, unclosed
   generation of its cond with an uncancelled context, and
     - a blocked Enqueue sees a full heap;
     - a Dequeue blocked in the empty-queue branch sees an empty heap;
     - a Dequeue blocked in the timer branch has its timer armed (no tick buffered) for an instant
       f > now with f = D + lag, where D = deadline of the element it peeked, lag >= 0 = the clock
       advance between `delay := val.Delay()` and the arming of the timer, and D <= the deadline of
       every element now in the heap.
   This is exactly what the code guarantees: the timer fires lag after the head's expiry, see
   [late_wakeup_witness]; with lag = 0 the head is unexpired ([dq_stuck_head_unexpired]). *)
Theorem dq_stuck_implies_cannot_proceed : forall cap old c,
  dq_reach cap old c -> dq_stuck c ->
  q_mutex c = None /\
  forall t th, lookup t (q_thr c) = Some th ->
    is_park (t_pc th) = true /\ t_canc th = false /\
    t_sg th = cur c (wcond (t_site th)) /\ closedb c (wcond (t_site th)) (t_sg th) = false /\
    parked_state c th.
Proof. exact dq_stuck_final. Qed.
Print Assumptions dq_stuck_implies_cannot_proceed.

Theorem dq_stuck_head_unexpired : forall cap old c t th,
  dq_reach cap old c -> dq_stuck c -> lookup t (q_thr c) = Some th -> t_pc th = DPark1 -> t_lag th = 0 ->
  forall y, In y (q_heap c) -> q_now c < e_dl y.
Proof. exact dq_stuck_head_unexpired_final. Qed.
Print Assumptions dq_stuck_head_unexpired.

(* a newly enqueued element wakes the waiters - also when it expires before the one being waited for:
   the statement close(old) of ANY broadcast moves every thread blocked on that generation to its
   `case <-signal:` (observation included), from where the loop re-locks and re-peeks.  By
   dq_broadcast_reads_current + dq_no_lost_wakeup every Dequeue blocked when the Enqueue's broadcast
   reads `old` waits on that very generation (or on one another broadcaster is closing). *)
Theorem dq_new_earlier_element_wakes_waiter : forall cap old c t k th c' obs,
  dq_reach cap old c -> lookup t (q_thr c) = Some th -> t_pc th = Bc5 ->
  dq_exec1 c (DStep t k) = Some (c', obs) ->
  forall t2 th2, lookup t2 (q_thr c) = Some th2 ->
    is_park (t_pc th2) = true -> wcond (t_site th2) = bcond (t_site th) -> t_sg th2 = t_bold th ->
    exists th2', lookup t2 (q_thr c') = Some th2' /\ t_pc th2' = sig_case (t_pc th2) /\
                 In (t2, OAt (sig_case (t_pc th2))) obs.
Proof. exact dq_broadcast_wakes_final. Qed.
Print Assumptions dq_new_earlier_element_wakes_waiter.

(* cancellation: a call blocked in a select is woken by CANCEL at once (arrival at `case <-ctx.Done():`)
   and returns ctx.Err() after at most 4 further statements of its own, each enabled whatever the
   others do; heap, mutex, clock, conds and logs are untouched, the other calls unaffected *)
Theorem dq_cancel_enables : forall cap old c t th,
  dq_reach cap old c -> lookup t (q_thr c) = Some th -> is_park (t_pc th) = true ->
  exists n c' obs, (n <= 4)%nat /\
    dq_exec_obs c (DCancel t :: repeat (DStep t 0) n) = Some (c', obs) /\
    In (t, OAt (ctx_case (t_pc th))) obs /\ In (t, ORet RCtx) obs /\
    lookup t (q_thr c') = None /\
    (forall t2, t2 <> t -> lookup t2 (q_thr c') = lookup t2 (q_thr c)) /\
    q_heap c' = q_heap c /\ q_mutex c' = q_mutex c /\ q_now c' = q_now c /\
    q_ins c' = q_ins c /\ q_out c' = q_out c /\ q_okd c' = q_okd c /\ q_esig c' = q_esig c /\ q_dsig c' = q_dsig c.
Proof. exact dq_cancel_enables_final. Qed.
Print Assumptions dq_cancel_enables.

(* ---------- non-vacuity ---------- *)
Definition st9 (t : tid) (n : nat) : list dq_ev := repeat (DStep t 0) n.

(* A sleeps on A = (901, 1000); B = (902, 7) arrives; the Enqueue's close(old) wakes A, which re-peeks,
   re-arms for B, is woken by B's tick at 7 and returns B; A's element stays *)
Example earlier_element_wakes_and_is_delivered :
  exists c, exec dq_step (dq_init 0 true)
    ([DCallEnq 1%nat (901, 1000)] ++ st9 1%nat 13 ++ [DCallDeq 1%nat] ++ st9 1%nat 16 ++
     [DCallEnq 2%nat (902, 7)] ++ st9 2%nat 13 ++ st9 1%nat 15 ++ [DTick 7; DFire 1%nat] ++ st9 1%nat 14) = Some c /\
    q_thr c = [] /\ q_heap c = [(901, 1000)] /\ q_out c = [(902, 7)] /\ q_now c = 7.
Proof. eexists. vm_compute. repeat split; reflexivity. Qed.

(* a stuck configuration whose sleeping Dequeue has lag 4: the clock advanced between Delay() and
   NewTimer; at now = 11 the head (deadline 10) is expired, the timer (armed for 14) is not yet due *)
Definition late_sched : list dq_ev :=
  [DCallEnq 1%nat (1, 10)] ++ st9 1%nat 13 ++ [DCallDeq 2%nat] ++ st9 2%nat 8 ++ [DTick 4] ++ st9 2%nat 8 ++ [DTick 7].

Example late_wakeup_witness :
  exists c th, exec dq_step (dq_init 0 true) late_sched = Some c /\ dq_stuck c /\
    lookup 2%nat (q_thr c) = Some th /\ t_pc th = DPark1 /\ t_lag th = 4 /\
    t_tm th = Some (Tm (Some 14) false) /\ q_heap c = [(1, 10)] /\ q_now c = 11.
Proof.
  eexists _, _. split; [vm_compute; reflexivity|]. split; [|vm_compute; repeat split; reflexivity].
  apply dq_stuck_intro. intros t th Hl. cbn in Hl.
  destruct (Nat.eqb t 2); [|discriminate Hl]. injection Hl as <-. vm_compute. split; reflexivity.
Qed.

(* cancellation of that sleeping Dequeue *)
Example cancel_parked_dequeue :
  exists c obs, dq_exec_obs (match exec dq_step (dq_init 0 true) late_sched with Some c => c | None => dq_init 0 true end)
                  (DCancel 2%nat :: repeat (DStep 2%nat 0) 4) = Some (c, obs) /\
    q_thr c = [] /\ q_heap c = [(1, 10)] /\ In (2%nat, ORet RCtx) obs.
Proof. eexists _, _. vm_compute. repeat split; try reflexivity. right; right; right; right; left; reflexivity. Qed.
