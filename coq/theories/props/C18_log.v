(* C18, many issued ciphertexts — tampering, wrong keys, distinctness and round trip over an ARBITRARY
   LOG of issued ciphertexts / an arbitrary HISTORY of EncryptColumn.Value() calls (any number of
   calls, any keys, any types).  Generalises truncated/extended/bitflip/changed_is_error of C18.v,
   which assumed that exactly one ciphertext was ever issued under the key.
   Only statements here; every proof is `exact <lemma>` from proof/ColumnLog.v.

   Premises, as in C18.v: `aead_int_ctxt open (log_issued log)` is the IDEAL WORLD of ciphertext
   integrity (only what the encryption oracle has issued opens) — for AES-GCM a computational
   assumption, not a theorem.  `nonces_distinct log` (no nonce twice under one key) is a boolean
   predicate on the log; history_keeps_nonces_distinct shows it is what Value() maintains when every
   call draws a fresh nonce (`history_fresh`, the crypto/rand assumption).  Vocabulary
   (`nonces_distinct`, `history_fresh`, `run_values`, `outputs`, `rejected`, `plain_ok`) is in
   model/ColumnLogModel.v; `rejected c s` = Scan returns an error of the decryption stage and leaves
   Val, Valid and Key exactly as they were. *)
From Ekit Require Import Common ColumnModel ColumnProof ColumnLogModel ColumnLog.

(* ============ the log invariant is what Value() with fresh nonces maintains ============ *)
Theorem history_keeps_nonces_distinct :
  forall (V : Type) (json_enc : V -> option bytes) (seal : bytes -> bytes -> bytes -> bytes)
         (h : list (vcall V)),
  history_fresh h = true ->
  nonces_distinct (run_values V json_enc seal h []) = true /\
  nonces_sized (run_values V json_enc seal h []) = true.
Proof. exact history_log_ok. Qed.
Print Assumptions history_keeps_nonces_distinct.

(* the inductive step in general form: extending any good log by calls that are fresh for it *)
Theorem value_calls_keep_nonces_distinct :
  forall (V : Type) (json_enc : V -> option bytes) (seal : bytes -> bytes -> bytes -> bytes)
         (h : list (vcall V)) (log : list log_entry),
  nonces_distinct log = true ->
  kn_distinct (map call_kn h) = true ->
  (forall x : vcall V, In x h -> nonce_fresh log (ckey (snd x)) (fst x) = true) ->
  nonces_distinct (run_values V json_enc seal h log) = true.
Proof. exact run_distinct. Qed.
Print Assumptions value_calls_keep_nonces_distinct.

(* the log of a history holds exactly what its successful calls issued *)
Theorem history_log_contents :
  forall (V : Type) (json_enc : V -> option bytes) (seal : bytes -> bytes -> bytes -> bytes)
         (h : list (vcall V)) (log : list log_entry) (e : log_entry),
  In e (run_values V json_enc seal h log) <->
  In e log \/ (exists x : vcall V, In x h /\ issue V json_enc seal x = Some e).
Proof. exact in_run. Qed.
Print Assumptions history_log_contents.

(* ============ tampering with ANY entry (k, n, ct, m) of ANY log ============ *)
(* every proper truncation of n ++ ct (lengths 0 .. |n ++ ct| - 1) *)
Theorem log_truncated_is_error :
  forall (V : Type) (json_dec : V -> bytes -> V * bool)
         (open : bytes -> bytes -> bytes -> option bytes) (log : list log_entry),
  aead_int_ctxt open (log_issued log) ->
  nonces_distinct log = true ->
  forall (k n ct m : bytes) (c : column V) (s : src) (l : nat),
  In (k, n, ct, m) log ->
  length n = nonce_size ->
  ckey c = k ->
  (l < length (n ++ ct))%nat ->
  is_data s (firstn l (n ++ ct)) ->
  rejected V json_dec open c s.
Proof. exact log_truncated. Qed.
Print Assumptions log_truncated_is_error.

(* every extension by a non-empty suffix *)
Theorem log_extended_is_error :
  forall (V : Type) (json_dec : V -> bytes -> V * bool)
         (open : bytes -> bytes -> bytes -> option bytes) (log : list log_entry),
  aead_int_ctxt open (log_issued log) ->
  nonces_distinct log = true ->
  forall (k n ct m : bytes) (c : column V) (s : src) (x : bytes),
  In (k, n, ct, m) log ->
  length n = nonce_size ->
  ckey c = k ->
  x <> [] ->
  is_data s ((n ++ ct) ++ x) ->
  rejected V json_dec open c s.
Proof. exact log_extended. Qed.
Print Assumptions log_extended_is_error.

(* every single-bit flip inside the ciphertext||tag region *)
Theorem log_bitflip_ct_is_error :
  forall (V : Type) (json_dec : V -> bytes -> V * bool)
         (open : bytes -> bytes -> bytes -> option bytes) (log : list log_entry),
  aead_int_ctxt open (log_issued log) ->
  nonces_distinct log = true ->
  forall (k n ct m : bytes) (c : column V) (s : src) (i : nat),
  In (k, n, ct, m) log ->
  length n = nonce_size ->
  ckey c = k ->
  (8 * nonce_size <= i < 8 * length (n ++ ct))%nat ->
  is_data s (flip_bit i (n ++ ct)) ->
  rejected V json_dec open c s.
Proof. exact log_bitflip_ct. Qed.
Print Assumptions log_bitflip_ct_is_error.

(* a single-bit flip inside the nonce region: an error, UNLESS the flipped nonce with the same
   ciphertext is itself another entry of the log under this key (c18_log_exceptions_possible shows
   that this can happen in the log model, so the disjunct cannot be dropped) *)
Theorem log_bitflip_nonce_is_error_or_issued :
  forall (V : Type) (json_dec : V -> bytes -> V * bool)
         (open : bytes -> bytes -> bytes -> option bytes) (log : list log_entry),
  aead_int_ctxt open (log_issued log) ->
  nonces_distinct log = true ->
  forall (k n ct m : bytes) (c : column V) (s : src) (i : nat),
  In (k, n, ct, m) log ->
  length n = nonce_size ->
  ckey c = k ->
  (i < 8 * nonce_size)%nat ->
  is_data s (flip_bit i (n ++ ct)) ->
  rejected V json_dec open c s \/ flip_bit i n <> n /\ log_issued log k (flip_bit i n) ct.
Proof. exact log_bitflip_nonce. Qed.
Print Assumptions log_bitflip_nonce_is_error_or_issued.

(* every single-bit flip, both regions in one statement *)
Theorem log_bitflip_is_error_or_issued :
  forall (V : Type) (json_dec : V -> bytes -> V * bool)
         (open : bytes -> bytes -> bytes -> option bytes) (log : list log_entry),
  aead_int_ctxt open (log_issued log) ->
  nonces_distinct log = true ->
  forall (k n ct m : bytes) (c : column V) (s : src) (i : nat),
  In (k, n, ct, m) log ->
  length n = nonce_size ->
  ckey c = k ->
  (i < 8 * length (n ++ ct))%nat ->
  is_data s (flip_bit i (n ++ ct)) ->
  rejected V json_dec open c s \/
  (i < 8 * nonce_size)%nat /\ flip_bit i n <> n /\ log_issued log k (flip_bit i n) ct.
Proof. exact log_bitflip. Qed.
Print Assumptions log_bitflip_is_error_or_issued.

(* any byte string at all: an error unless it is, split at 12, an entry under the column's key *)
Theorem log_changed_is_error_or_issued :
  forall (V : Type) (json_dec : V -> bytes -> V * bool)
         (open : bytes -> bytes -> bytes -> option bytes) (log : list log_entry),
  aead_int_ctxt open (log_issued log) ->
  forall (c : column V) (s : src) (b : bytes),
  is_data s b ->
  rejected V json_dec open c s \/
  log_issued log (ckey c) (firstn nonce_size b) (skipn nonce_size b).
Proof. exact log_changed. Qed.
Print Assumptions log_changed_is_error_or_issued.

(* an entry scanned with ANY key (16/24/32 bytes or any other length): an error unless exactly
   (key', n, ct) is in the log as well *)
Theorem log_other_key_is_error_or_issued :
  forall (V : Type) (json_dec : V -> bytes -> V * bool)
         (open : bytes -> bytes -> bytes -> option bytes) (log : list log_entry),
  aead_int_ctxt open (log_issued log) ->
  forall (k n ct m : bytes) (c : column V) (s : src),
  In (k, n, ct, m) log ->
  length n = nonce_size ->
  is_data s (n ++ ct) ->
  rejected V json_dec open c s \/ log_issued log (ckey c) n ct.
Proof. exact log_other_key. Qed.
Print Assumptions log_other_key_is_error_or_issued.

Theorem log_wrong_key_is_error :
  forall (V : Type) (json_dec : V -> bytes -> V * bool)
         (open : bytes -> bytes -> bytes -> option bytes) (log : list log_entry),
  aead_int_ctxt open (log_issued log) ->
  forall (k n ct m : bytes) (c : column V) (s : src),
  In (k, n, ct, m) log ->
  length n = nonce_size ->
  is_data s (n ++ ct) ->
  (forall m' : bytes, ~ In (ckey c, n, ct, m') log) ->
  rejected V json_dec open c s.
Proof. exact log_wrong_key. Qed.
Print Assumptions log_wrong_key_is_error.

(* the same for every stored value ever returned by a history of Value() calls with fresh nonces;
   the nonce-flip exception is spelled out in terms of the history: another call under the same key
   drew exactly the flipped nonce and returned exactly the flipped string *)
Theorem history_tampered_is_error :
  forall (V : Type) (json_enc : V -> option bytes) (json_dec : V -> bytes -> V * bool)
         (seal : bytes -> bytes -> bytes -> bytes) (open : bytes -> bytes -> bytes -> option bytes)
         (h : list (vcall V)) (n : bytes) (cx : column V) (stored : bytes) (c : column V),
  aead_int_ctxt open (log_issued (run_values V json_enc seal h [])) ->
  history_fresh h = true ->
  In (n, cx) h ->
  value V json_enc seal n cx = COk stored ->
  ckey c = ckey cx ->
  (forall s l, (l < length stored)%nat -> is_data s (firstn l stored) -> rejected V json_dec open c s) /\
  (forall s x, x <> [] -> is_data s (stored ++ x) -> rejected V json_dec open c s) /\
  (forall s i, (8 * nonce_size <= i < 8 * length stored)%nat -> is_data s (flip_bit i stored) ->
     rejected V json_dec open c s) /\
  (forall s i, (i < 8 * nonce_size)%nat -> is_data s (flip_bit i stored) ->
     rejected V json_dec open c s \/
     exists n' c', In (n', c') h /\ n' <> n /\ ckey c' = ckey cx /\
       value V json_enc seal n' c' = COk (flip_bit i stored)).
Proof. exact history_tamper. Qed.
Print Assumptions history_tampered_is_error.

(* ============ two encryptions differ: the history form ============ *)
(* all nonces of the history distinct => all stored values pairwise distinct (no AEAD premise) *)
Theorem history_outputs_pairwise_distinct :
  forall (V : Type) (json_enc : V -> option bytes) (seal : bytes -> bytes -> bytes -> bytes)
         (h : list (vcall V)),
  history_nonces_distinct h = true ->
  bytes_distinct (outputs V json_enc seal h) = true.
Proof. exact outputs_distinct. Qed.
Print Assumptions history_outputs_pairwise_distinct.

Theorem bytes_distinct_is_NoDup : forall l : list bytes, bytes_distinct l = true -> NoDup l.
Proof. exact bytes_distinct_NoDup. Qed.
Print Assumptions bytes_distinct_is_NoDup.

(* distinctness per key is enough for any two calls under the same key (same value or not) *)
Theorem history_same_key_outputs_differ :
  forall (V : Type) (json_enc : V -> option bytes) (seal : bytes -> bytes -> bytes -> bytes)
         (h1 h2 h3 : list (vcall V)) (n1 : bytes) (c1 : column V) (n2 : bytes) (c2 : column V)
         (s1 s2 : bytes),
  history_fresh (h1 ++ (n1, c1) :: h2 ++ (n2, c2) :: h3) = true ->
  ckey c1 = ckey c2 ->
  value V json_enc seal n1 c1 = COk s1 ->
  value V json_enc seal n2 c2 = COk s2 ->
  s1 <> s2.
Proof. exact same_key_outputs_differ. Qed.
Print Assumptions history_same_key_outputs_differ.

(* ============ round trip over the log (ideal world: open = log_open log) ============ *)
(* scanning any entry under its key decrypts to exactly its plaintext *)
Theorem log_scan_entry :
  forall (V : Type) (json_dec : V -> bytes -> V * bool) (log : list log_entry)
         (k n ct m : bytes) (c : column V) (s : src),
  nonces_distinct log = true ->
  In (k, n, ct, m) log ->
  length n = nonce_size ->
  key_ok k = true ->
  ckey c = k ->
  is_data s (n ++ ct) ->
  scan V json_dec (log_open log) false c s =
  (let (v', r) := set_val V json_dec (val c) m in ({| val := v'; valid := is_sok r; ckey := k |}, r)).
Proof. exact scan_log_entry. Qed.
Print Assumptions log_scan_entry.

(* every stored value a history has returned scans back to the value that was encrypted, whatever
   was encrypted before and after it; non-JSON types: NO hypothesis besides fresh nonces *)
Theorem history_roundtrip :
  forall (V : Type) (json_enc : V -> option bytes) (json_dec : V -> bytes -> V * bool)
         (seal : bytes -> bytes -> bytes -> bytes) (h : list (vcall V)) (n : bytes) (cx : column V)
         (stored : bytes) (c0 : column V) (s : src),
  history_fresh h = true ->
  In (n, cx) h ->
  value V json_enc seal n cx = COk stored ->
  plain_ok V (val cx) ->
  same_ty (val c0) (val cx) = true ->
  ckey c0 = ckey cx ->
  is_data s stored ->
  scan V json_dec (log_open (run_values V json_enc seal h [])) false c0 s =
  ({| val := val cx; valid := true; ckey := ckey cx |}, SOk).
Proof. exact history_roundtrip_plain. Qed.
Print Assumptions history_roundtrip.

(* JSON-typed values: under the JSON hypothesis and into a zero-valued destination *)
Theorem history_roundtrip_json_types :
  forall (V : Type) (json_enc : V -> option bytes) (json_dec : V -> bytes -> V * bool)
         (seal : bytes -> bytes -> bytes -> bytes) (zeroV : V) (json_rep : V -> Prop)
         (h : list (vcall V)) (n : bytes) (cx : column V) (stored : bytes) (c0 : column V) (s : src),
  json_roundtrips V json_enc json_dec zeroV json_rep ->
  history_fresh h = true ->
  In (n, cx) h ->
  value V json_enc seal n cx = COk stored ->
  val_ok V json_rep (val cx) ->
  same_ty (val c0) (val cx) = true ->
  ckey c0 = ckey cx ->
  fresh_dst V zeroV (val c0) ->
  is_data s stored ->
  scan V json_dec (log_open (run_values V json_enc seal h [])) false c0 s =
  ({| val := val cx; valid := true; ckey := ckey cx |}, SOk).
Proof. exact history_roundtrip_json. Qed.
Print Assumptions history_roundtrip_json_types.

(* ============ non-vacuity: a 3-entry log produced by a history (two keys, three types) ============ *)
Example c18_log_nonvacuous :
  let kA := repeat 7 16 in
  let kB := repeat 9 32 in
  let n1 := [1;2;3;4;5;6;7;8;9;10;11;12] in
  let n2 := [12;11;10;9;8;7;6;5;4;3;2;1] in
  let jenc := fun b : bool => Some (if b then [116;114;117;101] else [102;97;108;115;101]) in
  let jdec := fun (_ : bool) (m : bytes) =>
    if bytes_eqb m [116;114;117;101] then (true, true)
    else if bytes_eqb m [102;97;108;115;101] then (false, true) else (false, false) in
  let col := fun k v => {| val := v; valid := true; ckey := k |} in
  let h := [(n1, col kA (VNum NI32 (-2))); (n2, col kA (VStr [104;105])); (n1, col kB (VJson true));
            (n2, {| val := VNum NI8 1; valid := false; ckey := kB |})] in
  let log := run_values bool jenc toy_seal h [] in
  let s1 := n1 ++ toy_seal kA n1 (encode_num NI32 (-2)) in
  let s2 := n2 ++ toy_seal kA n2 [104;105] in
  let s3 := n1 ++ toy_seal kB n1 [116;114;117;101] in
  history_fresh h = true /\ length log = 3%nat /\
  nonces_distinct log = true /\ nonces_sized log = true /\
  aead_int_ctxt (log_open log) (log_issued log) /\
  outputs bool jenc toy_seal h = [s1; s2; s3] /\ bytes_distinct (outputs bool jenc toy_seal h) = true /\
  scan bool jdec (log_open log) false (col kA (VNum NI32 77)) (SBytes s1) = (col kA (VNum NI32 (-2)), SOk) /\
  scan bool jdec (log_open log) false (col kA (VStr [])) (SString s2) = (col kA (VStr [104;105]), SOk) /\
  scan bool jdec (log_open log) false (col kB (VJson false)) (SBytes s3) = (col kB (VJson true), SOk) /\
  scan bool jdec (log_open log) false (col kA (VStr [])) (SBytes (firstn 29 s2)) = (col kA (VStr []), SErr CAuth) /\
  scan bool jdec (log_open log) false (col kA (VStr [])) (SBytes (s2 ++ [0])) = (col kA (VStr []), SErr CAuth) /\
  scan bool jdec (log_open log) false (col kA (VNum NI32 77)) (SBytes (flip_bit 100 s1)) = (col kA (VNum NI32 77), SErr CAuth) /\
  scan bool jdec (log_open log) false (col kA (VNum NI32 77)) (SBytes (flip_bit 3 s1)) = (col kA (VNum NI32 77), SErr CAuth) /\
  scan bool jdec (log_open log) false (col kB (VNum NI32 77)) (SBytes s1) = (col kB (VNum NI32 77), SErr CAuth) /\
  scan bool jdec (log_open log) false (col (repeat 7 24) (VNum NI32 77)) (SBytes s1) = (col (repeat 7 24) (VNum NI32 77), SErr CAuth).
Proof.
  cbv zeta. repeat split; try (vm_compute; reflexivity). apply log_int_ctxt.
Qed.

(* the two exceptions are real in the log model: an AEAD whose output ignores nonce and key (it still
   satisfies the ideal-world premise, with decryption by look-up) issues, for the same value, the same
   ciphertext under a nonce differing in one bit and under another key; the log has distinct nonces,
   yet the nonce-flipped string and the other key are ACCEPTED.  So neither disjunct can be dropped
   on the strength of aead_int_ctxt + nonces_distinct alone (for AES-GCM they are excluded only by
   the computational assumption behind aead_int_ctxt, which a nonce- and key-independent seal breaks). *)
Example c18_log_exceptions_possible :
  let seal0 := fun (_ _ m : bytes) => m ++ repeat 0 16 in
  let jenc := fun _ : unit => @None bytes in
  let jdec := fun (u : unit) (_ : bytes) => (u, false) in
  let kA := repeat 7 16 in
  let kB := repeat 9 16 in
  let n1 := [1;2;3;4;5;6;7;8;9;10;11;12] in
  let col := fun k z => {| val := @VNum unit NI16 z; valid := true; ckey := k |} in
  let h := [(n1, col kA 258); (flip_bit 0 n1, col kA 258); (n1, col kB 258)] in
  let log := run_values unit jenc seal0 h [] in
  let s1 := n1 ++ seal0 kA n1 [1; 2] in
  history_fresh h = true /\ nonces_distinct log = true /\
  aead_int_ctxt (log_open log) (log_issued log) /\
  flip_bit 0 n1 <> n1 /\
  log_issued log kA (flip_bit 0 n1) (seal0 kA n1 [1; 2]) /\
  scan unit jdec (log_open log) false (col kA 0) (SBytes (flip_bit 0 s1)) = (col kA 258, SOk) /\
  log_issued log kB n1 (seal0 kA n1 [1; 2]) /\
  scan unit jdec (log_open log) false (col kB 0) (SBytes s1) = (col kB 258, SOk).
Proof.
  cbv zeta. repeat split; try (vm_compute; reflexivity).
  - apply log_int_ctxt.
  - vm_compute. discriminate.
  - exists [1; 2]. vm_compute. auto.
  - exists [1; 2]. vm_compute. auto.
Qed.
