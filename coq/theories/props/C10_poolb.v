(* C10 (liveness side) — accepted tasks of pool.OnDemandBlockTaskPool are not stranded: a running pool
   always keeps at least initGo workers that carry no idle timer, so a stuck running pool has an empty
   queue, and at quiescence after a shutdown every accepted task is done or was handed back.
   Only statements here; proofs are `exact <lemma>` from proof/PoolProofB*.v.  The safety half (the task
   ledger: never twice, never both, rejected never runs) is props/C10_pool.v.

   STATUS of this file (it is extended as the invariant proofs in PoolProofB2.v ... close):
     proved  : workers_can_vanish_refuted (pinned code, i_fixa = false), the non-vacuity Example.
     pending : (full statements, for every P with pvalid P and i_fixa P = true)

       workers_without_timer_ge_initgo :
         in every reachable configuration whose state is running (or locked by a Submit that found it
         running): initGo <= (number of workers that have not executed their decrement of totalGo and
         are not members of timeoutGroup) + (workers counted in totalGo whose `go` has not run yet),
         and, whenever no goroutine is inside the idle-timer exit's critical section,
         i_init P <= s_total (c_sh c) - s_gn (c_sh c)

       stuck_running_implies_queue_empty :
         exec pstep_cfg (pinit P) evs = Some c -> stuck c -> s_state (c_sh c) = SRunning -> s_q (c_sh c) = []

       at_quiescence_none_lost :   (additionally i_fixb P = true)
         exec pstep_cfg (pinit P) evs = Some c -> g_began (c_gh c) = true ->
         g_shut (c_gh c) = true \/ g_now (c_gh c) = true -> stuck c ->
         forall i, In i (g_acc (c_gh c)) -> In i (g_done (c_gh c)) \/ In i (g_returned (c_gh c)) *)
From Ekit Require Import Common Conc PoolModel PoolExamples PoolProofB.

(* On the code BEFORE the fix: commit dc56be3 (i_fixa = false): a schedule after which the pool is in
   state RUNNING (Start returned nil), no goroutine is left (totalGo = 0), nothing can run any more, and
   the accepted tasks 4 and 5 sit in the queue and were never executed. *)
Theorem workers_can_vanish_refuted :
  exists P evs c,
    pvalid P /\ i_fixa P = false /\ i_fixb P = true /\
    exec pstep_cfg (pinit P) evs = Some c /\
    s_state (c_sh c) = SRunning /\ g_starts (c_gh c) = 1 /\
    stuck c /\ c_thr c = [] /\ s_total (c_sh c) = 0 /\
    map tk_id (s_q (c_sh c)) = [4; 5]%nat /\
    In 4%nat (g_acc (c_gh c)) /\ In 5%nat (g_acc (c_gh c)) /\
    ~ In 4%nat (g_done (c_gh c)) /\ ~ In 5%nat (g_done (c_gh c)) /\
    ~ (i_init P <= s_total (c_sh c) - s_gn (c_sh c)).
Proof. exact workers_can_vanish_refuted_lemma. Qed.
Print Assumptions workers_can_vanish_refuted.

(* non-vacuity: the same prefix on the code as it is now - the third worker stays (the added conjunct
   fails), drains the queue; the two timer workers time out; a graceful Shutdown completes: stuck,
   stopped, queue empty, all six accepted tasks done *)
Example workers_stay_and_all_tasks_run :
  exists evs c,
    exec pstep_cfg (pinit wit_vanish_P) evs = Some c /\ pvalid wit_vanish_P /\
    i_fixa wit_vanish_P = true /\ i_fixb wit_vanish_P = true /\
    stuck c /\ g_shut (c_gh c) = true /\ s_state (c_sh c) = SStopped /\ s_q (c_sh c) = [] /\
    g_acc (c_gh c) = [0; 1; 2; 3; 4; 5]%nat /\
    (forall i, In i (g_acc (c_gh c)) -> In i (g_done (c_gh c))).
Proof. exact workers_stay_example_lemma. Qed.
