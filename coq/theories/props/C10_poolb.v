(* C10 (liveness side) — accepted tasks of pool.OnDemandBlockTaskPool are not stranded: a running pool
   always keeps at least initGo workers that carry no idle timer, so a stuck running pool has an empty
   queue, and at quiescence after a shutdown every accepted task is done or was handed back.
   Only statements here; proofs are `exact <lemma>` from proof/PoolProofB*.v.  The safety half (the task
   ledger: never twice, never both, rejected never runs) is props/C10_pool.v.

   STATUS: all three target theorems are PROVED (every valid parameter record, every event list the model
   accepts, code as it is: i_fixa = i_fixb = true; i_fixc = true where stuck configurations are analysed)

     workers_without_timer_ge_initgo       K: running (or closing with tasks queued) => initGo <= workers counted in
                                           totalGo that are not effective members of timeoutGroup (+ creations in
                                           progress)
     totalgo_minus_timeoutgroup_ge_initgo  the same in the model's bookkeeping: running and b.mutex not write-held
                                           => initGo <= totalGo - timeoutGroup.n
     stuck_running_implies_queue_empty     a stuck running pool has an empty queue
     at_quiescence_none_lost               started, shut down (either kind), stuck => every accepted task is done
                                           or was returned by ShutdownNow
     workers_can_vanish_refuted            the pinned code (i_fixa = false) strands accepted tasks: witness
     workers_stay_and_all_tasks_run        Example: on the code as it is the same prefix ends with all done
   and, on the way: parked_worker_has_nothing_to_receive, interrupt_branch_only_after_cancel (every parameter
   record, every variant), pool_counters_B (valid parameters).  Proof structure: see props/C12_pool.v.
*)
From Ekit Require Import Common Conc PoolModel PoolExamples PoolProofB PoolProofB0 PoolProofB2d PoolProofB2bd PoolProofB3d PoolProofB4d
  PoolProofB5d PoolProofBz PoolProofB8.

(* On the code BEFORE the fix: commit dc56be3 (i_fixa = false): a schedule after which the pool is in
   state RUNNING (Start returned nil), no goroutine is left (totalGo = 0), nothing can run any more, and
   the accepted tasks 4 and 5 sit in the queue and were never executed. *)
Theorem workers_can_vanish_refuted :
  exists P evs c,
    pvalid P /\ i_fixa P = false /\ i_fixb P = true /\
    exec pstep_cfg (pinit P) evs = Some c /\
    s_state (c_sh c) = SRunning /\ g_starts (c_gh c) = 1 /\
    stuck c /\ c_thr c = [] /\ s_total (c_sh c) = 0 /\
    map tk_id (s_q (c_sh c)) = [4; 5]%nat /\
    In 4%nat (g_acc (c_gh c)) /\ In 5%nat (g_acc (c_gh c)) /\
    ~ In 4%nat (g_done (c_gh c)) /\ ~ In 5%nat (g_done (c_gh c)) /\
    ~ (i_init P <= s_total (c_sh c) - s_gn (c_sh c)).
Proof. exact workers_can_vanish_refuted_lemma. Qed.
Print Assumptions workers_can_vanish_refuted.

(* non-vacuity: the same prefix on the code as it is now - the third worker stays (the added conjunct
   fails), drains the queue; the two timer workers time out; a graceful Shutdown completes: stuck,
   stopped, queue empty, all six accepted tasks done *)
Example workers_stay_and_all_tasks_run :
  exists evs c,
    exec pstep_cfg (pinit wit_vanish_P) evs = Some c /\ pvalid wit_vanish_P /\
    i_fixa wit_vanish_P = true /\ i_fixb wit_vanish_P = true /\
    stuck c /\ g_shut (c_gh c) = true /\ s_state (c_sh c) = SStopped /\ s_q (c_sh c) = [] /\
    g_acc (c_gh c) = [0; 1; 2; 3; 4; 5]%nat /\
    (forall i, In i (g_acc (c_gh c)) -> In i (g_done (c_gh c))).
Proof. exact workers_stay_example_lemma. Qed.

(* ---------- steps towards the positive theorems (every parameter record, every variant) ---------- *)

Theorem parked_worker_has_nothing_to_receive : forall P evs c t x, exec pstep_cfg (pinit P) evs = Some c ->
  lookup t (c_thr c) = Some x -> pc x = WParked ->
  s_closed (c_sh c) = false /\ s_ictx (c_sh c) = false /\ s_q (c_sh c) = [].
Proof. exact parked_worker_idle_lemma. Qed.
Print Assumptions parked_worker_has_nothing_to_receive.

(* g_int: the six statements of the worker's `case <-b.interruptCtx.Done():` branch *)
Theorem interrupt_branch_only_after_cancel : forall P evs c t x, exec pstep_cfg (pinit P) evs = Some c ->
  lookup t (c_thr c) = Some x -> g_int (pc x) = 1 -> s_ictx (c_sh c) = true.
Proof. exact interrupt_branch_after_cancel_lemma. Qed.
Print Assumptions interrupt_branch_only_after_cancel.

(* ---------- goroutine ids and the two counters (valid parameters) ---------- *)
(* totalGo = workers that have not executed their decrement + creations in progress; unless the context
   is cancelled, timeoutGroup.n = effective members of the group; ids are pairwise distinct; the group's
   map only contains ids that were handed out *)
Theorem pool_counters_B : forall P evs c, pvalid P -> exec pstep_cfg (pinit P) evs = Some c ->
  s_total (c_sh c) = tsum (pcf g_cnt) (c_thr c) + tsum pend (c_thr c) /\
  (s_ictx (c_sh c) = true \/ s_gn (c_sh c) = tsum (ing (s_mp (c_sh c))) (c_thr c)) /\
  (forall X, tsum (own_is X) (c_thr c) <= 1) /\
  (forall a, In a (s_mp (c_sh c)) -> 1 <= a <= s_idc (c_sh c)).
Proof. exact counters_lemma. Qed.
Print Assumptions pool_counters_B.

(* ---------- C10 (liveness side): the three target theorems ---------- *)
(* pfixed P := i_fixa P = true /\ i_fixb P = true; [cnt_ning mp x] = 1 iff x is a worker that has not executed
   its decrement of totalGo and is not an effective member of the timeout group with map mp; [pend] counts the
   workers already added to totalGo whose `go` statement has not run yet. *)

(* K: while the pool is running (or closing with tasks still queued) at least initGo of the workers counted
   in totalGo carry no idle timer - the invariant the first fix: commit makes inductive *)
Theorem workers_without_timer_ge_initgo : forall P evs c,
  pvalid P -> pfixed P -> exec pstep_cfg (pinit P) evs = Some c ->
  s_state (c_sh c) = SRunning \/ (s_state (c_sh c) = SClosing /\ s_q (c_sh c) <> []) ->
  i_init P <= PoolProofB0.tsum (cnt_ning (s_mp (c_sh c))) (c_thr c) + PoolProofB0.tsum pend (c_thr c).
Proof. exact workers_without_timer_ge_initgo_full. Qed.
Print Assumptions workers_without_timer_ge_initgo.

(* ... and in the model's own bookkeeping: whenever no goroutine is inside b.mutex's write section *)
Theorem totalgo_minus_timeoutgroup_ge_initgo : forall P evs c,
  pvalid P -> pfixed P -> exec pstep_cfg (pinit P) evs = Some c ->
  s_state (c_sh c) = SRunning -> s_bw (c_sh c) = false ->
  i_init P <= s_total (c_sh c) - s_gn (c_sh c).
Proof. exact bookkeeping_ge_initgo_full. Qed.
Print Assumptions totalgo_minus_timeoutgroup_ge_initgo.

Theorem stuck_running_implies_queue_empty : forall P evs c,
  pvalid P -> pfixed P -> i_fixc P = true -> exec pstep_cfg (pinit P) evs = Some c ->
  stuck c -> s_state (c_sh c) = SRunning -> s_q (c_sh c) = [].
Proof. exact stuck_running_implies_queue_empty_full. Qed.
Print Assumptions stuck_running_implies_queue_empty.

Theorem at_quiescence_none_lost : forall P evs c,
  pvalid P -> pfixed P -> i_fixc P = true -> exec pstep_cfg (pinit P) evs = Some c ->
  g_began (c_gh c) = true -> g_shut (c_gh c) = true \/ g_now (c_gh c) = true -> stuck c ->
  forall i, In i (g_acc (c_gh c)) -> In i (g_done (c_gh c)) \/ In i (g_returned (c_gh c)).
Proof. exact at_quiescence_none_lost_full. Qed.
Print Assumptions at_quiescence_none_lost.
