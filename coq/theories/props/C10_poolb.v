(* C10 (liveness side) — accepted tasks of pool.OnDemandBlockTaskPool are not stranded: a running pool
   always keeps at least initGo workers that carry no idle timer, so a stuck running pool has an empty
   queue, and at quiescence after a shutdown every accepted task is done or was handed back.
   Only statements here; proofs are `exact <lemma>` from proof/PoolProofB*.v.  The safety half (the task
   ledger: never twice, never both, rejected never runs) is props/C10_pool.v.

   STATUS (honest account; extended as the invariant layers in proof/PoolProofB*.v close)

   PROVED here
     workers_can_vanish_refuted            the pinned code (i_fixa = false) strands accepted tasks: witness
     workers_stay_and_all_tasks_run        Example: on the code as it is the same prefix ends with all done
     parked_worker_has_nothing_to_receive  a worker parked in its select => queue open, context not
                                           cancelled, queue EMPTY  (every parameter record, every variant)
     interrupt_branch_only_after_cancel    a worker on the `<-b.interruptCtx.Done()` branch => the context
                                           is cancelled
   The last two are steps towards the theorems below, NOT those theorems.
     pool_counters_B                       (valid parameters) totalGo = uncounted-down workers + creations in
                                           progress; timeoutGroup.n = effective members (unless cancelled);
                                           goroutine ids pairwise distinct; map entries are handed-out ids

   PROVED ONE HYPOTHESIS SHORT (rule 3)
     stuck_running_implies_queue_empty_partial, at_quiescence_none_lost_partial : the full statements below
     with the single extra hypothesis [invK c] (see props/C12_pool.v); MISSING: invK is preserved by every
     step.  workers_without_timer_ge_initgo IS the first conjunct of invK, so it has no partial form.

   NOT PROVED YET (full statements; P with pvalid P and i_fixa P = true)

     workers_without_timer_ge_initgo :
       in every reachable configuration whose pool is live (Start has executed `b.totalGo += n`, state not
       stopped) and whose queue is not closed-and-empty:
         initGo <= (counted workers that are not effective members of timeoutGroup) + (creations in progress)
       and, whenever no goroutine is inside the idle-timer exit's critical section,
         i_init P <= s_total (c_sh c) - s_gn (c_sh c)
       missing: this is invariant (K) itself; its proof needs the goroutine-id layer (distinct ids, map
       entries are live ids) and the timeout-group layer (g.n counts the effective members; an armed/fired
       idle timer belongs to a member) - both written, the second machine-checked relative to the first.

     stuck_running_implies_queue_empty :
       exec pstep_cfg (pinit P) evs = Some c -> stuck c -> s_state (c_sh c) = SRunning -> s_q (c_sh c) = []
       missing: K and the analysis of stuck configurations (see props/C12_pool.v); then: a non-empty queue
       has no parked worker (parked_worker_has_nothing_to_receive), so a stuck configuration with a
       non-empty queue has no thread at all, contradicting K.

     at_quiescence_none_lost :   (additionally i_fixb P = true)
       exec pstep_cfg (pinit P) evs = Some c -> g_began (c_gh c) = true ->
       g_shut (c_gh c) = true \/ g_now (c_gh c) = true -> stuck c ->
       forall i, In i (g_acc (c_gh c)) -> In i (g_done (c_gh c)) \/ In i (g_returned (c_gh c))
       missing: shutdown_completes (C12) for the graceful case; for ShutdownNow the stuck analysis plus
       "after ShutdownNow returned the queue is empty" (proved in the life-cycle layer); the ledger itself
       is agent-pool's PoolProof6.accepted_in_ledger_lemma. *)
From Ekit Require Import Common Conc PoolModel PoolExamples PoolProofB PoolProofB0 PoolProofB2d PoolProofB2bd PoolProofB3d PoolProofB4d
  PoolProofB5d PoolProofBz.

(* On the code BEFORE the fix: commit dc56be3 (i_fixa = false): a schedule after which the pool is in
   state RUNNING (Start returned nil), no goroutine is left (totalGo = 0), nothing can run any more, and
   the accepted tasks 4 and 5 sit in the queue and were never executed. *)
Theorem workers_can_vanish_refuted :
  exists P evs c,
    pvalid P /\ i_fixa P = false /\ i_fixb P = true /\
    exec pstep_cfg (pinit P) evs = Some c /\
    s_state (c_sh c) = SRunning /\ g_starts (c_gh c) = 1 /\
    stuck c /\ c_thr c = [] /\ s_total (c_sh c) = 0 /\
    map tk_id (s_q (c_sh c)) = [4; 5]%nat /\
    In 4%nat (g_acc (c_gh c)) /\ In 5%nat (g_acc (c_gh c)) /\
    ~ In 4%nat (g_done (c_gh c)) /\ ~ In 5%nat (g_done (c_gh c)) /\
    ~ (i_init P <= s_total (c_sh c) - s_gn (c_sh c)).
Proof. exact workers_can_vanish_refuted_lemma. Qed.
Print Assumptions workers_can_vanish_refuted.

(* non-vacuity: the same prefix on the code as it is now - the third worker stays (the added conjunct
   fails), drains the queue; the two timer workers time out; a graceful Shutdown completes: stuck,
   stopped, queue empty, all six accepted tasks done *)
Example workers_stay_and_all_tasks_run :
  exists evs c,
    exec pstep_cfg (pinit wit_vanish_P) evs = Some c /\ pvalid wit_vanish_P /\
    i_fixa wit_vanish_P = true /\ i_fixb wit_vanish_P = true /\
    stuck c /\ g_shut (c_gh c) = true /\ s_state (c_sh c) = SStopped /\ s_q (c_sh c) = [] /\
    g_acc (c_gh c) = [0; 1; 2; 3; 4; 5]%nat /\
    (forall i, In i (g_acc (c_gh c)) -> In i (g_done (c_gh c))).
Proof. exact workers_stay_example_lemma. Qed.

(* ---------- steps towards the positive theorems (every parameter record, every variant) ---------- *)

Theorem parked_worker_has_nothing_to_receive : forall P evs c t x, exec pstep_cfg (pinit P) evs = Some c ->
  lookup t (c_thr c) = Some x -> pc x = WParked ->
  s_closed (c_sh c) = false /\ s_ictx (c_sh c) = false /\ s_q (c_sh c) = [].
Proof. exact parked_worker_idle_lemma. Qed.
Print Assumptions parked_worker_has_nothing_to_receive.

(* g_int: the six statements of the worker's `case <-b.interruptCtx.Done():` branch *)
Theorem interrupt_branch_only_after_cancel : forall P evs c t x, exec pstep_cfg (pinit P) evs = Some c ->
  lookup t (c_thr c) = Some x -> g_int (pc x) = 1 -> s_ictx (c_sh c) = true.
Proof. exact interrupt_branch_after_cancel_lemma. Qed.
Print Assumptions interrupt_branch_only_after_cancel.

(* ---------- goroutine ids and the two counters (valid parameters) ---------- *)
(* totalGo = workers that have not executed their decrement + creations in progress; unless the context
   is cancelled, timeoutGroup.n = effective members of the group; ids are pairwise distinct; the group's
   map only contains ids that were handed out *)
Theorem pool_counters_B : forall P evs c, pvalid P -> exec pstep_cfg (pinit P) evs = Some c ->
  s_total (c_sh c) = tsum (pcf g_cnt) (c_thr c) + tsum pend (c_thr c) /\
  (s_ictx (c_sh c) = true \/ s_gn (c_sh c) = tsum (ing (s_mp (c_sh c))) (c_thr c)) /\
  (forall X, tsum (own_is X) (c_thr c) <= 1) /\
  (forall a, In a (s_mp (c_sh c)) -> 1 <= a <= s_idc (c_sh c)).
Proof. exact counters_lemma. Qed.
Print Assumptions pool_counters_B.

(* ---------- two target theorems, ONE hypothesis short (rule 3: _partial) ---------- *)
(* [invK c]: see props/C12_pool.v; its preservation by every step is the missing piece *)
Theorem stuck_running_implies_queue_empty_partial : forall P evs c,
  pvalid P -> i_fixc P = true -> exec pstep_cfg (pinit P) evs = Some c -> invK c ->
  stuck c -> s_state (c_sh c) = SRunning -> s_q (c_sh c) = [].
Proof. exact stuck_running_implies_queue_empty_partial_lemma. Qed.
Print Assumptions stuck_running_implies_queue_empty_partial.

Theorem at_quiescence_none_lost_partial : forall P evs c,
  pvalid P -> i_fixc P = true -> exec pstep_cfg (pinit P) evs = Some c -> invK c ->
  g_shut (c_gh c) = true \/ g_now (c_gh c) = true -> stuck c ->
  forall i, In i (g_acc (c_gh c)) -> In i (g_done (c_gh c)) \/ In i (g_returned (c_gh c)).
Proof. exact at_quiescence_none_lost_partial_lemma. Qed.
Print Assumptions at_quiescence_none_lost_partial.
