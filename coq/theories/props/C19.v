(* C19 — Retry honours attempt budget, backoff bounds and the wait between attempts.
   Only statements here; every proof is `exact <lemma>` from proof/RetryProof.v.
   Model: model/RetryModel.v (the code as it is after the fix: commits b47c510 and 672671a;
   the two old behaviours are the pinned variants used by the `_refuted` theorems). *)
From Ekit Require Import Common RetryModel RetryProof.

(* ------------------------------------------------------------------ *)
(* constructors: the rejections are exact                              *)
(* ------------------------------------------------------------------ *)
Theorem new_exp_rejections_exact : forall v init max maxr,
  match new_exp v init max maxr with
  | CtorErrInterval => init <= 0
  | CtorErrMaxInterval => 0 < init /\ max < init
  | CtorOk p => 0 < init <= max /\
                p = {| p_kind := KExp v; p_init := init; p_max := max; p_maxr := maxr |}
  end.
Proof. exact new_exp_exact. Qed.
Print Assumptions new_exp_rejections_exact.

Theorem new_fixed_rejections_exact : forall interval maxr,
  match new_fixed interval maxr with
  | CtorErrInterval => interval <= 0
  | CtorErrMaxInterval => False
  | CtorOk p => 0 < interval /\
                p = {| p_kind := KFixed; p_init := interval; p_max := interval; p_maxr := maxr |}
  end.
Proof. exact new_fixed_exact. Qed.
Print Assumptions new_fixed_rejections_exact.

(* ------------------------------------------------------------------ *)
(* sequential calls                                                    *)
(* ------------------------------------------------------------------ *)
(* the (k+1)-th call of a constructed exponential strategy, within the budget and below 2^31
   calls, returns min (initial * 2^k) max computed on MATHEMATICAL integers: no wrapped
   product, no float artefact is ever returned *)
Theorem exp_ith_interval : forall v init max maxr p (n k : nat),
  v = VNow -> 0 < init <= max -> max < 2 ^ 63 ->
  new_exp v init max maxr = CtorOk p ->
  (k < n)%nat -> Z.of_nat k + 1 < 2 ^ 31 ->
  (maxr <= 0 \/ Z.of_nat k + 1 <= maxr) ->
  nth_error (snd (run p s0 n)) k = Some (Z.min (init * 2 ^ Z.of_nat k) max, true).
Proof. exact exp_ith_interval_lemma. Qed.
Print Assumptions exp_ith_interval.

(* every answer, inside or outside the budget *)
Theorem exp_answers : forall p (n k : nat),
  wf_exp p -> (k < n)%nat -> Z.of_nat k + 1 < 2 ^ 31 ->
  nth_error (snd (run p s0 n)) k =
  Some (if (p_maxr p <=? 0) || (Z.of_nat k + 1 <=? p_maxr p)
        then (Z.min (p_init p * 2 ^ Z.of_nat k) (p_max p), true) else (0, false)).
Proof. exact exp_answer. Qed.
Print Assumptions exp_answers.

Theorem exp_monotone : forall p (n k : nat) a b,
  wf_exp p -> (S k < n)%nat -> Z.of_nat k + 2 < 2 ^ 31 ->
  nth_error (snd (run p s0 n)) k = Some a -> nth_error (snd (run p s0 n)) (S k) = Some b ->
  snd b = true -> snd a = true /\ fst a <= fst b.
Proof. exact exp_monotone_lemma. Qed.
Print Assumptions exp_monotone.

Theorem exp_interval_between_initial_and_max : forall p (n k : nat) iv,
  wf_exp p -> (k < n)%nat -> Z.of_nat k + 1 < 2 ^ 31 ->
  nth_error (snd (run p s0 n)) k = Some (iv, true) -> p_init p <= iv <= p_max p.
Proof. exact exp_bounds_seq_lemma. Qed.
Print Assumptions exp_interval_between_initial_and_max.

Theorem fixed_answers : forall p (n k : nat),
  p_kind p = KFixed -> (k < n)%nat -> Z.of_nat k + 1 < 2 ^ 31 ->
  nth_error (snd (run p s0 n)) k =
  Some (if (p_maxr p <=? 0) || (Z.of_nat k + 1 <=? p_maxr p) then (p_init p, true) else (0, false)).
Proof. exact fixed_answer. Qed.
Print Assumptions fixed_answers.

(* exactly min(n, maxRetries) of n < 2^31 sequential calls are granted (all when maxRetries <= 0);
   any strategy kind, pinned or not *)
Theorem budget_exact_sequential : forall p (n : nat),
  Z.of_nat n < 2 ^ 31 ->
  Z.of_nat (count_true (snd (run p s0 n))) =
  if p_maxr p <=? 0 then Z.of_nat n else Z.min (Z.of_nat n) (p_maxr p).
Proof. exact budget_exact_seq_lemma. Qed.
Print Assumptions budget_exact_sequential.

(* ------------------------------------------------------------------ *)
(* every interleaving of any number of concurrent callers             *)
(* ------------------------------------------------------------------ *)
(* the sequential `next` is the interleaving semantics without interference *)
Theorem sequential_is_solo_schedule : forall p s t h n,
  exists k r,
    exec p {| c_st := s; c_fl := []; c_hist := h; c_calls := n |} (repeat t k) =
    {| c_st := fst (next p s); c_fl := [];
       c_hist := {| ev_tid := t; ev_ticket := r; ev_iv := fst (snd (next p s));
                    ev_ok := snd (snd (next p s)) |} :: h;
       c_calls := S n |}.
Proof. exact solo_call_lemma. Qed.
Print Assumptions sequential_is_solo_schedule.

(* for EVERY schedule with fewer than 2^31 calls started: completed grants + calls in flight
   (each of which has passed the budget test and will be granted) = min(calls, maxRetries),
   or all calls when maxRetries <= 0.  Any strategy kind. *)
Theorem budget_exact : forall p (sc : sched),
  let c := exec p init_config sc in
  Z.of_nat (c_calls c) < 2 ^ 31 ->
  Z.of_nat (count_ok (c_hist c)) + Z.of_nat (length (c_fl c)) =
  if p_maxr p <=? 0 then Z.of_nat (c_calls c) else Z.min (Z.of_nat (c_calls c)) (p_maxr p).
Proof. exact budget_exact_lemma. Qed.
Print Assumptions budget_exact.

(* for EVERY schedule (no bound on the number of calls) every completed call of a constructed
   strategy returned: refused -> 0; granted -> an interval in [initial, max] that is either the
   cap or exactly initial * 2^(ticket-1) — with the division test no wrapped product is returned *)
Theorem interval_in_bounds : forall p (sc : sched) e,
  wf p -> In e (c_hist (exec p init_config sc)) ->
  - 2 ^ 31 <= ev_ticket e < 2 ^ 31 /\
  if ev_ok e
  then p_init p <= ev_iv e <= p_max p /\
       (ev_iv e = p_max p \/
        exists n, 0 <= n <= 62 /\ ev_ticket e = n + 1 /\ ev_iv e = p_init p * 2 ^ n)
  else ev_iv e = 0.
Proof. exact interval_in_bounds_lemma. Qed.
Print Assumptions interval_in_bounds.

(* PINNED code (before 672671a): initial = 2^40+1 ns, max = 2^62 ns, unlimited retries; callers
   1..25 all load the flag before anyone stores it; the 25th computes (2^40+1)*2^24 = 2^64+2^24,
   which wraps to 2^24 ns (16.7 ms), positive and below the cap, and returns it: < initial *)
Theorem interval_wrap_refuted :
  exists p e,
    new_exp VPinned (2 ^ 40 + 1) (2 ^ 62) 0 = CtorOk p /\
    In e (c_hist (exec p init_config wrap_witness_sched)) /\
    ev_ok e = true /\ ev_ticket e = 25 /\ ev_iv e = 2 ^ 24 /\ ev_iv e < p_init p.
Proof. exact interval_wrap_refuted_lemma. Qed.
Print Assumptions interval_wrap_refuted.

(* the int32 counter: budget_exact needs its hypothesis "fewer than 2^31 calls".  With
   0 < maxRetries the budget is spent within the first 2^31-1 calls, yet call number 2^31
   (counter wrapped to -2^31 <= maxRetries) is granted again. *)
Theorem budget_wraps_after_2p31_refuted : forall p,
  0 < p_maxr p < 2 ^ 31 - 1 ->
  let n := Z.to_nat (2 ^ 31 - 1) in
  Z.of_nat (count_true (snd (run p s0 n))) = p_maxr p /\
  exists iv, nth_error (snd (run p s0 (S n))) n = Some (iv, true).
Proof. exact budget_wraps_lemma. Qed.
Print Assumptions budget_wraps_after_2p31_refuted.

(* ------------------------------------------------------------------ *)
(* Retry (any strategy: any state type, any Next function)             *)
(* ------------------------------------------------------------------ *)
(* per invocation logged in the trace (see retry_post in the model): a successful invocation is
   the last and the result is nil; a failed one for which Next said no is the last and the result
   wraps ITS error; a failed one that was granted iv is followed by a wait of iv which, if the
   invocation is the last, the context won (ctx error) *)
Theorem retry_outcomes : forall St nxt cancel script now s tr res,
  retry St nxt cancel now s script = (tr, res) -> retry_post St nxt cancel s script tr res.
Proof. exact retry_outcomes_lemma. Qed.
Print Assumptions retry_outcomes.

(* the same, read off the result; length tr = number of invocations of bizFunc *)
Theorem retry_result : forall St nxt cancel script now s tr res,
  retry St nxt cancel now s script = (tr, res) ->
  (forall i, (S i < length tr)%nat ->
     exists a e iv, nth_error script i = Some a /\ a_res a = AFail e /\
                    nth_error (answers St nxt s (length tr)) i = Some (iv, true)) /\
  match res with
  | RNil => exists k a, length tr = S k /\ nth_error script k = Some a /\ a_res a = AOk
  | RExhausted e =>
      exists k a iv, length tr = S k /\ nth_error script k = Some a /\ a_res a = AFail e /\
                     nth_error (answers St nxt s (S k)) k = Some (iv, false)
  | RCtx =>
      exists k a e iv c, length tr = S k /\ nth_error script k = Some a /\ a_res a = AFail e /\
                         nth_error (answers St nxt s (S k)) k = Some (iv, true) /\ cancel = Some c
  | ROutOfScript =>
      length tr = length script /\
      (forall i a, nth_error script i = Some a -> a_res a <> AOk) /\
      (forall i, (i < length tr)%nat ->
         exists iv, nth_error (answers St nxt s (length tr)) i = Some (iv, true))
  | RPanic => False
  end.
Proof. exact retry_result_lemma. Qed.
Print Assumptions retry_result.

(* consecutive invocations are separated by at least the interval the strategy returned for
   that wait — whatever the durations of the attempts, the strategy, the cancellation time *)
Theorem gap_ge_interval : forall St nxt cancel script now s,
  gaps_ok (fst (retry St nxt cancel now s script)).
Proof. exact gap_ge_interval_lemma. Qed.
Print Assumptions gap_ge_interval.

(* Retry + a real strategy: an operation that always fails is invoked exactly maxRetries+1
   times and the result wraps the error of the last invocation *)
Theorem retry_exhausts_budget : forall p script tr res,
  0 < p_maxr p < 2 ^ 31 - 1 ->
  (forall a, In a script -> a_res a <> AOk) ->
  Z.of_nat (length script) > p_maxr p ->
  retry_now p None script = (tr, res) ->
  Z.of_nat (length tr) = p_maxr p + 1 /\
  exists a e, nth_error script (Z.to_nat (p_maxr p)) = Some a /\ a_res a = AFail e /\ res = RExhausted e.
Proof. exact retry_exhausts_budget_lemma. Qed.
Print Assumptions retry_exhausts_budget.

(* PINNED Retry (before b47c510; one Ticker reused, timer-channel semantics asynctimerchan=1):
   interval 10, attempts of 1, 30, 1: the tick queued during the 30-long attempt ends the
   following wait at once: gap 0 < 10 *)
Theorem retry_gap_refuted :
  exists p a b iv,
    new_fixed 10 0 = CtorOk p /\
    nth_error (fst (retry_pinned false p None gap_witness)) 1 = Some a /\
    nth_error (fst (retry_pinned false p None gap_witness)) 2 = Some b /\
    i_wait a = Some iv /\ iv = 10 /\ i_start b - i_end a = 0 /\
    ~ gaps_ok (fst (retry_pinned false p None gap_witness)).
Proof. exact retry_gap_refuted_lemma. Qed.
Print Assumptions retry_gap_refuted.

(* ------------------------------------------------------------------ *)
(* non-vacuity                                                         *)
(* ------------------------------------------------------------------ *)
Example c19_nonvacuous :
  (* a strategy whose doubling overflows 64 bits: sequentially never a wrapped value *)
  (exists p, new_exp VNow (2 ^ 40 + 1) (2 ^ 62) 30 = CtorOk p /\ wf_exp p /\ wf p /\
     map fst (firstn 3 (skipn 21 (snd (run p s0 32)))) = [(2 ^ 40 + 1) * 2 ^ 21; 2 ^ 62; 2 ^ 62] /\
     map snd (skipn 29 (snd (run p s0 32))) = [true; false; false] /\
     (* the witness schedule of interval_wrap_refuted on the current code: the cap *)
     hd_error (c_hist (exec p init_config wrap_witness_sched)) =
       Some {| ev_tid := 25; ev_ticket := 25; ev_iv := 2 ^ 62; ev_ok := true |}) /\
  (* the witness script of retry_gap_refuted on the current code, and on the ticker with
     asynctimerchan=0: the waits are kept *)
  (exists p, new_fixed 10 0 = CtorOk p /\
     map (fun v => (i_start v, i_end v)) (fst (retry_now p None gap_witness)) = [(0, 1); (11, 41); (51, 52)] /\
     map (fun v => (i_start v, i_end v)) (fst (retry_pinned true p None gap_witness)) = [(0, 1); (11, 41); (51, 52)] /\
     map (fun v => (i_start v, i_end v)) (fst (retry_pinned false p None gap_witness)) = [(0, 1); (11, 41); (41, 42)]) /\
  (* the context wins a wait *)
  (exists p, new_fixed 10 0 = CtorOk p /\
     retry_now p (Some 5) [ {| a_res := AFail 7; a_dur := 2; a_tie := false |} ] =
       ([ {| i_start := 0; i_end := 2; i_wait := Some 10 |} ], RCtx)).
Proof.
  split; [|split].
  - eexists. split; [reflexivity|]. split; [|split].
    + split; [reflexivity|]. cbn. lia.
    + split; [cbn; lia|reflexivity].
    + vm_compute. repeat split; reflexivity.
  - eexists. split; [reflexivity|]. vm_compute. repeat split; reflexivity.
  - eexists. split; [reflexivity|]. vm_compute. reflexivity.
Qed.
