(* C09 (ConcurrentLinkedBlockingQueue part) — the DELIVERY side of "after any pattern of
   cancellations the queue still accepts and delivers exactly `capacity` elements without
   blocking" (the accept side is props/C09_lbqcap.v), and "a call parks only if it cannot
   proceed".  Only statements here; every proof is `exact <lemma>` from proof/LBQGap.v.
   Same model (model/LBQModel.v) and trusted specifications as props/C07_lbq.v / C09_lbq.v.

   Vocabulary (model/LBQModel.v, proof/LBQProofCap.v, head of proof/LBQGap.v):
     exec lbq_step (lbq_init m) evs = Some c   c is reached by the event list evs (CALL / STEP /
                          STEP-ctx / CANCEL of any goroutines in any order)
     quiescent c          no call is in flight
     call_alone c t o     goroutine t calls o in c and ONLY its statements run: Some (c', Some r)
                          = it returned r and every statement of it was enabled in turn (never
                          parked, never waited for the mutex); Some (c', None) = it got stuck
     drain_alone c ts     the Dequeues of the goroutines ts, one after the other, each by
                          call_alone; Some (c', xs) = each returned (value, nil); xs the values
     fill_alone c calls   the same for Enqueues (t, v)
     parked_empty c t     the only call in flight is t's Dequeue; it is parked inside its select
                          with a live context on the CURRENT channel of notEmpty, which is open;
                          the mutex is free; STEP t is not enabled *)
From Ekit Require Import Common Conc LBQModel LBQProof LBQProof2 LBQProof3 LBQProof4 LBQProofCap LBQGap.

(* In EVERY reachable quiescent configuration c (nothing is assumed about how it was reached:
   calls cancelled before the lock, between signalCh's unlock and the select, while parked,
   after being woken leave channel generations behind, none of which matters):
   |contents| successive solo Dequeues return exactly the contents, head first, and leave the
   queue empty, reachable and quiescent; ANY further solo Dequeue parks in its select; fewer
   Dequeues return the corresponding prefix; more do not all complete. *)
Theorem delivery_after_cancellations : forall m evs c,
  exec lbq_step (lbq_init m) evs = Some c -> quiescent c ->
  (forall ts, length ts = length (q_items c) ->
     exists c',
       drain_alone c ts = Some (c', q_items c) /\ q_items c' = [] /\ quiescent c' /\
       (exists evs', exec lbq_step (lbq_init m) evs' = Some c') /\
       forall t, exists c'', call_alone c' t ODeq = Some (c'', None) /\ parked_empty c'' t /\ q_items c'' = []) /\
  (forall ts, (length ts <= length (q_items c))%nat ->
     exists c', drain_alone c ts = Some (c', firstn (length ts) (q_items c)) /\
                q_items c' = skipn (length ts) (q_items c) /\ quiescent c') /\
  (forall ts, (length (q_items c) < length ts)%nat -> drain_alone c ts = None).
Proof. exact delivery_after_cancellations_lemma. Qed.
Print Assumptions delivery_after_cancellations.

(* one solo Dequeue on a non-empty queue: returns the head, and is BOUNDED: the CALL and at
   most 11 statements of its own, each enabled in turn *)
Theorem dequeue_alone_delivers_the_head : forall m evs c t x r,
  exec lbq_step (lbq_init m) evs = Some c -> quiescent c -> q_items c = x :: r ->
  exists c' evs' n,
    call_alone c t ODeq = Some (c', Some (RVal x)) /\
    q_items c' = r /\ quiescent c' /\
    exec lbq_step (lbq_init m) evs' = Some c' /\
    (n <= 11)%nat /\ exec lbq_step c (QCall t ODeq :: lbq_steps t n) = Some c'.
Proof. exact dequeue_alone_delivers_head. Qed.
Print Assumptions dequeue_alone_delivers_the_head.

Theorem dequeue_alone_parks_on_empty : forall m evs c t,
  exec lbq_step (lbq_init m) evs = Some c -> quiescent c -> q_items c = [] ->
  exists c', call_alone c t ODeq = Some (c', None) /\ parked_empty c' t /\ q_items c' = [].
Proof. exact dequeue_alone_parks_when_empty. Qed.
Print Assumptions dequeue_alone_parks_on_empty.

(* a solo call parks ONLY IF it cannot proceed: a Dequeue iff the list is empty, an Enqueue iff
   the queue is bounded and full; otherwise it completes with the specification's result.
   Channel generations left by cancelled waiters never cause a park. *)
Theorem solo_call_parks_iff_it_cannot_proceed : forall m evs c t,
  exec lbq_step (lbq_init m) evs = Some c -> quiescent c ->
  ((exists c', call_alone c t ODeq = Some (c', None)) <-> q_items c = []) /\
  (forall x r, q_items c = x :: r -> exists c', call_alone c t ODeq = Some (c', Some (RVal x))) /\
  (forall v, (exists c', call_alone c t (OEnq v) = Some (c', None)) <-> (0 < m /\ qlen c = m)) /\
  (forall v, ~ (0 < m /\ qlen c = m) -> exists c', call_alone c t (OEnq v) = Some (c', Some RNil)).
Proof. exact solo_parks_iff_cannot_proceed_lemma. Qed.
Print Assumptions solo_call_parks_iff_it_cannot_proceed.

(* accept AND deliver: what solo Enqueues put in (as many as there is room for) on top of the
   contents comes out of solo Dequeues, all of it, in order *)
Theorem accept_then_deliver : forall m evs c calls ts,
  exec lbq_step (lbq_init m) evs = Some c -> quiescent c ->
  (0 < m -> Z.of_nat (length calls) <= m - qlen c) ->
  length ts = (length (q_items c) + length calls)%nat ->
  exists c1 c2,
    fill_alone c calls = Some c1 /\
    drain_alone c1 ts = Some (c2, q_items c ++ map snd calls) /\
    q_items c2 = [] /\ quiescent c2.
Proof. exact accept_then_deliver_lemma. Qed.
Print Assumptions accept_then_deliver.

(* ================= non-vacuity ================= *)
(* maxSize 2: two Enqueues complete; a third parks on the full queue and is CANCELLED while
   parked; a Dequeue is cancelled before its first check.  The configuration is quiescent with
   contents [1;2], notEmpty at generation 2 (generations 0,1 closed), notFull still at
   generation 0 (the cancelled Enqueue had fetched it).  Two solo Dequeues deliver 1, 2; the
   third parks on notEmpty's CURRENT generation 2; after that two solo Enqueues are accepted
   and delivered again. *)
Definition c09_deliver_sched : list lbq_ev :=
  [QCall 1%nat (OEnq 1)] ++ lbq_steps 1%nat 11 ++ [QCall 2%nat (OEnq 2)] ++ lbq_steps 2%nat 11 ++
  [QCall 3%nat (OEnq 3)] ++ lbq_steps 3%nat 8 ++ [QCancel 3%nat] ++ lbq_steps 3%nat 2 ++
  [QCall 4%nat ODeq; QCancel 4%nat] ++ lbq_steps 4%nat 2.

Example c09_lbqdeliver_nonvacuous :
  option_map lbq_summary (lbq_run 2 c09_deliver_sched) =
    Some ([1; 2], None, 0%nat, (2%nat, [1%nat; 0%nat]), (0%nat, []), []) /\
  (match lbq_run 2 c09_deliver_sched with
   | Some c => option_map (fun p => (lbq_summary (fst p), snd p)) (drain_alone c [5%nat; 6%nat])
   | None => None
   end) = Some (([], None, 0%nat, (2%nat, [1%nat; 0%nat]), (2%nat, [1%nat; 0%nat]), []), [1; 2]) /\
  (match lbq_run 2 c09_deliver_sched with
   | Some c =>
     match drain_alone c [5%nat; 6%nat] with
     | Some (c1, _) => option_map (fun p => (lbq_summary (fst p), snd p)) (call_alone c1 7%nat ODeq)
     | None => None
     end
   | None => None
   end) = Some (([], None, 0%nat, (2%nat, [1%nat; 0%nat]), (2%nat, [1%nat; 0%nat]), [(7%nat, PParked, 2%nat)]), None) /\
  (match lbq_run 2 c09_deliver_sched with
   | Some c =>
     match drain_alone c [5%nat; 6%nat] with
     | Some (c1, _) =>
       match fill_alone c1 [(8%nat, 10); (9%nat, 11)] with
       | Some c2 => option_map snd (drain_alone c2 [5%nat; 6%nat])
       | None => None
       end
     | None => None
     end
   | None => None
   end) = Some [10; 11].
Proof. repeat split; vm_compute; reflexivity. Qed.
