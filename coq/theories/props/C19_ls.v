(* C19, lock-step slice — "a retry strategy grants exactly maxRetries retries in total however many
   goroutines call Next concurrently; every interval it returns lies between the initial and the
   maximum interval", for every interleaving of the individual Go STATEMENTS of
   ExponentialBackoffRetryStrategy.Next and FixedIntervalRetryStrategy.Next.
   Only statements here; every proof is `exact <lemma>` from proof/RetryLSProof.v.
   Model: model/RetryLSModel.v (one program counter per instrumented statement; the arithmetic is
   RetryModel's [compute]).  props/C19.v proves the property for RetryModel's coarser semantics
   (each call = three atomic steps); the first theorem below shows that the statement-level model
   refines it, the others are the two C19 theorems carried over. *)
From Ekit Require Import Common Conc RetryModel RetryProof RetryLSModel RetryLSProof.
From Coq Require Import Permutation.

(* ------------------------------------------------------------------ *)
(* refinement                                                          *)
(* ------------------------------------------------------------------ *)
(* Every event list of the statement-level model (any number of goroutines, any interleaving, any
   strategy kind, pinned or not) projects to a schedule of RetryModel's three-step semantics
   ([ls_project]: the thread ids of the events that execute the atomic add, the flag load, and the
   flag store or - when nothing is stored - the test that decides so).  The two runs agree on the
   shared state (int32 counter, flag) and on the number of tickets drawn; RetryModel's history is
   the statement-level history plus the answers of the calls that have taken their last atomic step
   but not yet executed their return statement ([ls_pending]); RetryModel's calls in flight are the
   statement-level calls between their first and last atomic step ([ls_inflight]). *)
Theorem ls_refines_three_step : forall p evs c,
  Conc.exec (ls_step p) ls_init evs = Some c ->
  let a := RetryModel.exec p init_config (ls_project p ls_init evs) in
  c_st a = ls_st c /\ c_calls a = ls_calls c /\
  Permutation (c_hist a) (ls_hist c ++ ls_pending p (ls_thr c)) /\
  Permutation (c_fl a) (ls_inflight p (ls_thr c)).
Proof. exact ls_refines_lemma. Qed.
Print Assumptions ls_refines_three_step.

(* the same returned (interval, ok) values: a call completed at statement level is a call
   RetryModel completes on the projected schedule - same goroutine, ticket, interval, verdict *)
Theorem ls_same_returned_values : forall p evs c e,
  Conc.exec (ls_step p) ls_init evs = Some c -> In e (ls_hist c) ->
  In e (c_hist (RetryModel.exec p init_config (ls_project p ls_init evs))).
Proof. exact ls_returns_lemma. Qed.
Print Assumptions ls_same_returned_values.

(* the history the theorems talk about is what the callers receive: a step observed as
   "Next returned (iv, ok)" records exactly that answer, ends the call and touches no shared state *)
Theorem ls_return_is_recorded : forall p c e c' iv ok,
  ls_exec1 p c e = Some (c', LSRet iv ok) ->
  exists t r, e = LSStep t /\
    ls_hist c' = {| ev_tid := t; ev_ticket := r; ev_iv := iv; ev_ok := ok |} :: ls_hist c /\
    ls_thr c' = Conc.remove t (ls_thr c) /\ ls_st c' = ls_st c.
Proof. exact ls_ret_recorded_lemma. Qed.
Print Assumptions ls_return_is_recorded.

(* ------------------------------------------------------------------ *)
(* budget (carried over from C19.budget_exact through the refinement)  *)
(* ------------------------------------------------------------------ *)
(* for EVERY statement-level event list with fewer than 2^31 tickets drawn: completed grants +
   calls in flight that hold a ticket within the budget (each of them will be granted) =
   min(tickets drawn, maxRetries), or all tickets when maxRetries <= 0.  Any strategy kind. *)
Theorem ls_budget_exact : forall p evs c,
  Conc.exec (ls_step p) ls_init evs = Some c ->
  Z.of_nat (ls_calls c) < 2 ^ 31 ->
  Z.of_nat (count_ok (ls_hist c)) + Conc.count (ls_will_grant p) (ls_thr c) =
  if p_maxr p <=? 0 then Z.of_nat (ls_calls c) else Z.min (Z.of_nat (ls_calls c)) (p_maxr p).
Proof. exact ls_budget_exact_lemma. Qed.
Print Assumptions ls_budget_exact.

(* read at quiescence: once every call has returned, exactly min(N, maxRetries) of the N < 2^31
   calls made were granted (all of them when maxRetries <= 0), however they were interleaved *)
Theorem ls_budget_exact_at_quiescence : forall p evs c,
  Conc.exec (ls_step p) ls_init evs = Some c -> ls_thr c = [] ->
  Z.of_nat (length (ls_hist c)) < 2 ^ 31 ->
  Z.of_nat (count_ok (ls_hist c)) =
  if p_maxr p <=? 0 then Z.of_nat (length (ls_hist c))
  else Z.min (Z.of_nat (length (ls_hist c))) (p_maxr p).
Proof. exact ls_budget_quiescent_lemma. Qed.
Print Assumptions ls_budget_exact_at_quiescence.

(* ------------------------------------------------------------------ *)
(* bounds (carried over from C19.interval_in_bounds)                   *)
(* ------------------------------------------------------------------ *)
(* for EVERY statement-level event list (no bound on the number of calls) every completed call of a
   constructed strategy returned: refused -> 0; granted -> an interval in [initial, max] that is
   the cap or exactly initial * 2^(ticket-1) *)
Theorem ls_interval_in_bounds : forall p evs c e,
  wf p -> Conc.exec (ls_step p) ls_init evs = Some c -> In e (ls_hist c) ->
  - 2 ^ 31 <= ev_ticket e < 2 ^ 31 /\
  if ev_ok e
  then p_init p <= ev_iv e <= p_max p /\
       (ev_iv e = p_max p \/
        exists n, 0 <= n <= 62 /\ ev_ticket e = n + 1 /\ ev_iv e = p_init p * 2 ^ n)
  else ev_iv e = 0.
Proof. exact ls_interval_in_bounds_lemma. Qed.
Print Assumptions ls_interval_in_bounds.

(* in the form the lock-step run observes it: whatever return statement is executed in whatever
   reachable configuration, the value handed to the caller is within the bounds *)
Theorem ls_observed_return_in_bounds : forall p evs c ev c' iv ok,
  wf p -> Conc.exec (ls_step p) ls_init evs = Some c -> ls_exec1 p c ev = Some (c', LSRet iv ok) ->
  if ok then p_init p <= iv <= p_max p else iv = 0.
Proof. exact ls_observed_return_in_bounds_lemma. Qed.
Print Assumptions ls_observed_return_in_bounds.

(* ------------------------------------------------------------------ *)
(* the pinned arithmetic (before 672671a) at statement level           *)
(* ------------------------------------------------------------------ *)
(* initial = 2^40+1 ns, max = 2^62 ns, unlimited retries; callers 1..25 each execute the atomic
   add, the budget test and the flag load before anyone stores the flag; caller 25 then executes
   `interval := ...` (2^64+2^24 wraps to 2^24), the test `interval <= 0 || interval > max` (false)
   and `return interval, true`: 16.7 ms, below the initial interval; the flag is still unset *)
Theorem ls_interval_wrap_refuted :
  exists p c e,
    new_exp VPinned (2 ^ 40 + 1) (2 ^ 62) 0 = CtorOk p /\
    Conc.exec (ls_step p) ls_init (ls_wrap_witness 3) = Some c /\
    In e (ls_hist c) /\
    ev_tid e = 25%nat /\ ev_ok e = true /\ ev_ticket e = 25 /\ ev_iv e = 2 ^ 24 /\ ev_iv e < p_init p /\
    reached (ls_st c) = false.
Proof. exact ls_interval_wrap_refuted_lemma. Qed.
Print Assumptions ls_interval_wrap_refuted.

(* ------------------------------------------------------------------ *)
(* non-vacuity                                                         *)
(* ------------------------------------------------------------------ *)
Example c19_ls_nonvacuous :
  (* the interleaving of ls_interval_wrap_refuted on the current code: caller 25 stores the flag
     and returns the cap *)
  (exists p c,
     new_exp VNow (2 ^ 40 + 1) (2 ^ 62) 0 = CtorOk p /\ wf p /\
     Conc.exec (ls_step p) ls_init (ls_wrap_witness 5) = Some c /\
     hd_error (ls_hist c) = Some {| ev_tid := 25; ev_ticket := 25; ev_iv := 2 ^ 62; ev_ok := true |} /\
     reached (ls_st c) = true /\ length (ls_thr c) = 24%nat) /\
  (* two callers race for the only retry (both add before either tests the budget): the caller
     that drew ticket 1 is granted, the other is refused, whatever the order of the returns *)
  (exists p c,
     new_fixed 7 1 = CtorOk p /\
     Conc.exec (ls_step p) ls_init ls_last_retry_race = Some c /\
     ls_hist c = [ {| ev_tid := 1; ev_ticket := 1; ev_iv := 7; ev_ok := true |};
                   {| ev_tid := 2; ev_ticket := 2; ev_iv := 0; ev_ok := false |} ] /\
     ls_thr c = [] /\ ls_project p ls_init ls_last_retry_race = [1%nat; 2%nat]) /\
  (* a wrapped product that only the division test catches: initial = 2^61+1, max = 2^63-1; four
     callers pass the flag load before anyone stores; the fourth computes 2^64+8 -> 8 ns *)
  (exists p,
     new_exp VNow (2 ^ 61 + 1) (2 ^ 63 - 1) 0 = CtorOk p /\ wf p /\
     compute VNow p 4 = (8, true) /\ compute VPinned p 4 = (8, false)).
Proof.
  split; [|split].
  - eexists. eexists. split; [reflexivity|]. split; [split; [cbn; lia|reflexivity]|].
    split; [vm_compute; reflexivity|]. vm_compute. repeat split; reflexivity.
  - eexists. eexists. split; [reflexivity|]. split; [vm_compute; reflexivity|].
    vm_compute. repeat split; reflexivity.
  - eexists. split; [reflexivity|]. split; [split; [cbn; lia|reflexivity]|].
    vm_compute. split; reflexivity.
Qed.
