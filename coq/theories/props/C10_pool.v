(* C10 — pool.OnDemandBlockTaskPool runs every accepted task exactly once or hands it back once:
   the SAFETY half (task ledger).  Only statements here; every proof is `exact <lemma>` from
   proof/PoolProof6.v (ledger invariant in PoolProof5.v) and PoolProof4.v.

   The liveness half ("never neither": workers_without_timer_ge_initgo,
   stuck_running_implies_queue_empty, at_quiescence_none_lost and the refutation of the pinned code)
   is in props/C10_poolb.v.

   Model: model/PoolModel.v (one step = one Go statement of pool/task_pool.go).  Theorems quantify over
   every event list the semantics accepts and over ALL parameter records (no validity hypothesis is
   needed for the ledger; all values of the three fix flags).  History lists of the model (ghost state, written only by the
   steps named here):
     g_sent      task ids whose `b.queue <- task` was executed (trySubmit's select)
     g_acc/g_rej task ids whose Submit returned nil / an error     (theorem submit_result_recorded)
     g_started   task ids whose user function was entered (step TaskFunc.Run -> user code)
     g_done      task ids whose user function returned or panicked (event PFinish)
     g_returned  task ids in the slice a ShutdownNow call returned
   A task id is given to exactly one Submit call (the invocation event requires id = c_ntask). *)
From Ekit Require Import Common Conc PoolModel PoolProof PoolProof2 PoolProof3 PoolProof4 PoolProof5 PoolProof6
  PoolProof7 PoolExamples.

(* never twice: no task id is started twice, sent twice, finished twice or returned twice *)
Theorem never_twice : forall P evs c, exec pstep_cfg (pinit P) evs = Some c ->
  NoDup (g_started (c_gh c)) /\ NoDup (g_sent (c_gh c)) /\
  NoDup (g_done (c_gh c)) /\ NoDup (g_returned (c_gh c)).
Proof. exact never_twice_lemma. Qed.
Print Assumptions never_twice.

(* never both: a task whose user function was entered is not in any ShutdownNow result, and vice versa *)
Theorem never_both : forall P evs c, exec pstep_cfg (pinit P) evs = Some c ->
  forall i, In i (g_started (c_gh c)) -> In i (g_returned (c_gh c)) -> False.
Proof. exact never_both_lemma. Qed.
Print Assumptions never_both.

(* a task whose Submit returned an error was never sent to the queue, is never executed, never
   returned by ShutdownNow (and of course not accepted) *)
Theorem rejected_never_runs : forall P evs c, exec pstep_cfg (pinit P) evs = Some c ->
  forall i, In i (g_rej (c_gh c)) ->
  ~ In i (g_sent (c_gh c)) /\ ~ In i (g_started (c_gh c)) /\ ~ In i (g_returned (c_gh c)) /\
  ~ In i (g_acc (c_gh c)).
Proof. exact rejected_never_runs_lemma. Qed.
Print Assumptions rejected_never_runs.

(* the ledger: for every task id, sent = queued + held by a worker (received, user function not yet
   finished) + in ShutdownNow's drain loop + done + returned; sent at most once; started + returned <= sent;
   done <= started; sent = (a Submit past its send) + accepted *)
Theorem task_ledger : forall P evs c, exec pstep_cfg (pinit P) evs = Some c ->
  forall i,
    cnt i (g_sent (c_gh c)) =
      cnt i (ids (s_q (c_sh c))) + tsum (held i) (c_thr c) + tsum (drain i) (c_thr c) +
      cnt i (g_done (c_gh c)) + cnt i (g_returned (c_gh c)) /\
    cnt i (g_sent (c_gh c)) <= 1 /\
    cnt i (g_started (c_gh c)) + cnt i (g_returned (c_gh c)) <= cnt i (g_sent (c_gh c)) /\
    cnt i (g_done (c_gh c)) <= cnt i (g_started (c_gh c)) /\
    cnt i (g_sent (c_gh c)) = tsum (sentfl i) (c_thr c) + cnt i (g_acc (c_gh c)) /\
    (1 <= cnt i (g_rej (c_gh c)) -> cnt i (g_sent (c_gh c)) = 0).
Proof. exact ledger_bounds. Qed.
Print Assumptions task_ledger.

(* an accepted task is, at every instant, in exactly one of the five places *)
Theorem accepted_in_exactly_one_place : forall P evs c, exec pstep_cfg (pinit P) evs = Some c ->
  forall i, In i (g_acc (c_gh c)) ->
  cnt i (ids (s_q (c_sh c))) + tsum (held i) (c_thr c) + tsum (drain i) (c_thr c) +
  cnt i (g_done (c_gh c)) + cnt i (g_returned (c_gh c)) = 1.
Proof. exact accepted_in_ledger_lemma. Qed.
Print Assumptions accepted_in_exactly_one_place.

(* g_acc / g_rej are exactly the Submit results: the step that returns the value appends the task id *)
Theorem submit_result_recorded : forall P evs c t ch c' obs e th,
  exec pstep_cfg (pinit P) evs = Some c ->
  lookup t (c_thr c) = Some th -> l_nil th = false ->
  pexec1 c (PStep t ch) = Some (c', obs) -> In (t, ORet (RSubmit e)) obs ->
  if is_err e then g_rej (c_gh c') = g_rej (c_gh c) ++ [tk_id (l_task th)] /\ g_acc (c_gh c') = g_acc (c_gh c)
  else g_acc (c_gh c') = g_acc (c_gh c) ++ [tk_id (l_task th)] /\ g_rej (c_gh c') = g_rej (c_gh c).
Proof. exact submit_result_recorded_lemma. Qed.
Print Assumptions submit_result_recorded.

(* a panicking task is contained: whenever a worker is inside a user function, the function's end
   (return OR panic) is enabled, records the task as done, and from there at most 4*(depth+1) statements of
   that worker alone - always enabled, touching no shared state, whatever the other goroutines do in
   between is irrelevant to them - bring it to `atomic.AddInt32(&b.numGoRunningTasks, -1)`, i.e. back into
   the bookkeeping block and its loop (the innermost taskWrapper.Run recovers the panic) *)
Theorem panic_is_contained : forall c t th,
  lookup t (c_thr c) = Some th -> pc th = WUser ->
  exists c1, pstep_cfg c (PFinish t) = Some c1 /\
    g_done (c_gh c1) = g_done (c_gh c) ++ [tk_id (l_task th)] /\
    g_started (c_gh c1) = g_started (c_gh c) /\ c_sh c1 = c_sh c /\
    exists k c2 th2, exec pstep_cfg c1 (repeat (PStep t C0) k) = Some c2 /\
      (k <= 4 * S (tk_depth (l_task th)))%nat /\
      lookup t (c_thr c2) = Some th2 /\ pc th2 = WRunDec /\
      c_sh c2 = c_sh c /\ g_done (c_gh c2) = g_done (c_gh c1).
Proof. exact panic_is_contained_lemma. Qed.
Print Assumptions panic_is_contained.

(* since commit 4ac6152 (flag i_fixc = true: Submit wraps the task once, in front of its spin loop) every queued
   task and every task inside its user function has exactly ONE taskWrapper layer, in every schedule ... *)
Theorem wrapper_depth_is_one : forall P, i_fixc P = true ->
  forall evs c, exec pstep_cfg (pinit P) evs = Some c ->
  Forall (fun k => tk_depth k = 1%nat) (s_q (c_sh c)) /\
  (forall t th, lookup t (c_thr c) = Some th -> pc th = WUser -> tk_depth (l_task th) = 1%nat).
Proof. exact wrapper_depth_one_lemma. Qed.
Print Assumptions wrapper_depth_is_one.

(* ... so the bound of panic_is_contained is the constant 8 for the code as it is *)
Theorem panic_is_contained_fixed : forall P, i_fixc P = true ->
  forall evs c t th, exec pstep_cfg (pinit P) evs = Some c ->
  lookup t (c_thr c) = Some th -> pc th = WUser ->
  exists c1, pstep_cfg c (PFinish t) = Some c1 /\
    g_done (c_gh c1) = g_done (c_gh c) ++ [tk_id (l_task th)] /\
    exists k c2 th2, exec pstep_cfg c1 (repeat (PStep t C0) k) = Some c2 /\ (k <= 8)%nat /\
      lookup t (c_thr c2) = Some th2 /\ pc th2 = WRunDec /\ c_sh c2 = c_sh c.
Proof. exact panic_is_contained_fixed_lemma. Qed.
Print Assumptions panic_is_contained_fixed.

(* REFUTED on the code before 4ac6152 (i_fixc = false: `task = &taskWrapper{t: task}` inside the loop): the wrapper
   depth is unbounded.  Valid configuration spin_P (initGo = coreGo = maxGo = 1, unbuffered queue, never
   started): for EVERY n the schedule spin_schedule n - one Submit going n times round its loop (CAS to locked,
   select takes default, CAS back, second try fails) - is accepted by the model and leaves the call at the loop
   head with n taskWrapper layers around its task.  Each layer is a stack frame when the task finally runs: this
   is why a Submit that waited a few seconds on a full queue crashed the process with a stack overflow. *)
Theorem submit_wrap_depth_unbounded_refuted :
  (1 <= i_init spin_P /\ i_init spin_P <= i_core spin_P /\ i_core spin_P <= i_max spin_P /\
   0 <= i_cap spin_P /\ 0 < i_rd spin_P) /\ i_fixc spin_P = false /\
  forall n, exists evs c th,
    exec pstep_cfg (pinit spin_P) evs = Some c /\ lookup 1%nat (c_thr c) = Some th /\
    pc th = SbChkClosing /\ tk_depth (l_task th) = n /\ s_state (c_sh c) = SCreated.
Proof. exact submit_wrap_depth_unbounded_lemma. Qed.
Print Assumptions submit_wrap_depth_unbounded_refuted.

(* the mechanism the property names: Submit only sends while it holds the state word, so in no schedule
   is there a send on the closed channel, nor a second close (no step returns one of the two panics) *)
Theorem no_send_on_closed_no_double_close : forall P,
  1 <= i_init P /\ i_init P <= i_core P /\ i_core P <= i_max P /\ 0 <= i_cap P /\ 0 < i_rd P ->
  forall evs c e c' obs t r, exec pstep_cfg (pinit P) evs = Some c ->
  pexec1 c e = Some (c', obs) -> In (t, ORet r) obs -> ret_panic r = false.
Proof. exact no_panic_lemma. Qed.
Print Assumptions no_send_on_closed_no_double_close.

(* ---- non-vacuity --------------------------------------------------------------------------- *)
Local Open Scope nat_scope.

(* one worker, queue of 2: task 0 PANICS and is done; the same worker then runs task 1 (inside its user
   function now); task 2 was still queued when ShutdownNow came and is returned; task 3 was submitted
   afterwards and rejected *)
Definition ex10_P := par 1 1 1 2 0 1.
Definition ex10 :=
  [DCall 2 OpStart; DRun 2 200; DRunTo 100 WParked;
   DCall 1 (OpSubmit 0 true); DRun 1 100; DRunTo 100 WUser;
   DCall 1 (OpSubmit 1 false); DRun 1 100; DCall 1 (OpSubmit 2 false); DRun 1 100;
   DFinish 100; DRunTo 100 WSelect; DRunTo 100 WUser;
   DCall 3 OpShutdownNow; DRun 3 100;
   DCall 1 (OpSubmit 3 false); DRun 1 100].

Example all_five_fates :
  exists c, exec pstep_cfg (pinit ex10_P) (schedule ex10_P ex10) = Some c /\
    g_acc (c_gh c) = [0; 1; 2] /\ g_rej (c_gh c) = [3] /\
    g_started (c_gh c) = [0; 1] /\ g_done (c_gh c) = [0] /\ g_returned (c_gh c) = [2] /\
    tsum (held 1) (c_thr c) = 1%Z /\ s_ictx (c_sh c) = true.
Proof. eexists. split; [vm_compute; reflexivity|]. vm_compute. repeat split; reflexivity. Qed.

(* a queued task and a task handed directly to a parked worker (unbuffered queue) *)
Definition ex10b_P := par 1 1 1 0 0 1.
Definition ex10b :=
  [DCall 2 OpStart; DRun 2 200; DRunTo 100 WParked;
   DCall 1 (OpSubmit 0 false); DRunTo 1 TsSelect; DPick 1 (CSend (Some 100))].
Example handoff_moves_the_task_to_the_worker :
  exists c, exec pstep_cfg (pinit ex10b_P) (schedule ex10b_P ex10b) = Some c /\
    g_sent (c_gh c) = [0] /\ s_q (c_sh c) = [] /\ tsum (held 0) (c_thr c) = 1%Z /\
    tsum (sentfl 0) (c_thr c) = 1%Z /\ g_acc (c_gh c) = [].
Proof. eexists. split; [vm_compute; reflexivity|]. vm_compute. repeat split; reflexivity. Qed.

(* the pinned spin: three rounds of the loop, three wrapper layers (42 + 3 events); the same events under the
   fixed model are rejected at once (the fixed Submit does not go SbNil -> SbFor) *)
Example three_rounds_three_layers :
  exists c th, exec pstep_cfg (pinit spin_P) (spin_schedule 3) = Some c /\
    lookup 1 (c_thr c) = Some th /\ tk_depth (l_task th) = 3 /\ length (spin_schedule 3) = 45.
Proof. eexists. eexists. split; [vm_compute; reflexivity|]. vm_compute. repeat split; reflexivity. Qed.
