(* C09 (ConcurrentArrayBlockingQueue part) — blocked calls wake when they can proceed; cancellation
   is prompt and clean; after any pattern of cancellations the queue still accepts and delivers
   exactly `capacity` elements without blocking.

   Only statements here; every proof is `exact <lemma>` from proof/ABQProof*.v.  Model and
   quantification as in props/C07_abq.v (all event sequences CALL / STEP / CANCEL, all
   capacities >= 1).  A call blocks only inside semaphore.Acquire (program counters EPark / DPark:
   the goroutine is in the FIFO waiter list) — the mutex is never held across a blocking
   operation.  Liveness is stated as safety of stuck configurations plus bounded paths; fairness
   of the Go scheduler is the stated assumption. *)
From Ekit Require Import Common Conc ABQModel ABQProof ABQProof2 ABQProof3 ABQProof4 ABQProof5.

(* 1. no lost wake-up, permit form: in EVERY reachable configuration a parked waiter is in the
   waiter list of its semaphore and that semaphore has no free permit (Release hands a permit
   to the first waiter in the same step, so a permit and a waiter never coexist) *)
Theorem abq_parked_sees_no_permit : forall cap evs c t th,
  1 <= cap -> exec abq_next (abq_init cap) evs = Some c -> lookup t (q_thr c) = Some th ->
  (t_pc th = EPark -> s_free (q_enq c) = 0 /\ In t (s_wait (q_enq c))) /\
  (t_pc th = DPark -> s_free (q_deq c) = 0 /\ In t (s_wait (q_deq c))).
Proof. exact (fun cap evs c t th Hcap H => abq_parked_lemma cap c t th Hcap (ex_intro _ evs H)). Qed.
Print Assumptions abq_parked_sees_no_permit.

(* 2. stuck configurations: when NO STEP event is enabled, every call in flight is parked inside
   Acquire, no permit is in flight, every parked Dequeue sees an empty queue and every parked
   Enqueue a full one — a blocked call is blocked only because it cannot proceed *)
Theorem abq_stuck_implies_cannot_proceed : forall cap evs c,
  1 <= cap -> exec abq_next (abq_init cap) evs = Some c ->
  (forall t, abq_exec1 c (AStep t) = None) ->
  forall t th, lookup t (q_thr c) = Some th ->
    (t_pc th = EPark \/ t_pc th = DPark) /\
    (t_pc th = DPark -> s_free (q_deq c) = 0 /\ q_count c = 0 /\ abq_abs c = []) /\
    (t_pc th = EPark -> s_free (q_enq c) = 0 /\ q_count c = cap /\ Z.of_nat (length (abq_abs c)) = cap).
Proof. exact (fun cap evs c Hcap H => abq_stuck_lemma cap c Hcap (ex_intro _ evs H)). Qed.
Print Assumptions abq_stuck_implies_cannot_proceed.

(* 3. cancellation is prompt and clean: a parked call can always be cancelled (a parked call is
   never already cancelled); the CANCEL wakes it at `if err != nil`, and two of its own steps
   later it has returned the context's error, with the abstract queue, the history and the free
   permits of both semaphores exactly as before the cancellation *)
Theorem abq_cancel_enables : forall cap evs c t th,
  1 <= cap -> exec abq_next (abq_init cap) evs = Some c ->
  lookup t (q_thr c) = Some th -> t_pc th = EPark \/ t_pc th = DPark ->
  exists c1 c2 c3 o1 p1 p2,
    abq_exec1 c (ACancel t) = Some (c1, o1) /\ In (t, OAt p1) o1 /\
    abq_exec1 c1 (AStep t) = Some (c2, [(t, OAt p2)]) /\
    abq_exec1 c2 (AStep t) = Some (c3, [(t, ORet RCtx)]) /\
    abq_abs c3 = abq_abs c /\ s_free (q_enq c3) = s_free (q_enq c) /\ s_free (q_deq c3) = s_free (q_deq c) /\
    g_in c3 = g_in c /\ g_out c3 = g_out c /\ lookup t (q_thr c3) = None.
Proof. exact (fun cap evs c t th Hcap H => abq_cancel_enables_lemma cap c t th Hcap (ex_intro _ evs H)). Qed.
Print Assumptions abq_cancel_enables.

(* ... and those two steps are enabled in EVERY configuration, whatever other goroutines did in
   between (they take no lock and no permit) *)
Theorem abq_error_path_never_blocks : forall c t th,
  t_pc th = EIfErr \/ t_pc th = ERetErr \/ t_pc th = DIfErr \/ t_pc th = DRetErr ->
  abq_step c t th <> None.
Proof. exact abq_error_path_never_blocks_lemma. Qed.
Print Assumptions abq_error_path_never_blocks.

(* 4. capacity after cancellations: at quiescence — after ANY interleaving of successful calls,
   calls that failed, calls cancelled before / while parked / between permit and lock / after the
   lock — free_e = cap - count and free_d = count; of any sequence of Enqueues run one after the
   other exactly cap - count return nil without parking (the next one parks); when exactly
   cap - count are issued the queue is full, holds old contents ++ new values, and cap sequential
   Dequeues deliver exactly that, in order, without parking *)
Theorem abq_capacity_after_cancellations : forall cap evs c t vs,
  1 <= cap -> exec abq_next (abq_init cap) evs = Some c -> q_thr c = [] ->
  s_free (q_enq c) = cap - q_count c /\ s_free (q_deq c) = q_count c /\
  exists c', enqs_alone c t vs = (c', Nat.min (length vs) (Z.to_nat (cap - q_count c))) /\
    (Z.of_nat (length vs) = cap - q_count c ->
     q_thr c' = [] /\ abq_abs c' = abq_abs c ++ vs /\ Z.of_nat (length (abq_abs c')) = cap /\
     exists c'', deqs_alone c' t (Z.to_nat cap) = (c'', abq_abs c ++ vs)).
Proof. exact (fun cap evs c t vs Hcap H => abq_capacity_lemma cap c t vs Hcap (ex_intro _ evs H)). Qed.
Print Assumptions abq_capacity_after_cancellations.

(* ---------------- non-vacuity: concrete schedules, by computation ---------------- *)
Definition ex9_steps (t : tid) (n : nat) : list abq_ev := repeat (AStep t) n.
Definition ex9_show (o : option abq_cfg) :=
  match o with
  | Some c => Some (abq_abs c, s_free (q_enq c), s_free (q_deq c), s_wait (q_enq c), s_wait (q_deq c),
                    map (fun x => (fst x, t_pc (snd x))) (q_thr c))
  | None => None
  end.

(* capacity 1, two Dequeues parked on the empty queue in FIFO order: a stuck configuration *)
Definition ex9_two_waiters : list abq_ev := [ACall 1%nat OpDeq; AStep 1%nat; ACall 2%nat OpDeq; AStep 2%nat].
Example ex9_stuck :
  ex9_show (exec abq_next (abq_init 1) ex9_two_waiters)
  = Some ([], 1, 0, [], [1%nat; 2%nat], [(1%nat, DPark); (2%nat, DPark)]) /\
  match exec abq_next (abq_init 1) ex9_two_waiters with
  | Some c => abq_exec1 c (AStep 1%nat) = None /\ abq_exec1 c (AStep 2%nat) = None
  | None => False
  end.
Proof. vm_compute. repeat split; reflexivity. Qed.

(* an Enqueue arrives: its Release wakes waiter 1 (the FIRST), waiter 2 stays parked *)
Example ex9_two_waiters_fifo :
  match exec abq_next (abq_init 1) (ex9_two_waiters ++ [ACall 3%nat (OpEnq 4)] ++ ex9_steps 3%nat 10) with
  | Some c => match abq_exec1 c (AStep 3%nat) with
              | Some (c', o) => o = [(3%nat, OAt ERetNil); (1%nat, OAt DIfErr)] /\ s_wait (q_deq c') = [2%nat]
              | None => False
              end
  | None => False
  end.
Proof. vm_compute. repeat split; reflexivity. Qed.

(* cancelling the first of the two waiters: it leaves the list and returns the context's error in
   two steps; the second waiter is now first; nothing else changed *)
Example ex9_cancel_parked :
  ex9_show (exec abq_next (abq_init 1) (ex9_two_waiters ++ [ACancel 1%nat; AStep 1%nat; AStep 1%nat]))
  = Some ([], 1, 0, [], [2%nat], [(2%nat, DPark)]).
Proof. vm_compute. reflexivity. Qed.

(* a granted waiter whose context is cancelled before it takes the lock gives the permit back,
   which wakes the NEXT waiter (ctx exit of goroutine 1 wakes goroutine 2) *)
Definition ex9_granted_then_cancelled : list abq_ev :=
  ex9_two_waiters ++ [ACall 3%nat (OpEnq 4)] ++ ex9_steps 3%nat 12 ++ [ACancel 1%nat] ++ ex9_steps 1%nat 4.
Example ex9_ctx_exit_wakes_next :
  match exec abq_next (abq_init 1) ex9_granted_then_cancelled with
  | Some c => match abq_exec1 c (AStep 1%nat) with
              | Some (c', o) => o = [(1%nat, OAt DRetCtx); (2%nat, OAt DIfErr)] /\ abq_abs c' = [4]
              | None => False
              end
  | None => False
  end.
Proof. vm_compute. repeat split; reflexivity. Qed.

(* capacity 2 after a cancelled call: exactly 2 of 3 sequential Enqueues complete, the third parks *)
Example ex9_capacity_intact :
  match exec abq_next (abq_init 2)
          ([ACall 1%nat (OpEnq 9); AStep 1%nat; ACancel 1%nat] ++ ex9_steps 1%nat 6) with
  | Some c => q_thr c = [] /\ snd (enqs_alone c 1%nat [1; 2; 3]) = 2%nat
  | None => False
  end.
Proof. vm_compute. repeat split; reflexivity. Qed.
