(* C11 — "invalid constructor arguments are rejected": the constructor of pool.OnDemandBlockTaskPool as it is
   after the initGo range fix, and the refutation of the code before it.  Only statements here; proofs in
   proof/PoolCtorNowProof.v.

   NewOnDemandBlockTaskPool(initGo int, queueSize int, opts...) stores int32(initGo).  Before the fix only
   `initGo < 1` was checked on the 64-bit int, so initGo = 2^32 was accepted and stored as 0: Start spawns no
   worker, Submit returns nil and the task never runs (C10), and 2^31 gives a negative worker count.  Now
   initGo > math.MaxInt32 is rejected.  [pool_new_now] = that check in front of PoolModel.pool_new.
   Out of scope: a huge queueSize (`make(chan Task, queueSize)` panics / exhausts memory: resource exhaustion);
   WithCoreGo / WithMaxGo take int32 arguments (no truncation possible); NaN rates (see C11_pool.v). *)
From Ekit Require Import Common Conc PoolModel PoolProof PoolProof2 PoolProof4 PoolCtorNow PoolCtorNowProof.

(* for every initGo a Go int32 can hold the current constructor IS pool_new: constructor_rejects /
   constructor_accepts_valid of C11_pool.v and every C10-C12 theorem about constructed pools transfer *)
Theorem pool_new_now_agrees : forall i q opts,
  i <= 2 ^ 31 - 1 -> pool_new_now i q opts = pool_new i q opts.
Proof. exact pool_new_now_agrees_lemma. Qed.
Print Assumptions pool_new_now_agrees.

Theorem pool_new_now_rejects_out_of_range : forall i q opts,
  i < 1 \/ 2 ^ 31 - 1 < i \/ q < 0 -> pool_new_now i q opts = CtErr.
Proof. exact pool_new_now_rejects_lemma. Qed.
Print Assumptions pool_new_now_rejects_out_of_range.

(* every accepted configuration is exactly what was asked for, fits an int32, and is a valid parameter record
   of the interleaving model (in particular at least one worker: 1 <= init) *)
Theorem pool_new_now_valid : forall i q opts i' c m q' rn rd fa fb base fc,
  pool_new_now i q opts = CtOk i' c m q' rn rd -> 0 < rd ->
  i' = i /\ q' = q /\ 1 <= i' <= 2 ^ 31 - 1 /\ i' <= c /\ c <= m /\ 0 <= q' /\ 0 <= rn <= rd /\
  (1 <= i_init (mkPar i' c m q' rn rd fa fb base fc) /\
   i_init (mkPar i' c m q' rn rd fa fb base fc) <= i_core (mkPar i' c m q' rn rd fa fb base fc) /\
   i_core (mkPar i' c m q' rn rd fa fb base fc) <= i_max (mkPar i' c m q' rn rd fa fb base fc) /\
   0 <= i_cap (mkPar i' c m q' rn rd fa fb base fc) /\ 0 < i_rd (mkPar i' c m q' rn rd fa fb base fc)).
Proof. exact pool_new_now_valid_lemma. Qed.
Print Assumptions pool_new_now_valid.

(* the pinned constructor (int32 truncation, only initGo < 1 checked) was correct for in-range initGo ... *)
Theorem pool_new_trunc_in_range : forall i q opts,
  1 <= i <= 2 ^ 31 - 1 -> pool_new_trunc i q opts = pool_new i q opts.
Proof. exact pool_new_trunc_in_range_lemma. Qed.
Print Assumptions pool_new_trunc_in_range.

(* ... and REFUTED outside: it accepts initGo = 2^32 as a pool with init = core = max = 0 (not a valid
   configuration: a running pool without any worker), 2^31 as a negative count, 2^32+1 as 1; the current
   constructor rejects them *)
Theorem pool_new_trunc_accepts_zero_workers_refuted :
  pool_new_trunc (2 ^ 32) 1 [] = CtOk 0 0 0 1 0 1 /\
  pool_new_trunc (2 ^ 31) 1 [] = CtOk (- 2 ^ 31) (- 2 ^ 31) (- 2 ^ 31) 1 0 1 /\
  pool_new_trunc (2 ^ 32 + 1) 1 [] = pool_new 1 1 [] /\
  (forall fa fb base fc, ~ (1 <= i_init (mkPar 0 0 0 1 0 1 fa fb base fc) /\
      i_init (mkPar 0 0 0 1 0 1 fa fb base fc) <= i_core (mkPar 0 0 0 1 0 1 fa fb base fc) /\
      i_core (mkPar 0 0 0 1 0 1 fa fb base fc) <= i_max (mkPar 0 0 0 1 0 1 fa fb base fc) /\
      0 <= i_cap (mkPar 0 0 0 1 0 1 fa fb base fc) /\ 0 < i_rd (mkPar 0 0 0 1 0 1 fa fb base fc))) /\
  pool_new_now (2 ^ 32) 1 [] = CtErr /\ pool_new_now (2 ^ 31) 1 [] = CtErr.
Proof. exact pool_new_trunc_zero_lemma. Qed.
Print Assumptions pool_new_trunc_accepts_zero_workers_refuted.

(* non-vacuity: accepted calls at both ends of the range, with options *)
Example ctor_now_examples :
  pool_new_now 1 0 [] = CtOk 1 1 1 0 0 1 /\
  pool_new_now (2 ^ 31 - 1) 2 [] = CtOk 2147483647 2147483647 2147483647 2 0 1 /\
  pool_new_now 2 3 [OCore 3; OMax 5; ORate 1 2] = CtOk 2 3 5 3 1 2 /\
  pool_new_now (2 ^ 31) 2 [] = CtErr /\ pool_new_now (2 ^ 63 - 1) 2 [] = CtErr /\ pool_new_now 0 2 [] = CtErr.
Proof. vm_compute. repeat split; reflexivity. Qed.
