(* C10 (addition) - pool.OnDemandBlockTaskPool: a panicking task as an event of its own.  Only statements
   here; proofs are `exact <lemma>` from proof/PoolProofC2.v.  Model: model/PoolModel.v; companion file:
   props/C10_pool.v, whose panic_is_contained treats the end of a user function (event PFinish) uniformly.

   In PoolModel whether a user function ends by a panic is an attribute of the task (tk_panics), copied by PFinish
   into the worker's local l_pan.  proof/PoolProofC2.v refines the event type (pev2): EvReturn t and EvPanic t are
   two events, enabled on disjoint sets of configurations, both mapping (erase) to the PoolModel step PFinish t;
   pexec2 / pstep2 is the refined step function.

     refinement_sound / refinement_complete   pexec2 steps are PoolModel steps of the erased event; every PoolModel
                                              execution is the erasure of a refined execution
     panic_and_return_exclusive               in no configuration are EvPanic t and EvReturn t both enabled
     panic_is_contained_panic_case            every reachable configuration (code as it is), worker t inside a task
                                              that panics: EvReturn t is NOT enabled, EvPanic t is; it records the
                                              task as done, touches no shared state; then 5 statements of t alone
                                              run through the recover branch RwBuf, RwStack, RwErr (never entered
                                              by a normal return), WRunDec decrements numGoRunningTasks, and t is
                                              at the head of its loop's bookkeeping block with the panic flag
                                              cleared: 1 + 5 <= 8 own steps
     recover_never_blocks                     each of those statements is enabled in EVERY configuration in which
                                              the worker stands at it (no lock, channel or condition involved),
                                              so no interleaving of other goroutines can stop the recovery
     return_is_direct                         contrast: a task that returns cannot raise EvPanic; 2 statements,
                                              none of the recover branch *)
From Ekit Require Import Common Conc PoolModel PoolExamples PoolProof PoolProofB PoolProofC2.

Theorem refinement_sound : forall c e r, pexec2 c e = Some r -> pexec1 c (erase e) = Some r.
Proof. exact pexec2_sound. Qed.
Print Assumptions refinement_sound.

Theorem refinement_complete : forall evs c c', exec pstep_cfg c evs = Some c' ->
  exists es, map erase es = evs /\ exec pstep2 c es = Some c'.
Proof. exact exec2_complete. Qed.
Print Assumptions refinement_complete.

Theorem refined_executions_are_model_executions : forall es c c',
  exec pstep2 c es = Some c' -> exec pstep_cfg c (map erase es) = Some c'.
Proof. exact exec2_erase. Qed.
Print Assumptions refined_executions_are_model_executions.

Theorem panic_and_return_exclusive : forall c t, pexec2 c (EvPanic t) = None \/ pexec2 c (EvReturn t) = None.
Proof. exact panic_return_exclusive_lemma. Qed.
Print Assumptions panic_and_return_exclusive.

Theorem panic_is_contained_panic_case : forall P evs c t th,
  i_fixc P = true -> exec pstep_cfg (pinit P) evs = Some c ->
  lookup t (c_thr c) = Some th -> pc th = WUser -> tk_panics (l_task th) = true ->
  pexec2 c (EvReturn t) = None /\
  exists c1 th1,
    pstep2 c (EvPanic t) = Some c1 /\
    lookup t (c_thr c1) = Some th1 /\ pc th1 = RwRecIf /\ l_pan th1 = true /\
    g_done (c_gh c1) = g_done (c_gh c) ++ [tk_id (l_task th)] /\ c_sh c1 = c_sh c /\
    exists c6 th6,
      exec pstep2 c1 (repeat (EvStep t C0) 5) = Some c6 /\
      pc_trace c1 t (repeat (EvStep t C0) 5) = [Some RwBuf; Some RwStack; Some RwErr; Some WRunDec; Some WBkLock] /\
      lookup t (c_thr c6) = Some th6 /\ pc th6 = WBkLock /\ l_pan th6 = false /\
      c_sh c6 = st_running (s_running (c_sh c) - 1) (c_sh c) /\
      g_done (c_gh c6) = g_done (c_gh c1).
Proof. exact panic_contained_reachable_lemma. Qed.
Print Assumptions panic_is_contained_panic_case.

Theorem recover_never_blocks : forall c t th,
  lookup t (c_thr c) = Some th -> recovering (pc th) = true ->
  exists c', pstep2 c (EvStep t C0) = Some c' /\ pstep_cfg c (PStep t C0) = Some c'.
Proof. exact recover_never_blocks_lemma. Qed.
Print Assumptions recover_never_blocks.

Theorem return_is_direct : forall c t th,
  lookup t (c_thr c) = Some th -> pc th = WUser ->
  tk_panics (l_task th) = false -> tk_depth (l_task th) = 1%nat ->
  pexec2 c (EvPanic t) = None /\
  exists c1 th1,
    pstep2 c (EvReturn t) = Some c1 /\
    lookup t (c_thr c1) = Some th1 /\ pc th1 = RwRecIf /\ l_pan th1 = false /\
    g_done (c_gh c1) = g_done (c_gh c) ++ [tk_id (l_task th)] /\ c_sh c1 = c_sh c /\
    exists c3,
      exec pstep2 c1 (repeat (EvStep t C0) 2) = Some c3 /\
      pc_trace c1 t (repeat (EvStep t C0) 2) = [Some WRunDec; Some WBkLock] /\
      c_sh c3 = st_running (s_running (c_sh c) - 1) (c_sh c).
Proof. exact return_is_direct_lemma. Qed.
Print Assumptions return_is_direct.

(* non-vacuity: initGo = coreGo = maxGo = 1, queue 1.  Task 0 panics; the configuration c satisfies the premises
   of panic_is_contained_panic_case (worker 100 inside it); going on, the same worker - the only one - parks,
   takes task 1 and finishes it: both done, one worker counted, parked in its select, nothing running. *)
Example a_panicking_task_and_the_next_one :
  i_fixc panic_P = true /\
  exists c th,
    exec pstep_cfg (pinit panic_P) (schedule panic_P panic_pre) = Some c /\
    lookup 100%nat (c_thr c) = Some th /\ pc th = WUser /\ tk_panics (l_task th) = true /\ tk_id (l_task th) = 0%nat /\
    s_running (c_sh c) = 1 /\
    exists c',
      exec pstep_cfg c (snd (play panic_post c)) = Some c' /\
      In (PFinish 100%nat) (snd (play panic_post c)) /\
      g_done (c_gh c') = [0; 1]%nat /\ s_total (c_sh c') = 1 /\ s_running (c_sh c') = 0 /\
      map (fun x => pc (snd x)) (c_thr c') = [WParked].
Proof. exact panic_example_lemma. Qed.
