(* C20, memory level — values with addresses (model/CopierMemModel.v).  Only statements here;
   every proof is `exact <lemma>` from proof/CopierMemProof.v.

   A `store` holds pointer cells, backing arrays and map cells; a struct lives in a pointer
   cell, its fields inline; a slice value is a header (array cell, offset, len, cap), a map
   value the id of a map cell.  `mem_copy_to` / `mem_copy` are ReflectCopier.CopyTo / Copy on a
   store; `erase_at S t a` is the tree-level value (model/CopierModel.v) of the struct at
   address a; `cells_of S t a` the pointer cells reachable from it through struct fields and
   single pointers (itself included).  `proper S t a`: the struct exists, is tree-shaped (its
   cells pairwise distinct) and has the shape of its type — true of every Go value built from
   literals.  `convs_flat`: converter results hold no references.  Slice / map element types
   hold no pointers.  The plain recursive CopyTo is not transcribed at this level. *)
From Ekit Require Import Common CopierModel CopierProof CopierProof2 CopierMemModel CopierMemProof.

(* the specification vocabulary of C20 (`post` of proof/CopierProof.v, used by copy_spec) is
   `copy_post` of model/CopierMemModel.v *)
Theorem copy_post_is_post : forall o st sv dt dv dv',
  copy_post o st sv dt dv dv' = post o st sv dt dv dv'.
Proof. exact copy_post_eq. Qed.
Print Assumptions copy_post_is_post.

(* CopyTo on a store, erased, IS the tree-level CopyTo: so every C20 theorem (copy_total,
   copy_spec, copy_leaf_value, the zero-skip ...) holds of the store-level copier.  The
   destination stays proper; the cells it owns afterwards are cells it owned before or FRESH
   cells (`dstValue.Set(reflect.New(T))` for nil pointers) — never a cell of the source. *)
Theorem mem_copy_to_refines : forall st dt ps c S src da cps S' stt,
  new_reflect_copier st dt ps = COk c ->
  convs_flat (effective_options c cps) ->
  proper S dt (Some da) ->
  mem_copy_to c st dt S src (Some da) cps = (S', stt) ->
  reflect_copy_to c st dt (erase_at S st src) (erase_at S dt (Some da)) cps
    = (erase_at S' dt (Some da), stt) /\
  proper S' dt (Some da) /\
  (forall a, In a (cells_of S' dt (Some da)) ->
             In a (cells_of S dt (Some da)) \/ (length (ptrs S) <= a)%nat) /\
  (exists nx, mem_copy_to_run c st dt S src (Some da) cps = (load_root (ptrs S') dt (Some da), nx, stt)).
Proof. exact mem_copy_to_store_lemma. Qed.
Print Assumptions mem_copy_to_refines.

(* Copy allocates the destination in a fresh cell and leaves every existing cell alone *)
Theorem mem_copy_refines : forall st dt ps c S src cps S' da stt,
  new_reflect_copier st dt ps = COk c ->
  convs_flat (effective_options c cps) ->
  proper S st src ->
  mem_copy c st dt S src cps = (S', da, stt) ->
  da = length (ptrs S) /\
  reflect_copy c st dt (erase_at S st src) cps = (erase_at S' dt (Some da), stt) /\
  proper S' dt (Some da) /\
  (forall a, (a < length (ptrs S))%nat -> nth_opt (ptrs S') a = nth_opt (ptrs S) a) /\
  arrs S' = arrs S /\ maps S' = maps S.
Proof. exact mem_copy_lemma. Qed.
Print Assumptions mem_copy_refines.

(* Frame: CopyTo writes no backing array and no map cell (so slices and maps are shared,
   never copied or modified), and no pointer cell other than the destination's own.
   No hypothesis on the shape of the store. *)
Theorem mem_copy_to_frame : forall c st dt S src dst cps S' stt,
  mem_copy_to c st dt S src dst cps = (S', stt) ->
  arrs S' = arrs S /\ maps S' = maps S /\ (length (ptrs S) <= length (ptrs S'))%nat /\
  forall a, (a < length (ptrs S))%nat -> ~ In a (cells_of S dt dst) ->
            nth_opt (ptrs S') a = nth_opt (ptrs S) a.
Proof. exact mem_copy_to_frame_lemma. Qed.
Print Assumptions mem_copy_to_frame.

(* "never modifies the source" (and any other bystander, e.g. the memory of a shared copier):
   a struct whose cells exist and are none of the destination's cells is unchanged cell by
   cell, owns the same cells and has the same tree value after ANY CopyTo call, whatever its
   outcome (ok / error). *)
Theorem source_unchanged : forall c st dt S src dst cps S' stt t a,
  mem_copy_to c st dt S src dst cps = (S', stt) ->
  untouched S t a (cells_of S dt dst) ->
  (match a with Some ad => nth_opt (ptrs S) ad <> None | None => True end) ->
  load_root (ptrs S') t a = load_root (ptrs S) t a /\
  cells_of S' t a = cells_of S t a /\
  erase_at S' t a = erase_at S t a /\
  (forall b, In b (cells_of S t a) -> nth_opt (ptrs S') b = nth_opt (ptrs S) b).
Proof. exact untouched_after_lemma. Qed.
Print Assumptions source_unchanged.

(* Sharing: every leaf mvalue (slice header, map id, number, string ...) of the destination
   after the call is a leaf of the destination before, or a leaf OF THE SOURCE (the
   `dstValue.Set(srcValue)` of a leaf: the slice header / map id itself, so the backing array /
   the map is shared with the source), or holds no reference at all (zero values of freshly
   allocated pointees, converter results).  No array or map is ever created or copied. *)
Theorem dst_leaves_shared_or_inert : forall st dt ps c S src da cps S' stt,
  new_reflect_copier st dt ps = COk c ->
  convs_flat (effective_options c cps) ->
  proper S dt (Some da) -> proper S st src ->
  mem_copy_to c st dt S src (Some da) cps = (S', stt) ->
  forall m, In m (leaves (load_root (ptrs S') dt (Some da))) ->
    In m (leaves (load_root (ptrs S) dt (Some da))) \/
    In m (leaves (load_root (ptrs S) st src)) \/ inert m.
Proof. exact mem_copy_to_leaves_lemma. Qed.
Print Assumptions dst_leaves_shared_or_inert.

(* A copier shared by several callers: the copier is a value that CopyTo only reads (the
   per-call options are a copy: default_options_cloned in props/C20.v; any memory holding
   the copier is a bystander in the sense of source_unchanged).  Two calls whose destinations
   own separate cells, the second call's source not being the first call's destination:
   after call 1 then call 2 BOTH destinations hold exactly what the tree-level model computes
   for each call from the INITIAL store.  The right-hand sides do not mention the order, so
   the calls commute and each yields its sequential result (apply the theorem to either
   order). *)
Theorem two_calls_commute :
  forall st1 dt1 ps1 c1 src1 da1 cps1 st2 dt2 ps2 c2 src2 da2 cps2 S S1 S12 stt1 stt2,
  new_reflect_copier st1 dt1 ps1 = COk c1 -> convs_flat (effective_options c1 cps1) ->
  new_reflect_copier st2 dt2 ps2 = COk c2 -> convs_flat (effective_options c2 cps2) ->
  proper S dt1 (Some da1) -> proper S dt2 (Some da2) -> proper S st2 src2 ->
  (forall b, In b (cells_of S dt1 (Some da1)) -> ~ In b (cells_of S dt2 (Some da2))) ->
  (forall b, In b (cells_of S st2 src2) -> ~ In b (cells_of S dt1 (Some da1))) ->
  mem_copy_to c1 st1 dt1 S src1 (Some da1) cps1 = (S1, stt1) ->
  mem_copy_to c2 st2 dt2 S1 src2 (Some da2) cps2 = (S12, stt2) ->
  reflect_copy_to c1 st1 dt1 (erase_at S st1 src1) (erase_at S dt1 (Some da1)) cps1
    = (erase_at S12 dt1 (Some da1), stt1) /\
  reflect_copy_to c2 st2 dt2 (erase_at S st2 src2) (erase_at S dt2 (Some da2)) cps2
    = (erase_at S12 dt2 (Some da2), stt2).
Proof. exact two_calls_lemma. Qed.
Print Assumptions two_calls_commute.

(* the trees NewReflectCopier builds copy leaf-typed values at leaf nodes (used above) *)
Theorem constructor_trees_ok : forall st dt ps c,
  new_reflect_copier st dt ps = COk c -> node_ok (c_root c) (Ptr st).
Proof. exact root_ok. Qed.
Print Assumptions constructor_trees_ok.

(* Non-vacuity, sharing, fresh allocation and the zero-skip on a concrete store:
   type S struct{ A []int; B *int; C int; D map[string]int }, src at cell 0, dst at cell 1,
   src = {A: arr0[0:2], B: &cell2 (=7), C: 0, D: map0}, dst = {A: nil, B: nil, C: 5, D: nil}. *)
Definition ex_ty : ty :=
  Struct (Some 1) [(1, true, Slice (Basic KInt)); (2, true, Ptr (Basic KInt));
                   (3, true, Basic KInt); (4, true, Map (Basic KString) (Basic KInt))].
Definition ex_store : store :=
  {| ptrs := [MStruct [MSlice (Some (0, 0, 2, 3)); MPtr (Some 2); MNum 0; MMap (Some 0)];
              MStruct [MSlice None; MPtr None; MNum 5; MMap None];
              MNum 7]%nat;
     arrs := [[MNum 10; MNum 20; MNum 30]];
     maps := [[(MStr [97], MNum 1)]] |}.

Example c20_mem_nonvacuous :
  exists c S',
    new_reflect_copier ex_ty ex_ty [] = COk c /\
    convs_flat (effective_options c []) /\
    proper ex_store ex_ty (Some 1%nat) /\ proper ex_store ex_ty (Some 0%nat) /\
    untouched ex_store ex_ty (Some 0%nat) (cells_of ex_store ex_ty (Some 1%nat)) /\
    mem_copy_to c ex_ty ex_ty ex_store (Some 0%nat) (Some 1%nat) [] = (S', SOk) /\
    (* the destination: A shares the source's backing array (same header), B points to a FRESH
       cell (3) holding a copy of 7, C keeps 5 (the zero-skip), D shares the source's map *)
    nth_opt (ptrs S') 1 = Some (MStruct [MSlice (Some (0, 0, 2, 3)); MPtr (Some 3); MNum 5; MMap (Some 0)])%nat /\
    nth_opt (ptrs S') 3 = Some (MNum 7) /\
    erase_at S' ex_ty (Some 1%nat) =
      Some (VStruct [VSlice (Some [VNum 10; VNum 20]); VPtr (Some (VNum 7)); VNum 5;
                     VMap (Some [(VStr [97], VNum 1)])]).
Proof.
  eexists. eexists.
  split; [vm_compute; reflexivity|].
  split; [intros n c0 v t r Hf; vm_compute in Hf; discriminate Hf|].
  split; [vm_compute; repeat split; try discriminate; try (repeat constructor; cbn; intuition lia); intros b [Hb|[]]; subst; lia|].
  split; [vm_compute; repeat split; try discriminate; try (repeat constructor; cbn; intuition lia);
          intros b [Hb|[Hb|[]]]; subst; lia|].
  split; [intros b Hb; vm_compute in Hb; destruct Hb as [Hb|[Hb|[]]]; subst; split; try (cbn; lia); vm_compute; intuition lia|].
  split; [vm_compute; reflexivity|].
  repeat split; vm_compute; reflexivity.
Qed.
