(* C04 — list implementations refine an abstract sequence; failed calls change nothing.
   Only statements here; every proof is `exact <lemma>` from proof/ListProof.v, ListProof2.v.

   Reading guide.  `lstep s o c` is one call `o` on the list state `s` where `c` is the value
   of the capacity oracle for that call (what `Cap()` returned on the implementation after
   the call; used only when the built-in `append` has to grow).  A history is a list of
   (operation, oracle) pairs; `lrun` gives the results of all calls, `lfinal` the last state.
   `seq_step / seq_run / seq_final` are the abstract sequence (a plain `list Z`), which never
   looks at the oracle.  `canon` erases the value of Cap() (capacities are not specified).
   All theorems quantify over ALL histories, ALL start states (hence all initial capacities,
   `linit im c0` being one of them) and ALL oracles.  `wf` only says that a LinkedList's
   length field counts its nodes; it holds initially and is preserved. *)
From Ekit Require Import Common ListModel ListProof ListProof2.

(* ---- refinement, one theorem per implementation ---- *)
Theorem arraylist_refines_seq : forall (a : gslice) (h : list (op * Z)),
  map canon (lrun (SArr a) h) = seq_run (sv a) h.
Proof. exact (fun a h => lrun_refines h (SArr a) I). Qed.
Print Assumptions arraylist_refines_seq.

Theorem linkedlist_refines_seq : forall (l : llist) (h : list (op * Z)),
  llen l = zlen (lnodes l) ->
  map canon (lrun (SLinked l) h) = seq_run (lnodes l) h.
Proof. exact (fun l h Hwf => lrun_refines h (SLinked l) Hwf). Qed.
Print Assumptions linkedlist_refines_seq.

Theorem cow_refines_seq : forall (a : gslice) (h : list (op * Z)),
  map canon (lrun (SCow a) h) = seq_run (sv a) h.
Proof. exact (fun a h => lrun_refines h (SCow a) I). Qed.
Print Assumptions cow_refines_seq.

Theorem concurrent_refines_seq : forall (inner : lstate) (h : list (op * Z)),
  wf inner -> map canon (lrun (SConc inner) h) = seq_run (contents inner) h.
Proof. exact (fun s h Hwf => lrun_refines h (SConc s) Hwf). Qed.
Print Assumptions concurrent_refines_seq.

(* from the constructors: every implementation, every initial capacity *)
Theorem new_list_refines_seq : forall (im : impl) (cap0 : Z) (h : list (op * Z)),
  map canon (lrun (linit im cap0) h) = seq_run [] h.
Proof.
  exact (fun im c0 h => eq_trans (lrun_refines h (linit im c0) (wf_linit im c0))
                                 (f_equal (fun l => seq_run l h) (contents_linit im c0))).
Qed.
Print Assumptions new_list_refines_seq.

(* the state after a history holds exactly the abstract sequence's contents *)
Theorem final_contents_refine_seq : forall (s : lstate) (h : list (op * Z)),
  wf s -> wf (lfinal s h) /\ contents (lfinal s h) = seq_final (contents s) h.
Proof. exact (fun s h Hwf => lfinal_refines h s Hwf). Qed.
Print Assumptions final_contents_refine_seq.

(* ---- failed calls ---- *)
(* a call that returns an error returns the very same state (contents AND capacity) *)
Theorem failed_call_is_identity : forall (s : lstate) (o : op) (c : Z) (e : eclass),
  snd (lstep s o c) = Err e -> fst (lstep s o c) = s.
Proof. exact lstep_err_id. Qed.
Print Assumptions failed_call_is_identity.

(* ... in particular after any history *)
Theorem failed_call_is_identity_after_history :
  forall (s0 : lstate) (h : list (op * Z)) (o : op) (c : Z) (e : eclass),
  snd (lstep (lfinal s0 h) o c) = Err e -> fst (lstep (lfinal s0 h) o c) = lfinal s0 h.
Proof. exact (fun s0 h => lstep_err_id (lfinal s0 h)). Qed.
Print Assumptions failed_call_is_identity_after_history.

(* an error is returned exactly when the index is outside [0,len) (Get/Set/Delete) or
   [0,len] (Add), and it is the index error; otherwise the call succeeds *)
Theorem error_iff_index_out_of_range : forall (s : lstate) (o : op) (c : Z),
  wf s ->
  (index_ok (zlen (contents s)) o = false -> snd (lstep s o c) = Err EIndex) /\
  (index_ok (zlen (contents s)) o = true -> exists v, snd (lstep s o c) = Ok v).
Proof. exact lstep_error_iff. Qed.
Print Assumptions error_iff_index_out_of_range.

(* ---- no run-time panic (index out of range, make with a negative size, slicing beyond
        the length, walking onto a sentinel) along any history ---- *)
Theorem no_panic : forall (s : lstate) (h : list (op * Z)),
  wf s -> Forall (fun r => r <> Panic) (lrun s h).
Proof. exact (fun s h Hwf => lrun_no_panic h s Hwf). Qed.
Print Assumptions no_panic.

(* ---- AsSlice: non-nil (isnil = false), equal to the contents, list state untouched.
   LIMITATION: the model is functional, so "the returned slice shares no memory with the
   list" holds by construction and is not a statement about Go's memory; on the
   implementation it is TESTED by the correspondence check (every returned slice is
   overwritten and must survive later mutations of the list unchanged). ---- *)
Theorem asslice_fresh : forall (s : lstate) (c : Z),
  wf s -> lstep s OpAsSlice c = (s, Ok (OSlice false (contents s))).
Proof. exact as_slice_fresh_lemma. Qed.
Print Assumptions asslice_fresh.

(* ---- LinkedList.findNode: both walks end on the node with the requested index ---- *)
Theorem walk_forward_finds_nth : forall (l : llist) (index : Z),
  0 <= index < zlen (lnodes l) ->
  walk (ring_next l) (Z.to_nat (index + 1)) O = S (Z.to_nat index) /\
  node_val l (walk (ring_next l) (Z.to_nat (index + 1)) O)
    = Ok (nth_d (Z.to_nat index) (lnodes l) 0).
Proof. exact walk_forward_finds_nth_lemma. Qed.
Print Assumptions walk_forward_finds_nth.

Theorem walk_backward_finds_nth : forall (l : llist) (index : Z),
  0 <= index < zlen (lnodes l) ->
  walk (ring_prev l) (Z.to_nat (zlen (lnodes l) - index)) (tail_pos l) = S (Z.to_nat index) /\
  node_val l (walk (ring_prev l) (Z.to_nat (zlen (lnodes l) - index)) (tail_pos l))
    = Ok (nth_d (Z.to_nat index) (lnodes l) 0).
Proof. exact walk_backward_finds_nth_lemma. Qed.
Print Assumptions walk_backward_finds_nth.

Theorem find_node_finds_nth : forall (l : llist) (index : Z),
  llen l = zlen (lnodes l) -> 0 <= index < llen l ->
  find_node l index = S (Z.to_nat index).
Proof. exact find_node_spec. Qed.
Print Assumptions find_node_finds_nth.

(* ---- ArrayList storage ---- *)
(* Shrink never fails and never changes the contents, whatever capacity it computes *)
Theorem shrink_preserves_contents : forall (s : gslice) (oracle : Z),
  exists s', shrink s oracle = Ok s' /\ sv s' = sv s.
Proof. exact shrink_preserves_contents_lemma. Qed.
Print Assumptions shrink_preserves_contents.

(* len <= cap is an invariant of ArrayList along every history and for every oracle *)
Theorem len_le_cap : forall (h : list (op * Z)) (a : gslice),
  zlen (sv a) <= sc a ->
  exists a', lfinal (SArr a) h = SArr a' /\ zlen (sv a') <= sc a'.
Proof. exact len_le_cap_lemma. Qed.
Print Assumptions len_le_cap.

(* non-vacuity: concrete histories through the shrink threshold, a failing Add, a failing
   Get, the backward walk, and the wrapper; the hypotheses (wf) hold for every constructor *)
Example c04_nonvacuous :
  lrun (linit IArr 65)
       [(OpAppend [1; 2; 3], 65); (OpAdd 7 9, 65); (OpDelete 0, 32); (OpGet 5, 32);
        (OpAdd 2 8, 32); (OpRange 1, 32); (OpAsSlice, 32)]
  = [Ok OUnit; Err EIndex; Ok (OVal 1); Err EIndex; Ok OUnit;
     Ok (ORange [(0, 2); (1, 3)] true); Ok (OSlice false [2; 3; 8])] /\
  lfinal (linit IArr 65) [(OpAppend [1; 2; 3], 65); (OpAdd 7 9, 65); (OpDelete 0, 32)]
  = SArr {| sv := [2; 3]; sc := 32 |} /\
  lrun (linit (IConc ILinked) 0)
       [(OpAppend [1; 2; 3; 4; 5], 5); (OpGet 4, 5); (OpDelete 3, 4); (OpAdd 4 7, 5); (OpAdd 6 7, 5);
        (OpAsSlice, 5)]
  = [Ok OUnit; Ok (OVal 5); Ok (OVal 4); Ok OUnit; Err EIndex; Ok (OSlice false [1; 2; 3; 5; 7])] /\
  find_node {| lnodes := [1; 2; 3; 4; 5]; llen := 5 |} 4 = 5%nat /\
  find_node {| lnodes := [1; 2; 3; 4; 5]; llen := 5 |} 2 = 3%nat /\
  (forall im c0, wf (linit im c0)).
Proof.
  repeat split; try (vm_compute; reflexivity). exact wf_linit.
Qed.
