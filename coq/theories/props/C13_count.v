(* C13 — counting form of "while enough non-cancelled waiters remain the number of Waits returning nil equals the
   number of Signals" and "never invents a wake-up".  Only statements; proofs are `exact` of lemmas of
   proof/CondCount.v.

   [runh c h evs] executes the event list [evs] of CondModel from configuration c and, independently of the model's
   ghost counters, lets a history observer count: h_sigcalls = calls of Signal, h_released = sum over Broadcasts of
   the number of waiters in the list at the moment notifyAll locked l.mu, h_nil = Wait calls that returned nil,
   h_sigempty / h_fwdempty = Signals / time-out-path forwardings that found the waiter list empty.
   [decisions_nonempty c evs] = along the execution, every Signal's `if l.list.len() == 0` and every forwarding
   `if l.list.len() != 0` was evaluated while the waiter list was non-empty ("enough waiters remain"). *)
From Ekit Require Import Common Conc CondModel CondProof CondProofNodes CondProof2 CondProof3 CondCount.

(* for ALL executions (any interleaving, cancellations, pool oracle, copied or not), no premise:
   #(Wait returned nil) <= #(Signal calls) + #(waiters released by Broadcasts) *)
Theorem nil_returns_le_signals_plus_released : forall copied evs c h,
  runh (cond_init copied) h0 evs = Some (c, h) -> h_nil h <= h_sigcalls h + h_released h.
Proof. exact count_inequality_lemma. Qed.
Print Assumptions nil_returns_le_signals_plus_released.

(* the quiescent corollary: if every Signal and every forwarding step found a non-empty waiter list, no thread is in
   flight (every remaining thread is parked in Wait's select) and no token is pending in a channel, then
   #(Wait returned nil) = #(Signal calls) + #(waiters released by Broadcasts), and nothing was dropped *)
Theorem nil_returns_eq_signals_plus_released_at_quiescence : forall evs c h,
  runh (cond_init false) h0 evs = Some (c, h) ->
  decisions_nonempty (cond_init false) evs ->
  (forall t p, lookup t (c_thr c) = Some p -> is_parked p = true) ->
  c_tok c = [] ->
  h_nil h = h_sigcalls h + h_released h /\ g_drop c = 0 /\ h_fwdempty h = 0 /\ h_sigempty h = 0.
Proof. exact count_quiescent_lemma. Qed.
Print Assumptions nil_returns_eq_signals_plus_released_at_quiescence.

(* the observer's counts coincide with the ghost counters the ledger of C13_cond.v is stated with; a Signal call is
   either one that found a waiter (g_sig), one that found the list empty, one that panicked (copied Cond), or still
   before its test *)
Theorem observer_counts_are_the_ledger_counters : forall copied evs c h,
  runh (cond_init copied) h0 evs = Some (c, h) ->
  h_nil h = g_nil c /\ h_released h = g_bcast c /\ h_fwdempty h = g_drop c /\
  h_sigcalls h = g_sig c + h_sigempty h + h_sigpanic h + count pre_sig (c_thr c).
Proof. exact observer_vs_ghosts_lemma. Qed.
Print Assumptions observer_counts_are_the_ledger_counters.

(* the observer follows exactly the executions of the model *)
Theorem observer_runs_the_model : forall c h evs c',
  exec cond_step c evs = Some c' -> exists h', runh c h evs = Some (c', h').
Proof. exact runh_total. Qed.
Print Assumptions observer_runs_the_model.

(* ---- non-vacuity ---- *)
Open Scope nat_scope.
Definition stc (t : tid) (k : nat) : list cev := repeat (EStep t 0) k.

(* three waiters park; one Signal, then one Broadcast (two waiters present); all three return nil; one more waiter
   parks afterwards: quiescent, premise satisfied, 3 = 1 + 2 *)
Definition sched_count : list cev :=
  [ECall 1 OpWait] ++ stc 1 31 ++ [ECall 2 OpWait] ++ stc 2 24 ++ [ECall 3 OpWait] ++ stc 3 24 ++
  [ECall 4 OpSignal] ++ stc 4 20 ++ [ECall 5 OpBroadcast] ++ stc 5 33 ++
  stc 1 3 ++ [ECall 1 OpUnlock] ++ stc 2 3 ++ [ECall 2 OpUnlock] ++ stc 3 3 ++ [ECall 3 OpUnlock] ++
  [ECall 6 OpWait] ++ stc 6 8 ++ [EStep 6 1] ++ stc 6 14.

Example count_example_values :
  option_map (fun ch => (h_sigcalls (snd ch), h_released (snd ch), h_nil (snd ch), c_tok (fst ch), map snd (c_thr (fst ch))))
             (runh (cond_init false) h0 sched_count)
  = Some (1%Z, 2%Z, 3%Z, [], [WT_Parked 2]).
Proof. vm_compute. reflexivity. Qed.

Example count_example_premise : decisions_nonempty (cond_init false) sched_count.
Proof. vm_compute. repeat split; discriminate. Qed.

(* the inequality can be strict: a Signal with no waiter *)
Example count_example_strict :
  option_map (fun ch => (h_sigcalls (snd ch), h_sigempty (snd ch), h_nil (snd ch)))
             (runh (cond_init false) h0 ([ECall 4 OpSignal] ++ stc 4 17))
  = Some (1, 1, 0)%Z.
Proof. vm_compute. reflexivity. Qed.
