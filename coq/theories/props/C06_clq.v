(* C06 (ConcurrentLinkedQueue part) — the lock-free queue of /repo/queue/concurrent_linked_queue.go
   is linearizable w.r.t. the sequential FIFO specification and never panics, for EVERY schedule:
   any number of goroutines, any number of Enqueue / Dequeue calls, any interleaving of their
   statements ([clq_reach evs c] : the event list evs, executed from the constructor's state by the
   statement-granular transition function [clq_exec1] of model/CLQModel.v, ends in c).

   FORMS OF LINEARIZABILITY PROVED HERE.
   (A) Linearisation-point form.  The model marks one step of each call (ghost event [HLin] in
   the history [q_hist]):
     Enqueue            its tail CAS  `atomic.CompareAndSwapPointer(&c.tail, tailPtr, newPtr)`
                        (proved to succeed always: [clq_tail_cas_succeeds]);
     Dequeue -> value   its successful head CAS `atomic.CompareAndSwapPointer(&c.head, headPtr, headNextPtr)`;
     Dequeue -> empty   the load `tailPtr := atomic.LoadPointer(&c.tail)` that returns the head it loaded before.
   (1) [clq_step_refines_fifo] every step either leaves the abstract queue [clq_abs] (a function
   of the real shared state only: the values reached from head up to tail through the next
   pointers) unchanged and is unmarked, or is a marked step and changes it exactly as [fifo_spec]
   says, with the marked result; (2) [clq_linearizable] the marked steps in their order replay
   through [fifo_spec] from the empty queue to the current abstract queue, and the history of every
   goroutine is (Call o . Lin o r . Ret r)* + the call in flight: every completed call has exactly
   ONE marked step, between its invocation and its response, for its own operation, and returns the
   specification's result of that step; (3) [clq_history_faithful] the Call / Ret events of the
   ghost history are exactly the invocations and responses of the run.
   (B) Textbook (Herlihy-Wing, permutation) form, mechanised in proof/CLQLinz.v from (A):
   [clq_linearizable_textbook] for the history of invocations and responses [vis (q_hist c)] of every
   reachable configuration there is a sequential history S (operations identified by (goroutine,
   k-th call)) without repetition, containing only invoked operations with their arguments and all
   completed operations with the results they returned, legal for the FIFO specification, in which a
   precedes b whenever a's response precedes b's invocation ([textbook_linearizable]).

   Only statements here; every proof is `exact <lemma>` from proof/CLQProof3.v / CLQLinz.v. *)
From Ekit Require Import Common Conc CLQModel CLQProof CLQProof2 CLQProof3 CLQLinz.

(* ---- structure (DESIGN 12.5): head <= tail <= last <= tail + 1 on the chain of linked nodes ---- *)
Theorem clq_shape_invariant : forall evs c,
  clq_reach evs c ->
  exists chain hi ti,
    (* chain = node ids in link order, duplicate free, each pointing to the next one, the last
       one to nil; unlinked nodes have a nil next; head = chain[hi], tail = chain[ti] *)
    shape c chain hi ti /\
    (hi <= ti /\ ti < length chain /\ length chain <= ti + 2)%nat /\
    clq_abs c = map (valof (q_vals c)) (seg chain hi ti).
Proof. exact reach_shape_abs. Qed.
Print Assumptions clq_shape_invariant.

(* an Enqueue between its successful link CAS and its tail CAS: tail still is the node it linked
   behind (so its tail CAS succeeds), that node's next is its own node (so every other Enqueue
   sees tailNext != nil and retries), and it is the only call in that window *)
Theorem clq_tail_cas_succeeds : forall evs c t l,
  clq_reach evs c -> lookup t (q_thr c) = Some l -> q_pc l = EnqTailCAS ->
  q_tail c = q_tailPtr l /\
  (exists x, q_newPtr l = Some x /\ node_next (q_nexts c) (q_tail c) = Some (Some x) /\
             node_next (q_nexts c) (Some x) = Some None /\ node_val (q_vals c) (Some x) = Some (q_val l)) /\
  (forall t2 l2, lookup t2 (q_thr c) = Some l2 -> q_pc l2 = EnqTailCAS -> t2 = t).
Proof. exact reach_swinger. Qed.
Print Assumptions clq_tail_cas_succeeds.

(* a Dequeue about to CAS the head holds a snapshot (h, h.next) with h at or before the current
   head, strictly before the current tail *)
Theorem clq_dequeuer_snapshot : forall evs c t l,
  clq_reach evs c -> lookup t (q_thr c) = Some l -> q_pc l = DeqCASHead ->
  exists chain hi ti kh, shape c chain hi ti /\ (kh <= hi)%nat /\ (S kh <= ti)%nat /\
    q_headPtr l = nth_error chain kh /\ q_headNextPtr l = nth_error chain (S kh).
Proof. exact reach_dequeuer. Qed.
Print Assumptions clq_dequeuer_snapshot.

(* head <> tail -> head.next <> nil (and it is a node holding a value) *)
Theorem clq_head_next_not_nil : forall evs c,
  clq_reach evs c -> q_head c <> q_tail c ->
  exists x v, node_next (q_nexts c) (q_head c) = Some (Some x) /\ node_val (q_vals c) (Some x) = Some v.
Proof. exact reach_head_next. Qed.
Print Assumptions clq_head_next_not_nil.

(* no statement of Enqueue / Dequeue ever dereferences nil *)
Theorem clq_no_panic : forall evs c e c' o,
  clq_reach evs c -> clq_exec1 c e = Some (c', o) -> o <> QPanic.
Proof. exact reach_no_panic. Qed.
Print Assumptions clq_no_panic.

(* no call ever waits for another one: the next statement of a call in flight is always enabled *)
Theorem clq_never_blocks : forall c t l, lookup t (q_thr c) = Some l -> clq_exec1 c (QStep t) <> None.
Proof. exact step_enabled. Qed.
Print Assumptions clq_never_blocks.

(* ---- linearizability, linearisation-point form ---- *)
Theorem clq_history_faithful : forall c e c' o,
  clq_exec1 c e = Some (c', o) -> vis (q_hist c') = vis_of e o ++ vis (q_hist c).
Proof. exact hist_faithful. Qed.
Print Assumptions clq_history_faithful.

Theorem clq_step_refines_fifo : forall evs c e c' o,
  clq_reach evs c -> clq_exec1 c e = Some (c', o) ->
  (clq_abs c' = clq_abs c /\
   (q_hist c' = q_hist c \/ exists ev, q_hist c' = ev :: q_hist c /\ is_vis ev = true)) \/
  (exists t op r, e = QStep t /\ q_hist c' = HLin t op r :: q_hist c /\
                  fifo_spec op (clq_abs c) = (clq_abs c', r)).
Proof. exact reach_step_kind. Qed.
Print Assumptions clq_step_refines_fifo.

Theorem clq_linearizable : forall evs c,
  clq_reach evs c ->
  lin_run (q_hist c) = Some (clq_abs c) /\
  (forall t, phase t (q_hist c) <> None) /\
  (forall t, lookup t (q_thr c) = None -> phase t (q_hist c) = Some PIdle).
Proof. exact reach_lin_form. Qed.
Print Assumptions clq_linearizable.

(* ---- linearizability, textbook form ---- *)
Theorem clq_linearizable_textbook : forall evs c,
  clq_reach evs c -> textbook_linearizable (vis (q_hist c)).
Proof. exact reach_textbook. Qed.
Print Assumptions clq_linearizable_textbook.

(* the definition is not vacuous: a Dequeue returning 5 from the never-filled queue is rejected *)
Theorem clq_textbook_rejects_invented_value :
  ~ textbook_linearizable [HRet 1%nat (RDeq (Some 5)); HCall 1%nat OpDeq].
Proof. exact textbook_rejects_invented_value. Qed.
Print Assumptions clq_textbook_rejects_invented_value.

(* ---- non-vacuity ---- *)
Local Open Scope nat_scope.
Definition steps (t : tid) (n : nat) : list clq_ev := repeat (QStep t) n.

(* T1 Enqueue(7) is parked between its link CAS and its tail CAS; T2 Dequeue answers "empty"
   (the node is linked but the Enqueue has not taken effect); T1 swings the tail and returns;
   T2 Dequeue returns 7. *)
Definition sched1 : list clq_ev :=
  QCallEnq 1 7%Z :: steps 1 8 ++ QCallDeq 2 :: steps 2 7 ++ steps 1 2 ++ QCallDeq 2 :: steps 2 10.

Example clq_example_parked_enqueue :
  option_map (fun c => (clq_abs c, q_thr c, q_hist c)) (exec clq_step clq_init sched1)
  = Some ([], [],
          [HRet 2 (RDeq (Some 7%Z)); HLin 2 OpDeq (RDeq (Some 7%Z)); HCall 2 OpDeq;
           HRet 1 REnq; HLin 1 (OpEnq 7%Z) REnq;
           HRet 2 (RDeq None); HLin 2 OpDeq (RDeq None); HCall 2 OpDeq;
           HCall 1 (OpEnq 7%Z)]).
Proof. vm_compute. reflexivity. Qed.

(* the window itself: T1 at EnqTailCAS, node 1 linked behind the dummy, tail not swung, abstract queue empty *)
Example clq_example_window :
  option_map (fun c => (q_nexts c, q_head c, q_tail c, clq_abs c, map (fun p => (fst p, q_pc (snd p))) (q_thr c)))
             (exec clq_step clq_init (QCallEnq 1 7%Z :: steps 1 8))
  = Some ([Some 1; None], Some 0, Some 0, [], [(1, EnqTailCAS)]).
Proof. vm_compute. reflexivity. Qed.

(* while T1 sits in that window a second Enqueue spins: after its first round, 5 statements bring T2
   back to the very same configuration (Enqueue is NOT lock-free in the technical sense: it waits for T1's swing) *)
Example clq_example_spin :
  match exec clq_step clq_init (QCallEnq 1 7%Z :: steps 1 8 ++ QCallEnq 2 8%Z :: steps 2 8) with
  | Some c => exec clq_step c (steps 2 5) = Some c /\
              map (fun p => (fst p, q_pc (snd p))) (q_thr c) = [(1, EnqTailCAS); (2, EnqLoadTail)]
  | None => False
  end.
Proof. vm_compute. split; reflexivity. Qed.

(* FIFO order across two enqueuers and a racing pair of dequeuers: the head CAS of T4 fails once *)
Definition sched2 : list clq_ev :=
  QCallEnq 1 10%Z :: steps 1 10 ++ QCallEnq 2 20%Z :: steps 2 10 ++
  QCallDeq 3 :: steps 3 7 ++ QCallDeq 4 :: steps 4 7 ++   (* both loaded head, tail, head.next *)
  steps 3 3 ++                                             (* T3 wins: returns 10 *)
  steps 4 1 ++                                             (* T4's CAS fails *)
  steps 4 9.                                               (* retry: returns 20 *)
Example clq_example_fifo_cas_fails :
  option_map (fun c => (clq_abs c, vis (q_hist c))) (exec clq_step clq_init sched2)
  = Some ([], [HRet 4 (RDeq (Some 20%Z)); HRet 3 (RDeq (Some 10%Z)); HCall 4 OpDeq; HCall 3 OpDeq;
               HRet 2 REnq; HCall 2 (OpEnq 20%Z); HRet 1 REnq; HCall 1 (OpEnq 10%Z)]).
Proof. vm_compute. reflexivity. Qed.
