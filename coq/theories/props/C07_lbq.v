(* C07 (ConcurrentLinkedBlockingQueue part) — bounded FIFO: capacity, order, exactly-once,
   context errors have no effect; unbounded when capacity <= 0.
   Only statements here; every proof is `exact <lemma>` from proof/LBQProof*.v.

   The model (model/LBQModel.v) interleaves the individual Go statements of any number of
   concurrent Enqueue / Dequeue / Len / AsSlice calls, including the statements of
   cond.signalCh and cond.broadcast, with CANCEL events at arbitrary points; the theorems
   quantify over EVERY event sequence the semantics accepts ([exec lbq_step (lbq_init m) evs =
   Some c]) and every maxSize m (bounded when m > 0, unbounded otherwise).
   Trusted specifications inside the model: sync.RWMutex (exclusive/shared, unlock of an
   unlocked mutex is fatal), channels (close wakes every receiver, close of a closed channel
   panics, make yields a fresh channel), select (blocks iff no case is ready; with several
   ready cases any may be taken), context cancellation, and list.LinkedList's
   Len/Append/Delete(0)/AsSlice as operations on an abstract sequence. *)
From Ekit Require Import Common Conc LBQModel LBQProof LBQProof2 LBQProof3 LBQProof4.

(* 1. the number of stored elements is never negative and never exceeds maxSize (maxSize > 0) *)
Theorem lbq_capacity : forall m evs c,
  exec lbq_step (lbq_init m) evs = Some c ->
  0 <= qlen c /\ (0 < m -> qlen c <= m).
Proof. exact lbq_capacity_lemma. Qed.
Print Assumptions lbq_capacity.

(* 2. mutual exclusion: every thread inside a critical section (loop condition ... c.l.Unlock())
   owns the mutex, so at most one thread is inside; readers (Len/AsSlice between RLock and
   RUnlock) exclude the writer; the owner of the mutex is a call inside its critical section
   (the lock never leaks); no unlock of an unlocked mutex and no close of a closed channel *)
Theorem lbq_mutual_exclusion : forall m evs c,
  exec lbq_step (lbq_init m) evs = Some c ->
  (forall t l, lookup t (q_thr c) = Some l -> in_cs (l_pc l) = true -> q_wlock c = Some t) /\
  (forall t1 l1 t2 l2, lookup t1 (q_thr c) = Some l1 -> lookup t2 (q_thr c) = Some l2 ->
      in_cs (l_pc l1) = true -> in_cs (l_pc l2) = true -> t1 = t2) /\
  (forall t l, lookup t (q_thr c) = Some l -> in_rcs (l_pc l) = true ->
      q_wlock c = None /\ (0 < q_readers c)%nat) /\
  (forall t, q_wlock c = Some t -> q_readers c = O /\
      exists l, lookup t (q_thr c) = Some l /\ in_cs (l_pc l) = true) /\
  q_bad c = false.
Proof. exact lbq_mutual_exclusion_lemma. Qed.
Print Assumptions lbq_mutual_exclusion.

(* the list changes only in the step `c.linkedlist.Append(t)` / `c.linkedlist.Delete(0)` of the
   thread that owns the mutex; that step is marked in the history and the change is the one
   the bounded-FIFO specification prescribes (in particular the specification enables it:
   Append only below capacity, Delete only on a non-empty list) *)
Theorem lbq_items_change_only_at_linearisation_points : forall m evs c e c' obs,
  exec lbq_step (lbq_init m) evs = Some c -> lbq_exec1 c e = Some (c', obs) ->
  (q_items c' = q_items c /\
   forall t o r, q_hist c' = HLin t o r :: q_hist c -> is_qop o = false) \/
  (exists t l r, e = QStep t /\ lookup t (q_thr c) = Some l /\ l_pc l = PAct /\ q_wlock c = Some t /\
                 q_hist c' = HLin t (l_op l) r :: q_hist c /\
                 lbq_spec m (l_op l) (q_items c) = Some (q_items c', r)).
Proof. exact lbq_items_change_lemma. Qed.
Print Assumptions lbq_items_change_only_at_linearisation_points.

(* 3. linearizability in linearisation-point form w.r.t. the bounded blocking FIFO
   specification [lbq_spec m]: the marked steps, replayed in order from the empty queue, are
   all enabled in the specification, carry its results and yield the list the queue holds
   ([lin_run]); and for every thread the history reads
   (Call o . Lin o r . Ret r | Call o . Ret ctx-error)*, the current call standing where its
   program counter says ([phase] / [cur_phase]): exactly one marked step per completed
   successful call, between its invocation and its response, whose result the call returns *)
Theorem lbq_linearizable : forall m evs c,
  exec lbq_step (lbq_init m) evs = Some c ->
  lin_run m (q_hist c) = Some (q_items c) /\
  forall t, phase t (q_hist c) = Some (cur_phase c t).
Proof. exact lbq_linearizable_lemma. Qed.
Print Assumptions lbq_linearizable.

(* 4. a call that returns the context error: it is an Enqueue/Dequeue that performed no marked
   step since its invocation; the returning step records only the response, leaves list, mutex,
   reader count and both conds as they were, and the mutex is not held by the caller *)
Theorem ctx_error_has_no_effect : forall m evs c e c' obs t,
  exec lbq_step (lbq_init m) evs = Some c -> lbq_exec1 c e = Some (c', obs) ->
  In (t, ORet RCtx) obs ->
  e = QStep t /\
  (exists o, is_qop o = true /\ phase t (q_hist c) = Some (PhCalled o)) /\
  q_hist c' = HRet t RCtx :: q_hist c /\
  q_items c' = q_items c /\ q_wlock c' = q_wlock c /\ q_wlock c <> Some t /\
  q_readers c' = q_readers c /\
  (forall k, cur c' k = cur c k) /\ (forall k, closed c' k = closed c k) /\
  lookup t (q_thr c') = None.
Proof. exact lbq_ctx_error_has_no_effect_lemma. Qed.
Print Assumptions ctx_error_has_no_effect.

(* 5. exactly-once and FIFO: the values of the successful Enqueues in linearisation order =
   the values delivered by the successful Dequeues in linearisation order, followed by the
   current contents (what AsSlice shows): nothing lost, nothing duplicated, nothing reordered *)
Theorem lbq_exactly_once_fifo : forall m evs c,
  exec lbq_step (lbq_init m) evs = Some c ->
  lin_enqs (q_hist c) = lin_deqs (q_hist c) ++ q_items c.
Proof. exact lbq_exactly_once_fifo_lemma. Qed.
Print Assumptions lbq_exactly_once_fifo.

(* 6. Delete(0) is only reached with a non-empty list: its error path is dead code, no call
   ever returns the list's index error, and no call panics (close of a closed channel) *)
Theorem delete0_never_fails : forall m evs c,
  exec lbq_step (lbq_init m) evs = Some c ->
  (forall t l, lookup t (q_thr c) = Some l -> l_op l = ODeq -> l_pc l = PAct -> q_items c <> []) /\
  (forall e c' obs t, lbq_exec1 c e = Some (c', obs) ->
     ~ In (t, ORet RDelErr) obs /\ ~ In (t, ORet RPanic) obs).
Proof. exact lbq_delete0_never_fails_lemma. Qed.
Print Assumptions delete0_never_fails.

(* 7. maxSize <= 0: an Enqueue never enters the wait loop (never fetches a signal channel, never
   parks, never returns a context error from the select) *)
Theorem lbq_unbounded_never_waits : forall m evs c,
  m <= 0 -> exec lbq_step (lbq_init m) evs = Some c ->
  forall t l v, lookup t (q_thr c) = Some l -> l_op l = OEnq v -> wait_region (l_pc l) = false.
Proof. exact lbq_unbounded_never_waits_lemma. Qed.
Print Assumptions lbq_unbounded_never_waits.

(* ================= non-vacuity ================= *)

(* maxSize = 1.  Goroutine 1's Dequeue finds the queue empty, fetches notEmpty's channel
   (generation 0) under the lock, unlocks and parks in its select.  Goroutine 2 enqueues 7:
   Append, then broadcast = swap in generation 1, unlock, close generation 0 — that last step
   wakes goroutine 1 into `case <-signal:`.  Goroutine 1 re-locks, re-checks, deletes, returns 7. *)
Definition c07_lbq_sched : list lbq_ev :=
  [QCall 1%nat ODeq] ++ lbq_steps 1%nat 8 ++ [QCall 2%nat (OEnq 7)] ++ lbq_steps 2%nat 9.
Definition c07_lbq_sched2 : list lbq_ev :=
  c07_lbq_sched ++ [QStep 2%nat] ++ lbq_steps 2%nat 1 ++ lbq_steps 1%nat 9.

(* a second scenario: the queue (maxSize 1) is full, goroutine 2's Enqueue parks, is cancelled,
   returns the context error, and the contents are untouched *)
Definition c07_lbq_full : list lbq_ev :=
  [QCall 1%nat (OEnq 1)] ++ lbq_steps 1%nat 11 ++ [QCall 2%nat (OEnq 2)] ++ lbq_steps 2%nat 8.

Example c07_lbq_nonvacuous :
  option_map lbq_summary (lbq_run 1 c07_lbq_sched) =
    Some ([7], None, 0%nat, (1%nat, []), (0%nat, []), [(1%nat, PParked, 0%nat); (2%nat, BClose, 0%nat)]) /\
  lbq_obs_of 1 c07_lbq_sched (QStep 2%nat) =
    Some [(2%nat, OAt (OEnq 7) PRet); (1%nat, OAt ODeq PCaseSig)] /\
  lbq_obs_of 1 c07_lbq_sched2 (QStep 1%nat) = Some [(1%nat, ORet (RVal 7))] /\
  option_map (fun c => (q_items c, lin_enqs (q_hist c), lin_deqs (q_hist c), lbq_hist_ok c))
             (lbq_run 1 (c07_lbq_sched2 ++ [QStep 1%nat])) = Some ([], [7], [7], true) /\
  option_map lbq_summary (lbq_run 1 c07_lbq_full) =
    Some ([1], None, 0%nat, (1%nat, [0%nat]), (0%nat, []), [(2%nat, PParked, 0%nat)]) /\
  lbq_obs_of 1 c07_lbq_full (QCancel 2%nat) = Some [(2%nat, OAt (OEnq 2) PCaseCtx)] /\
  lbq_obs_of 1 (c07_lbq_full ++ [QCancel 2%nat; QStep 2%nat]) (QStep 2%nat) = Some [(2%nat, ORet RCtx)] /\
  option_map lbq_summary (lbq_run 1 (c07_lbq_full ++ [QCancel 2%nat] ++ lbq_steps 2%nat 2)) =
    Some ([1], None, 0%nat, (1%nat, [0%nat]), (0%nat, []), []).
Proof. repeat split; vm_compute; reflexivity. Qed.
