(* C01 — tree-backed containers refine an abstract sorted map for every history.
   Only statements here; every proof is `exact <lemma>` from proof/RBRefineSim.v
   (which rests on proof/RBRefine.v: every rotation / recolouring / fix-up helper of the
   model preserves the in-order sequence; no colour reasoning is involved).

   Models:   model/RBModel.v      internal/tree.RBTree = tree.RBTree  (rb_step, rb_run, rb_final)
             model/TreeMapModel.v mapx.TreeMap (tm_step: Put = Add, on duplicate Set) and
                                  set.TreeSet (ts_step: TreeMap with value nil)
   Spec:     model/AbsMapModel.v  an association list kept strictly ascending by the comparator,
                                  scanned linearly (abs_step / abs_tm_step) and a list of keys
                                  (abs_ts_step); keys are identified when cmp says 0, the first
                                  inserted representative stays stored, Set/Put replace the value only.

   All theorems are for EVERY history (list of operations, by induction) and EVERY comparator
   cmp : Z -> Z -> Z that is a strict weak order — the three Section hypotheses below, which
   become premises of the closed theorems.  Reflexivity (cmp a a = 0), symmetry of "compares
   equal" and the right-hand compatibility of = with < are consequences (RBRefine.cmp_refl,
   cmp_eq_sym, cmp_lt_eq), so they are not assumed.

   The outputs compared by rb_refines_map include the full KeyValues() listing (RKVs) and
   Size() (RSize) whenever the history asks for them, at any position: "size and contents
   always equal the map's" is part of the statement.

   Not in this file: LinkedMap / MultiMap over the tree (separate model and check). *)
From Ekit Require Import Common RBModel TreeMapModel AbsMapModel RBRefine RBRefineSim.
From Coq Require Import Sorted.

Section C01.
  Variable cmp : Z -> Z -> Z.
  Hypothesis cmp_antisym : forall a b, cmp a b < 0 <-> cmp b a > 0.
  Hypothesis cmp_trans : forall a b c, cmp a b < 0 -> cmp b c < 0 -> cmp a c < 0.
  Hypothesis cmp_eq_lt : forall a b c, cmp a b = 0 -> cmp a c < 0 -> cmp b c < 0.

  (* every call of every history returns exactly what the abstract sorted map returns *)
  Theorem rb_refines_map : forall ops : list rb_op,
    map snd (rb_run cmp rb_empty ops) = map snd (abs_run cmp [] ops).
  Proof. exact (rb_refines_map_lemma cmp cmp_antisym cmp_trans cmp_eq_lt). Qed.

  (* after every history the tree's in-order contents ARE the abstract map, and the size
     field is its number of bindings *)
  Theorem rb_state_is_map : forall ops : list rb_op,
    inorder (root (rb_final cmp rb_empty ops)) = abs_final cmp [] ops /\
    size (rb_final cmp rb_empty ops) = Z.of_nat (length (abs_final cmp [] ops)).
  Proof. exact (rb_state_is_map_lemma cmp cmp_antisym cmp_trans cmp_eq_lt). Qed.

  (* KeyValues() lists the entries in strictly ascending comparator order, hence every live
     key exactly once *)
  Theorem key_values_sorted_nodup : forall ops kvs,
    snd (rb_step cmp (rb_final cmp rb_empty ops) OKeyValues) = RKVs kvs ->
    StronglySorted (fun a b => cmp (fst a) (fst b) < 0) kvs /\ NoDup (map fst kvs).
  Proof. exact (key_values_sorted_nodup_lemma cmp cmp_antisym cmp_trans cmp_eq_lt). Qed.

  (* Size() is the number of nodes of the tree and the cardinal of the abstract map *)
  Theorem size_is_cardinal : forall ops n,
    snd (rb_step cmp (rb_final cmp rb_empty ops) OSize) = RSize n ->
    n = Z.of_nat (card (root (rb_final cmp rb_empty ops))) /\
    n = Z.of_nat (length (abs_final cmp [] ops)).
  Proof. exact (size_is_cardinal_lemma cmp cmp_antisym cmp_trans cmp_eq_lt). Qed.

  (* a call that reports failure (duplicate Add, Set/Find/Delete of an absent key) leaves the
     whole tree state — shape, colours, values, size field — and the abstract map unchanged,
     and it fails exactly when the abstract map's call fails *)
  Theorem failed_call_is_identity : forall ops op,
    let s := rb_final cmp rb_empty ops in
    let m := abs_final cmp [] ops in
    match snd (rb_step cmp s op) with
    | RErr _ | RAbsent =>
        fst (rb_step cmp s op) = s /\ fst (abs_step cmp m op) = m /\
        snd (abs_step cmp m op) = snd (rb_step cmp s op)
    | _ => True
    end.
  Proof. exact (failed_call_is_identity_lemma cmp cmp_antisym cmp_trans cmp_eq_lt). Qed.

  (* mapx.TreeMap: Put / Get / Delete / Keys / Values / Len *)
  Theorem treemap_refines_map : forall ops : list tm_op,
    map snd (tm_run cmp rb_empty ops) = map snd (abs_tm_run cmp [] ops).
  Proof. exact (treemap_refines_map_lemma cmp cmp_antisym cmp_trans cmp_eq_lt). Qed.

  (* set.TreeSet: Add / Delete / Exist / Keys against a plain sorted list of keys *)
  Theorem treeset_refines_set : forall ops : list ts_op,
    map snd (ts_run cmp rb_empty ops) = map snd (abs_ts_run cmp [] ops).
  Proof. exact (treeset_refines_set_lemma cmp cmp_antisym cmp_trans cmp_eq_lt). Qed.
End C01.

Print Assumptions rb_refines_map.
Print Assumptions rb_state_is_map.
Print Assumptions key_values_sorted_nodup.
Print Assumptions size_is_cardinal.
Print Assumptions failed_call_is_identity.
Print Assumptions treemap_refines_map.
Print Assumptions treeset_refines_set.

(* ---- non-vacuity: the hypotheses hold for the comparator families the correspondence check
   uses (ascending, descending, "by k/2": distinct keys that compare equal), so the theorems
   apply to them outright ---- *)
Example cmp_asc_is_lawful :
  (forall a b, cmp_asc a b < 0 <-> cmp_asc b a > 0) /\
  (forall a b c, cmp_asc a b < 0 -> cmp_asc b c < 0 -> cmp_asc a c < 0) /\
  (forall a b c, cmp_asc a b = 0 -> cmp_asc a c < 0 -> cmp_asc b c < 0).
Proof. exact cmp_asc_laws. Qed.
Example cmp_desc_is_lawful :
  (forall a b, cmp_desc a b < 0 <-> cmp_desc b a > 0) /\
  (forall a b c, cmp_desc a b < 0 -> cmp_desc b c < 0 -> cmp_desc a c < 0) /\
  (forall a b c, cmp_desc a b = 0 -> cmp_desc a c < 0 -> cmp_desc b c < 0).
Proof. exact cmp_desc_laws. Qed.
Example cmp_half_is_lawful :
  (forall a b, cmp_half a b < 0 <-> cmp_half b a > 0) /\
  (forall a b c, cmp_half a b < 0 -> cmp_half b c < 0 -> cmp_half a c < 0) /\
  (forall a b c, cmp_half a b = 0 -> cmp_half a c < 0 -> cmp_half b c < 0).
Proof. exact cmp_half_laws. Qed.

Example rb_refines_map_asc : forall ops,
  map snd (rb_run cmp_asc rb_empty ops) = map snd (abs_run cmp_asc [] ops).
Proof.
  exact (rb_refines_map cmp_asc (proj1 cmp_asc_laws) (proj1 (proj2 cmp_asc_laws)) (proj2 (proj2 cmp_asc_laws))).
Qed.
Example treemap_refines_map_half : forall ops,
  map snd (tm_run cmp_half rb_empty ops) = map snd (abs_tm_run cmp_half [] ops).
Proof.
  exact (treemap_refines_map cmp_half (proj1 cmp_half_laws) (proj1 (proj2 cmp_half_laws)) (proj2 (proj2 cmp_half_laws))).
Qed.
Example treeset_refines_set_desc : forall ops,
  map snd (ts_run cmp_desc rb_empty ops) = map snd (abs_ts_run cmp_desc [] ops).
Proof.
  exact (treeset_refines_set cmp_desc (proj1 cmp_desc_laws) (proj1 (proj2 cmp_desc_laws)) (proj2 (proj2 cmp_desc_laws))).
Qed.

(* a concrete history with keys that are distinct but compare equal (4 and 5 under k/2): the
   duplicate Add fails, Set through the other representative replaces only the value, the first
   inserted key stays stored, Delete through the other representative removes it; a rebalancing
   deletion in between *)
Example history_half :
  map snd (rb_run cmp_half rb_empty
             [OAdd 4 1; OAdd 5 2; OSet 5 3; OKeyValues; OAdd 0 7; OAdd 8 9; OAdd 2 6; OAdd 6 5;
              ODelete 1; OKeyValues; OSize; ODelete 4; OFind 5; OKeyValues; ODelete 4])
  = [RUnit; RErr EDuplicate; RUnit; RKVs [(4, 3)]; RUnit; RUnit; RUnit; RUnit;
     RVal 7; RKVs [(2, 6); (4, 3); (6, 5); (8, 9)]; RSize 4; RVal 3; RErr EAbsent;
     RKVs [(2, 6); (6, 5); (8, 9)]; RAbsent].
Proof. vm_compute. reflexivity. Qed.
Example history_half_spec :
  map snd (abs_run cmp_half []
             [OAdd 4 1; OAdd 5 2; OSet 5 3; OKeyValues; OAdd 0 7; OAdd 8 9; OAdd 2 6; OAdd 6 5;
              ODelete 1; OKeyValues; OSize; ODelete 4; OFind 5; OKeyValues; ODelete 4])
  = [RUnit; RErr EDuplicate; RUnit; RKVs [(4, 3)]; RUnit; RUnit; RUnit; RUnit;
     RVal 7; RKVs [(2, 6); (4, 3); (6, 5); (8, 9)]; RSize 4; RVal 3; RErr EAbsent;
     RKVs [(2, 6); (6, 5); (8, 9)]; RAbsent].
Proof. vm_compute. reflexivity. Qed.
