(* C07 (ConcurrentArrayBlockingQueue part) — the array blocking queue is a linearizable bounded
   FIFO queue: capacity, order, exactly-once; a call that returns the context's error has had no
   effect on the contents or on the remaining capacity.

   Only statements here; every proof is `exact <lemma>` from proof/ABQProof*.v.

   Model (model/ABQModel.v): one step = one Go statement of Enqueue / Dequeue / Len / AsSlice of
   /repo/queue/concurrent_array_blocking_queue.go, any number of goroutines, interleaved in any
   order; x/sync/semaphore.Weighted v0.4.0 modelled from its source (FIFO waiters, fast path,
   ctx.Done branch, Release -> notifyWaiters), sync.RWMutex as writer flag + reader count; events
   CALL / STEP / CANCEL (CANCEL t cancels the context of t's call at ANY point).  Every theorem
   quantifies over ALL event sequences [evs] the executable semantics accepts and all capacities
   >= 1:  exec abq_next (abq_init cap) evs = Some c.

   Abstraction: abq_abs c = the abs_len c elements of the ring from abs_head c, where abs_head /
   abs_len are head / count corrected by the one writer that is between its ring access and its
   cursor updates (outside the critical section: exactly the count elements from head).
   Ghost history (never read by the transition function): g_in / g_out = values written to / read
   from the ring at the marked steps, t_lin = the values the call itself wrote / read. *)
From Ekit Require Import Common Conc ABQModel ABQProof ABQProof2 ABQProof3 ABQProof4 ABQProof5 ABQProof6.

(* 1. capacity: 0 <= count <= cap at every moment (also inside the critical section), and the
   abstract queue has between 0 and cap elements *)
Theorem abq_count_bounded : forall cap evs c,
  1 <= cap -> exec abq_next (abq_init cap) evs = Some c ->
  0 <= q_count c <= cap /\ 0 <= abs_len c <= cap /\ Z.of_nat (length (abq_abs c)) = abs_len c.
Proof. exact (fun cap evs c Hcap H => abq_count_bounded_lemma cap c Hcap (ex_intro _ evs H)). Qed.
Print Assumptions abq_count_bounded.

(* 2. ring indices consistent with count whenever no writer is inside the critical section:
   both cursors < cap, tail = (head + count) mod cap, contents = the count elements from head *)
Theorem abq_ring_consistent : forall cap evs c,
  1 <= cap -> exec abq_next (abq_init cap) evs = Some c -> q_w c = false ->
  0 <= q_head c < cap /\ 0 <= q_tail c < cap /\ 0 <= q_count c <= cap /\
  q_tail c = (q_head c + q_count c) mod cap /\
  abq_abs c = ring (q_data c) (q_head c) (q_count c).
Proof. exact (fun cap evs c Hcap H => abq_ring_consistent_lemma cap c Hcap (ex_intro _ evs H)). Qed.
Print Assumptions abq_ring_consistent.

(* ... and at every moment, in the writer's current view (a cursor equals cap only between its
   increment and the compare-and-reset of the same writer) *)
Theorem abq_ring_consistent_everywhere : forall cap evs c,
  1 <= cap -> exec abq_next (abq_init cap) evs = Some c ->
  cap_of (q_data c) = cap /\
  (cap | q_tail c + count (pc_is ETailInc) (q_thr c) - abs_head c - abs_len c) /\
  0 <= q_head c <= cap /\ 0 <= q_tail c <= cap /\
  (q_head c = cap -> 1 <= count head_hi (q_thr c)) /\
  (q_tail c = cap -> 1 <= count tail_hi (q_thr c)).
Proof. exact (fun cap evs c Hcap H => abq_ring_view_lemma cap c Hcap (ex_intro _ evs H)). Qed.
Print Assumptions abq_ring_consistent_everywhere.

(* 3. the permit ledger (DESIGN 12.6), exact at statement granularity:
     free_e + |enqueuers holding a permit before their write| + |contents| + |dequeuers that have
             read and not yet released enqueueCap| = cap
     free_d + |dequeuers holding a permit before their read| + |enqueuers that have written and not
             yet released dequeueCap| = |contents|
   (held_e / held_d count a waiter from the moment Release grants it.) *)
Theorem abq_permit_ledger : forall cap evs c,
  1 <= cap -> exec abq_next (abq_init cap) evs = Some c ->
  s_free (q_enq c) + count held_e (q_thr c) + abs_len c + count owes_e (q_thr c) = cap /\
  s_free (q_deq c) + count held_d (q_thr c) + count owes_d (q_thr c) = abs_len c /\
  0 <= s_free (q_enq c) <= cap /\ 0 <= s_free (q_deq c) <= cap.
Proof. exact (fun cap evs c Hcap H => abq_permit_ledger_lemma cap c Hcap (ex_intro _ evs H)). Qed.
Print Assumptions abq_permit_ledger.

(* the ledger in the form of the design, whenever the write lock is free *)
Theorem abq_permit_ledger_unlocked : forall cap evs c,
  1 <= cap -> exec abq_next (abq_init cap) evs = Some c -> q_w c = false ->
  s_free (q_enq c) + count held_e (q_thr c) + q_count c = cap /\
  s_free (q_deq c) + count held_d (q_thr c) = q_count c.
Proof. exact (fun cap evs c Hcap H => abq_permit_ledger_unlocked_lemma cap c Hcap (ex_intro _ evs H)). Qed.
Print Assumptions abq_permit_ledger_unlocked.

(* 4. linearizability, linearisation-point form: the ring write `c.data[c.tail] = t` and the
   ring read `res = c.data[c.head]` inside the critical section are the marked steps; at them the
   abstract queue changes as the bounded FIFO specification says (Enqueue only when not full,
   Dequeue returns the oldest element), every other event leaves it unchanged *)
Theorem abq_linearizable : forall cap evs c e c' o,
  1 <= cap -> exec abq_next (abq_init cap) evs = Some c ->
  abq_exec1 c e = Some (c', o) ->
  match e with
  | AStep t =>
    match lookup t (q_thr c) with
    | Some th =>
      match t_pc th with
      | EWrite =>
        spec_enq cap (abq_abs c) (t_val th) = Some (abq_abs c') /\
        exists th', lookup t (q_thr c') = Some th' /\ t_lin th' = [t_val th] /\
                    g_in c' = g_in c ++ [t_val th] /\ g_out c' = g_out c
      | DRead =>
        exists x, spec_deq (abq_abs c) = Some (abq_abs c', x) /\
        exists th', lookup t (q_thr c') = Some th' /\ t_val th' = x /\ t_lin th' = [x] /\
                    g_out c' = g_out c ++ [x] /\ g_in c' = g_in c
      | _ => abq_abs c' = abq_abs c /\ g_in c' = g_in c /\ g_out c' = g_out c
      end
    | None => True
    end
  | _ => abq_abs c' = abq_abs c /\ g_in c' = g_in c /\ g_out c' = g_out c
  end.
Proof. exact (fun cap evs c e c' o Hcap H => abq_linearizable_lemma cap c e c' o Hcap (ex_intro _ evs H)). Qed.
Print Assumptions abq_linearizable.

(* ... and the value a call returns is the specification's at its marked step: an Enqueue that
   returns nil passed exactly one marked step, with its argument; a Dequeue that returns (x, nil)
   passed exactly one, which removed x; a call that returns the context's error passed none;
   Len / AsSlice return the length / contents of the abstract queue at their return statement
   (evaluated under the read lock) *)
Theorem abq_return_values : forall cap evs c t th c' o r,
  1 <= cap -> exec abq_next (abq_init cap) evs = Some c ->
  lookup t (q_thr c) = Some th -> abq_exec1 c (AStep t) = Some (c', o) -> In (t, ORet r) o ->
  match r with
  | RNil => t_lin th = [t_val th]
  | RCtx => t_lin th = []
  | RVal x => t_lin th = [x]
  | RLen n => t_lin th = [] /\ n = Z.of_nat (length (abq_abs c))
  | RSlice l => t_lin th = [] /\ l = abq_abs c
  end.
Proof. exact (fun cap evs c t th c' o r Hcap H => abq_return_values_lemma cap c t th c' o r Hcap (ex_intro _ evs H)). Qed.
Print Assumptions abq_return_values.

(* "exactly one": the per-call history t_lin is empty when the call starts and is extended only by
   the call's own marked steps (by the value written / read there) — so `t_lin th = [v]` at the
   return means the call performed exactly one linearisation step between CALL and return *)
Theorem abq_history_only_at_marked_steps : forall cap evs c e c' o x th0 th',
  1 <= cap -> exec abq_next (abq_init cap) evs = Some c ->
  abq_exec1 c e = Some (c', o) ->
  lookup x (q_thr c) = Some th0 -> lookup x (q_thr c') = Some th' ->
  t_lin th' = t_lin th0 ++
    match e with
    | AStep t =>
      if Nat.eqb t x then
        match lin_of c e with
        | Some (LinEnq v) => [v]
        | Some LinDeq => [dget (q_data c) (q_head c)]
        | None => []
        end
      else []
    | _ => []
    end.
Proof. exact (fun cap evs c e c' o x th0 th' Hcap H => abq_lin_log_lemma cap c e c' o x th0 th' Hcap (ex_intro _ evs H)). Qed.
Print Assumptions abq_history_only_at_marked_steps.

Theorem abq_call_starts_with_empty_history : forall c t op c' o th',
  abq_exec1 c (ACall t op) = Some (c', o) -> lookup t (q_thr c') = Some th' -> t_lin th' = [].
Proof. exact abq_call_starts_empty. Qed.
Print Assumptions abq_call_starts_with_empty_history.

(* 5. FIFO order and exactly-once (corollary of 4 through the history): everything written at an
   Enqueue's marked step, in that order, is exactly what has been read at Dequeues' marked steps
   followed by the present contents — nothing lost, nothing duplicated, nothing reordered *)
Theorem abq_fifo_exactly_once : forall cap evs c,
  1 <= cap -> exec abq_next (abq_init cap) evs = Some c ->
  g_in c = g_out c ++ abq_abs c.
Proof. exact (fun cap evs c Hcap H => abq_fifo_exactly_once_lemma cap c Hcap (ex_intro _ evs H)). Qed.
Print Assumptions abq_fifo_exactly_once.

(* 6. a call that returns the context's error performed no marked step, leaves contents, history
   and both semaphores as they are at its return, and (by the ledger, which holds again in c'
   without the call) had given back every permit it took *)
Theorem abq_ctx_error_has_no_effect : forall cap evs c t th c' o,
  1 <= cap -> exec abq_next (abq_init cap) evs = Some c ->
  lookup t (q_thr c) = Some th -> abq_exec1 c (AStep t) = Some (c', o) -> In (t, ORet RCtx) o ->
  t_lin th = [] /\ abq_abs c' = abq_abs c /\ q_enq c' = q_enq c /\ q_deq c' = q_deq c /\
  g_in c' = g_in c /\ g_out c' = g_out c /\ lookup t (q_thr c') = None.
Proof. exact (fun cap evs c t th c' o Hcap H => abq_ctx_error_lemma cap c t th c' o Hcap (ex_intro _ evs H)). Qed.
Print Assumptions abq_ctx_error_has_no_effect.

(* ... at quiescence (no call in flight), after ANY pattern of successful, failed and cancelled
   calls, the free permits are exactly back: free_e = cap - count, free_d = count, no waiter *)
Theorem abq_quiescent_permits : forall cap evs c,
  1 <= cap -> exec abq_next (abq_init cap) evs = Some c -> q_thr c = [] ->
  s_free (q_enq c) = cap - q_count c /\ s_free (q_deq c) = q_count c /\
  s_wait (q_enq c) = [] /\ s_wait (q_deq c) = [] /\ q_w c = false /\ q_r c = 0 /\
  abq_abs c = ring (q_data c) (q_head c) (q_count c) /\ 0 <= q_count c <= cap.
Proof. exact (fun cap evs c Hcap H => abq_quiescent_lemma cap c Hcap (ex_intro _ evs H)). Qed.
Print Assumptions abq_quiescent_permits.

(* 7. no reachable run-time panic: index out of range on the ring, negative make, modulo zero,
   "semaphore: released more than held" *)
Theorem abq_never_panics : forall cap evs c e c' o x,
  1 <= cap -> exec abq_next (abq_init cap) evs = Some c ->
  abq_exec1 c e = Some (c', o) -> ~ In (x, OPanic) o.
Proof. exact (fun cap evs c e c' o x Hcap H => abq_never_panics_lemma cap c e c' o x Hcap (ex_intro _ evs H)). Qed.
Print Assumptions abq_never_panics.

(* ---------------- non-vacuity: concrete schedules, by computation ---------------- *)
Definition ex_steps (t : tid) (n : nat) : list abq_ev := repeat (AStep t) n.
Definition ex_show (o : option abq_cfg) :=
  match o with
  | Some c => Some (abq_abs c, g_in c, g_out c, s_free (q_enq c), s_free (q_deq c),
                    map (fun x => (fst x, t_pc (snd x))) (q_thr c))
  | None => None
  end.

(* an Enqueue(7) run to completion on capacity 2 *)
Definition ex_enq : list abq_ev := [ACall 1%nat (OpEnq 7)] ++ ex_steps 1%nat 11.
Example ex_enq_done :
  ex_show (exec abq_next (abq_init 2) ex_enq) = Some ([7], [7], [], 1, 1, []).
Proof. vm_compute. reflexivity. Qed.

(* then Enqueue(8) whose context is cancelled BETWEEN the permit and the lock: it takes the lock,
   sees ctx.Err(), gives the permit back and returns the context's error; nothing changed *)
Definition ex_cancel : list abq_ev :=
  ex_enq ++ [ACall 2%nat (OpEnq 8); AStep 2%nat; ACancel 2%nat] ++ ex_steps 2%nat 5.
Example ex_cancel_between_permit_and_lock :
  ex_show (exec abq_next (abq_init 2) ex_cancel) = Some ([7], [7], [], 1, 1, [(2%nat, ERetCtx)]) /\
  match exec abq_next (abq_init 2) ex_cancel with
  | Some c => match abq_exec1 c (AStep 2%nat) with
              | Some (c', o) => o = [(2%nat, ORet RCtx)] /\ s_free (q_enq c') = 1 /\ q_thr c' = []
              | None => False
              end
  | None => False
  end.
Proof. vm_compute. repeat split; reflexivity. Qed.

(* capacity 1: a Dequeue parks on the empty queue; the Enqueue's dequeueCap.Release wakes it (the
   woken goroutine's next yield point is among the observations of that step); the ring wrapped *)
Definition ex_wake : list abq_ev :=
  [ACall 1%nat OpDeq; AStep 1%nat; ACall 2%nat (OpEnq 5)] ++ ex_steps 2%nat 10.
Example ex_waiter_woken_by_release :
  ex_show (exec abq_next (abq_init 1) ex_wake) = Some ([5], [5], [], 0, 0, [(1%nat, DPark); (2%nat, ERelD)]) /\
  match exec abq_next (abq_init 1) ex_wake with
  | Some c => match abq_exec1 c (AStep 2%nat) with
              | Some (c', o) => o = [(2%nat, OAt ERetNil); (1%nat, OAt DIfErr)] /\ q_tail c' = 0
              | None => False
              end
  | None => False
  end.
Proof. vm_compute. repeat split; reflexivity. Qed.

(* and the woken Dequeue delivers 5: the history shows in = out ++ contents *)
Example ex_delivered :
  ex_show (exec abq_next (abq_init 1) (ex_wake ++ [AStep 2%nat; AStep 2%nat] ++ ex_steps 1%nat 12))
  = Some ([], [5], [5], 1, 0, []).
Proof. vm_compute. reflexivity. Qed.
