(* C06 — linearizability of the lock-based thread-safe containers in the TEXTBOOK form
   (Herlihy-Wing: a legal sequential permutation of the completed calls, plus some pending ones,
   that respects real-time order), derived from the linearisation-point form of props/C06_locked.v
   by the generic theorem of lib/Linz.v.  Objects: the generic lock-bracketed object,
   queue.ConcurrentPriorityQueue, list.ConcurrentList, list.CopyOnWriteArrayList, syncx.Map —
   for EVERY event list of their models (any number of goroutines, any interleaving).
   (The lock-free queue has its own derivation: props/C06_clq.v, [clq_linearizable_textbook].)

   Only statements here; every proof is `exact <lemma>` from lib/Linz.v / proof/LinzInst.v.

   Reading the statements (definitions in lib/Linz.v, Section Linz):
     event             Inv i o | Lin i o r | Res i r  — invocation / marked step / response of call i
     [ls_history h]    the visible history of a model whose ghost history is h: its HCall and HRet
                       events in order (OLDEST first), as Inv / Res events, the calls numbered
                       i = (goroutine, k) for the k-th call of that goroutine (proof/LinzInst.v;
                       [vnumber_faithful]: erasing the numbers gives back the HCall / HRet events);
     [hist_wf fst H]   H is a well-formed history: one Inv and at most one Res per call, the Res after
                       the Inv, and a goroutine invokes its next call only after all its earlier
                       calls returned;
     [linearizable_to spec s0 H s']   there is a sequential history S : list (id * op * res) with
                       - no call twice                                   NoDup (map cid S)
                       - only invoked calls, with their arguments        In (i,o,r) S -> In (Inv i o) H
                       - every completed call, with the result it returned   In (Res i r) H -> exists o, In (i,o,r) S
                       - legal for the sequential specification from s0, ending in s'   [legal]
                       - real-time order: if a's response precedes b's invocation in H ([prec]) and b
                         is in S then a stands before b in S ([before]);
     [fun_step f]      the sequential specification given by the function f : state -> op -> state * res;
     s'                is the CURRENT abstract state of the object (so the sequential history also
                       explains the contents);
     [linearization_of spec s0 H s' S]   the five clauses for the given S; [twitness]: the calls in
                       the order of their linearisation events — the S the theorems construct. *)
From Ekit Require Import Common Conc Linz LockedModel CowModel SyncMapModel LinzInst.
From Ekit Require CLQModel CLQProof3 LinzInst4.

(* ===================== 0. the generic theorems ===================== *)

(* linearisation-point form => textbook form, for histories over abstract call identifiers:
   (H1) [lin_wf h]: every Lin comes after the Inv of its call (same operation), each call has at most
   one Lin and none before its Inv, every Res comes after a Lin of its call with the same result;
   (H2) the Lin events, in history order, replay through the specification.
   The specification is a RELATION sstep s o r s' (total functions, partial / blocking and
   nondeterministic specifications alike). *)
Theorem linpoint_form_implies_textbook_form :
  forall (id op res state : Type) (sstep : state -> op -> res -> state -> Prop)
         (s0 : state) (h : list (event id op res)) (s' : state),
    lin_wf h -> legal sstep s0 (map call_or (lin_items h)) s' ->
    linearizable_to sstep s0 (visible h) s'.
Proof. exact linpoint_textbook. Qed.
Print Assumptions linpoint_form_implies_textbook_form.

(* ... with the witness: S = the calls in the order of their Lin events *)
Theorem linpoint_form_witness :
  forall (id op res state : Type) (sstep : state -> op -> res -> state -> Prop)
         (s0 : state) (h : list (event id op res)) (s' : state),
    lin_wf h -> legal sstep s0 (map call_or (lin_items h)) s' ->
    linearization_of sstep s0 (visible h) s' (lin_items h).
Proof. exact linpoint_textbook_witness. Qed.
Print Assumptions linpoint_form_witness.

(* the same for what the models record — events tagged with the goroutine only, newest first, each
   goroutine running its calls one after the other ([twf]: per goroutine (Call o . Lin o r . Ret r)*
   + a prefix; [late o r]: calls that take effect at their response) *)
Theorem tagged_linpoint_form_implies_textbook_form :
  forall (op res state : Type) (sstep : state -> op -> res -> state -> Prop) (late : op -> res -> Prop)
         (s0 : state) (h : list (tev op res)) (s' : state),
    twf late h -> legal sstep s0 (treplay h) s' ->
    hist_wf fst (vnumber h) /\ linearizable_to sstep s0 (vnumber h) s'.
Proof. exact @tagged_textbook. Qed.
Print Assumptions tagged_linpoint_form_implies_textbook_form.

(* the numbered history is the recorded one: erasing the numbers gives back the Call / Ret events *)
Theorem numbering_is_faithful :
  forall (op res : Type) (h : list (tev op res)),
    map (untag op res) (vnumber h) = rev (filter (tvis op res) h).
Proof. exact vnumber_faithful. Qed.
Print Assumptions numbering_is_faithful.

(* what the definition rejects: a history in which a completed call returned a value the
   specification cannot produce (in any state) ... *)
Theorem textbook_rejects_impossible_result :
  forall (id op res state : Type) (sstep : state -> op -> res -> state -> Prop)
         (s0 : state) (h : list (event id op res)) (i : id) (o : op) (r : res),
    In (Res i r) h -> (forall o', In (Inv i o') h -> o' = o) ->
    (forall s s', ~ sstep s o r s') -> ~ linearizable sstep s0 h.
Proof. exact impossible_result_rejected. Qed.
Print Assumptions textbook_rejects_impossible_result.

(* ... or, for a call alone in the history, cannot produce in the initial state *)
Theorem textbook_rejects_single_call :
  forall (id op res state : Type) (sstep : state -> op -> res -> state -> Prop)
         (s0 : state) (i : id) (o : op) (r : res),
    (forall s', ~ sstep s0 o r s') -> ~ linearizable sstep s0 [Inv i o; Res i r].
Proof. exact single_call_rejected. Qed.
Print Assumptions textbook_rejects_single_call.

(* ... or, for two calls one after the other, cannot produce in the state the first one leaves
   (e.g. an Enqueue that succeeds on the full blocking queue: props/C07_linz.v) *)
Theorem textbook_rejects_two_calls :
  forall (id op res state : Type) (sstep : state -> op -> res -> state -> Prop)
         (s0 : state) (a : id) (oa : op) (ra : res) (b : id) (ob : op) (rb : res),
    a <> b ->
    (forall s1 s2, sstep s0 oa ra s1 -> ~ sstep s1 ob rb s2) ->
    ~ linearizable sstep s0 [Inv a oa; Res a ra; Inv b ob; Res b rb].
Proof. exact two_calls_rejected. Qed.
Print Assumptions textbook_rejects_two_calls.

(* ===================== 1. lock-bracketed objects, generically ===================== *)
Theorem locked_object_linearizable_textbook :
  forall (state op ret : Type) (seq_step : state -> op -> state * ret) (excl mutating : op -> bool),
    (forall o, mutating o = true -> excl o = true) ->
    (forall s o, mutating o = false -> fst (seq_step s o) = s) ->
    forall s0 evs c, exec (lk_step seq_step excl) (sys_init (lk_init s0)) evs = Some c ->
      hist_wf fst (ls_history (s_hist c)) /\
      linearizable_to (fun_step seq_step) s0 (ls_history (s_hist c)) (lk_st (s_sh c)).
Proof. exact locked_object_textbook_lemma. Qed.
Print Assumptions locked_object_linearizable_textbook.

(* ===================== 2. ConcurrentPriorityQueue, ConcurrentList ===================== *)
Theorem cpq_linearizable_textbook :
  forall capacity items evs c, exec cpq_step (cpq_init capacity items) evs = Some c ->
    hist_wf fst (ls_history (s_hist c)) /\
    linearizable_to (fun_step pq_seq_step) (lk_st (s_sh (cpq_init capacity items)))
                    (ls_history (s_hist c)) (lk_st (s_sh c)).
Proof. exact cpq_textbook_lemma. Qed.
Print Assumptions cpq_linearizable_textbook.

Theorem cpq_linearizable_textbook_witness :
  forall capacity items evs c, exec cpq_step (cpq_init capacity items) evs = Some c ->
    hist_wf fst (ls_history (s_hist c)) /\
    linearization_of (fun_step pq_seq_step) (lk_st (s_sh (cpq_init capacity items)))
                     (ls_history (s_hist c)) (lk_st (s_sh c)) (twitness (ls_tagged (s_hist c))).
Proof. exact cpq_witness_lemma. Qed.
Print Assumptions cpq_linearizable_textbook_witness.

Theorem clist_linearizable_textbook :
  forall items evs c, exec clist_step (clist_init items) evs = Some c ->
    hist_wf fst (ls_history (s_hist c)) /\
    linearizable_to (fun_step ls_seq_step) items (ls_history (s_hist c)) (lk_st (s_sh c)).
Proof. exact clist_textbook_lemma. Qed.
Print Assumptions clist_linearizable_textbook.

Theorem clist_linearizable_textbook_witness :
  forall items evs c, exec clist_step (clist_init items) evs = Some c ->
    hist_wf fst (ls_history (s_hist c)) /\
    linearization_of (fun_step ls_seq_step) items (ls_history (s_hist c)) (lk_st (s_sh c))
                     (twitness (ls_tagged (s_hist c))).
Proof. exact clist_witness_lemma. Qed.
Print Assumptions clist_linearizable_textbook_witness.

(* ===================== 3. CopyOnWriteArrayList ===================== *)
Theorem cow_linearizable_textbook :
  forall items evs c, exec cow_step (cow_init items) evs = Some c ->
    hist_wf fst (ls_history (s_hist c)) /\
    linearizable_to (fun_step ls_seq_step) items (ls_history (s_hist c)) (cw_vals (s_sh c)).
Proof. exact cow_textbook_lemma. Qed.
Print Assumptions cow_linearizable_textbook.

Theorem cow_linearizable_textbook_witness :
  forall items evs c, exec cow_step (cow_init items) evs = Some c ->
    hist_wf fst (ls_history (s_hist c)) /\
    linearization_of (fun_step ls_seq_step) items (ls_history (s_hist c)) (cw_vals (s_sh c))
                     (twitness (ls_tagged (s_hist c))).
Proof. exact cow_witness_lemma. Qed.
Print Assumptions cow_linearizable_textbook_witness.

(* ===================== 4. syncx.Map ===================== *)
Theorem syncmap_linearizable_textbook :
  forall m0 evs c, exec sm_step (sm_init m0) evs = Some c ->
    hist_wf fst (ls_history (s_hist c)) /\
    linearizable_to (fun_step sm_seq_step) m0 (ls_history (s_hist c)) (s_sh c).
Proof. exact syncmap_textbook_lemma. Qed.
Print Assumptions syncmap_linearizable_textbook.

Theorem syncmap_linearizable_textbook_witness :
  forall m0 evs c, exec sm_step (sm_init m0) evs = Some c ->
    hist_wf fst (ls_history (s_hist c)) /\
    linearization_of (fun_step sm_seq_step) m0 (ls_history (s_hist c)) (s_sh c)
                     (twitness (ls_tagged (s_hist c))).
Proof. exact syncmap_witness_lemma. Qed.
Print Assumptions syncmap_linearizable_textbook_witness.

(* ===================== non-vacuity ===================== *)
Local Open Scope nat_scope.

(* CopyOnWriteArrayList, two goroutines with OVERLAPPING calls: T1 Get(2) takes its snapshot, T2
   Delete(0) runs to completion, then T1 indexes its snapshot and returns 30.  In the visible
   history Get is invoked first and returns last, neither call precedes the other; the witness
   orders Get (linearised at its snapshot) before Delete, and it is a linearization. *)
Definition linz_cow_sched : list (sys_ev ls_op) :=
  [ECall 1 (LGet 2%Z); EStep 1; EStep 1; EStep 1; EStep 1; ECall 2 (LDelete 0%Z)] ++
  repeat (EStep 2) 18 ++ [EStep 1; EStep 1; EStep 1].
Definition linz_cow_hist : list (event opid ls_op ls_ret) :=
  [Inv (1, 0) (LGet 2%Z); Inv (2, 0) (LDelete 0%Z);
   Res (2, 0) (LRVal (Ok 10%Z)); Res (1, 0) (LRVal (Ok 30%Z))].
Definition linz_cow_S : list (call opid ls_op ls_ret) :=
  [((1, 0), LGet 2%Z, LRVal (Ok 30%Z)); ((2, 0), LDelete 0%Z, LRVal (Ok 10%Z))].

Example cow_textbook_nonvacuous :
  exists c, exec cow_step (cow_init [10; 20; 30]%Z) linz_cow_sched = Some c /\
            ls_history (s_hist c) = linz_cow_hist /\
            twitness (ls_tagged (s_hist c)) = linz_cow_S /\
            cw_vals (s_sh c) = [20; 30]%Z /\
            linearization_of (fun_step ls_seq_step) [10; 20; 30]%Z linz_cow_hist [20; 30]%Z linz_cow_S.
Proof.
  remember (exec cow_step (cow_init [10; 20; 30]%Z) linz_cow_sched) as r eqn:E.
  pose proof E as E0. vm_compute in E.
  match type of E with _ = Some ?c0 => exists c0 end.
  assert (He : exec cow_step (cow_init [10; 20; 30]%Z) linz_cow_sched = Some
                 match r with Some c => c | None => sys_init {| cw_vals := []; cw_mu := false |} end)
    by (rewrite <- E0, E; reflexivity).
  split; [exact E|]. split; [reflexivity|]. split; [reflexivity|]. split; [reflexivity|].
  rewrite E in He. exact (proj2 (cow_witness_lemma _ _ _ He)).
Qed.

(* ... and the order matters: Delete before Get is NOT a legal sequential history with these results *)
Example cow_other_order_illegal :
  forall s', ~ legal (fun_step ls_seq_step) [10; 20; 30]%Z
                     [(LDelete 0%Z, LRVal (Ok 10%Z)); (LGet 2%Z, LRVal (Ok 30%Z))] s'.
Proof.
  intros s' H. inversion H as [|? ? ? s1 ? ? H1 H2]; subst.
  inversion H2 as [|? ? ? s2 ? ? H3 H4]; subst.
  unfold fun_step in H1, H3. vm_compute in H1. injection H1 as <-. vm_compute in H3. discriminate H3.
Qed.

(* syncx.Map: LoadOrStoreFunc(1, fn = 7) misses in its Load and runs fn; T2 stores (1, 9) and returns
   meanwhile; the LoadOrStore half then finds 9.  The witness puts the Store first although
   LoadOrStoreFunc was invoked before it. *)
Definition linz_sm_sched : list (sys_ev sm_op) :=
  [ECall 1 (MLoadOrStoreFunc 1%Z 7%Z false)] ++ repeat (EStep 1) 7 ++
  [ECall 2 (MStore 1%Z 9%Z); EStep 2] ++ repeat (EStep 1) 6.

Example syncmap_textbook_nonvacuous :
  option_map (fun c => (ls_history (s_hist c), twitness (ls_tagged (s_hist c)), s_sh c))
             (exec sm_step (sm_init []) linz_sm_sched)
  = Some ([Inv (1, 0) (MLoadOrStoreFunc 1%Z 7%Z false); Inv (2, 0) (MStore 1%Z 9%Z);
           Res (2, 0) MRUnit; Res (1, 0) (MRVal 9%Z true false)],
          [((2, 0), MStore 1%Z 9%Z, MRUnit);
           ((1, 0), MLoadOrStoreFunc 1%Z 7%Z false, MRVal 9%Z true false)],
          [(1%Z, 9%Z)]).
Proof. vm_compute. reflexivity. Qed.

(* ConcurrentPriorityQueue (unbounded, holding 3): T1 Enqueue(5) and T2 Dequeue overlap, T2's second
   Dequeue follows both: it is after them in the witness (real-time order), and goroutine 2's calls
   are numbered (2,0), (2,1) *)
Definition linz_cpq_sched : list (sys_ev pq_op) :=
  [ECall 1 (PQEnqueue 5%Z); ECall 2 PQDequeue; EStep 2; EStep 2; EStep 2; EStep 2;
   EStep 1; EStep 1; EStep 1; EStep 1; ECall 2 PQDequeue; EStep 2; EStep 2; EStep 2; EStep 2].

Example cpq_textbook_nonvacuous :
  option_map (fun c => (ls_history (s_hist c), twitness (ls_tagged (s_hist c)), pq_items (lk_st (s_sh c))))
             (exec cpq_step (cpq_init 0%Z [3%Z]) linz_cpq_sched)
  = Some ([Inv (1, 0) (PQEnqueue 5%Z); Inv (2, 0) PQDequeue;
           Res (2, 0) (PRVal (Ok 3%Z)); Res (1, 0) (PRErr (Ok tt));
           Inv (2, 1) PQDequeue; Res (2, 1) (PRVal (Ok 5%Z))],
          [((2, 0), PQDequeue, PRVal (Ok 3%Z)); ((1, 0), PQEnqueue 5%Z, PRErr (Ok tt));
           ((2, 1), PQDequeue, PRVal (Ok 5%Z))],
          []).
Proof. vm_compute. reflexivity. Qed.

(* the definition rejects: Get(0) returning 5 from the empty list *)
Example clist_textbook_rejects_invented_value :
  ~ linearizable (fun_step ls_seq_step) [] [Inv (1, 0) (LGet 0%Z); Res (1, 0) (LRVal (Ok 5%Z))].
Proof.
  apply single_call_rejected. intros s' H. unfold fun_step in H. vm_compute in H. discriminate H.
Qed.

(* ===================== 5. ConcurrentLinkedQueue, through the same library ===================== *)
(* props/C06_clq.v states the textbook form of the lock-free queue with the definitions of
   proof/CLQLinz.v; the same conclusion in the vocabulary shared by all objects, from the same
   linearisation-point theorem [clq_linearizable] *)
Module CLQ.
Import CLQModel CLQProof3 LinzInst4.

Theorem clq_linearizable_textbook_generic :
  forall evs c, clq_reach evs c ->
    hist_wf fst (clq_history (q_hist c)) /\
    linearizable_to (fun_step (fun s o => fifo_spec o s)) [] (clq_history (q_hist c)) (clq_abs c).
Proof. exact clq_textbook_lemma. Qed.
Print Assumptions clq_linearizable_textbook_generic.

(* T1 Enqueue(7) is parked between its link CAS and its tail CAS; T2's Dequeue answers "empty" and
   returns; T1 returns; T2 dequeues 7 (the schedule of props/C06_clq.v): the first Dequeue overlaps
   the Enqueue and is ordered BEFORE it in the witness *)
Example clq_textbook_nonvacuous :
  option_map (fun c => (clq_history (q_hist c), twitness (clq_tagged (q_hist c)), clq_abs c))
             (exec clq_step clq_init
                (QCallEnq 1 7%Z :: repeat (QStep 1) 8 ++ QCallDeq 2 :: repeat (QStep 2) 7 ++
                 repeat (QStep 1) 2 ++ QCallDeq 2 :: repeat (QStep 2) 10))
  = Some ([Inv (1, 0) (OpEnq 7%Z); Inv (2, 0) OpDeq; Res (2, 0) (RDeq None); Res (1, 0) REnq;
           Inv (2, 1) OpDeq; Res (2, 1) (RDeq (Some 7%Z))],
          [((2, 0), OpDeq, RDeq None); ((1, 0), OpEnq 7%Z, REnq); ((2, 1), OpDeq, RDeq (Some 7%Z))],
          []).
Proof. vm_compute. reflexivity. Qed.
End CLQ.
