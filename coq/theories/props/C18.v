(* C18 — encrypted and JSON SQL columns round-trip exactly and reject bad input.
   Only statements here; every proof is `exact <lemma>` from proof/ColumnProof.v.

   LEVEL: proof, PARTIAL — cryptography and JSON are hypotheses.
   * The byte-level codec theorems (codec_...) and the "never panics" / error-path
     theorems need NO hypothesis.
   * AES-GCM is abstract (`seal`, `open`).  Premises used, each named where it is used:
       aead_correct   : open k n (seal k n m) = Some m              (true of AES-GCM)
       aead_only_seal : open k n c = Some m -> c = seal k n m       (true of AES-GCM as a function)
       aead_length    : |seal k n m| = |m| + 16                     (true of AES-GCM)
       aead_int_ctxt  : open k n c = Some m -> issued k n c         (IDEAL WORLD: only what the
                        encryption oracle has issued opens.  For AES-GCM this is a computational
                        assumption — forgery probability ~ q*l/2^128, and false for a key with
                        AES_k(0) = 0 — it can be assumed, not proved.)
   * encoding/json is abstract (`json_enc`, `json_dec`); json_roundtrips says
     Unmarshal(Marshal x) into the ZERO value gives x for the "JSON-representable" x.
   * The nonce is an input (crypto/rand oracle); its freshness is assumed, not proved. *)
From Ekit Require Import Common ColumnModel ColumnProof.

(* ================= the byte-level contract: no hypothesis ================= *)
(* all kinds at once: decode (encode z) = z, exact length, real bytes *)
Theorem codec_roundtrip : forall k z, in_range k z = true ->
  decode_num k (encode_num k z) = COk z /\
  length (encode_num k z) = nbytes k /\
  Forall (fun b => 0 <= b < 256) (encode_num k z).
Proof. exact codec_roundtrip_lemma. Qed.
Print Assumptions codec_roundtrip.

Theorem codec_roundtrip_int8 : forall z, -128 <= z < 128 ->
  decode_num NI8 (encode_num NI8 z) = COk z /\ length (encode_num NI8 z) = 1%nat.
Proof. exact codec_int8_lemma. Qed.
Print Assumptions codec_roundtrip_int8.
Theorem codec_roundtrip_int16 : forall z, -32768 <= z < 32768 ->
  decode_num NI16 (encode_num NI16 z) = COk z /\ length (encode_num NI16 z) = 2%nat.
Proof. exact codec_int16_lemma. Qed.
Print Assumptions codec_roundtrip_int16.
Theorem codec_roundtrip_int32 : forall z, - 2 ^ 31 <= z < 2 ^ 31 ->
  decode_num NI32 (encode_num NI32 z) = COk z /\ length (encode_num NI32 z) = 4%nat.
Proof. exact codec_int32_lemma. Qed.
Print Assumptions codec_roundtrip_int32.
Theorem codec_roundtrip_int64 : forall z, - 2 ^ 63 <= z < 2 ^ 63 ->
  decode_num NI64 (encode_num NI64 z) = COk z /\ length (encode_num NI64 z) = 8%nat.
Proof. exact codec_int64_lemma. Qed.
Print Assumptions codec_roundtrip_int64.
Theorem codec_roundtrip_int : forall z, - 2 ^ 63 <= z < 2 ^ 63 ->
  decode_num NInt (encode_num NInt z) = COk z /\ length (encode_num NInt z) = 8%nat.
Proof. exact codec_int_lemma. Qed.
Print Assumptions codec_roundtrip_int.
Theorem codec_roundtrip_uint8 : forall z, 0 <= z < 256 ->
  decode_num NU8 (encode_num NU8 z) = COk z /\ length (encode_num NU8 z) = 1%nat.
Proof. exact codec_uint8_lemma. Qed.
Print Assumptions codec_roundtrip_uint8.
Theorem codec_roundtrip_uint16 : forall z, 0 <= z < 65536 ->
  decode_num NU16 (encode_num NU16 z) = COk z /\ length (encode_num NU16 z) = 2%nat.
Proof. exact codec_uint16_lemma. Qed.
Print Assumptions codec_roundtrip_uint16.
Theorem codec_roundtrip_uint32 : forall z, 0 <= z < 2 ^ 32 ->
  decode_num NU32 (encode_num NU32 z) = COk z /\ length (encode_num NU32 z) = 4%nat.
Proof. exact codec_uint32_lemma. Qed.
Print Assumptions codec_roundtrip_uint32.
Theorem codec_roundtrip_uint64 : forall z, 0 <= z < 2 ^ 64 ->
  decode_num NU64 (encode_num NU64 z) = COk z /\ length (encode_num NU64 z) = 8%nat.
Proof. exact codec_uint64_lemma. Qed.
Print Assumptions codec_roundtrip_uint64.
Theorem codec_roundtrip_uint : forall z, 0 <= z < 2 ^ 64 ->
  decode_num NUint (encode_num NUint z) = COk z /\ length (encode_num NUint z) = 8%nat.
Proof. exact codec_uint_lemma. Qed.
Print Assumptions codec_roundtrip_uint.
(* floats travel as their IEEE-754 bit pattern: every pattern, NaN payloads included *)
Theorem codec_roundtrip_float32 : forall z, 0 <= z < 2 ^ 32 ->
  decode_num NF32 (encode_num NF32 z) = COk z /\ length (encode_num NF32 z) = 4%nat.
Proof. exact codec_float32_lemma. Qed.
Print Assumptions codec_roundtrip_float32.
Theorem codec_roundtrip_float64 : forall z, 0 <= z < 2 ^ 64 ->
  decode_num NF64 (encode_num NF64 z) = COk z /\ length (encode_num NF64 z) = 8%nat.
Proof. exact codec_float64_lemma. Qed.
Print Assumptions codec_roundtrip_float64.

(* the other direction: decoding yields a value of the type whose encoding is exactly
   the bytes that were read (so the codec is a bijection values <-> width-byte strings) *)
Theorem codec_decode_encode : forall k m z, Forall (fun b => 0 <= b < 256) m ->
  decode_num k m = COk z -> encode_num k z = firstn (nbytes k) m.
Proof. exact encode_decode. Qed.
Print Assumptions codec_decode_encode.
Theorem codec_decode_in_range : forall k m z, Forall (fun b => 0 <= b < 256) m ->
  decode_num k m = COk z -> in_range k z = true.
Proof. exact decode_in_range. Qed.
Print Assumptions codec_decode_in_range.

(* binary.Read: a buffer that is too short is an error (EOF / ErrUnexpectedEOF), a buffer
   that is too long is read as its prefix, silently *)
Theorem codec_short_is_error : forall k m, (length m < nbytes k)%nat ->
  decode_num k m = CErr (match m with [] => CEOF | _ => CUnexpectedEOF end).
Proof. exact decode_short. Qed.
Print Assumptions codec_short_is_error.
Theorem codec_long_reads_prefix : forall k m, (nbytes k <= length m)%nat ->
  decode_num k m = decode_num k (firstn (nbytes k) m).
Proof. exact decode_long. Qed.
Print Assumptions codec_long_reads_prefix.

(* ================= Scan (Value x) = x ================= *)
(* every supported T (the constructor of x), every value of T, every valid key, every
   12-byte nonce, every destination column of the same T (a JSON-typed destination must
   hold the zero value: json.Unmarshal merges into what is there), both source types *)
Theorem value_scan_roundtrip :
  forall (V : Type) (json_enc : V -> option bytes) (json_dec : V -> bytes -> V * bool)
         (seal : bytes -> bytes -> bytes -> bytes) (open : bytes -> bytes -> bytes -> option bytes)
         (zeroV : V) (json_rep : V -> Prop),
  aead_correct seal open ->
  json_roundtrips V json_enc json_dec zeroV json_rep ->
  forall (x : cval V) (k n : bytes) (c0 : column V) (s : src),
  val_ok V json_rep x ->
  key_ok k = true ->
  length n = nonce_size ->
  same_ty (val c0) x = true ->
  ckey c0 = k ->
  fresh_dst V zeroV (val c0) ->
  exists pt stored : bytes,
    encode V json_enc x = COk pt /\
    value V json_enc seal n {| val := x; valid := true; ckey := k |} = COk stored /\
    stored = n ++ seal k n pt /\
    (is_data s stored ->
     scan V json_dec open false c0 s = ({| val := x; valid := true; ckey := k |}, SOk)).
Proof. exact value_scan_roundtrip_lemma. Qed.
Print Assumptions value_scan_roundtrip.

(* the stored value is nonce(12) ++ ciphertext ++ tag(16) *)
Theorem value_length :
  forall (V : Type) (json_enc : V -> option bytes) (seal : bytes -> bytes -> bytes -> bytes),
  aead_length seal ->
  forall (n : bytes) (c : column V) (stored : bytes),
  length n = nonce_size ->
  value V json_enc seal n c = COk stored ->
  exists pt : bytes,
    encode V json_enc (val c) = COk pt /\
    length stored = (nonce_size + length pt + tag_size)%nat /\
    firstn nonce_size stored = n.
Proof. exact value_length_lemma. Qed.
Print Assumptions value_length.

(* two encryptions of the same column with different nonces differ (no hypothesis:
   the nonce is the first 12 bytes).  That two calls draw different nonces is
   crypto/rand's business (collision probability 2^-96 per pair), assumed. *)
Theorem fresh_nonce_gives_distinct_ciphertexts :
  forall (V : Type) (json_enc : V -> option bytes) (seal : bytes -> bytes -> bytes -> bytes)
         (n1 n2 : bytes) (c : column V) (s1 s2 : bytes),
  length n1 = nonce_size ->
  length n2 = nonce_size ->
  n1 <> n2 ->
  value V json_enc seal n1 c = COk s1 ->
  value V json_enc seal n2 c = COk s2 ->
  s1 <> s2 /\ firstn nonce_size s1 = n1 /\ firstn nonce_size s2 = n2.
Proof. exact fresh_nonce_lemma. Qed.
Print Assumptions fresh_nonce_gives_distinct_ciphertexts.

(* ================= bad input is an error ================= *)
(* functional ideal AEAD: whatever is not nonce ++ seal key nonce m (for some m) is
   rejected and the column is left untouched *)
Theorem tampered_is_error :
  forall (V : Type) (json_dec : V -> bytes -> V * bool)
         (seal : bytes -> bytes -> bytes -> bytes) (open : bytes -> bytes -> bytes -> option bytes),
  aead_only_seal seal open ->
  forall (c : column V) (s : src) (b : bytes),
  is_data s b ->
  (forall n m : bytes, length n = nonce_size -> b <> n ++ seal (ckey c) n m) ->
  exists e : cerr,
    scan V json_dec open false c s = (c, SErr e) /\ (e = CKeyLen \/ e = CShort \/ e = CAuth).
Proof. exact tampered_is_error_lemma. Qed.
Print Assumptions tampered_is_error.

(* conversely a Scan that succeeds has read nonce ++ seal key nonce m, and Val is what
   the codec makes of m *)
Theorem scan_ok_only_on_sealed :
  forall (V : Type) (json_dec : V -> bytes -> V * bool)
         (seal : bytes -> bytes -> bytes -> bytes) (open : bytes -> bytes -> bytes -> option bytes),
  aead_only_seal seal open ->
  forall (c : column V) (s : src) (b : bytes) (c' : column V),
  is_data s b ->
  scan V json_dec open false c s = (c', SOk) ->
  key_ok (ckey c) = true /\
  (exists n m : bytes,
     length n = nonce_size /\
     b = n ++ seal (ckey c) n m /\
     set_val V json_dec (val c) m = (val c', SOk) /\ valid c' = true /\ ckey c' = ckey c).
Proof. exact scan_ok_inv. Qed.
Print Assumptions scan_ok_only_on_sealed.

(* every string shorter than nonce + tag (every truncation to fewer than 28 bytes) *)
Theorem too_short_for_tag_is_error :
  forall (V : Type) (json_dec : V -> bytes -> V * bool)
         (seal : bytes -> bytes -> bytes -> bytes) (open : bytes -> bytes -> bytes -> option bytes),
  aead_only_seal seal open ->
  aead_length seal ->
  forall (c : column V) (s : src) (b : bytes),
  is_data s b ->
  (length b < nonce_size + tag_size)%nat ->
  exists e : cerr, scan V json_dec open false c s = (c, SErr e).
Proof. exact too_short_for_tag_lemma. Qed.
Print Assumptions too_short_for_tag_is_error.

(* ideal world of ciphertext integrity: what was not issued under this key is rejected *)
Theorem unissued_is_error :
  forall (V : Type) (json_dec : V -> bytes -> V * bool)
         (open : bytes -> bytes -> bytes -> option bytes) (issued : bytes -> bytes -> bytes -> Prop),
  aead_int_ctxt open issued ->
  forall (c : column V) (s : src) (b : bytes),
  is_data s b ->
  ~ issued (ckey c) (firstn nonce_size b) (skipn nonce_size b) ->
  exists e : cerr,
    scan V json_dec open false c s = (c, SErr e) /\ (e = CKeyLen \/ e = CShort \/ e = CAuth).
Proof. exact unissued_is_error_lemma. Qed.
Print Assumptions unissued_is_error.

(* ... hence, when stored0 is all that was ever issued under the key, ANY other string *)
Theorem changed_is_error :
  forall (V : Type) (json_dec : V -> bytes -> V * bool)
         (open : bytes -> bytes -> bytes -> option bytes) (issued : bytes -> bytes -> bytes -> Prop),
  aead_int_ctxt open issued ->
  forall (c : column V) (s : src) (stored0 b : bytes),
  is_data s b ->
  (forall n ct : bytes, issued (ckey c) n ct -> n ++ ct = stored0) ->
  b <> stored0 ->
  exists e : cerr,
    scan V json_dec open false c s = (c, SErr e) /\ (e = CKeyLen \/ e = CShort \/ e = CAuth).
Proof. exact changed_is_error_lemma. Qed.
Print Assumptions changed_is_error.

(* ... every truncation length 0 .. n-1 *)
Theorem truncated_is_error :
  forall (V : Type) (json_dec : V -> bytes -> V * bool)
         (open : bytes -> bytes -> bytes -> option bytes) (issued : bytes -> bytes -> bytes -> Prop),
  aead_int_ctxt open issued ->
  forall (c : column V) (s : src) (stored0 : bytes) (l : nat),
  (l < length stored0)%nat ->
  is_data s (firstn l stored0) ->
  (forall n ct : bytes, issued (ckey c) n ct -> n ++ ct = stored0) ->
  exists e : cerr, scan V json_dec open false c s = (c, SErr e).
Proof. exact truncated_is_error_lemma. Qed.
Print Assumptions truncated_is_error.

(* ... every extension *)
Theorem extended_is_error :
  forall (V : Type) (json_dec : V -> bytes -> V * bool)
         (open : bytes -> bytes -> bytes -> option bytes) (issued : bytes -> bytes -> bytes -> Prop),
  aead_int_ctxt open issued ->
  forall (c : column V) (s : src) (stored0 x : bytes),
  x <> [] ->
  is_data s (stored0 ++ x) ->
  (forall n ct : bytes, issued (ckey c) n ct -> n ++ ct = stored0) ->
  exists e : cerr, scan V json_dec open false c s = (c, SErr e).
Proof. exact extended_is_error_lemma. Qed.
Print Assumptions extended_is_error.

(* ... every single-bit flip (nonce, body or tag) *)
Theorem bitflip_is_error :
  forall (V : Type) (json_dec : V -> bytes -> V * bool)
         (open : bytes -> bytes -> bytes -> option bytes) (issued : bytes -> bytes -> bytes -> Prop),
  aead_int_ctxt open issued ->
  forall (c : column V) (s : src) (stored0 : bytes) (i : nat),
  (i < 8 * length stored0)%nat ->
  is_data s (flip_bit i stored0) ->
  (forall n ct : bytes, issued (ckey c) n ct -> n ++ ct = stored0) ->
  exists e : cerr, scan V json_dec open false c s = (c, SErr e).
Proof. exact bitflip_is_error_lemma. Qed.
Print Assumptions bitflip_is_error.

(* ... and a key under which nothing was issued (the wrong key) rejects everything *)
Theorem wrong_key_is_error :
  forall (V : Type) (json_dec : V -> bytes -> V * bool)
         (open : bytes -> bytes -> bytes -> option bytes) (issued : bytes -> bytes -> bytes -> Prop),
  aead_int_ctxt open issued ->
  forall (c : column V) (s : src) (b : bytes),
  is_data s b ->
  (forall n ct : bytes, ~ issued (ckey c) n ct) ->
  exists e : cerr, scan V json_dec open false c s = (c, SErr e).
Proof. exact wrong_key_is_error_lemma. Qed.
Print Assumptions wrong_key_is_error.

(* ================= no hypothesis at all ================= *)
Theorem scan_never_panics :
  forall (V : Type) (json_dec : V -> bytes -> V * bool)
         (open : bytes -> bytes -> bytes -> option bytes) (c : column V) (s : src),
  snd (scan V json_dec open false c s) <> SPanic.
Proof. exact scan_never_panics_lemma. Qed.
Print Assumptions scan_never_panics.

Theorem value_never_panics :
  forall (V : Type) (json_enc : V -> option bytes) (seal : bytes -> bytes -> bytes -> bytes)
         (n : bytes) (c : column V),
  value V json_enc seal n c <> CPanic.
Proof. exact value_never_panics_lemma. Qed.
Print Assumptions value_never_panics.

(* fewer bytes than the nonce: errCiphertextTooShort, column untouched *)
Theorem scan_short_is_error_now :
  forall (V : Type) (json_dec : V -> bytes -> V * bool)
         (open : bytes -> bytes -> bytes -> option bytes) (c : column V) (s : src) (b : bytes),
  is_data s b ->
  key_ok (ckey c) = true ->
  (length b < nonce_size)%nat ->
  scan V json_dec open false c s = (c, SErr CShort).
Proof. exact scan_short_is_error. Qed.
Print Assumptions scan_short_is_error_now.

(* the code BEFORE the fix 5aaa1ca (pinned variant): scan_never_panics is refuted —
   every input shorter than the nonce panics under every valid key *)
Theorem scan_short_panics_refuted :
  forall (V : Type) (json_dec : V -> bytes -> V * bool)
         (open : bytes -> bytes -> bytes -> option bytes) (c : column V) (s : src) (b : bytes),
  is_data s b ->
  key_ok (ckey c) = true ->
  (length b < nonce_size)%nat ->
  snd (scan V json_dec open true c s) = SPanic.
Proof. exact scan_pinned_short_panics. Qed.
Print Assumptions scan_short_panics_refuted.

Theorem scan_wrong_key_length_is_error :
  forall (V : Type) (json_dec : V -> bytes -> V * bool)
         (open : bytes -> bytes -> bytes -> option bytes) (c : column V) (s : src) (b : bytes),
  is_data s b -> key_ok (ckey c) = false ->
  scan V json_dec open false c s = (c, SErr CKeyLen).
Proof. exact scan_bad_key. Qed.
Print Assumptions scan_wrong_key_length_is_error.

Theorem scan_wrong_src_type_is_error :
  forall (V : Type) (json_dec : V -> bytes -> V * bool)
         (open : bytes -> bytes -> bytes -> option bytes) (c : column V) (s : src),
  s = SNil \/ s = SOther ->
  scan V json_dec open false c s = (c, SErr CSrcType).
Proof. exact scan_wrong_src. Qed.
Print Assumptions scan_wrong_src_type_is_error.

(* Valid = (error == nil) once decryption succeeded; an earlier error leaves the whole
   column (Val, Valid) as it was — a stale Valid = true is possible then, but the error is
   returned, which is what the property asks for.  The type of Val never changes. *)
Theorem scan_state_after :
  forall (V : Type) (json_dec : V -> bytes -> V * bool)
         (open : bytes -> bytes -> bytes -> option bytes)
         (c : column V) (s : src) (c' : column V) (r : sres),
  scan V json_dec open false c s = (c', r) ->
  ckey c' = ckey c /\
  same_ty (val c') (val c) = true /\
  match r with
  | SOk => valid c' = true
  | SErr e =>
      c' = c /\ (e = CSrcType \/ e = CKeyLen \/ e = CShort \/ e = CAuth) \/
      valid c' = false /\ (e = CEOF \/ e = CUnexpectedEOF \/ e = CJson)
  | SPanic => False
  end.
Proof. exact scan_state_lemma. Qed.
Print Assumptions scan_state_after.

(* Value() of an invalid EncryptColumn is the error errInvalid; of a column with a key
   that is not 16/24/32 bytes long errKeyLengthInvalid *)
Theorem encrypt_invalid_is_error :
  forall (V : Type) (json_enc : V -> option bytes) (seal : bytes -> bytes -> bytes -> bytes)
         (n : bytes) (c : column V),
  valid c = false -> value V json_enc seal n c = CErr CInvalid.
Proof. exact value_invalid_lemma. Qed.
Print Assumptions encrypt_invalid_is_error.

Theorem value_wrong_key_length_is_error :
  forall (V : Type) (json_enc : V -> option bytes) (seal : bytes -> bytes -> bytes -> bytes)
         (n : bytes) (c : column V),
  valid c = true -> key_ok (ckey c) = false -> value V json_enc seal n c = CErr CKeyLen.
Proof. exact value_bad_key_lemma. Qed.
Print Assumptions value_wrong_key_length_is_error.

(* ================= JsonColumn ================= *)
(* an invalid column is SQL NULL: (nil, nil) *)
Theorem invalid_is_null :
  forall (V : Type) (json_enc : V -> option bytes) (c : jcolumn V),
  jvalid c = false -> jvalue V json_enc c = COk None.
Proof. exact jvalue_invalid_lemma. Qed.
Print Assumptions invalid_is_null.

(* ... and scanning NULL back does not touch the column (so NULL scanned into a fresh
   column gives Valid = false; scanned into a re-used column it keeps the old content) *)
Theorem json_null_scan_keeps_column :
  forall (V : Type) (json_dec : V -> bytes -> V * bool) (c : jcolumn V),
  jscan V json_dec c SNil = (c, SOk).
Proof. exact jscan_nil_lemma. Qed.
Print Assumptions json_null_scan_keeps_column.

Theorem json_roundtrip :
  forall (V : Type) (json_enc : V -> option bytes) (json_dec : V -> bytes -> V * bool)
         (zeroV : V) (json_rep : V -> Prop),
  json_roundtrips V json_enc json_dec zeroV json_rep ->
  forall (x : V) (c0 : jcolumn V) (s : src),
  json_rep x ->
  jval c0 = zeroV ->
  exists b : bytes,
    jvalue V json_enc {| jval := x; jvalid := true |} = COk (Some b) /\
    (is_data s b -> jscan V json_dec c0 s = ({| jval := x; jvalid := true |}, SOk)).
Proof. exact json_roundtrip_lemma. Qed.
Print Assumptions json_roundtrip.

(* malformed JSON is the Unmarshal error with Valid unchanged; a source that is neither
   nil, []byte nor string is a type error with the column untouched *)
Theorem json_bad_input_is_error :
  forall (V : Type) (json_dec : V -> bytes -> V * bool) (c : jcolumn V) (s : src),
  match s with
  | SBytes b | SString b =>
      forall x' : V,
      json_dec (jval c) b = (x', false) ->
      jscan V json_dec c s = ({| jval := x'; jvalid := jvalid c |}, SErr CJson)
  | SNil => jscan V json_dec c s = (c, SOk)
  | SOther => jscan V json_dec c s = (c, SErr CSrcType)
  end.
Proof. exact json_bad_input_lemma. Qed.
Print Assumptions json_bad_input_is_error.

Theorem json_scan_never_panics :
  forall (V : Type) (json_dec : V -> bytes -> V * bool) (c : jcolumn V) (s : src),
  snd (jscan V json_dec c s) <> SPanic.
Proof. exact jscan_never_panics_lemma. Qed.
Print Assumptions json_scan_never_panics.

Theorem json_scan_valid_flag :
  forall (V : Type) (json_dec : V -> bytes -> V * bool) (c : jcolumn V) (s : src)
         (c' : jcolumn V) (r : sres),
  jscan V json_dec c s = (c', r) ->
  match r with
  | SOk => s = SNil /\ c' = c \/ jvalid c' = true
  | SErr _ => jvalid c' = jvalid c
  | SPanic => False
  end.
Proof. exact jscan_valid_iff. Qed.
Print Assumptions json_scan_valid_flag.

(* ================= non-vacuity ================= *)
(* the functional ideal-AEAD premises are satisfiable (toy AEAD), so is the ideal-world
   premise (decryption by look-up in the log of issued ciphertexts) together with the
   "stored0 is all that was issued" premise, and so is the JSON premise; with these
   instances the model computes a real round trip, a rejected truncation / bit flip /
   wrong key, and the panic of the pinned variant. *)
Example c18_nonvacuous :
  let key := repeat 7 16 in
  let nonce := [1;2;3;4;5;6;7;8;9;10;11;12] in
  let jenc := fun b : bool => Some (if b then [116;114;117;101] else [102;97;108;115;101]) in
  let jdec := fun (_ : bool) (m : bytes) =>
    if bytes_eqb m [116;114;117;101] then (true, true)
    else if bytes_eqb m [102;97;108;115;101] then (false, true) else (false, false) in
  let col := fun v => {| val := v; valid := true; ckey := key |} in
  let stored := nonce ++ toy_seal key nonce (encode_num NI32 (-2)) in
  let log := [(key, nonce, toy_seal key nonce (encode_num NI32 (-2)), encode_num NI32 (-2))] in
  aead_correct toy_seal toy_open /\ aead_only_seal toy_seal toy_open /\ aead_length toy_seal /\
  aead_int_ctxt (log_open log) (log_issued log) /\
  (forall n ct, log_issued log key n ct -> n ++ ct = stored) /\
  json_roundtrips bool jenc jdec false (fun _ => True) /\
  encode_num NI32 (-2) = [255;255;255;254] /\
  value bool jenc toy_seal nonce (col (VNum NI32 (-2))) = COk stored /\
  length stored = 32%nat /\
  scan bool jdec toy_open false (col (VNum NI32 5)) (SBytes stored) = (col (VNum NI32 (-2)), SOk) /\
  scan bool jdec (log_open log) false (col (VNum NI32 5)) (SBytes stored) = (col (VNum NI32 (-2)), SOk) /\
  scan bool jdec (log_open log) false (col (VNum NI32 5)) (SBytes (firstn 31 stored)) = (col (VNum NI32 5), SErr CAuth) /\
  scan bool jdec (log_open log) false (col (VNum NI32 5)) (SString (flip_bit 100 stored)) = (col (VNum NI32 5), SErr CAuth) /\
  scan bool jdec (log_open log) false {| val := VNum NI32 5; valid := true; ckey := repeat 8 16 |} (SBytes stored)
    = ({| val := VNum NI32 5; valid := true; ckey := repeat 8 16 |}, SErr CAuth) /\
  scan bool jdec toy_open false (col (VNum NI32 5)) (SBytes [1;2;3]) = (col (VNum NI32 5), SErr CShort) /\
  snd (scan bool jdec toy_open true (col (VNum NI32 5)) (SBytes [1;2;3])) = SPanic /\
  scan bool jdec toy_open false (col (VNum NInt 5)) (SBytes (nonce ++ toy_seal key nonce [1;2;3]))
    = ({| val := VNum NInt 0; valid := false; ckey := key |}, SErr CUnexpectedEOF) /\
  scan bool jdec toy_open false (col (VJson false)) (SBytes (nonce ++ toy_seal key nonce [116;114;117;101]))
    = (col (VJson true), SOk).
Proof.
  cbv zeta.
  split; [exact toy_correct|]. split; [exact toy_only_seal|]. split; [exact toy_length|].
  split; [apply log_int_ctxt|].
  split.
  { intros n ct [m [H|[]]]. now injection H as <- <- <-. }
  split.
  { intros [|] _; eexists; split; reflexivity. }
  repeat split; vm_compute; reflexivity.
Qed.
