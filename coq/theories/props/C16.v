(* C16 — slice, map and pair helpers compute the exact mathematical result.
   Only statements here; every proof is `exact <lemma>` from proof/SliceProof{,2,3}.v.
   All theorems hold for ALL inputs (slices of any length, any Z elements). *)
From Ekit Require Import Common SliceModel SliceProof SliceProof2 SliceProof3.
From Coq Require Import Permutation.

(* ================= set functions (map-based): exact set, no duplicates ================= *)
Theorem union_set_exact : forall src dst,
  NoDup (union_set src dst) /\ forall x, In x (union_set src dst) <-> In x src \/ In x dst.
Proof. exact (fun src dst => conj (union_set_NoDup_lemma src dst) (union_set_In_lemma src dst)). Qed.
Print Assumptions union_set_exact.

Theorem intersect_set_exact : forall src dst,
  NoDup (intersect_set src dst) /\ forall x, In x (intersect_set src dst) <-> In x src /\ In x dst.
Proof. exact (fun src dst => conj (intersect_set_NoDup_lemma src dst) (intersect_set_In_lemma src dst)). Qed.
Print Assumptions intersect_set_exact.

Theorem diff_set_exact : forall src dst,
  NoDup (diff_set src dst) /\ forall x, In x (diff_set src dst) <-> In x src /\ ~ In x dst.
Proof. exact (fun src dst => conj (diff_set_NoDup_lemma src dst) (diff_set_In_lemma src dst)). Qed.
Print Assumptions diff_set_exact.

Theorem symdiff_set_exact : forall src dst,
  NoDup (symdiff_set src dst) /\
  forall x, In x (symdiff_set src dst) <-> (In x src /\ ~ In x dst) \/ (~ In x src /\ In x dst).
Proof. exact (fun src dst => conj (symdiff_set_NoDup_lemma src dst) (symdiff_set_In_lemma src dst)). Qed.
Print Assumptions symdiff_set_exact.

Theorem contains_any_exact : forall src dst,
  contains_any src dst = true <-> exists x, In x src /\ In x dst.
Proof. exact contains_any_lemma. Qed.
Print Assumptions contains_any_exact.

Theorem contains_all_exact : forall src dst,
  contains_all src dst = true <-> forall x, In x dst -> In x src.
Proof. exact contains_all_lemma. Qed.
Print Assumptions contains_all_exact.

Theorem contains_exact : forall src x, contains src x = true <-> In x src.
Proof. exact contains_lemma. Qed.
Print Assumptions contains_exact.

Theorem contains_func_exact : forall src p, contains_func src p = true <-> exists x, In x src /\ p x = true.
Proof. exact contains_func_lemma. Qed.
Print Assumptions contains_func_exact.

(* ============ predicate-taking variants agree with the comparable ones (equal := ==) ============ *)
Theorem set_func_variants_agree : forall src dst x,
  (In x (union_set_func Z.eqb src dst) <-> In x (union_set src dst)) /\
  (In x (intersect_set_func Z.eqb src dst) <-> In x (intersect_set src dst)) /\
  (In x (diff_set_func Z.eqb src dst) <-> In x (diff_set src dst)) /\
  (In x (symdiff_set_func Z.eqb src dst) <-> In x (symdiff_set src dst)).
Proof.
  exact (fun src dst x => conj (union_set_func_In_lemma src dst x) (conj (intersect_set_func_In_lemma src dst x)
          (conj (diff_set_func_In_lemma src dst x) (symdiff_set_func_In_lemma src dst x)))).
Qed.
Print Assumptions set_func_variants_agree.

Theorem set_func_variants_nodup : forall src dst,
  NoDup (union_set_func Z.eqb src dst) /\ NoDup (intersect_set_func Z.eqb src dst) /\
  NoDup (diff_set_func Z.eqb src dst) /\ NoDup (symdiff_set_func Z.eqb src dst).
Proof. exact func_variants_NoDup_lemma. Qed.
Print Assumptions set_func_variants_nodup.

Theorem contains_func_variants_agree : forall src dst,
  contains_any_func Z.eqb src dst = contains_any src dst /\
  contains_all_func Z.eqb src dst = contains_all src dst.
Proof. exact (fun src dst => conj (contains_any_func_lemma src dst) (contains_all_func_lemma src dst)). Qed.
Print Assumptions contains_func_variants_agree.

(* deduplicateFunc keeps the LAST occurrence: appending v removes every earlier v *)
Theorem deduplicate_func_keeps_last : forall l v,
  deduplicate_func Z.eqb (l ++ [v]) = filter (fun y => negb (Z.eqb y v)) (deduplicate_func Z.eqb l) ++ [v].
Proof. exact deduplicate_func_snoc_lemma. Qed.
Print Assumptions deduplicate_func_keeps_last.

(* for EVERY equal function the result only contains input elements *)
Theorem deduplicate_func_sublist : forall equal l x, In x (deduplicate_func equal l) -> In x l.
Proof. exact deduplicate_func_incl. Qed.
Print Assumptions deduplicate_func_sublist.

(* ================= index / find / map ================= *)
(* Index = the first matching position, or -1 when nothing matches *)
Theorem index_first_match : forall mt l,
  (index_func mt l = -1 /\ forall x, In x l -> mt x = false) \/
  (exists n, index_func mt l = Z.of_nat n /\ matches_at mt l n = true /\
             forall j, (j < n)%nat -> matches_at mt l j = false).
Proof. exact index_func_lemma. Qed.
Print Assumptions index_first_match.

(* LastIndex never panics; = the last matching position, or -1 *)
Theorem last_index_last_match : forall mt l,
  (last_index_func mt l = Ok (-1) /\ forall x, In x l -> mt x = false) \/
  (exists i, (i < length l)%nat /\ last_index_func mt l = Ok (Z.of_nat i) /\ matches_at mt l i = true /\
             forall j, (i < j)%nat -> matches_at mt l j = false).
Proof. exact last_index_func_lemma. Qed.
Print Assumptions last_index_last_match.

(* IndexAll = exactly the matching positions, ascending *)
Theorem index_all_exact : forall mt l,
  index_all_func mt l = map Z.of_nat (filter (matches_at mt l) (seq 0 (length l))).
Proof. exact index_all_func_lemma. Qed.
Print Assumptions index_all_exact.

Theorem find_exact : forall mt l,
  find mt l = match List.find mt l with Some v => (v, true) | None => (0, false) end.
Proof. exact find_lemma. Qed.
Print Assumptions find_exact.

Theorem find_all_exact : forall mt l, find_all mt l = filter mt l.
Proof. exact find_all_lemma. Qed.
Print Assumptions find_all_exact.

Theorem map_exact : forall mf l, map_slice mf l = map (fun iv => mf (fst iv) (snd iv)) (enumerate l).
Proof. exact map_slice_lemma. Qed.
Print Assumptions map_exact.

Theorem filter_map_exact : forall mf mp l,
  filter_map mf mp l = map (fun iv => mf (fst iv) (snd iv)) (filter (fun iv => mp (fst iv) (snd iv)) (enumerate l)).
Proof. exact filter_map_lemma. Qed.
Print Assumptions filter_map_exact.

(* ================= reverse ================= *)
Theorem reverse_exact : forall l, reverse l = Ok (rev l).
Proof. exact reverse_lemma. Qed.
Print Assumptions reverse_exact.

Theorem reverse_involutive : forall l, obind (reverse l) reverse = Ok l.
Proof. exact reverse_involutive_lemma. Qed.
Print Assumptions reverse_involutive.

(* the in-place swap loop never panics, never runs out of fuel, and gives the same contents *)
Theorem reverse_self_exact : forall l, reverse_self l = Ok (rev l) /\ reverse_self l = reverse l.
Proof. exact (fun l => conj (reverse_self_lemma l) (reverse_self_same_lemma l)). Qed.
Print Assumptions reverse_self_exact.

(* ================= FilterDelete (in place) ================= *)
(* never panics; result = the elements whose (index, value) does not satisfy the predicate, in order;
   the argument afterwards = that result followed by the argument's own untouched tail *)
Theorem filter_delete_exact : forall mp src,
  let kept := map snd (filter (fun iv => negb (mp (fst iv) (snd iv))) (enumerate src)) in
  filter_delete mp src = Ok (kept, kept ++ skipn (length kept) src).
Proof. exact filter_delete_lemma. Qed.
Print Assumptions filter_delete_exact.

Theorem filter_delete_is_filter : forall p src,
  filter_delete (fun _ v => p v) src =
  Ok (filter (fun v => negb (p v)) src,
      filter (fun v => negb (p v)) src ++ skipn (length (filter (fun v => negb (p v)) src)) src).
Proof.
  exact (fun p src => eq_trans (filter_delete_lemma (fun _ v => p v) src)
           (f_equal (fun k => Ok (k, k ++ skipn (length k) src)) (fd_keep_noidx p src 0))).
Qed.
Print Assumptions filter_delete_is_filter.

(* ================= Add / Delete ================= *)
(* Add: an error exactly outside [0, len]; otherwise the insertion; never Panic *)
Theorem add_exact : forall src e index,
  add src e index =
  if (0 <=? index) && (index <=? Z.of_nat (length src))
  then Ok (firstn (Z.to_nat index) src ++ e :: skipn (Z.to_nat index) src)
  else Err EIndex.
Proof. exact add_lemma. Qed.
Print Assumptions add_exact.

(* what the caller's slice shows after Add (it is modified only through spare capacity) *)
Theorem add_argument_after : forall spare src e index,
  add_arg_after spare src e index =
  if spare && (0 <=? index) && (index <=? Z.of_nat (length src))
  then firstn (length src) (firstn (Z.to_nat index) src ++ e :: skipn (Z.to_nat index) src)
  else src.
Proof. exact add_arg_after_lemma. Qed.
Print Assumptions add_argument_after.

(* Delete: an error exactly outside [0, len); otherwise the removal; never Panic;
   the argument afterwards shows the result followed by its old last element *)
Theorem delete_exact : forall src index,
  match delete src index with
  | Ok (r, after) =>
      0 <= index < Z.of_nat (length src) /\
      r = firstn (Z.to_nat index) src ++ skipn (S (Z.to_nat index)) src /\
      after = r ++ [last src 0]
  | Err e => e = EIndex /\ (index < 0 \/ index >= Z.of_nat (length src))
  | Panic => False
  end.
Proof. exact delete_lemma. Qed.
Print Assumptions delete_exact.

Theorem add_delete_roundtrip : forall src e index r,
  add src e index = Ok r -> exists after, delete_internal r index = Ok (src, e, after).
Proof. exact add_delete_roundtrip_lemma. Qed.
Print Assumptions add_delete_roundtrip.

(* ================= aggregates ================= *)
(* Max / Min: an attained bound; Panic exactly on the empty slice (ts[0]) *)
Theorem max_exact : forall ts,
  match max_slice ts with
  | Ok m => In m ts /\ forall y, In y ts -> y <= m
  | Err _ => False
  | Panic => ts = []
  end.
Proof. exact max_slice_lemma. Qed.
Print Assumptions max_exact.

Theorem min_exact : forall ts,
  match min_slice ts with
  | Ok m => In m ts /\ forall y, In y ts -> m <= y
  | Err _ => False
  | Panic => ts = []
  end.
Proof. exact min_slice_lemma. Qed.
Print Assumptions min_exact.

(* Sum = the mathematical sum reduced to int64; exact when that sum fits (the stated bound) *)
Theorem sum_exact : forall ts,
  sum_slice ts = wrap_s 64 (zsum ts) /\ (in_s 64 (zsum ts) = true -> sum_slice ts = zsum ts).
Proof. exact (fun ts => conj (sum_slice_wrap_lemma ts) (sum_slice_exact_lemma ts)). Qed.
Print Assumptions sum_exact.

(* ================= maps ================= *)
(* later duplicates win, for mapx.ToMap and slice.ToMap / ToMapV alike *)
Theorem map_build_later_wins : forall kvs k,
  map_get k (map_build kvs) = option_map snd (List.find (fun kv => Z.eqb (fst kv) k) (rev kvs)).
Proof. exact map_build_get_lemma. Qed.
Print Assumptions map_build_later_wins.

Theorem slice_to_map_exact : forall fk fv l,
  to_map_v fk fv l = map_build (map (fun e => (fk e, fv e)) l) /\
  to_map fk l = map_build (map (fun e => (fk e, e)) l).
Proof. exact (fun fk fv l => conj (to_map_v_lemma fk fv l) (to_map_lemma fk l)). Qed.
Print Assumptions slice_to_map_exact.

(* mapx.ToMap: error exactly on nil / length mismatch; never Panic *)
Theorem mapx_to_map_exact : forall keys values,
  match mapx_to_map keys values with
  | Ok m => exists ks vs, keys = Some ks /\ values = Some vs /\ length ks = length vs /\
                          m = map_build (combine ks vs)
  | Err _ => keys = None \/ values = None \/ length (els keys) <> length (els values)
  | Panic => False
  end.
Proof. exact mapx_to_map_lemma. Qed.
Print Assumptions mapx_to_map_exact.

Theorem map_values_exact : forall m, wf_map m -> map_values m = map snd m.
Proof. exact map_values_lemma. Qed.
Print Assumptions map_values_exact.

(* ToMap (KeysValues m) = m: in the model's order, and as a map for EVERY enumeration order *)
Theorem to_map_keys_values_roundtrip : forall m, wf_map m ->
  mapx_to_map (Some (fst (map_keys_values m))) (Some (snd (map_keys_values m))) = Ok m.
Proof. exact to_map_keys_values_lemma. Qed.
Print Assumptions to_map_keys_values_roundtrip.

Theorem to_map_keys_values_any_order : forall m kvs, wf_map m -> Permutation kvs m ->
  exists m', mapx_to_map (Some (map fst kvs)) (Some (map snd kvs)) = Ok m' /\
             wf_map m' /\ forall k, map_get k m' = map_get k m.
Proof. exact to_map_any_order_lemma. Qed.
Print Assumptions to_map_keys_values_any_order.

Theorem map_build_is_a_map : forall kvs, wf_map (map_build kvs).
Proof. exact map_build_wf. Qed.
Print Assumptions map_build_is_a_map.

(* ================= pairs ================= *)
Theorem new_pairs_exact : forall keys values,
  match new_pairs keys values with
  | Ok p => exists ks vs, keys = Some ks /\ values = Some vs /\ length ks = length vs /\ p = Some (combine ks vs)
  | Err _ => keys = None \/ values = None \/ length (els keys) <> length (els values)
  | Panic => False
  end.
Proof. exact new_pairs_lemma. Qed.
Print Assumptions new_pairs_exact.

Theorem split_new_pairs_roundtrip : forall ks vs, length ks = length vs ->
  obind (new_pairs (Some ks) (Some vs)) (fun p => Ok (split_pairs p)) = Ok (Some ks, Some vs).
Proof. exact split_new_pairs_lemma. Qed.
Print Assumptions split_new_pairs_roundtrip.

Theorem new_split_pairs_roundtrip : forall l,
  new_pairs (fst (split_pairs (Some l))) (snd (split_pairs (Some l))) = Ok (Some l).
Proof. exact new_split_pairs_lemma. Qed.
Print Assumptions new_split_pairs_roundtrip.

Theorem pack_flatten_pairs_roundtrip : forall ps, pack_pairs (flatten_pairs ps) = Ok ps.
Proof. exact pack_flatten_pairs_lemma. Qed.
Print Assumptions pack_flatten_pairs_roundtrip.

Theorem flatten_pairs_twice_as_long : forall l fl,
  flatten_pairs (Some l) = Some fl -> length fl = (2 * length l)%nat.
Proof. exact flatten_pairs_length. Qed.
Print Assumptions flatten_pairs_twice_as_long.

Theorem nil_pairs_stay_nil :
  split_pairs None = (None, None) /\ flatten_pairs None = None /\ pack_pairs None = Ok None.
Proof. exact nil_pairs_lemma. Qed.
Print Assumptions nil_pairs_stay_nil.

(* ================= the calls as observed by the correspondence check ================= *)
(* wherever a non-nil result is promised, the first observable is non-nil, for all arguments (nil included) *)
Theorem nonnil_promises : forall c,
  promises_nonnil c = true -> exists r rest, run c = r :: rest /\ ov_nonnil r = true.
Proof. exact nonnil_promises_lemma. Qed.
Print Assumptions nonnil_promises.

(* every function except ReverseSelf / FilterDelete / Add / Delete leaves its slice arguments unchanged *)
Theorem pure_args_unchanged : forall c,
  in_place c = false -> exists r, run c = r ++ map VSlice (slice_args c).
Proof. exact pure_args_unchanged_lemma. Qed.
Print Assumptions pure_args_unchanged.

(* ================= non-vacuity ================= *)
Example c16_nonvacuous :
  symdiff_set [1; 2; 2; 3] [3; 4; 4] = [1; 2; 4] /\
  symdiff_set_func Z.eqb [1; 2; 2; 3] [3; 4; 4] = [1; 2; 4] /\
  deduplicate_func Z.eqb [1; 2; 1; 3; 2] = [1; 3; 2] /\
  index_all [5; 7; 5] 5 = [0; 2] /\ last_index [5; 7; 5] 5 = Ok 2 /\ index [5; 7; 5] 9 = -1 /\
  reverse_self [1; 2; 3; 4; 5] = Ok [5; 4; 3; 2; 1] /\
  filter_delete (fun i v => Z.even v) [1; 2; 3; 4] = Ok ([1; 3], [1; 3; 3; 4]) /\
  add [1; 2; 3] 9 1 = Ok [1; 9; 2; 3] /\ add [1; 2; 3] 9 4 = Err EIndex /\ add [1; 2; 3] 9 (-1) = Err EIndex /\
  delete [1; 2; 3] 3 = Err EIndex /\ delete [1; 2; 3] 0 = Ok ([2; 3], [2; 3; 3]) /\
  max_slice [] = Panic /\ max_slice [3; 9; 2] = Ok 9 /\
  sum_slice [9223372036854775807; 1] = -9223372036854775808 /\
  wf_map (map_build [(1, 2); (3, 4); (1, 5)]) /\ map_get 1 (map_build [(1, 2); (3, 4); (1, 5)]) = Some 5 /\
  mapx_to_map (Some [1]) None = Err EOther /\ new_pairs (Some [1; 2]) (Some [3]) = Err EOther /\
  pack_pairs (Some [FInt 1; FBad]) = Panic /\
  promises_nonnil (CFindAll None PEven) = true /\ in_place (CUnionSet None None) = false.
Proof.
  repeat split; try (vm_compute; reflexivity).
  apply map_build_wf.
Qed.
