(* C13 — syncx.Cond never loses or invents a wake-up, with or without timeouts.
   Only statements here; every proof is `exact <lemma>` from proof/CondProof{,2,3}.v.

   The model (model/CondModel.v) interleaves the individual Go statements of any number of concurrent
   Wait / Signal / Broadcast calls of /repo/syncx/cond.go (every statement the instrumenter labels,
   including checkCopy, checkFirstUse/once, notifyList.*, chanList.* with its node pool), the caller's lock
   c.L, contexts that are cancelled at arbitrary moments, and an ORACLE for what sync.Pool.Get returns.
   Every theorem quantifies over EVERY event list [evs] the semantics accepts ([cond_run copied evs = Some c]):
   any number k of waiters, s signals, b broadcasts, c cancellations, any interleaving, any pool oracle.
   [copied] = the Cond value is a bitwise copy of a used one (then every call panics in checkCopy).

   Vocabulary (model/CondModel.v): [c_lst] the notify list (forward order), [c_size] its counter,
   [c_tok] the nodes whose 1-buffered channel holds a token, [c_pool] the recycled nodes,
   [nodest p] = (node, phase) of the waiter at program counter p, [inflight p] = the node a notifier has
   unlinked and not yet sent to, ghost history counters g_sig (Signals that found a waiter), g_bcast
   (sum over Broadcasts of the list length when they locked l.mu), g_nil / g_err (returns of Wait),
   g_drop (tokens taken on the time-out path while the list was empty), ghost sets g_notified (nodes
   unlinked by a notifier whose owner has not returned yet), g_bsnap / g_bsent (the list when the running
   Broadcast locked l.mu / the nodes it has sent to).

   OBSERVATION (not a finding, within the wording "returns only after a Signal/Broadcast"): a token that a
   Broadcast hands to a waiter which is concurrently timing out is FORWARDED to the front of the list as
   it is when the timing-out waiter gets l.mu; that can be a waiter that called Wait after the Broadcast
   returned.  [late_arrival_woken_by_forwarded_broadcast_token] is such a schedule.  The ledger accounts
   for it: the token was produced by that Broadcast.

   Granularity: interleavings inside one Go statement are not modelled; the only statement of cond.go that
   touches shared state more than once is checkCopy's condition (atomic load, CAS, atomic load): one step.
   Trusted specifications: sync.Mutex (exclusive, a blocked Lock is a disabled step), sync.Once (body runs
   once, concurrent callers wait), buffered channel of capacity 1 with direct hand-off to a parked receiver,
   select (a ready case is taken; both ready: either), context cancellation, sync.Pool (Get returns a
   previously Put value or calls New).  The prev/next pointer surgery of chanList is abstracted to the
   forward sequence + the separate size counter (all of it runs under l.mu: [mu_guards_list]). *)
From Ekit Require Import Common Conc CondModel CondProof CondProofNodes CondProof2 CondProof3.

(* ============ the token ledger ============ *)

(* DESIGN C13 ledger, at every reachable configuration, with the transient terms explicit:
   #Signal-that-found-a-waiter + sum_broadcast #waiters-then
     = #nil returns + #tokens sitting in channels + #tokens dropped because the list was empty at forwarding
       time + (tokens held by threads in the middle of producing / consuming one: [sum_owed])
       + (tokens the running Broadcast still owes to the nodes in the list: [bcast_pending]) *)
Theorem token_ledger : forall copied evs c,
  cond_run copied evs = Some c ->
  g_sig c + g_bcast c =
  g_nil c + Z.of_nat (length (c_tok c)) + g_drop c + sum_owed (c_thr c) + bcast_pending c.
Proof. exact ledger_lemma. Qed.
Print Assumptions token_ledger.

(* the ledger exactly as in the design when no thread is between taking and accounting for a token and no
   Broadcast is running (e.g. all remaining threads are parked, or in the prelude of Wait) *)
Theorem token_ledger_quiescent : forall copied evs c,
  cond_run copied evs = Some c ->
  (forall t p, lookup t (c_thr c) = Some p -> owed p = 0 /\ bcast_holding p = false) ->
  g_sig c + g_bcast c = g_nil c + Z.of_nat (length (c_tok c)) + g_drop c.
Proof. exact ledger_quiescent_lemma. Qed.
Print Assumptions token_ledger_quiescent.

(* the tokens sitting in channels are in channels of parked / aborting waiters: the owner of such a node has
   been notified and has not yet looked at its channel (phase PhAwait = from `c.L.Unlock()` up to and
   including the inner select of the time-out branch) *)
Theorem tokens_sit_with_waiting_owners : forall copied evs c n,
  cond_run copied evs = Some c -> In n (c_tok c) ->
  In n (g_notified c) /\ exists t p, lookup t (c_thr c) = Some p /\ nodest p = Some (n, PhAwait).
Proof. exact token_owner_lemma. Qed.
Print Assumptions tokens_sit_with_waiting_owners.

(* no wake-up is invented: never more nil returns than tokens produced *)
Theorem no_invented_wakeup : forall copied evs c,
  cond_run copied evs = Some c -> g_nil c <= g_sig c + g_bcast c.
Proof. exact no_invented_wakeup_lemma. Qed.
Print Assumptions no_invented_wakeup.

(* ============ the notify list ============ *)

(* a node is in the list iff its owner has linked it and not unlinked it itself (phase) and has not been
   notified *)
Theorem node_in_list_iff : forall copied evs c t p n ph,
  cond_run copied evs = Some c -> lookup t (c_thr c) = Some p -> nodest p = Some (n, ph) ->
  (In n (c_lst c) <-> inlist_ph ph = true /\ ~ In n (g_notified c)).
Proof. exact node_in_list_iff_lemma. Qed.
Print Assumptions node_in_list_iff.

(* never in the list with a token; every listed node has a live owner; never in the pool *)
Theorem listed_node_has_no_token : forall copied evs c n,
  cond_run copied evs = Some c -> In n (c_lst c) ->
  ~ In n (c_tok c) /\ ~ In n (g_notified c) /\ ~ In n (c_pool c) /\
  exists t p ph, lookup t (c_thr c) = Some p /\ nodest p = Some (n, ph) /\ inlist_ph ph = true.
Proof. exact list_node_facts_lemma. Qed.
Print Assumptions listed_node_has_no_token.

Theorem list_has_no_duplicates : forall copied evs c, cond_run copied evs = Some c -> NoDup (c_lst c).
Proof. exact list_nodup_lemma. Qed.
Print Assumptions list_has_no_duplicates.

(* while the holder of l.mu is not inside pushBack / remove, len() is the length of the list *)
Theorem size_counter_exact : forall copied evs c t p,
  cond_run copied evs = Some c -> lookup t (c_thr c) = Some p -> holds_mu p = true -> delta p = 0 ->
  c_size c = Z.of_nat (length (c_lst c)).
Proof. intros copied evs c t p H. apply size_is_length. exact (f_inv c (full_reachable _ _ _ H)). Qed.
Print Assumptions size_counter_exact.

(* every statement that reads or writes the list is executed by the holder of l.mu, and there is one holder *)
Theorem mu_guards_list : forall copied evs c t p,
  cond_run copied evs = Some c -> lookup t (c_thr c) = Some p -> holds_mu p = true -> c_mu c = Some t.
Proof.
  intros copied evs c t p H Hl Hp. apply (proj1 (i_mu c (f_inv c (full_reachable _ _ _ H)))).
  rewrite lookup_pm, Hl. cbn. rewrite Hp. reflexivity.
Qed.
Print Assumptions mu_guards_list.

(* ============ signal_not_lost ============ *)

(* the token a timing-out waiter finds in its channel is forwarded whenever a waiter exists at that moment
   (the step is the `return l.size` that decides `if l.list.len() != 0`) and dropped only when none does *)
Theorem signal_not_lost : forall copied evs c t n o c' obs,
  cond_run copied evs = Some c -> lookup t (c_thr c) = Some (LEN (LenWait n)) ->
  cond_exec1 c (EStep t o) = Some (c', obs) ->
  (c_lst c <> [] -> lookup t (c_thr c') = Some (WT_Forward n) /\ g_drop c' = g_drop c) /\
  (c_lst c = [] -> lookup t (c_thr c') = Some (WT_RetErr n) /\ g_drop c' = g_drop c + 1).
Proof. exact signal_not_lost_lemma. Qed.
Print Assumptions signal_not_lost.

(* ... the forwarding (like every notifyNext) goes through: the holder of l.mu can always execute its next
   statement — front() finds a node, remove() finds it linked, the send finds the channel empty *)
Theorem mu_holder_can_step : forall copied evs c t p,
  cond_run copied evs = Some c -> lookup t (c_thr c) = Some p -> holds_mu p = true ->
  exists c' obs, cond_exec1 c (EStep t 0) = Some (c', obs).
Proof. exact mu_holder_can_step_lemma. Qed.
Print Assumptions mu_holder_can_step.

(* ... and lands in the empty channel of a waiter that has not yet looked at its channel *)
Theorem send_reaches_a_waiting_owner : forall copied evs c t p f,
  cond_run copied evs = Some c -> lookup t (c_thr c) = Some p -> inflight p = Some f ->
  ~ In f (c_tok c) /\ ~ In f (c_lst c) /\
  exists u pu, lookup u (c_thr c) = Some pu /\ nodest pu = Some (f, PhAwait).
Proof. exact send_target_lemma. Qed.
Print Assumptions send_reaches_a_waiting_owner.

(* ============ broadcast_releases_all_present ============ *)

(* the snapshot is the list at the moment notifyAll locks l.mu *)
Theorem broadcast_snapshot_is_list_at_lock : forall c t o c' obs,
  lookup t (c_thr c) = Some NA_Lock -> cond_exec1 c (EStep t o) = Some (c', obs) ->
  In (t, OAt NA_Defer) obs -> g_bsnap c' = c_lst c /\ g_bsent c' = [] /\ c_mu c' = Some t.
Proof. exact broadcast_snapshot_lemma. Qed.
Print Assumptions broadcast_snapshot_is_list_at_lock.

(* every waiter in the list when notifyAll took l.mu has been sent a token when notifyAll returns *)
Theorem broadcast_releases_all_present : forall copied evs c t o c' obs,
  cond_run copied evs = Some c -> lookup t (c_thr c) = Some (LEN LenAll) ->
  cond_exec1 c (EStep t o) = Some (c', obs) -> In (t, ORet RUnit) obs ->
  forall n, In n (g_bsnap c) -> In n (g_bsent c').
Proof. exact broadcast_releases_all_present_lemma. Qed.
Print Assumptions broadcast_releases_all_present.

Theorem broadcast_progress : forall copied evs c t p,
  cond_run copied evs = Some c -> lookup t (c_thr c) = Some p -> bcast_holding p = true ->
  forall n, In n (g_bsnap c) -> In n (c_lst c) \/ In n (g_bsent c) \/ inflight p = Some n.
Proof. exact broadcast_progress_lemma. Qed.
Print Assumptions broadcast_progress.

(* ============ gave_up_never_absorbs ============ *)

(* at the error return (from `return ctx.Err()` on): the context was cancelled, the node is unlinked, its
   channel is empty and no notifier is about to send to it *)
Theorem gave_up_never_absorbs : forall copied evs c t p n,
  cond_run copied evs = Some c -> lookup t (c_thr c) = Some p ->
  p = WT_RetErr n \/ p = FR_Put n false ->
  In t (c_canc c) /\ ~ In n (c_lst c) /\ ~ In n (c_tok c) /\
  (forall t2 p2, lookup t2 (c_thr c) = Some p2 -> inflight p2 <> Some n).
Proof. exact gave_up_never_absorbs_lemma. Qed.
Print Assumptions gave_up_never_absorbs.

(* the same for every waiter past its token / its own unlink (both return paths), incl. "no notifier has
   selected it as front" *)
Theorem finished_node_is_quiet : forall copied evs c t p n,
  cond_run copied evs = Some c -> lookup t (c_thr c) = Some p -> nodest p = Some (n, PhQuiet) ->
  ~ In n (c_lst c) /\ ~ In n (c_tok c) /\
  (forall t2 p2, lookup t2 (c_thr c) = Some p2 -> inflight p2 <> Some n) /\
  (forall t2 p2 f, lookup t2 (c_thr c) = Some p2 -> frontof p2 = FSel f -> f <> n).
Proof. exact quiet_node_lemma. Qed.
Print Assumptions finished_node_is_quiet.

(* nodes in the pool: unlinked, channel empty, nobody refers to them *)
Theorem pooled_node_is_clean : forall copied evs c n,
  cond_run copied evs = Some c -> In n (c_pool c) ->
  ~ In n (c_lst c) /\ ~ In n (c_tok c) /\ ~ In n (g_notified c) /\
  (forall t p, lookup t (c_thr c) = Some p -> wnode p <> Some n /\ inflight p <> Some n /\ frontof p <> FSel n).
Proof. exact pool_node_clean_lemma. Qed.
Print Assumptions pooled_node_is_clean.

(* a recycled node's channel is empty, whichever pooled node the oracle returns: node identity does not matter *)
Theorem recycled_channel_empty : forall copied evs c t o c' obs n,
  cond_run copied evs = Some c -> lookup t (c_thr c) = Some AL_Get ->
  cond_exec1 c (EStep t o) = Some (c', obs) -> In (t, OAt (AL_Ret n)) obs ->
  In n (c_pool c) /\ ~ In n (c_tok c) /\ ~ In n (c_lst c) /\ ~ In n (g_notified c).
Proof. exact recycled_channel_empty_lemma. Qed.
Print Assumptions recycled_channel_empty.

Theorem fresh_node_is_clean : forall copied evs c,
  cond_run copied evs = Some c ->
  ~ In (c_next c) (c_tok c) /\ ~ In (c_next c) (c_lst c) /\ ~ In (c_next c) (g_notified c) /\ ~ In (c_next c) (c_pool c).
Proof. exact fresh_node_clean_lemma. Qed.
Print Assumptions fresh_node_is_clean.

(* ============ wait_returns_with_lock ============ *)

(* every return of Wait (nil or error) is a step that found c.L free and leaves it held by the returning
   thread (the deferred c.L.Lock()) *)
Theorem wait_returns_with_lock : forall c t o c' obs r,
  cond_exec1 c (EStep t o) = Some (c', obs) -> In (t, ORet r) obs -> r = RNil \/ r = RErr ->
  c_L c = None /\ c_L c' = Some t.
Proof. exact wait_returns_with_lock_lemma. Qed.
Print Assumptions wait_returns_with_lock.

(* before `c.L.Unlock()` the caller's lock is still held by the caller (so that statement unlocks its own
   lock, and two threads are never both in that part of Wait) *)
Theorem prelude_of_wait_holds_lock : forall copied evs c t p,
  cond_run copied evs = Some c -> lookup t (c_thr c) = Some p -> holds_L p = true -> c_L c = Some t.
Proof. exact prelude_holds_L_lemma. Qed.
Print Assumptions prelude_of_wait_holds_lock.

(* ============ wait_returns_only_after_notify_or_ctx ============ *)

(* a nil return is the return of a thread that received a token ([FR_Put n true] is reached only through
   `case <-ch:`), and it is counted once; with [token_ledger]/[no_invented_wakeup] every such token was
   produced by a Signal or a Broadcast, possibly forwarded *)
Theorem nil_return_consumed_a_token : forall c t o c' obs,
  cond_exec1 c (EStep t o) = Some (c', obs) -> In (t, ORet RNil) obs ->
  exists n, lookup t (c_thr c) = Some (FR_Put n true) /\ g_nil c' = g_nil c + 1.
Proof. exact nil_return_consumed_token_lemma. Qed.
Print Assumptions nil_return_consumed_a_token.

(* an error return happens only with the context cancelled *)
Theorem error_return_only_when_cancelled : forall copied evs c t o c' obs,
  cond_run copied evs = Some c -> cond_exec1 c (EStep t o) = Some (c', obs) -> In (t, ORet RErr) obs ->
  In t (c_canc c).
Proof. exact err_return_cancelled_lemma. Qed.
Print Assumptions error_return_only_when_cancelled.

(* ============ no panic ============ *)

(* a Cond that is not a copy never panics: neither "syncx.Cond is copied" nor a nil notifyList *)
Theorem never_panics_unless_copied : forall evs c e c' obs t,
  cond_run false evs = Some c -> cond_exec1 c e = Some (c', obs) ->
  ~ In (t, OPanicCopied) obs /\ ~ In (t, OPanicNilList) obs.
Proof. exact never_panics_lemma. Qed.
Print Assumptions never_panics_unless_copied.

(* ============ non-vacuity: concrete schedules (vm_compute) ============ *)
Open Scope nat_scope.
Definition st (t : tid) (k : nat) : list cev := repeat (EStep t 0) k.
Definition counters (c : ccfg) := (g_sig c, g_bcast c, g_nil c, g_err c, g_drop c).

(* expiry racing the signal's channel send: waiters 1 and 2 are parked; 1 is cancelled and stops in the
   time-out branch BEFORE l.mu.Lock(); Signal (thread 3) unlinks 1's node and sends (the token is buffered) *)
Definition sched_race : list cev :=
  [ECall 1 OpWait] ++ st 1 31 ++ [ECall 2 OpWait] ++ st 2 24 ++ [ECancel 1] ++ st 1 1 ++
  [ECall 3 OpSignal] ++ st 3 20.

Example race_token_buffered_for_aborting_waiter :
  option_map (fun c => (c_lst c, c_tok c, lookup 1 (c_thr c), counters c)) (cond_run false sched_race)
  = Some ([1], [0], Some (WT_Lock 0), (1, 0, 0, 0, 0)%Z).
Proof. vm_compute. reflexivity. Qed.

(* ... 1 then takes l.mu, finds the token, and is about to forward it to waiter 2's node *)
Example race_token_forwarded :
  option_map (fun c => lookup 1 (c_thr c)) (cond_run false (sched_race ++ st 1 16))
  = Some (Some (NN_Send (NNWait 0) 1)).
Proof. vm_compute. reflexivity. Qed.

(* ... 1 returns the context's error, 2 returns nil: one Signal, one nil return, nothing dropped; both
   nodes are back in the pool *)
Example race_signal_not_lost :
  option_map (fun c => (c_lst c, c_tok c, c_pool c, counters c, c_L c))
             (cond_run false (sched_race ++ st 1 19 ++ [ECall 1 OpUnlock] ++ st 2 3))
  = Some ([], [], [1; 0], (1, 0, 1, 1, 0)%Z, Some 2).
Proof. vm_compute. reflexivity. Qed.

(* the same race with no other waiter: the token is dropped (the list is empty at forwarding time) *)
Example race_token_dropped_when_list_empty :
  option_map (fun c => (c_lst c, c_tok c, counters c))
             (cond_run false ([ECall 1 OpWait] ++ st 1 31 ++ [ECancel 1] ++ st 1 1 ++ [ECall 3 OpSignal] ++ st 3 20 ++ st 1 8))
  = Some ([], [], (1, 0, 0, 1, 1)%Z).
Proof. vm_compute. reflexivity. Qed.

(* Broadcast with three parked waiters releases all three; a later waiter (thread 1 again) reuses a pooled node *)
Definition sched_bcast : list cev :=
  [ECall 1 OpWait] ++ st 1 31 ++ [ECall 2 OpWait] ++ st 2 24 ++ [ECall 3 OpWait] ++ st 3 24 ++
  [ECall 4 OpBroadcast] ++ st 4 8.

Example broadcast_snapshot_three :
  option_map (fun c => (g_bsnap c, c_lst c, counters c)) (cond_run false sched_bcast)
  = Some ([0; 1; 2], [0; 1; 2], (0, 3, 0, 0, 0)%Z).
Proof. vm_compute. reflexivity. Qed.

Example broadcast_releases_three :
  option_map (fun c => (g_bsent c, c_lst c, c_tok c, counters c, map fst (c_thr c)))
    (cond_run false (sched_bcast ++ st 4 37 ++ st 1 3 ++ [ECall 1 OpUnlock] ++ st 2 3 ++ [ECall 2 OpUnlock] ++ st 3 3 ++ [ECall 3 OpUnlock]))
  = Some ([2; 1; 0], [], [], (0, 3, 3, 0, 0)%Z, []).
Proof. vm_compute. reflexivity. Qed.

Example pool_reuse_by_later_waiter :
  option_map (fun c => (c_pool c, c_lst c, c_tok c, lookup 1 (c_thr c)))
    (cond_run false (sched_bcast ++ st 4 37 ++ st 1 3 ++ [ECall 1 OpUnlock] ++
                     [ECall 1 OpWait] ++ st 1 8 ++ [EStep 1 1] ++ st 1 14))
  = Some ([], [0], [], Some (WT_Parked 0)).
Proof. vm_compute. reflexivity. Qed.

(* OBSERVATION: waiters 1, 2 parked; 1 is cancelled and stops before l.mu; Broadcast (thread 3) sends to both
   (1's token is buffered) and returns; THEN thread 4 calls Wait and parks; 1 resumes, finds its token and
   forwards it to 4: 4 returns nil although no Signal/Broadcast was issued after it started to wait *)
Definition sched_late : list cev :=
  [ECall 1 OpWait] ++ st 1 31 ++ [ECall 2 OpWait] ++ st 2 24 ++ [ECancel 1] ++ st 1 1 ++
  [ECall 3 OpBroadcast] ++ st 3 33 ++
  [ECall 4 OpWait] ++ st 4 24 ++
  st 1 19 ++ [ECall 1 OpUnlock] ++ st 4 3.

Example late_arrival_woken_by_forwarded_broadcast_token :
  option_map (fun c => (counters c, c_lst c, c_tok c, map fst (c_thr c), c_L c)) (cond_run false sched_late)
  = Some ((0, 2, 1, 1, 0)%Z, [], [], [2], Some 4).
Proof. vm_compute. reflexivity. Qed.

(* a copied Cond panics in checkCopy *)
Example copied_cond_panics :
  match cond_run true ([ECall 1 OpSignal] ++ st 1 2) with
  | Some c => cond_exec1 c (EStep 1 0)
  | None => None
  end = Some (cond_init true, [(1, OPanicCopied)]).
Proof. vm_compute. reflexivity. Qed.
