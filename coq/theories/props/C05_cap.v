(* C05, clause "across any amount of internal growth and shrinking" — the priority queue at
   the level of Go's memory: p.data is a slice HEADER (array, len, cap) over a store of backing
   arrays (model/HeapCapModel.v: append re-allocates with an oracle capacity, slice.Shrink
   re-allocates by ListModel.cal_capacity, stale headers keep denoting their old arrays).
   Only statements; every proof is `exact <lemma>` from proof/HeapCapProof.v.

     cstep cmp cp o / crun     one call / a history on the memory-level state cp
     erase o                   the HeapModel operation (the capacity oracle of Enqueue dropped)
     clive cp                  the first len slots of the array p.data points to
     represents cp p           cp has HeapModel state p: same capacity field, p.data denotes an
                               existing array of exactly cap slots, len <= cap, clive cp = data p
     cap_after cp o            cap(p.data) after a successful o according to the rules of append
                               and calCapacity *)
From Ekit Require Import Common HeapModel HeapCapModel HeapCapProof C05.
From Ekit Require ListModel.
From Coq Require Import Permutation.

(* one call on the memory-level model answers exactly what HeapModel answers and leaves a state
   representing HeapModel's next state — for every comparator (no laws needed), every state *)
Theorem cap_step_refines_heap_model : forall cmp cp p o, represents cp p ->
  snd (cstep cmp cp o) = snd (step cmp p (erase o)) /\
  represents (fst (cstep cmp cp o)) (fst (step cmp p (erase o))).
Proof.
  intros cmp cp p o H. destruct (cstep_refines_lemma cmp cp p o H) as (H1 & H2 & _). split; assumption.
Qed.
Print Assumptions cap_step_refines_heap_model.

(* hence for all histories from the constructor: same answers, and the contents of the live
   array are HeapModel's data — every theorem of props/C05.v transfers *)
Theorem cap_history_refines_heap_model : forall cmp c ops,
  snd (crun cmp (cnew c) ops) = snd (run cmp (new_pq c) (map erase ops)) /\
  clive (fst (crun cmp (cnew c) ops)) = data (fst (run cmp (new_pq c) (map erase ops))).
Proof. exact crun_new_lemma. Qed.
Print Assumptions cap_history_refines_heap_model.

(* e.g. the main C05 theorem, now across re-allocations by append and by Shrink *)
Theorem cap_pq_refines_sorted_multiset : forall cmp, total_preorder cmp -> forall c ops,
  abs_run cmp c [] (map erase ops) (snd (crun cmp (cnew c) ops)) (tl (clive (fst (crun cmp (cnew c) ops)))).
Proof. intros cmp [T R]. exact (cap_refines_multiset_lemma cmp T R). Qed.
Print Assumptions cap_pq_refines_sorted_multiset.

Theorem cap_heap_inv_on_live_array : forall cmp, total_preorder cmp -> forall c cp,
  creachable cmp c cp -> heap_inv cmp (clive cp) /\ (1 <= h_len (c_hdr cp))%nat.
Proof. intros cmp [T R]. exact (cap_heap_inv_lemma cmp T R). Qed.
Print Assumptions cap_heap_inv_on_live_array.

(* in every reachable state p.data denotes an existing array with exactly cap slots, len <= cap *)
Theorem cap_header_invariant : forall cmp c cp, creachable cmp c cp ->
  (h_arr (c_hdr cp) < length (c_store cp))%nat /\
  length (arr_of (c_store cp) (h_arr (c_hdr cp))) = h_cap (c_hdr cp) /\
  (h_len (c_hdr cp) <= h_cap (c_hdr cp))%nat.
Proof. exact creachable_invariant_lemma. Qed.
Print Assumptions cap_header_invariant.

(* the capacity follows the rules exactly: after a successful call cap(p.data) = cap_after;
   a call that fails (ErrOutOfCapacity / ErrEmptyQueue) leaves the whole state unchanged *)
Theorem cap_capacity_follows_shrink_rule : forall cmp c cp o, creachable cmp c cp ->
  ((exists x, snd (cstep cmp cp o) = HOk x) -> h_cap (c_hdr (fst (cstep cmp cp o))) = cap_after cp o) /\
  ((forall x, snd (cstep cmp cp o) <> HOk x) -> fst (cstep cmp cp o) = cp).
Proof. exact cap_rule_lemma. Qed.
Print Assumptions cap_capacity_follows_shrink_rule.

(* the thresholds, spelled out: after a successful Dequeue of an unbounded queue, with c the
   old capacity and l the new len(p.data) (slot 0 included): unchanged if c <= 64; 5c/8 if
   c > 2048 and c >= 2l; c/2 if 64 < c <= 2048 and c >= 4l; unchanged otherwise *)
Theorem cap_dequeue_thresholds : forall cp, c_is_boundless cp = true -> (1 <= h_len (c_hdr cp))%nat ->
  let c := h_cap (c_hdr cp) in let l := (h_len (c_hdr cp) - 1)%nat in
  cap_after cp CDequeue =
    if (c <=? 64)%nat then c
    else if (2048 <? c)%nat && (2 * l <=? c)%nat then (c * 5 / 8)%nat
    else if (c <=? 2048)%nat && (4 * l <=? c)%nat then (c / 2)%nat
    else c.
Proof. exact dequeue_thresholds_lemma. Qed.
Print Assumptions cap_dequeue_thresholds.

(* the memory-level Shrink is, on contents and capacity, the C04 model of slice.Shrink
   (ListModel.shrink, theorem shrink_preserves_contents of C04); its growth oracle is never used *)
Theorem cap_shrink_is_c04_shrink : forall st h oracle,
  (h_arr h < length st)%nat /\ length (arr_of st (h_arr h)) = h_cap h /\ (h_len h <= h_cap h)%nat ->
  ListModel.shrink {| ListModel.sv := live st h; ListModel.sc := Z.of_nat (h_cap h) |} oracle =
  Ok {| ListModel.sv := live (fst (cshrink st h)) (snd (cshrink st h));
        ListModel.sc := Z.of_nat (h_cap (snd (cshrink st h))) |}.
Proof. exact cshrink_is_list_shrink. Qed.
Print Assumptions cap_shrink_is_c04_shrink.

(* no write of an operation lands in a stale array: every array of the old store other than the
   one p.data points to AFTER the call keeps its length and its slots, the only exception being
   slot 1 of the array that was live when a Dequeue started (written BEFORE Shrink copies it;
   the copy carries it, see cap_step_refines_heap_model).  In particular the sift-down of
   Dequeue writes only the array p.data denotes after shrinkIfNecessary. *)
Theorem cap_writes_go_to_live_array : forall cmp c cp o, creachable cmp c cp ->
  let cp' := fst (cstep cmp cp o) in
  (length (c_store cp) <= length (c_store cp'))%nat /\
  forall b, (b < length (c_store cp))%nat -> b <> h_arr (c_hdr cp') ->
    length (arr_of (c_store cp') b) = length (arr_of (c_store cp) b) /\
    forall k, (b = h_arr (c_hdr cp) /\ o = CDequeue -> k <> 1%nat) ->
      nth k (arr_of (c_store cp') b) 0 = nth k (arr_of (c_store cp) b) 0.
Proof. exact writes_lemma. Qed.
Print Assumptions cap_writes_go_to_live_array.

(* no operation reads or writes outside [0, len(p.data)) or slices beyond cap (those are the
   HPanic answers of ld / st_at / reslice), and the loop fuel always suffices *)
Theorem cap_never_out_of_range : forall cmp, total_preorder cmp -> forall c cp o,
  creachable cmp c cp -> snd (cstep cmp cp o) <> HPanic /\ snd (cstep cmp cp o) <> HOutOfFuel.
Proof. intros cmp [T R]. exact (cap_never_crashes_lemma cmp T R). Qed.
Print Assumptions cap_never_out_of_range.

(* ---------- non-vacuity ---------- *)

(* an unbounded queue: 70 Enqueues (append re-allocates 64 -> 128 slots, oracle 128), then 39
   Dequeues: the 39th leaves len(p.data) = 32 <= 128/4, Shrink re-allocates to 64 slots.
   Three arrays exist, p.data points to the newest, the contents are HeapModel's. *)
Definition nv_ops : list cop :=
  map (fun k => CEnqueue (Z.of_nat ((k * 37) mod 101)) 128) (seq 0 70) ++ repeat CDequeue 39.

Example cap_history_nonvacuous :
  let cp := fst (crun hcmp_asc (cnew 0) nv_ops) in
  length (c_store cp) = 3%nat /\ c_hdr cp = mkhd 2 32 64 /\
  map (fun n => h_cap (c_hdr (fst (crun hcmp_asc (cnew 0) (firstn n nv_ops))))) [64%nat; 70%nat; 108%nat; 109%nat]
    = [128%nat; 128%nat; 128%nat; 64%nat] /\
  clive cp = data (fst (run hcmp_asc (new_pq 0) (map erase nv_ops))) /\
  heap_invb hcmp_asc (clive cp) = true /\
  (* the array that was live before the Shrink still exists and was not touched by the sift-down:
     it differs from the new one (which holds the heapified contents) *)
  firstn 32 (arr_of (c_store cp) 1) <> clive cp.
Proof. vm_compute. repeat split; try reflexivity. discriminate. Qed.

(* the capacity rule on concrete headers *)
Example cap_rule_nonvacuous :
  let q c l := {| c_capacity := 0; c_hdr := mkhd 0 l c; c_store := [repeat 0 c] |} in
  cap_after (q 128 33)%nat CDequeue = 64%nat /\ cap_after (q 128 34)%nat CDequeue = 128%nat /\
  cap_after (q 64 2)%nat CDequeue = 64%nat /\ cap_after (q 4096 2049)%nat CDequeue = 2560%nat /\
  cap_after (q 4096 2050)%nat CDequeue = 4096%nat /\
  cap_after {| c_capacity := 5; c_hdr := mkhd 0 3 128; c_store := [repeat 0 128] |} CDequeue = 128%nat.
Proof. vm_compute. repeat split; reflexivity. Qed.
