(* C06 — the lock-bracketed containers over the REAL sequential models (composition with C05 / C04).
   Only statements here; every proof is `exact <lemma>` from proof/LockedCompose.v.

   props/C06_locked.v proves the RWMutex bracket for an ARBITRARY sequential object and instantiates
   it with small abstract specifications.  Here the same generic theorem is instantiated with
     HeapModel.step cmp     — the array heap of internal/queue/priority_queue.go under the USER
                              comparator cmp (any total preorder; ties between different elements allowed),
     ListModel.lstep        — ArrayList / LinkedList (any ListModel.lstate; the oracle of a call is the
                              capacity read after it, as in C04),
   and composed with the sequential refinement theorems of C05 (pq_step_refines_sorted_multiset) and
   C04 (lstep_refines): the linearisation events of EVERY concurrent history, in the order they
   happened, are a run of the abstract sorted multiset / of the abstract sequence, every call
   returns the result of its own linearisation step (thread_hist), and no statement of any
   concurrent execution returns a panic (index out of range, out of fuel, ...) outcome.
   [arel_run R a l a'] = the list l of (operation, result) pairs is a run a -> a' of the relation R. *)
From Ekit Require Import Common Conc LockedModel LockedProof LockedCompose.
From Ekit Require HeapModel HeapProof2 ListModel ListProof2.

(* ===================== 0. the generic composition layer ===================== *)

(* the sequential object's invariant holds of the inner state in every reachable configuration *)
Theorem locked_inner_invariant :
  forall (state op ret : Type) (seq_step : state -> op -> state * ret) (excl mutating : op -> bool),
    (forall o, mutating o = true -> excl o = true) ->
    (forall s o, mutating o = false -> fst (seq_step s o) = s) ->
    forall Inv : state -> Prop, (forall s o, Inv s -> Inv (fst (seq_step s o))) ->
    forall s0, Inv s0 ->
    forall evs c, exec (lk_step seq_step excl) (sys_init (lk_init s0)) evs = Some c -> Inv (lk_st (s_sh c)).
Proof. exact locked_inner_invariant_lemma. Qed.
Print Assumptions locked_inner_invariant.

(* sequential refinement of a relational specification lifts to all concurrent histories *)
Theorem locked_refines_abstract :
  forall (state op ret : Type) (seq_step : state -> op -> state * ret) (excl mutating : op -> bool),
    (forall o, mutating o = true -> excl o = true) ->
    (forall s o, mutating o = false -> fst (seq_step s o) = s) ->
    forall Inv : state -> Prop, (forall s o, Inv s -> Inv (fst (seq_step s o))) ->
    forall (astate : Type) (absf : state -> astate) (arel : astate -> op -> ret -> astate -> Prop),
    (forall s o, Inv s -> arel (absf s) o (snd (seq_step s o)) (absf (fst (seq_step s o)))) ->
    forall s0, Inv s0 ->
    forall evs c, exec (lk_step seq_step excl) (sys_init (lk_init s0)) evs = Some c ->
      arel_run arel (absf s0) (lin_ops (s_hist c)) (absf (lk_st (s_sh c))).
Proof. exact locked_refines_abstract_lemma. Qed.
Print Assumptions locked_refines_abstract.

(* results no sequential step gives from an invariant state are never returned concurrently *)
Theorem locked_no_bad_result :
  forall (state op ret : Type) (seq_step : state -> op -> state * ret) (excl mutating : op -> bool),
    (forall o, mutating o = true -> excl o = true) ->
    (forall s o, mutating o = false -> fst (seq_step s o) = s) ->
    forall Inv : state -> Prop, (forall s o, Inv s -> Inv (fst (seq_step s o))) ->
    forall bad : ret -> Prop, (forall s o, Inv s -> ~ bad (snd (seq_step s o))) ->
    forall s0, Inv s0 ->
    forall evs c t c' ob, exec (lk_step seq_step excl) (sys_init (lk_init s0)) evs = Some c ->
      lk_exec1 seq_step excl c (EStep t) = Some (c', ob) ->
      ob <> OPanic /\ forall r, ob = ORet r -> ~ bad r.
Proof. exact locked_no_bad_result_lemma. Qed.
Print Assumptions locked_no_bad_result.

(* ===================== 1. ConcurrentPriorityQueue over the array heap ===================== *)

(* exclusion and linearizability w.r.t. the HEAP MODEL itself, for any comparator function at all
   (hq_step cmp = HeapModel.step cmp + Cap; hq_excl = the lock each method of the source takes) *)
Theorem cpq_heap_linearizable :
  forall cmp c evs (cf : hq_cfg), exec (hq_cstep cmp) (hq_init c) evs = Some cf ->
    count (lk_in_w hq_excl) (s_thr cf) <= 1 /\
    (count (lk_in_w hq_excl) (s_thr cf) = 1 -> count (lk_in_r hq_excl) (s_thr cf) = 0) /\
    (forall t1 t2 x1 x2, t1 <> t2 ->
       lookup t1 (s_thr cf) = Some x1 -> lookup t2 (s_thr cf) = Some x2 ->
       lk_in_w hq_excl x1 = true -> lk_in_w hq_excl x2 = false /\ lk_in_r hq_excl x2 = false) /\
    count (lk_in_w hq_excl) (s_thr cf) = (if lk_w (s_sh cf) then 1 else 0) /\
    count (lk_in_r hq_excl) (s_thr cf) = Z.of_nat (lk_r (s_sh cf)) /\
    seq_legal (hq_step cmp) (HeapModel.new_pq c) (lin_ops (s_hist cf)) (lk_st (s_sh cf)) /\
    (forall t, thread_hist t (s_hist cf) (entry_phase lk_phase (lookup t (s_thr cf)))) /\
    NoDup (tids (s_thr cf)).
Proof. exact cpq_heap_locked_lemma. Qed.
Print Assumptions cpq_heap_linearizable.

(* the heap in every reachable configuration is a state the sequential PriorityQueue can reach
   (so, for a total-preorder comparator, heap_inv etc. of C05 hold of it) ... *)
Theorem cpq_heap_state_reachable :
  forall cmp c evs (cf : hq_cfg), exec (hq_cstep cmp) (hq_init c) evs = Some cf ->
    HeapModel.reachable cmp c (lk_st (s_sh cf)).
Proof. exact cpq_heap_state_reachable_lemma. Qed.
Print Assumptions cpq_heap_state_reachable.

(* ... and, with a total-preorder comparator, the linearisation events are a run of the abstract SORTED MULTISET under the user
   comparator, from the empty multiset to the current contents: Dequeue/Peek answer A minimum
   w.r.t. cmp (any of several tied elements), Dequeue removes one occurrence, ErrOutOfCapacity /
   ErrEmptyQueue exactly when full / empty, Len the cardinality, Cap the normalised capacity *)
Theorem cpq_linearizable_wrt_sorted_multiset :
  forall cmp, (forall x y, 0 <= cmp x y -> cmp y x <= 0) ->
              (forall x y z, cmp x y <= 0 -> cmp y z <= 0 -> cmp x z <= 0) ->
  forall c evs (cf : hq_cfg), exec (hq_cstep cmp) (hq_init c) evs = Some cf ->
    arel_run (hq_abs_step cmp c) [] (lin_ops (s_hist cf)) (HeapModel.contents (lk_st (s_sh cf))).
Proof. exact cpq_sorted_multiset_lemma. Qed.
Print Assumptions cpq_linearizable_wrt_sorted_multiset.

(* no statement of any concurrent execution panics or runs a sift loop out of fuel *)
Theorem cpq_no_panic :
  forall cmp, (forall x y, 0 <= cmp x y -> cmp y x <= 0) ->
              (forall x y z, cmp x y <= 0 -> cmp y z <= 0 -> cmp x z <= 0) ->
  forall c evs (cf : hq_cfg) t cf' ob, exec (hq_cstep cmp) (hq_init c) evs = Some cf ->
    hq_cexec1 cmp cf (EStep t) = Some (cf', ob) ->
    ob <> OPanic /\ ob <> ORet HeapModel.HPanic /\ ob <> ORet HeapModel.HOutOfFuel.
Proof. exact cpq_no_panic_lemma. Qed.
Print Assumptions cpq_no_panic.

(* the lock table of the instance satisfies the generic theorem's side condition *)
Theorem cpq_heap_mutating_methods_take_exclusive_lock : forall o, hq_mutating o = true -> hq_excl o = true.
Proof. exact hq_side. Qed.
Print Assumptions cpq_heap_mutating_methods_take_exclusive_lock.

(* ===================== 2. ConcurrentList over ArrayList / LinkedList ===================== *)

(* exclusion and linearizability w.r.t. the list MODEL (any implementation state s0) *)
Theorem clist_impl_linearizable :
  forall s0 evs (cf : cl_cfg), exec cl_cstep (cl_init s0) evs = Some cf ->
    count (lk_in_w cl_excl) (s_thr cf) <= 1 /\
    (count (lk_in_w cl_excl) (s_thr cf) = 1 -> count (lk_in_r cl_excl) (s_thr cf) = 0) /\
    (forall t1 t2 x1 x2, t1 <> t2 ->
       lookup t1 (s_thr cf) = Some x1 -> lookup t2 (s_thr cf) = Some x2 ->
       lk_in_w cl_excl x1 = true -> lk_in_w cl_excl x2 = false /\ lk_in_r cl_excl x2 = false) /\
    count (lk_in_w cl_excl) (s_thr cf) = (if lk_w (s_sh cf) then 1 else 0) /\
    count (lk_in_r cl_excl) (s_thr cf) = Z.of_nat (lk_r (s_sh cf)) /\
    seq_legal cl_step s0 (lin_ops (s_hist cf)) (lk_st (s_sh cf)) /\
    (forall t, thread_hist t (s_hist cf) (entry_phase lk_phase (lookup t (s_thr cf)))) /\
    NoDup (tids (s_thr cf)).
Proof. exact clist_impl_locked_lemma. Qed.
Print Assumptions clist_impl_linearizable.

(* linearizable w.r.t. the ABSTRACT SEQUENCE: the answers at the linearisation events (capacities
   erased) are exactly the answers of ListModel.seq_step run over the linearised operations from
   the initial contents, and the current contents are that run's final sequence *)
Theorem clist_linearizable_wrt_sequence :
  forall s0 evs (cf : cl_cfg), ListModel.wf s0 -> exec cl_cstep (cl_init s0) evs = Some cf ->
    map ListModel.canon (map snd (lin_ops (s_hist cf))) =
      ListModel.seq_run (ListModel.contents s0) (map fst (lin_ops (s_hist cf))) /\
    ListModel.contents (lk_st (s_sh cf)) =
      ListModel.seq_final (ListModel.contents s0) (map fst (lin_ops (s_hist cf))).
Proof. exact clist_impl_seq_run_lemma. Qed.
Print Assumptions clist_linearizable_wrt_sequence.

Theorem clist_linearizable_wrt_sequence_steps :
  forall s0 evs (cf : cl_cfg), ListModel.wf s0 -> exec cl_cstep (cl_init s0) evs = Some cf ->
    arel_run cl_abs_step (ListModel.contents s0) (lin_ops (s_hist cf)) (ListModel.contents (lk_st (s_sh cf))).
Proof. exact clist_impl_sequence_lemma. Qed.
Print Assumptions clist_linearizable_wrt_sequence_steps.

(* the two backings named in the property (wf is trivial for ArrayList; for LinkedList it says that
   the length field counts the nodes, true of every constructor result) *)
Theorem clist_over_arraylist_linearizable_wrt_sequence :
  forall a evs (cf : cl_cfg), exec cl_cstep (cl_init (ListModel.SArr a)) evs = Some cf ->
    map ListModel.canon (map snd (lin_ops (s_hist cf))) =
      ListModel.seq_run (ListModel.sv a) (map fst (lin_ops (s_hist cf))) /\
    ListModel.contents (lk_st (s_sh cf)) = ListModel.seq_final (ListModel.sv a) (map fst (lin_ops (s_hist cf))).
Proof. exact (fun a evs cf => clist_impl_seq_run_lemma (ListModel.SArr a) evs cf I). Qed.
Print Assumptions clist_over_arraylist_linearizable_wrt_sequence.

Theorem clist_over_linkedlist_linearizable_wrt_sequence :
  forall l evs (cf : cl_cfg), ListModel.llen l = ListModel.zlen (ListModel.lnodes l) ->
    exec cl_cstep (cl_init (ListModel.SLinked l)) evs = Some cf ->
    map ListModel.canon (map snd (lin_ops (s_hist cf))) =
      ListModel.seq_run (ListModel.lnodes l) (map fst (lin_ops (s_hist cf))) /\
    ListModel.contents (lk_st (s_sh cf)) = ListModel.seq_final (ListModel.lnodes l) (map fst (lin_ops (s_hist cf))).
Proof. exact (fun l evs cf => clist_impl_seq_run_lemma (ListModel.SLinked l) evs cf). Qed.
Print Assumptions clist_over_linkedlist_linearizable_wrt_sequence.

(* no statement of any concurrent execution panics (index out of range, negative make, slicing
   beyond the length, walking onto a LinkedList sentinel) *)
Theorem clist_no_panic :
  forall s0 evs (cf : cl_cfg) t cf' ob, ListModel.wf s0 -> exec cl_cstep (cl_init s0) evs = Some cf ->
    cl_cexec1 cf (EStep t) = Some (cf', ob) -> ob <> OPanic /\ ob <> ORet Panic.
Proof. exact clist_no_panic_lemma. Qed.
Print Assumptions clist_no_panic.

Theorem clist_impl_mutating_methods_take_exclusive_lock : forall o, cl_mutating o = true -> cl_excl o = true.
Proof. exact cl_side. Qed.
Print Assumptions clist_impl_mutating_methods_take_exclusive_lock.

(* ===================== non-vacuity ===================== *)

(* the tie-heavy comparator of the harness meets the premises, and 4 and 1 are tied under it *)
Example compose_cmp_premises :
  (forall x y, 0 <= HeapModel.hcmp_mod3 x y -> HeapModel.hcmp_mod3 y x <= 0) /\
  (forall x y z, HeapModel.hcmp_mod3 x y <= 0 -> HeapModel.hcmp_mod3 y z <= 0 -> HeapModel.hcmp_mod3 x z <= 0) /\
  HeapModel.hcmp_mod3 4 1 = 0 /\ HeapModel.hcmp_mod3 1 4 = 0.
Proof.
  split; [exact HeapProof2.hcmp_mod3_total|split; [exact HeapProof2.hcmp_mod3_trans|split; reflexivity]].
Qed.

(* bounded queue (capacity 2) under the comparator "k mod 3": threads 1 and 2 enqueue the TIED elements 4
   and 1; while thread 1 (a third Enqueue, refused: full) is inside its write-locked section, thread 3's
   RLock is not enabled; Peek and the first Dequeue answer 4 — a minimum under cmp although 1 < 4 —
   then 1; the heap is empty again *)
Example cpq_compose_nonvacuous :
  let q v := HQ (HeapModel.Enqueue v) in
  let pre := [ECall 1%nat (q 4); ECall 2%nat (q 1); ECall 3%nat (HQ HeapModel.Peek);
              EStep 1%nat; EStep 1%nat; EStep 1%nat; EStep 1%nat;
              EStep 2%nat; EStep 2%nat; EStep 2%nat; EStep 2%nat;
              ECall 1%nat (q 7); EStep 1%nat] in
  (exists cf, exec (hq_cstep HeapModel.hcmp_mod3) (hq_init 2) pre = Some cf /\
              HeapModel.data (lk_st (s_sh cf)) = [0; 4; 1] /\ lk_w (s_sh cf) = true /\
              hq_cstep HeapModel.hcmp_mod3 cf (EStep 3%nat) = None) /\
  (exists cf, exec (hq_cstep HeapModel.hcmp_mod3) (hq_init 2)
                (pre ++ [EStep 1%nat; EStep 1%nat; EStep 1%nat; EStep 3%nat; EStep 3%nat; EStep 3%nat; EStep 3%nat;
                         ECall 1%nat (HQ HeapModel.Dequeue); ECall 2%nat (HQ HeapModel.Dequeue);
                         EStep 2%nat; EStep 2%nat; EStep 2%nat; EStep 2%nat;
                         EStep 1%nat; EStep 1%nat; EStep 1%nat; EStep 1%nat;
                         ECall 3%nat HQCap; EStep 3%nat; EStep 3%nat; EStep 3%nat; EStep 3%nat]) = Some cf /\
              s_thr cf = [] /\ HeapModel.data (lk_st (s_sh cf)) = [0] /\
              lin_ops (s_hist cf) =
                [(q 4, HeapModel.HOk HeapModel.RUnit); (q 1, HeapModel.HOk HeapModel.RUnit);
                 (q 7, HeapModel.HErr EFull); (HQ HeapModel.Peek, HeapModel.HOk (HeapModel.RVal 4));
                 (HQ HeapModel.Dequeue, HeapModel.HOk (HeapModel.RVal 4));
                 (HQ HeapModel.Dequeue, HeapModel.HOk (HeapModel.RVal 1));
                 (HQCap, HeapModel.HOk (HeapModel.RLen 2))]).
Proof.
  split; eexists; (split; [vm_compute; reflexivity|]); repeat split; reflexivity.
Qed.

(* ConcurrentList over a LinkedList and over an ArrayList holding [10; 20]: Get(2) fails with the index
   error, Append [30] succeeds, Add(5, 9) fails, the second Get(2) answers 30 *)
Example clist_compose_nonvacuous :
  let evs := [ECall 1%nat (ListModel.OpGet 2, 0); ECall 2%nat (ListModel.OpAppend [30], 3);
              ECall 3%nat (ListModel.OpAdd 5 9, 3);
              EStep 1%nat; EStep 1%nat; EStep 1%nat; EStep 1%nat;
              EStep 2%nat; EStep 2%nat; EStep 2%nat; EStep 2%nat;
              EStep 3%nat; EStep 3%nat; EStep 3%nat; EStep 3%nat;
              ECall 1%nat (ListModel.OpGet 2, 0); EStep 1%nat; EStep 1%nat; EStep 1%nat; EStep 1%nat] in
  let expected := [(ListModel.OpGet 2, 0, Err EIndex); (ListModel.OpAppend [30], 3, Ok ListModel.OUnit);
                   (ListModel.OpAdd 5 9, 3, Err EIndex); (ListModel.OpGet 2, 0, Ok (ListModel.OVal 30))] in
  (exists cf, exec cl_cstep (cl_init (ListModel.SLinked {| ListModel.lnodes := [10; 20]; ListModel.llen := 2 |})) evs = Some cf /\
              lk_st (s_sh cf) = ListModel.SLinked {| ListModel.lnodes := [10; 20; 30]; ListModel.llen := 3 |} /\
              lin_ops (s_hist cf) = expected) /\
  (exists cf, exec cl_cstep (cl_init (ListModel.SArr {| ListModel.sv := [10; 20]; ListModel.sc := 2 |})) evs = Some cf /\
              lk_st (s_sh cf) = ListModel.SArr {| ListModel.sv := [10; 20; 30]; ListModel.sc := 3 |} /\
              lin_ops (s_hist cf) = expected) /\
  ListModel.wf (ListModel.SLinked {| ListModel.lnodes := [10; 20]; ListModel.llen := 2 |}).
Proof.
  split; [|split]; [eexists; (split; [vm_compute; reflexivity|]); split; reflexivity ..|reflexivity].
Qed.
