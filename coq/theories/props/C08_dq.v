(* C08 - DelayQueue never releases an element early and always the earliest one; exactly-once;
   capacity; calls failing with a context error have no effect.
   Only statements here; every proof is `exact <lemma>` from proof/DQProof*.v.

   The model (model/DQModel.v) interleaves the individual Go statements of any number of
   concurrent Enqueue/Dequeue calls of queue/delay_queue.go (incl. the statements of cond.broadcast
   and cond.signalCh), with a virtual clock (DTick), context cancellation (DCancel) and the
   run-time's timer ticks (DFire: only when the timer is armed and its instant has come; the tick
   is buffered when the owner is not in its select and consumed later - the stale tick).  Every
   theorem quantifies over EVERY event sequence the semantics accepts ([dq_reach]), every capacity
   [cap] (<= 0: unbounded) and BOTH timer-channel semantics [old] (true: asynctimerchan=1, Reset /
   Stop do not drain; false: they discard a pending tick).
   The inner priority queue is abstract: a multiset whose Peek/Dequeue yield SOME element of
   minimal deadline (C05 proves that for the array heap; the comparator "by Delay() now" orders by
   deadline as long as the clock does not advance inside one heap operation - assumption). *)
From Ekit Require Import Common Conc DQModel DQProof DQProof2 DQProof3 DQProof4 DQProof5 DQProof6 DQProof7.
From Coq Require Import Permutation.

(* mutual exclusion: at most one call is between d.mutex.Lock() and the matching Unlock *)
Theorem dq_mutual_exclusion : forall cap old c t1 t2 th1 th2,
  dq_reach cap old c -> lookup t1 (q_thr c) = Some th1 -> lookup t2 (q_thr c) = Some th2 ->
  holds_lock (t_pc th1) = true -> holds_lock (t_pc th2) = true -> t1 = t2.
Proof. exact dq_mutual_exclusion_final. Qed.
Print Assumptions dq_mutual_exclusion.

(* never early: the statement `val, err = d.q.Dequeue()` (either occurrence) removes an element v
   of the heap whose deadline is <= now AT THAT STEP (the check `delay <= 0` resp. `val.Delay() > 0`
   and the removal are in one critical section, and the clock is monotone); v becomes the call's val *)
Theorem dq_dequeue_not_early : forall cap old c t k th c' obs,
  dq_reach cap old c -> lookup t (q_thr c) = Some th -> at_removal th ->
  dq_exec1 c (DStep t k) = Some (c', obs) ->
  exists v th', In v (q_heap c) /\ q_heap c' = remove_first v (q_heap c) /\ e_dl v <= q_now c /\
                lookup t (q_thr c') = Some th' /\ t_el th' = v /\ t_eff th' = Removed v.
Proof. exact dq_dequeue_not_early_final. Qed.
Print Assumptions dq_dequeue_not_early.

(* always the earliest: the removed element has a minimal deadline among ALL elements in the heap at
   that step - in particular no element that was in the queue during the whole call expires
   strictly earlier *)
Theorem dq_dequeue_earliest : forall cap old c t k th c' obs,
  dq_reach cap old c -> lookup t (q_thr c) = Some th -> at_removal th ->
  dq_exec1 c (DStep t k) = Some (c', obs) ->
  exists v, q_heap c' = remove_first v (q_heap c) /\ In v (q_heap c) /\
            forall y, In y (q_heap c) -> e_dl v <= e_dl y.
Proof. exact dq_dequeue_earliest_final. Qed.
Print Assumptions dq_dequeue_earliest.

(* the heap changes ONLY at `err := d.q.Enqueue(t)` of an Enqueue (append, when not full) and at the
   two removal statements of a Dequeue (any configuration, not only reachable ones) *)
Theorem dq_heap_changes_only_at_marked_steps : forall c e c' obs,
  dq_exec1 c e = Some (c', obs) ->
  q_heap c' = q_heap c \/
  (exists t k th, e = DStep t k /\ lookup t (q_thr c) = Some th /\ t_pc th = EDo /\
                  heap_full (q_cap c) (q_heap c) = false /\ q_heap c' = q_heap c ++ [t_el th]) \/
  (exists t k th v, e = DStep t k /\ lookup t (q_thr c) = Some th /\ at_removal th /\
                    In v (mins (q_heap c)) /\ q_heap c' = remove_first v (q_heap c)).
Proof. exact dq_heap_change_final. Qed.
Print Assumptions dq_heap_changes_only_at_marked_steps.

(* the effect ghost [t_eff] of a call: NoEff when the call starts; it changes exactly at the
   statement at which THIS call changes the heap, to Inserted / Removed v *)
Theorem dq_effect_ghost_meaning : forall cap old c e c' obs t th th',
  dq_reach cap old c ->
  dq_exec1 c e = Some (c', obs) -> lookup t (q_thr c) = Some th -> lookup t (q_thr c') = Some th' ->
  (t_eff th' = t_eff th /\ (forall k, e = DStep t k -> q_heap c' = q_heap c)) \/
  (exists k, e = DStep t k /\ t_eff th = NoEff /\
     ((t_pc th = EDo /\ t_eff th' = Inserted /\ q_heap c' = q_heap c ++ [t_el th]) \/
      (at_removal th /\ exists v, t_eff th' = Removed v /\ In v (mins (q_heap c)) /\ q_heap c' = remove_first v (q_heap c)))).
Proof. exact dq_eff_meaning_final. Qed.
Print Assumptions dq_effect_ghost_meaning.

Theorem dq_new_call_has_no_effect_yet : forall x, t_eff (new_enq x) = NoEff /\ t_eff new_deq = NoEff.
Proof. exact dq_new_call_no_effect_final. Qed.
Print Assumptions dq_new_call_has_no_effect_yet.

(* what a return means.  A call returns nil / (v, nil) / ctx.Err() and nothing else (no other error,
   no panic).  Dequeue returns v iff v is the element this very call removed; Enqueue returns nil iff
   this call inserted its argument; the return step itself leaves the heap alone. *)
Theorem dq_return_values : forall cap old c e c' obs t r,
  dq_reach cap old c -> dq_exec1 c e = Some (c', obs) -> In (t, ORet r) obs ->
  exists th, lookup t (q_thr c) = Some th /\ lookup t (q_thr c') = None /\
    match r with
    | RVal v => t_eff th = Removed v /\ q_out c' = v :: q_out c /\ q_okd c' = q_okd c
    | RNil => t_eff th = Inserted /\ q_okd c' = t_el th :: q_okd c /\ q_out c' = q_out c
    | RCtx => t_eff th = NoEff /\ q_out c' = q_out c /\ q_okd c' = q_okd c
    | _ => False
    end /\ q_heap c' = q_heap c /\ q_ins c' = q_ins c.
Proof. exact dq_return_final. Qed.
Print Assumptions dq_return_values.

(* a call that returns the context's error has not touched the heap (its effect ghost is NoEff, see
   dq_effect_ghost_meaning) and the return changes neither heap nor logs *)
Theorem dq_ctx_error_has_no_effect : forall cap old c e c' obs t,
  dq_reach cap old c -> dq_exec1 c e = Some (c', obs) -> In (t, ORet RCtx) obs ->
  exists th, lookup t (q_thr c) = Some th /\ t_eff th = NoEff /\
             q_heap c' = q_heap c /\ q_ins c' = q_ins c /\ q_out c' = q_out c /\ q_okd c' = q_okd c.
Proof. exact dq_ctx_error_final. Qed.
Print Assumptions dq_ctx_error_has_no_effect.

(* exactly-once, as multisets.  q_ins: every element ever inserted (logged at the insertion step);
   q_out: every element returned by a completed Dequeue (logged at the return); q_okd: the argument of
   every Enqueue that returned nil.  Inserted = in the heap + removed by a Dequeue in flight (which is
   bound to return exactly it, dq_return_values) + returned.  Inserted = arguments of Enqueues that
   returned nil + of those past their insertion.  At quiescence: inserted = heap + returned. *)
Theorem dq_exactly_once : forall cap old c,
  dq_reach cap old c ->
  Permutation (q_ins c) (q_heap c ++ inflight removed_of (q_thr c) ++ q_out c) /\
  Permutation (q_ins c) (q_okd c ++ inflight inserted_of (q_thr c)) /\
  (q_thr c = [] -> Permutation (q_ins c) (q_heap c ++ q_out c) /\ Permutation (q_ins c) (q_okd c)).
Proof. exact dq_exactly_once_final. Qed.
Print Assumptions dq_exactly_once.

(* the bounded variant (capacity > 0) never holds more than its capacity *)
Theorem dq_len_le_capacity : forall cap old c,
  dq_reach cap old c -> q_cap c = cap /\ (0 < cap -> Z.of_nat (length (q_heap c)) <= cap).
Proof. exact dq_len_le_capacity_final. Qed.
Print Assumptions dq_len_le_capacity.

(* no fatal run-time error: unlock of an unlocked mutex, close of a closed channel, nil timer *)
Theorem dq_never_fatal : forall cap old c, dq_reach cap old c -> q_bad c = false.
Proof. exact dq_never_fatal_final. Qed.
Print Assumptions dq_never_fatal.

(* ---------- non-vacuity ---------- *)
Definition st (t : tid) (n : nat) : list dq_ev := repeat (DStep t 0) n.

(* The stale tick (old semantics): goroutine 1 sleeps on the timer of A = (901, deadline 100); a later
   element C = (902, 5000) wakes it; the clock reaches 100 and A's tick is delivered while 1 is
   outside its select; goroutine 2 takes A; 1 re-peeks (head C, 4900 to go), re-arms with Reset -
   the tick is still buffered - and its select takes `case <-timer.C` at once although nothing has
   expired.  The re-check under the lock sends it round the loop; it ends parked, armed for 5000. *)
Definition stale_prefix : list dq_ev :=
  [DCallEnq 1%nat (901, 100)] ++ st 1%nat 13 ++ [DCallDeq 1%nat] ++ st 1%nat 16 ++
  [DCallEnq 2%nat (902, 5000)] ++ st 2%nat 13 ++ [DTick 100; DFire 1%nat; DCallDeq 2%nat] ++ st 2%nat 18.

Example stale_tick_consumed :
  exists c th, exec dq_step (dq_init 0 true) (stale_prefix ++ st 1%nat 15) = Some c /\
    lookup 1%nat (q_thr c) = Some th /\ t_pc th = DCaseTimer /\
    q_heap c = [(902, 5000)] /\ q_now c = 100 /\ q_out c = [(901, 100)].
Proof. eexists _, _. vm_compute. repeat split; reflexivity. Qed.

Example stale_tick_recheck_keeps_the_element :
  exists c th, exec dq_step (dq_init 0 true) (stale_prefix ++ st 1%nat 35) = Some c /\
    lookup 1%nat (q_thr c) = Some th /\ t_pc th = DPark1 /\
    t_tm th = Some (Tm (Some 5000) false) /\ q_heap c = [(902, 5000)].
Proof. eexists _, _. vm_compute. repeat split; reflexivity. Qed.

(* under the new semantics the same schedule parks directly: Reset discards the pending tick *)
Example new_semantics_reset_discards_tick :
  exists c th, exec dq_step (dq_init 0 false) (stale_prefix ++ st 1%nat 15) = Some c /\
    lookup 1%nat (q_thr c) = Some th /\ t_pc th = DPark1 /\ t_tm th = Some (Tm (Some 5000) false).
Proof. eexists _, _. vm_compute. repeat split; reflexivity. Qed.

(* bounded queue of capacity 1: the second Enqueue waits for space, a Dequeue frees it *)
Example bounded_enqueue_waits_then_proceeds :
  exists c, exec dq_step (dq_init 1 true)
    ([DCallEnq 1%nat (1, 0)] ++ st 1%nat 13 ++ [DCallEnq 2%nat (2, 5)] ++ st 2%nat 11 ++ [DCallDeq 3%nat] ++ st 3%nat 18 ++ st 2%nat 13) = Some c /\
    q_thr c = [] /\ q_heap c = [(2, 5)] /\ q_out c = [(1, 0)] /\ q_okd c = [(2, 5); (1, 0)].
Proof. eexists. vm_compute. repeat split; reflexivity. Qed.

Example bounded_enqueue_is_parked_meanwhile :
  exists c th, exec dq_step (dq_init 1 true)
    ([DCallEnq 1%nat (1, 0)] ++ st 1%nat 13 ++ [DCallEnq 2%nat (2, 5)] ++ st 2%nat 11) = Some c /\
    lookup 2%nat (q_thr c) = Some th /\ t_pc th = EPark1 /\ q_heap c = [(1, 0)].
Proof. eexists _, _. vm_compute. repeat split; reflexivity. Qed.
