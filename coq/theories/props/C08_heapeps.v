(* C08 / audit item 6 — the C05 array heap under DelayQueue's time-dependent comparator
   cmp x y = sign(dl x - dl y + delta), 0 <= delta <= eps, delta varying per comparison
   (proof/HeapEps.v repeats HeapModel's loops with a comparison counter and an oracle `delta k`).
   Only statements; proofs are `exact <lemma>`.

   OUTCOME: the conjectured eps-relaxed heap invariant and the (log2 n) * eps bound for Dequeue are
   REFUTED on the faithful model (witnesses below); for eps = 0 the oracle model coincides with
   HeapModel, so C05 holds exactly. *)
From Ekit Require Import Common HeapModel HeapEps.

(* eps = 0 (no clock advance inside any comparison): the oracle model computes exactly what
   HeapModel computes under cmp x y = sign(dl x - dl y) — states and answers, for all histories,
   all start states, all counters; hence every C05 theorem (that comparator is a total preorder) *)
Theorem heapeps_zero_is_heap_model : forall dl delta, (forall k, delta k = 0) ->
  forall ops k p,
    (fst (fst (erun dl delta k p ops)), snd (fst (erun dl delta k p ops))) = run (cmp0 dl) p ops.
Proof. exact erun_zero_lemma. Qed.
Print Assumptions heapeps_zero_is_heap_model.

(* REFUTED: "dl(parent) <= dl(child) + eps is preserved by every operation".
   There are a deadline function, eps > 0, an oracle within [0, eps] and a reachable state in which the
   relaxed order holds and after one Enqueue it does not (the sift-up moves the ancestor 3 down next
   to the node 1 of the sibling subtree: gaps add up). *)
Theorem heapeps_relaxed_invariant_refuted :
  exists (dl : Z -> Z) (delta : nat -> Z) (eps : Z) (ops : list op) (v : Z),
    0 < eps /\ (forall k, 0 <= delta k <= eps) /\
    let '(p, _, k) := erun dl delta 0 (new_pq 0) ops in
    heap_inv_eps dl eps (data p) /\
    ~ heap_inv_eps dl eps (data (fst (fst (estep dl delta k p (Enqueue v))))).
Proof.
  exists w_dl, w_delta, 1, w_ops1, 0. split; [reflexivity|]. split; [exact w_delta_bounds|].
  exact relaxed_invariant_not_preserved_lemma.
Qed.
Print Assumptions heapeps_relaxed_invariant_refuted.

(* REFUTED: "Dequeue returns an element whose deadline is within (log2 n) * eps of the minimum".
   After Enqueue 3,2,4,1,0,4 and one Dequeue the queue holds {4,3,4,1,2} (n = 5) and the next Dequeue
   returns 4 although 1 is present: 4 > 1 + log2(5) * 1. *)
Theorem heapeps_dequeue_log_bound_refuted :
  exists (dl : Z -> Z) (delta : nat -> Z) (eps : Z) (ops : list op) (x y : Z),
    0 < eps /\ (forall k, 0 <= delta k <= eps) /\
    let '(p, _, k) := erun dl delta 0 (new_pq 0) ops in
    snd (fst (estep dl delta k p Dequeue)) = HOk (RVal x) /\ In y (contents p) /\
    dl x > dl y + Z.of_nat (Nat.log2 (length (contents p))) * eps.
Proof.
  exists w_dl, w_delta, 1, w_ops2, 4, 1. split; [reflexivity|]. split; [exact w_delta_bounds|].
  pose proof dequeue_log_bound_refuted_lemma as H.
  destruct (erun w_dl w_delta 0 (new_pq 0) w_ops2) as [[p rs] k].
  destruct H as (_ & H1 & H2 & H3). split; [exact H1|]. split; [exact H2|exact H3].
Qed.
Print Assumptions heapeps_dequeue_log_bound_refuted.

(* non-vacuity of the eps = 0 statement: the constant-0 oracle on the witness history gives the
   exactly sorted drain *)
Example heapeps_zero_nonvacuous :
  snd (fst (erun w_dl (fun _ => 0) 0 (new_pq 0) (w_ops1 ++ [Enqueue 0; Dequeue; Dequeue; Dequeue])))
  = [HOk RUnit; HOk RUnit; HOk RUnit; HOk RUnit; HOk RUnit; HOk (RVal 0); HOk (RVal 1); HOk (RVal 2)].
Proof. vm_compute. reflexivity. Qed.
