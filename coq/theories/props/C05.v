(* C05 (priority-queue half) — the PriorityQueue of internal/queue/priority_queue.go
   (and its delegating wrapper queue/priority_queue.go) behaves as a sorted multiset.
   Only statements here; every proof is `exact <lemma>` from proof/HeapProof*.v.
   The skip-list half of C05 is in props/C05_skip.v.

   Vocabulary (model/HeapModel.v):
     step cmp p o        one call of Enqueue v / Dequeue / Peek / Len on the model state p,
                         returning (next state, answer); answers are HOk r | HErr e | HPanic |
                         HOutOfFuel (index-out-of-range and loop-fuel exhaustion are explicit)
     run cmp p ops       a whole history
     new_pq c            NewPriorityQueue(c, cmp); c <= 0 is the unbounded variant
     contents p          the elements held (array without the unused slot 0)
     heap_inv cmp d      parent <= children under cmp on the 1-based array d
     abs_step / abs_run  the abstract sorted multiset (one rule per operation and answer)
   The comparator is ANY three-way comparison inducing a total preorder (premises
   cmp_total, cmp_trans); ties between different elements are allowed. *)
From Ekit Require Import Common HeapModel HeapProof HeapProof2.
From Coq Require Import Permutation.

Definition total_preorder (cmp : Z -> Z -> Z) : Prop :=
  (forall x y, 0 <= cmp x y -> cmp y x <= 0) /\
  (forall x y z, cmp x y <= 0 -> cmp y z <= 0 -> cmp x z <= 0).

(* heap_inv (with the bookkeeping invariants: slot 0 present, len <= capacity when bounded)
   is preserved by every operation from every state satisfying it ... *)
Theorem heap_inv_preserved : forall cmp, total_preorder cmp ->
  forall p o, well_formed cmp p -> well_formed cmp (fst (step cmp p o)).
Proof. intros cmp [T R]. exact (step_preserves_wf_lemma cmp T R). Qed.
Print Assumptions heap_inv_preserved.

(* ... and therefore holds in every state reachable from the constructor, for every capacity *)
Theorem heap_inv_reachable : forall cmp, total_preorder cmp ->
  forall c p, reachable cmp c p -> heap_inv cmp (data p) /\ (1 <= length (data p))%nat.
Proof. intros cmp [T R]. exact (reachable_heap_inv_lemma cmp T R). Qed.
Print Assumptions heap_inv_reachable.

(* For every capacity and every history of Enqueue/Dequeue/Peek/Len, the sequence of answers
   of the priority queue is a run of the abstract sorted multiset started empty, ending in
   (a permutation of) the final contents:  Dequeue/Peek answer A minimum of the current
   multiset, Dequeue removes exactly one occurrence of it, Enqueue adds exactly the element,
   Len is the cardinality, ErrOutOfCapacity exactly when 0 < c = cardinality,
   ErrEmptyQueue exactly when the multiset is empty; no rule answers HPanic/HOutOfFuel. *)
Theorem pq_refines_sorted_multiset : forall cmp, total_preorder cmp ->
  forall c ops,
    abs_run cmp c [] ops (snd (run cmp (new_pq c) ops)) (contents (fst (run cmp (new_pq c) ops))).
Proof. intros cmp [T R]. exact (pq_refines_lemma cmp T R). Qed.
Print Assumptions pq_refines_sorted_multiset.

(* the same, one step at a time from any reachable state *)
Theorem pq_step_refines_sorted_multiset : forall cmp, total_preorder cmp ->
  forall c p o, reachable cmp c p ->
    abs_step cmp c (contents p) o (snd (step cmp p o)) (contents (fst (step cmp p o))).
Proof. intros cmp [T R]. exact (pq_step_refines_lemma cmp T R). Qed.
Print Assumptions pq_step_refines_sorted_multiset.

(* spelled out: what Dequeue / Peek return *)
Theorem pq_dequeue_peek_return_a_minimum : forall cmp, total_preorder cmp ->
  forall c p o x, reachable cmp c p -> o = Dequeue \/ o = Peek ->
    snd (step cmp p o) = HOk (RVal x) ->
    In x (contents p) /\ (forall y, In y (contents p) -> cmp x y <= 0) /\
    (o = Dequeue -> Permutation (contents p) (x :: contents (fst (step cmp p o)))) /\
    (o = Peek -> fst (step cmp p o) = p).
Proof. intros cmp [T R]. exact (pq_min_lemma cmp T R). Qed.
Print Assumptions pq_dequeue_peek_return_a_minimum.

(* contents = enqueued - dequeued, as multisets, after every history *)
Theorem pq_contents_are_enqueued_minus_dequeued : forall cmp, total_preorder cmp ->
  forall c ops,
    let rs := snd (run cmp (new_pq c) ops) in
    Permutation (contents (fst (run cmp (new_pq c) ops)) ++ dequeued ops rs) (enqueued ops rs).
Proof. intros cmp [T R]. exact (pq_conservation_lemma cmp T R). Qed.
Print Assumptions pq_contents_are_enqueued_minus_dequeued.

(* the bounded variant never holds more than its capacity *)
Theorem pq_len_le_capacity : forall cmp, total_preorder cmp ->
  forall c p, reachable cmp c p -> 0 < c -> pq_len p <= c.
Proof. intros cmp [T R]. exact (pq_len_le_capacity_lemma cmp T R). Qed.
Print Assumptions pq_len_le_capacity.

(* ErrOutOfCapacity exactly when len = capacity > 0, success otherwise *)
Theorem pq_full_exact : forall cmp, total_preorder cmp ->
  forall c p v, reachable cmp c p ->
    (snd (step cmp p (Enqueue v)) = HErr EFull <-> 0 < c /\ pq_len p = c) /\
    (snd (step cmp p (Enqueue v)) = HOk RUnit <-> ~ (0 < c /\ pq_len p = c)).
Proof. intros cmp [T R]. exact (pq_full_exact_lemma cmp T R). Qed.
Print Assumptions pq_full_exact.

(* ErrEmptyQueue exactly when empty, a value otherwise *)
Theorem pq_empty_exact : forall cmp, total_preorder cmp ->
  forall c p o, reachable cmp c p -> o = Dequeue \/ o = Peek ->
    (snd (step cmp p o) = HErr EEmpty <-> pq_len p = 0) /\
    (pq_len p <> 0 -> exists x, snd (step cmp p o) = HOk (RVal x)).
Proof. intros cmp [T R]. exact (pq_empty_exact_lemma cmp T R). Qed.
Print Assumptions pq_empty_exact.

(* no index out of range, and the fuel (= len(data)) of both sift loops always suffices *)
Theorem pq_never_panics_never_out_of_fuel : forall cmp, total_preorder cmp ->
  forall c ops, Forall (fun r => r <> HPanic /\ r <> HOutOfFuel) (snd (run cmp (new_pq c) ops)).
Proof. intros cmp [T R]. exact (pq_never_crashes_lemma cmp T R). Qed.
Print Assumptions pq_never_panics_never_out_of_fuel.

(* the executable acceptance test used by the search layer decides the specification:
   sound (accepted => a run of the abstract multiset) and complete (a run => accepted) *)
Theorem abs_first_reject_decides_spec : forall cmp c ops rs,
  length ops = length rs ->
  (abs_first_reject cmp c [] ops rs 0 = None <-> exists bag', abs_run cmp c [] ops rs bag').
Proof.
  intros cmp c ops rs Hl. split.
  - exact (abs_first_reject_sound cmp c ops rs [] 0%nat Hl).
  - intros [bag' H]. exact (abs_first_reject_complete cmp c ops rs [] bag' [] 0%nat H (Permutation_refl [])).
Qed.
Print Assumptions abs_first_reject_decides_spec.

Theorem heap_invb_decides_heap_inv : forall cmp d, heap_invb cmp d = true <-> heap_inv cmp d.
Proof. exact heap_invb_iff. Qed.
Print Assumptions heap_invb_decides_heap_inv.

(* ---------- non-vacuity ---------- *)

(* the comparator families driven by the harness meet the premises; mod 3 has many ties *)
Example cmp_asc_is_total_preorder : total_preorder hcmp_asc.
Proof. split; [exact hcmp_asc_total|exact hcmp_asc_trans]. Qed.
Example cmp_desc_is_total_preorder : total_preorder hcmp_desc.
Proof. split; [exact hcmp_desc_total|exact hcmp_desc_trans]. Qed.
Example cmp_mod3_is_total_preorder : total_preorder hcmp_mod3.
Proof. split; [exact hcmp_mod3_total|exact hcmp_mod3_trans]. Qed.
Example cmp_mod3_has_ties : hcmp_mod3 1 4 = 0 /\ hcmp_mod3 4 1 = 0 /\ 1 <> 4 /\ hcmp_mod3 (-1) 2 = 0.
Proof. repeat split; try reflexivity. discriminate. Qed.

(* a non-trivial reachable state: bounded queue of capacity 4 under the tie-heavy comparator,
   filled, refused once, drained in non-decreasing order of (k mod 3), then empty *)
Example pq_history_nonvacuous :
  snd (run hcmp_mod3 (new_pq 4)
         [Enqueue 5; Enqueue 3; Enqueue 7; Enqueue 4; Enqueue 9; Len; Peek;
          Dequeue; Dequeue; Dequeue; Dequeue; Dequeue; Peek]) =
  [HOk RUnit; HOk RUnit; HOk RUnit; HOk RUnit; HErr EFull; HOk (RLen 4); HOk (RVal 3);
   HOk (RVal 3); HOk (RVal 4); HOk (RVal 7); HOk (RVal 5); HErr EEmpty; HErr EEmpty].
Proof. vm_compute. reflexivity. Qed.

Example pq_unbounded_nonvacuous :
  let p := fst (run hcmp_asc (new_pq (-3)) (map Enqueue [9; 8; 7; 6; 5; 4; 3; 2; 1])) in
  data p = [0; 1; 2; 4; 3; 7; 8; 5; 9; 6] /\ heap_invb hcmp_asc (data p) = true /\
  heap_invb hcmp_asc [0; 2; 1] = false.
Proof. vm_compute. repeat split; reflexivity. Qed.
