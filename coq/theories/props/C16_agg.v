(* C16: Max / Min over ordered keys (float64 without NaN in the correspondence check) and the single-pair functions. *)
From Ekit Require Import Common SliceModel SliceAggModel SliceAggProof.

(* Max / Min over any totally pre-ordered element type (elements carry their order key): an attained bound,
   Panic exactly on the empty slice *)
Theorem max_key_exact : forall ts,
  match max_key ts with
  | Ok m => In m ts /\ forall y, In y ts -> fst y <= fst m
  | Err _ => False
  | Panic => ts = []
  end.
Proof. exact max_key_lemma. Qed.
Print Assumptions max_key_exact.

Theorem min_key_exact : forall ts,
  match min_key ts with
  | Ok m => In m ts /\ forall y, In y ts -> fst m <= fst y
  | Err _ => False
  | Panic => ts = []
  end.
Proof. exact min_key_lemma. Qed.
Print Assumptions min_key_exact.

Theorem pair_split_new_pair : forall k v, pair_split (new_pair k v) = (k, v).
Proof. exact pair_split_new_lemma. Qed.
Print Assumptions pair_split_new_pair.

Example c16_agg_nonvacuous :
  max_key [(0, 9); (0, 0); (5, 77); (5, 78)] = Ok (5, 77) /\ min_key [] = Panic /\
  sum8 true [127; 1] = -128 /\ sum8 false [255; 2] = 1 /\
  pair_string (new_pair (-3) 40) = [60; 45; 51; 44; 32; 52; 48; 62].
Proof. repeat split; vm_compute; reflexivity. Qed.
