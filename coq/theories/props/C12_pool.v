(* C12 — graceful Shutdown of pool.OnDemandBlockTaskPool completes: the done channel closes after the
   last task and never before.  Only statements here; proofs are `exact <lemma>` from
   proof/PoolProofB*.v.  Model: model/PoolModel.v (one step = one Go statement of pool/task_pool.go);
   the safety ledger of the same model is props/C10_pool.v, the bound on workers props/C11_pool.v.

   Liveness is stated as safety of STUCK configurations ([stuck], proof/PoolProofB.v): no goroutine can
   execute a statement, no armed idle timer is left to fire, no user task is still running.

   STATUS (honest account; this file is extended as the invariant layers in proof/PoolProofB*.v close)

   PROVED here
     shutdown_hang_refuted                 the pinned code (i_fixb = false) hangs: witness schedule
     shutdown_completes_after_timer_exit   Example: on the code as it is the same schedule completes
     pool_lock_discipline_B                b.mutex (write/read), group.mu (write/read) and the state word at
                                           `locked` count exactly the threads inside their critical sections
     pool_mutual_exclusion_B               hence never two goroutines inside b.mutex's / group.mu's write
                                           section, never two holders of the state word
     graceful_cancel_only_after_shutdown   whenever the graceful path has cancelled the context: state =
                                           stopped, context cancelled, a Shutdown had succeeded, and NO
                                           ShutdownNow ever succeeded
     closed_flag_accounting                closed + (Shutdown at its close) + (ShutdownNow at its close) =
                                           g_shut + g_now; the two are exclusive; closed => closing/stopped;
                                           cancelled => stopped
   These four hold for EVERY parameter record (no validity hypothesis) and for all pinned / repaired
   variants; they are steps towards the two theorems below, NOT those theorems.
     stuck_threads_are_parked              (valid parameters, i_fixc = true) in a stuck configuration every
                                           goroutine is a worker parked in its select without an armed timer;
                                           closed / cancelled / non-empty queue => no goroutine at all

   PROVED ONE HYPOTHESIS SHORT (rule 3)
     done_not_early_partial, shutdown_completes_partial : the full statements below with the single extra
     hypothesis [invK c] - the Layer-5 record (K, J, Q, cancel bridge; proof/PoolProofB5d.v) at the
     configuration.  Every other invariant is discharged by reachability (lock discipline, life cycle,
     goroutine ids, totalGo / timeoutGroup accounting, stuck analysis, agent-pool's ledger).  MISSING:
     `invK` is preserved by every step (machine-checking in progress; all its conjuncts pass 126M random
     model steps in exactly this encoding, and the checker flags the pinned i_fixa = false model).

   NOT PROVED YET (full statements; P with pvalid P, i_fixa P = i_fixb P = i_fixc P = true)

     done_not_early :
       forall P evs c, exec pstep_cfg (pinit P) evs = Some c -> g_grace (c_gh c) = true ->
         s_q (c_sh c) = [] /\ (no worker has a received task) /\
         (forall i, In i (g_acc (c_gh c)) -> In i (g_done (c_gh c)))
       missing invariants: (K) while the pool is live at least initGo counted workers are not members of
       timeoutGroup, or the queue is closed and empty; (Q) a goroutine that read totalGo = 0 after its own
       decrement implies totalGo = 0 now.  With them: at the successful CAS closing -> stopped totalGo = 0,
       so no counted worker (none holds a task) and by K the queue is closed and empty; acc <= done then
       follows from agent-pool's ledger (PoolProof6.accepted_in_ledger_lemma) and
       graceful_cancel_only_after_shutdown (nothing was ever returned by ShutdownNow).

     shutdown_completes :
       forall P evs c, exec pstep_cfg (pinit P) evs = Some c -> g_shut (c_gh c) = true -> stuck c ->
         s_state (c_sh c) = SStopped /\ s_ictx (c_sh c) = true /\
         (forall i, In i (g_acc (c_gh c)) -> In i (g_done (c_gh c)))
       missing: K, Q as above; (J) in state closing with totalGo = 0 some goroutine is between its
       decrement and the CAS closing -> stopped; and the analysis of stuck configurations (every thread of
       a stuck configuration is a parked worker without an armed timer), which needs, besides the lock
       discipline proved here: "at `<-idleTimer.C` after a failed Stop the timer has fired" (proved in
       scratch, waits for the goroutine-id layer), wrapper depth >= 1 (PoolProof7.Inv4), "range b.queue
       in ShutdownNow runs on a closed queue" (proved: closed_flag_accounting's layer). *)
From Ekit Require Import Common Conc PoolModel PoolProof PoolProof5 PoolExamples PoolProofB PoolProofB0 PoolProofB1 PoolProofB2d
  PoolProofB4d PoolProofB5d PoolProofBz.

(* On the code BEFORE the fix: commit 11c4414 (i_fixb = false): a schedule after which Shutdown has
   succeeded and returned, nothing can run any more, every accepted task is done - and the pool is in
   state closing for ever with the interrupt context (the channel Shutdown returned) not cancelled. *)
Theorem shutdown_hang_refuted :
  exists P evs c,
    pvalid P /\ i_fixa P = true /\ i_fixb P = false /\
    exec pstep_cfg (pinit P) evs = Some c /\
    g_shut (c_gh c) = true /\ g_shuts (c_gh c) = 1 /\
    stuck c /\ c_thr c = [] /\
    s_state (c_sh c) = SClosing /\ s_ictx (c_sh c) = false /\
    s_total (c_sh c) = 0 /\ acc_all_done c.
Proof. exact shutdown_hang_refuted_lemma. Qed.
Print Assumptions shutdown_hang_refuted.

(* non-vacuity: the same schedule on the code as it is now - the last worker leaves by its idle timer,
   performs closing -> stopped and cancels the context; stuck, stopped, done closed, tasks 0 and 1 done *)
Example shutdown_completes_after_timer_exit :
  exists evs c,
    exec pstep_cfg (pinit wit_hang_P) evs = Some c /\
    i_fixa wit_hang_P = true /\ i_fixb wit_hang_P = true /\ pvalid wit_hang_P /\
    g_shut (c_gh c) = true /\ stuck c /\
    s_state (c_sh c) = SStopped /\ s_ictx (c_sh c) = true /\ g_grace (c_gh c) = true /\
    g_acc (c_gh c) = [0; 1]%nat /\ g_done (c_gh c) = [0; 1]%nat /\
    In (PFire 100%nat) evs.
Proof. exact shutdown_completes_example_lemma. Qed.

(* ---------- steps towards the positive theorems (every parameter record, every variant) ---------- *)

(* the three lock words say exactly how many threads are inside the corresponding critical sections
   (g_hbw / g_hbr: b.mutex write / read sections; g_hgw / g_hgr: timeoutGroup.mu; g_hsl: between a
   successful CAS to `locked` and the CAS back, in Submit and in Start) *)
Theorem pool_lock_discipline_B : forall P evs c, exec pstep_cfg (pinit P) evs = Some c ->
  Z.b2z (s_bw (c_sh c)) = tsum (pcf g_hbw) (c_thr c) /\
  s_br (c_sh c) = tsum (pcf g_hbr) (c_thr c) /\
  Z.b2z (s_gw (c_sh c)) = tsum (pcf g_hgw) (c_thr c) /\
  s_gr (c_sh c) = tsum (pcf g_hgr) (c_thr c) /\
  Z.b2z (pstate_eqb (s_state (c_sh c)) SLocked) = tsum (pcf g_hsl) (c_thr c).
Proof. exact lock_discipline_lemma. Qed.
Print Assumptions pool_lock_discipline_B.

Theorem pool_mutual_exclusion_B : forall P evs c t1 t2 x1 x2, exec pstep_cfg (pinit P) evs = Some c ->
  lookup t1 (c_thr c) = Some x1 -> lookup t2 (c_thr c) = Some x2 ->
  (g_hbw (pc x1) = 1 -> g_hbw (pc x2) = 1 -> t1 = t2) /\
  (g_hgw (pc x1) = 1 -> g_hgw (pc x2) = 1 -> t1 = t2) /\
  (g_hsl (pc x1) = 1 -> g_hsl (pc x2) = 1 -> t1 = t2).
Proof. exact mutual_exclusion_lemma. Qed.
Print Assumptions pool_mutual_exclusion_B.

(* g_grace is set by exactly the two statements `b.interruptCtxCancel()` that follow a successful CAS
   closing -> stopped in a worker (closed-queue exit and, since the fix, idle-timer exit) *)
Theorem graceful_cancel_only_after_shutdown : forall P evs c, exec pstep_cfg (pinit P) evs = Some c ->
  g_grace (c_gh c) = true ->
  s_state (c_sh c) = SStopped /\ s_ictx (c_sh c) = true /\ g_shut (c_gh c) = true /\ g_now (c_gh c) = false.
Proof. exact graceful_cancel_only_after_shutdown_lemma. Qed.
Print Assumptions graceful_cancel_only_after_shutdown.

Theorem closed_flag_accounting : forall P evs c, exec pstep_cfg (pinit P) evs = Some c ->
  bz (s_closed (c_sh c)) + tsum (pcf g_shclose) (c_thr c) + tsum (pcf g_snclose) (c_thr c) =
    bz (g_shut (c_gh c)) + bz (g_now (c_gh c)) /\
  (g_shut (c_gh c) = true -> g_now (c_gh c) = true -> False) /\
  (s_closed (c_sh c) = true -> s_state (c_sh c) = SClosing \/ s_state (c_sh c) = SStopped) /\
  (s_ictx (c_sh c) = true -> s_state (c_sh c) = SStopped).
Proof. exact closed_flag_accounting_lemma. Qed.
Print Assumptions closed_flag_accounting.

(* ---------- the only way to be stuck (valid parameters, code as it is: i_fixc = true) ---------- *)
(* In a stuck configuration every goroutine is a worker parked in its select whose idle timer is not armed
   (no client call is in flight, nobody waits for a mutex, no timer drain / user task / range is pending);
   and if the queue is closed, or the context cancelled, or the queue not empty, there is no goroutine
   at all.  This is the liveness half of the argument for shutdown_completes. *)
Theorem stuck_threads_are_parked : forall P evs c,
  pvalid P -> i_fixc P = true -> exec pstep_cfg (pinit P) evs = Some c -> stuck c ->
  (forall t x, lookup t (c_thr c) = Some x -> pc x = WParked /\ l_tm x <> TmArmed) /\
  (s_closed (c_sh c) = true \/ s_ictx (c_sh c) = true \/ s_q (c_sh c) <> [] -> c_thr c = []).
Proof. exact stuck_threads_are_parked_lemma. Qed.
Print Assumptions stuck_threads_are_parked.

(* ---------- the two target theorems, ONE hypothesis short (rule 3: _partial) ---------- *)
(* [invK c] (proof/PoolProofB5d.v) = the Layer-5 record at configuration c: (K) live and not stopped =>
   queue closed-and-empty or initGo <= counted non-timer workers + creations in progress, with its two
   guards; (J) closing and totalGo = 0 => some goroutine is between its decrement and the CAS;
   (Q) a goroutine that read totalGo = 0 => totalGo = 0; the cancel bridge.  It holds initially; what is
   NOT proved yet is that every step preserves it.  Everything else the statements need (lock discipline,
   life cycle, ids, counters, stuck analysis, agent-pool's ledger) is discharged. *)
Theorem done_not_early_partial : forall P evs c,
  pvalid P -> exec pstep_cfg (pinit P) evs = Some c -> invK c -> g_grace (c_gh c) = true ->
  s_q (c_sh c) = [] /\
  (forall t x, lookup t (c_thr c) = Some x -> g_cnt (pc x) = 0) /\
  (forall i, PoolProof.tsum (held i) (c_thr c) = 0) /\
  (forall i, In i (g_acc (c_gh c)) -> In i (g_done (c_gh c))).
Proof. exact done_not_early_partial_lemma. Qed.
Print Assumptions done_not_early_partial.

Theorem shutdown_completes_partial : forall P evs c,
  pvalid P -> i_fixc P = true -> exec pstep_cfg (pinit P) evs = Some c -> invK c ->
  g_shut (c_gh c) = true -> stuck c ->
  s_state (c_sh c) = SStopped /\ s_ictx (c_sh c) = true /\
  (forall i, In i (g_acc (c_gh c)) -> In i (g_done (c_gh c))).
Proof. exact shutdown_completes_partial_lemma. Qed.
Print Assumptions shutdown_completes_partial.
