(* C12 — graceful Shutdown of pool.OnDemandBlockTaskPool completes: the done channel closes after the
   last task and never before.  Only statements here; proofs are `exact <lemma>` from
   proof/PoolProofB*.v.  Model: model/PoolModel.v (one step = one Go statement of pool/task_pool.go);
   the safety ledger of the same model is props/C10_pool.v, the bound on workers props/C11_pool.v.

   Liveness is stated as safety of STUCK configurations ([stuck], proof/PoolProofB.v): no goroutine can
   execute a statement, no armed idle timer is left to fire, no user task is still running.

   STATUS: both target theorems are PROVED (for every valid parameter record and every event list the model
   accepts, on the code as it is: i_fixa = i_fixb = true; i_fixc = true where stuck configurations are analysed)

     done_not_early                        graceful cancel => queue empty, no goroutine still counted in totalGo
                                           (so no worker holds a task), every accepted task done
     shutdown_completes                    Shutdown succeeded and the configuration is stuck => stopped, context
                                           cancelled (the returned channel is closed), every accepted task done
     shutdown_hang_refuted                 the pinned code (i_fixb = false) hangs: witness schedule
     shutdown_completes_after_timer_exit   Example: on the code as it is the same schedule completes

   and, on the way (these hold for EVERY parameter record and every pinned / repaired variant):
     pool_lock_discipline_B, pool_mutual_exclusion_B, graceful_cancel_only_after_shutdown, closed_flag_accounting
   and (valid parameters, i_fixc = true):
     stuck_threads_are_parked              in a stuck configuration every goroutine is a worker parked in its
                                           select without an armed timer; closed / cancelled / non-empty queue
                                           => no goroutine at all

   Proof structure (proof/PoolProofB*.v): invariant layers, each a record of linear facts over sums of
   per-thread classifiers, each preserved by every step (one case analysis over the ~170 statements per
   layer / per field): BA finite map, B1 locks, B2 life cycle, B2b interrupt branch / parked workers, B3
   goroutine ids, B4 totalGo and timeoutGroup accounting, BR returned list, B5 the two invariants the repaired
   code relies on (K: >= initGo counted non-timer workers while live; J: in closing the goroutine whose
   decrement brought totalGo to 0 is on its way to the CAS) with Q and the cancel bridge; B6 analysis of
   stuck configurations; B7/B8 assembly, using agent-pool's task ledger (PoolProof6) and wrapper-depth
   invariant (PoolProof7).
*)
From Ekit Require Import Common Conc PoolModel PoolProof PoolProof5 PoolExamples PoolProofB PoolProofB0 PoolProofB1 PoolProofB2d
  PoolProofB4d PoolProofB5d PoolProofBz PoolProofB8.

(* On the code BEFORE the fix: commit 11c4414 (i_fixb = false): a schedule after which Shutdown has
   succeeded and returned, nothing can run any more, every accepted task is done - and the pool is in
   state closing for ever with the interrupt context (the channel Shutdown returned) not cancelled. *)
Theorem shutdown_hang_refuted :
  exists P evs c,
    pvalid P /\ i_fixa P = true /\ i_fixb P = false /\
    exec pstep_cfg (pinit P) evs = Some c /\
    g_shut (c_gh c) = true /\ g_shuts (c_gh c) = 1 /\
    stuck c /\ c_thr c = [] /\
    s_state (c_sh c) = SClosing /\ s_ictx (c_sh c) = false /\
    s_total (c_sh c) = 0 /\ acc_all_done c.
Proof. exact shutdown_hang_refuted_lemma. Qed.
Print Assumptions shutdown_hang_refuted.

(* non-vacuity: the same schedule on the code as it is now - the last worker leaves by its idle timer,
   performs closing -> stopped and cancels the context; stuck, stopped, done closed, tasks 0 and 1 done *)
Example shutdown_completes_after_timer_exit :
  exists evs c,
    exec pstep_cfg (pinit wit_hang_P) evs = Some c /\
    i_fixa wit_hang_P = true /\ i_fixb wit_hang_P = true /\ pvalid wit_hang_P /\
    g_shut (c_gh c) = true /\ stuck c /\
    s_state (c_sh c) = SStopped /\ s_ictx (c_sh c) = true /\ g_grace (c_gh c) = true /\
    g_acc (c_gh c) = [0; 1]%nat /\ g_done (c_gh c) = [0; 1]%nat /\
    In (PFire 100%nat) evs.
Proof. exact shutdown_completes_example_lemma. Qed.

(* ---------- steps towards the positive theorems (every parameter record, every variant) ---------- *)

(* the three lock words say exactly how many threads are inside the corresponding critical sections
   (g_hbw / g_hbr: b.mutex write / read sections; g_hgw / g_hgr: timeoutGroup.mu; g_hsl: between a
   successful CAS to `locked` and the CAS back, in Submit and in Start) *)
Theorem pool_lock_discipline_B : forall P evs c, exec pstep_cfg (pinit P) evs = Some c ->
  Z.b2z (s_bw (c_sh c)) = tsum (pcf g_hbw) (c_thr c) /\
  s_br (c_sh c) = tsum (pcf g_hbr) (c_thr c) /\
  Z.b2z (s_gw (c_sh c)) = tsum (pcf g_hgw) (c_thr c) /\
  s_gr (c_sh c) = tsum (pcf g_hgr) (c_thr c) /\
  Z.b2z (pstate_eqb (s_state (c_sh c)) SLocked) = tsum (pcf g_hsl) (c_thr c).
Proof. exact lock_discipline_lemma. Qed.
Print Assumptions pool_lock_discipline_B.

Theorem pool_mutual_exclusion_B : forall P evs c t1 t2 x1 x2, exec pstep_cfg (pinit P) evs = Some c ->
  lookup t1 (c_thr c) = Some x1 -> lookup t2 (c_thr c) = Some x2 ->
  (g_hbw (pc x1) = 1 -> g_hbw (pc x2) = 1 -> t1 = t2) /\
  (g_hgw (pc x1) = 1 -> g_hgw (pc x2) = 1 -> t1 = t2) /\
  (g_hsl (pc x1) = 1 -> g_hsl (pc x2) = 1 -> t1 = t2).
Proof. exact mutual_exclusion_lemma. Qed.
Print Assumptions pool_mutual_exclusion_B.

(* g_grace is set by exactly the two statements `b.interruptCtxCancel()` that follow a successful CAS
   closing -> stopped in a worker (closed-queue exit and, since the fix, idle-timer exit) *)
Theorem graceful_cancel_only_after_shutdown : forall P evs c, exec pstep_cfg (pinit P) evs = Some c ->
  g_grace (c_gh c) = true ->
  s_state (c_sh c) = SStopped /\ s_ictx (c_sh c) = true /\ g_shut (c_gh c) = true /\ g_now (c_gh c) = false.
Proof. exact graceful_cancel_only_after_shutdown_lemma. Qed.
Print Assumptions graceful_cancel_only_after_shutdown.

Theorem closed_flag_accounting : forall P evs c, exec pstep_cfg (pinit P) evs = Some c ->
  bz (s_closed (c_sh c)) + tsum (pcf g_shclose) (c_thr c) + tsum (pcf g_snclose) (c_thr c) =
    bz (g_shut (c_gh c)) + bz (g_now (c_gh c)) /\
  (g_shut (c_gh c) = true -> g_now (c_gh c) = true -> False) /\
  (s_closed (c_sh c) = true -> s_state (c_sh c) = SClosing \/ s_state (c_sh c) = SStopped) /\
  (s_ictx (c_sh c) = true -> s_state (c_sh c) = SStopped).
Proof. exact closed_flag_accounting_lemma. Qed.
Print Assumptions closed_flag_accounting.

(* ---------- the only way to be stuck (valid parameters, code as it is: i_fixc = true) ---------- *)
(* In a stuck configuration every goroutine is a worker parked in its select whose idle timer is not armed
   (no client call is in flight, nobody waits for a mutex, no timer drain / user task / range is pending);
   and if the queue is closed, or the context cancelled, or the queue not empty, there is no goroutine
   at all.  This is the liveness half of the argument for shutdown_completes. *)
Theorem stuck_threads_are_parked : forall P evs c,
  pvalid P -> i_fixc P = true -> exec pstep_cfg (pinit P) evs = Some c -> stuck c ->
  (forall t x, lookup t (c_thr c) = Some x -> pc x = WParked /\ l_tm x <> TmArmed) /\
  (s_closed (c_sh c) = true \/ s_ictx (c_sh c) = true \/ s_q (c_sh c) <> [] -> c_thr c = []).
Proof. exact stuck_threads_are_parked_lemma. Qed.
Print Assumptions stuck_threads_are_parked.

(* ---------- C12: the two target theorems ---------- *)
(* pfixed P := i_fixa P = true /\ i_fixb P = true (the two `fix:` commits are in); i_fixc = true is needed
   only where a stuck configuration is analysed (wrapper depth 1, PoolProof7.Inv4). *)

(* The done channel never closes early: whenever the GRACEFUL path has cancelled the interrupt context
   (g_grace is set by exactly the two `b.interruptCtxCancel()` statements that follow a successful CAS
   closing -> stopped), the queue is empty, every remaining goroutine has already executed its decrement of
   totalGo (in particular no worker holds a received task: agent-pool's `held`), and every accepted task is
   done.  For every valid parameter record and EVERY event list the model accepts. *)
Theorem done_not_early : forall P evs c,
  pvalid P -> pfixed P -> exec pstep_cfg (pinit P) evs = Some c -> g_grace (c_gh c) = true ->
  s_q (c_sh c) = [] /\
  (forall t x, lookup t (c_thr c) = Some x -> g_cnt (pc x) = 0) /\
  (forall i, PoolProof.tsum (held i) (c_thr c) = 0) /\
  (forall i, In i (g_acc (c_gh c)) -> In i (g_done (c_gh c))).
Proof. exact done_not_early_full. Qed.
Print Assumptions done_not_early.

(* Graceful Shutdown completes (liveness as safety of stuck configurations): in every reachable
   configuration in which a Shutdown has succeeded and nothing can happen any more (no goroutine can execute
   a statement, no armed timer, no running user task), the pool is stopped, the interrupt context - the
   channel Shutdown returned - is cancelled, and every accepted task is done. *)
Theorem shutdown_completes : forall P evs c,
  pvalid P -> pfixed P -> i_fixc P = true -> exec pstep_cfg (pinit P) evs = Some c ->
  g_shut (c_gh c) = true -> stuck c ->
  s_state (c_sh c) = SStopped /\ s_ictx (c_sh c) = true /\
  (forall i, In i (g_acc (c_gh c)) -> In i (g_done (c_gh c))).
Proof. exact shutdown_completes_full. Qed.
Print Assumptions shutdown_completes.
