(* C12 — graceful Shutdown of pool.OnDemandBlockTaskPool completes: the done channel closes after the
   last task and never before.  Only statements here; proofs are `exact <lemma>` from
   proof/PoolProofB*.v.  Model: model/PoolModel.v (one step = one Go statement of pool/task_pool.go);
   the safety ledger of the same model is props/C10_pool.v, the bound on workers props/C11_pool.v.

   Liveness is stated as safety of STUCK configurations ([stuck], proof/PoolProofB.v): no goroutine can
   execute a statement, no armed idle timer is left to fire, no user task is still running.

   STATUS of this file (it is extended as the invariant proofs in PoolProofB2.v ... close):
     proved  : shutdown_hang_refuted (pinned code, i_fixb = false), the non-vacuity Example.
     pending : (full statements, to be proved for every P with pvalid P, i_fixa P = i_fixb P = true)

       done_not_early :
         forall P evs c, pvalid P -> i_fixa P = true -> i_fixb P = true ->
           exec pstep_cfg (pinit P) evs = Some c -> g_grace (c_gh c) = true ->
           s_q (c_sh c) = [] /\ (no worker holds a received task) /\
           (forall i, In i (g_acc (c_gh c)) -> In i (g_done (c_gh c)))
         (g_grace is set by exactly the two statements `b.interruptCtxCancel()` that follow a successful
          CAS closing -> stopped, i.e. by the graceful path only)

       shutdown_completes :
         forall P evs c, pvalid P -> i_fixa P = true -> i_fixb P = true ->
           exec pstep_cfg (pinit P) evs = Some c -> g_shut (c_gh c) = true -> stuck c ->
           s_state (c_sh c) = SStopped /\ s_ictx (c_sh c) = true /\
           (forall i, In i (g_acc (c_gh c)) -> In i (g_done (c_gh c))) *)
From Ekit Require Import Common Conc PoolModel PoolExamples PoolProofB.

(* On the code BEFORE the fix: commit 11c4414 (i_fixb = false): a schedule after which Shutdown has
   succeeded and returned, nothing can run any more, every accepted task is done - and the pool is in
   state closing for ever with the interrupt context (the channel Shutdown returned) not cancelled. *)
Theorem shutdown_hang_refuted :
  exists P evs c,
    pvalid P /\ i_fixa P = true /\ i_fixb P = false /\
    exec pstep_cfg (pinit P) evs = Some c /\
    g_shut (c_gh c) = true /\ g_shuts (c_gh c) = 1 /\
    stuck c /\ c_thr c = [] /\
    s_state (c_sh c) = SClosing /\ s_ictx (c_sh c) = false /\
    s_total (c_sh c) = 0 /\ acc_all_done c.
Proof. exact shutdown_hang_refuted_lemma. Qed.
Print Assumptions shutdown_hang_refuted.

(* non-vacuity: the same schedule on the code as it is now - the last worker leaves by its idle timer,
   performs closing -> stopped and cancels the context; stuck, stopped, done closed, tasks 0 and 1 done *)
Example shutdown_completes_after_timer_exit :
  exists evs c,
    exec pstep_cfg (pinit wit_hang_P) evs = Some c /\
    i_fixa wit_hang_P = true /\ i_fixb wit_hang_P = true /\ pvalid wit_hang_P /\
    g_shut (c_gh c) = true /\ stuck c /\
    s_state (c_sh c) = SStopped /\ s_ictx (c_sh c) = true /\ g_grace (c_gh c) = true /\
    g_acc (c_gh c) = [0; 1]%nat /\ g_done (c_gh c) = [0; 1]%nat /\
    In (PFire 100%nat) evs.
Proof. exact shutdown_completes_example_lemma. Qed.
