(* C09 (ConcurrentLinkedBlockingQueue part) — blocked calls wake when they can proceed;
   cancellation is prompt and clean.
   Only statements here; every proof is `exact <lemma>` from proof/LBQProof*.v.
   Same model and trusted specifications as props/C07_lbq.v.  Liveness is stated as safety of
   stuck configurations plus "always enabled" facts; the fairness of the Go scheduler (an
   enabled goroutine eventually runs) is the stated assumption. *)
From Ekit Require Import Common Conc LBQModel LBQProof LBQProof2 LBQProof3 LBQProof4.

(* 1. no lost wake-up.  Between fetching the signal channel (cond.signalCh: `res := c.signal`,
   executed UNDER the lock) and its wake-up, the channel a call holds is: the cond's current
   one; or already closed (its select will not block); or a broadcaster that has already
   released the lock stands before `close(old)` for exactly this channel.  A call that is
   parked in its select is really blocked (context live, channel open) — so its channel is
   current, or about to be closed: every later broadcast reaches it *)
Theorem no_lost_wakeup : forall m evs c,
  exec lbq_step (lbq_init m) evs = Some c ->
  forall t l, lookup t (q_thr c) = Some l -> fetched (l_pc l) = true ->
  (l_sig l <= cur c (wcond (l_op l)))%nat /\
  (l_sig l = cur c (wcond (l_op l)) \/
   mem (l_sig l) (closed c (wcond (l_op l))) = true \/
   closing c (wcond (l_op l)) (l_sig l)) /\
  (l_pc l = PParked ->
   l_cancel l = false /\ mem (l_sig l) (closed c (wcond (l_op l))) = false /\
   (l_sig l = cur c (wcond (l_op l)) \/ closing c (wcond (l_op l)) (l_sig l))).
Proof. exact lbq_no_lost_wakeup_lemma. Qed.
Print Assumptions no_lost_wakeup.

(* the channels: a cond's current channel is open; what a broadcaster is about to close is a
   former, still open channel, and no two broadcasters are about to close the same one *)
Theorem lbq_channels : forall m evs c,
  exec lbq_step (lbq_init m) evs = Some c ->
  (forall k, mem (cur c k) (closed c k) = false) /\
  (forall t l, lookup t (q_thr c) = Some l -> pending (l_pc l) = true ->
     (l_old l < cur c (bcond (l_op l)))%nat /\ mem (l_old l) (closed c (bcond (l_op l))) = false) /\
  (forall t1 l1 t2 l2, t1 <> t2 -> lookup t1 (q_thr c) = Some l1 -> lookup t2 (q_thr c) = Some l2 ->
     pending (l_pc l1) = true -> pending (l_pc l2) = true -> bcond (l_op l1) = bcond (l_op l2) ->
     l_old l1 <> l_old l2).
Proof. exact lbq_channels_lemma. Qed.
Print Assumptions lbq_channels.

(* the broadcaster that owes a wake-up (between swap and close), and the call that has changed
   the list and not yet swapped, can always take their next step *)
Theorem lbq_closer_enabled : forall m evs c b lb,
  exec lbq_step (lbq_init m) evs = Some c ->
  lookup b (q_thr c) = Some lb -> pending (l_pc lb) = true \/ post_act (l_pc lb) = true ->
  step_enabled c b = true.
Proof. exact lbq_closer_enabled_lemma. Qed.
Print Assumptions lbq_closer_enabled.

(* 2. if no STEP is enabled at all, nobody holds the mutex, every call in flight is parked on
   the CURRENT channel of its cond and cannot proceed: every parked Dequeue sees an empty list,
   every parked Enqueue a full one (so only a new call or a CANCEL can change anything) *)
Theorem stuck_implies_cannot_proceed : forall m evs c,
  exec lbq_step (lbq_init m) evs = Some c ->
  (forall t, step_enabled c t = false) ->
  q_wlock c = None /\ q_readers c = O /\
  forall t l, lookup t (q_thr c) = Some l ->
    l_pc l = PParked /\ l_sig l = cur c (wcond (l_op l)) /\ must_wait c (l_op l) = true /\
    match l_op l with
    | ODeq => q_items c = []
    | _ => 0 < m /\ qlen c = m
    end.
Proof. exact lbq_stuck_implies_cannot_proceed_lemma. Qed.
Print Assumptions stuck_implies_cannot_proceed.

(* 3. cancellation is prompt and clean.  (a) CANCEL of a parked call wakes it into
   `case <-ctx.Done():`; two steps of its own later it has returned ctx.Err(); list, mutex,
   readers, channels and all other calls are untouched *)
Theorem cancel_enables : forall m evs c t l,
  exec lbq_step (lbq_init m) evs = Some c ->
  lookup t (q_thr c) = Some l -> l_pc l = PParked ->
  exists c1 c2 c3,
    lbq_exec1 c (QCancel t) = Some (c1, [(t, OAt (l_op l) PCaseCtx)]) /\
    lbq_exec1 c1 (QStep t) = Some (c2, [(t, OAt (l_op l) PRetErr1)]) /\
    lbq_exec1 c2 (QStep t) = Some (c3, [(t, ORet RCtx)]) /\
    q_items c3 = q_items c /\ q_wlock c3 = q_wlock c /\ q_readers c3 = q_readers c /\
    (forall k, cur c3 k = cur c k) /\ (forall k, closed c3 k = closed c k) /\
    lookup t (q_thr c3) = None /\
    (forall t2, t2 <> t -> lookup t2 (q_thr c3) = lookup t2 (q_thr c)).
Proof. exact lbq_cancel_enables_lemma. Qed.
Print Assumptions cancel_enables.

(* (b) robust against interleaving: in ANY configuration a call standing in the ctx.Done()
   case can take each of its two remaining statements, they touch only its own entry ... *)
Theorem cancel_path_always_enabled : forall c t l,
  lookup t (q_thr c) = Some l -> is_qop (l_op l) = true ->
  (l_pc l = PCaseCtx ->
     lbq_exec1 c (QStep t) = Some (set_thr c (update t (set_pc l PRetErr1) (q_thr c)), [(t, OAt (l_op l) PRetErr1)])) /\
  (l_pc l = PRetErr1 ->
     lbq_exec1 c (QStep t) = Some (add_hist (set_thr c (remove t (q_thr c))) (HRet t RCtx), [(t, ORet RCtx)])).
Proof. exact lbq_ctx_case_enabled_lemma. Qed.
Print Assumptions cancel_path_always_enabled.

(* ... and no event of another thread moves a call that is not parked *)
Theorem others_do_not_move_it : forall c e c' obs t l,
  lbq_exec1 c e = Some (c', obs) -> ev_tid e <> t ->
  lookup t (q_thr c) = Some l -> l_pc l <> PParked -> lookup t (q_thr c') = Some l.
Proof. exact lbq_others_do_not_move_lemma. Qed.
Print Assumptions others_do_not_move_it.

(* PROVED LATER (see props/C09_lbqcap.v: capacity_after_cancellations); originally not proved here in general (see tools/manifest.d/part_lbq.txt):
   capacity_after_cancellations — "in every reachable configuration with no call in flight,
   maxSize - Len() Enqueues run one after the other complete without parking and the next one
   parks".  It is checked on concrete instances below (Example) and dynamically by the stress
   command; the general statement follows from lbq_capacity + the solo-run evaluation, whose
   symbolic proof did not pass the kernel in acceptable time. *)

(* ================= non-vacuity ================= *)

(* unbounded queue, two consumers parked on the same generation 0 of notEmpty, one producer:
   its close(old) wakes BOTH (two-waiters-one-generation); consumer 1 takes the element;
   consumer 2 re-locks, re-checks, finds the list empty again (woken-but-recheck-fails) and
   goes back to `signal := c.notEmpty.signalCh()` *)
Definition c09_lbq_two : list lbq_ev :=
  [QCall 1%nat ODeq] ++ lbq_steps 1%nat 8 ++ [QCall 2%nat ODeq] ++ lbq_steps 2%nat 8 ++
  [QCall 3%nat (OEnq 5)] ++ lbq_steps 3%nat 9.
Definition c09_lbq_two2 : list lbq_ev :=
  c09_lbq_two ++ lbq_steps 3%nat 2 ++ lbq_steps 1%nat 9 ++ lbq_steps 2%nat 1.

(* the window between unlock and select: consumer 1 has fetched generation 0 and released the
   lock (it stands at `return res` of signalCh) when producer 2 appends, swaps, unlocks and
   closes generation 0; consumer 1's select then finds the channel closed: no lost wake-up *)
Definition c09_lbq_window : list lbq_ev :=
  [QCall 1%nat ODeq] ++ lbq_steps 1%nat 6 ++ [QCall 2%nat (OEnq 9)] ++ lbq_steps 2%nat 10.

(* maxSize 2 after a pattern of cancellations (a parked Dequeue cancelled, an Enqueue cancelled
   before its first check): exactly 2 Enqueues run alone complete, the third parks *)
Definition c09_lbq_cancels : list lbq_ev :=
  [QCall 1%nat ODeq] ++ lbq_steps 1%nat 8 ++ [QCancel 1%nat] ++ lbq_steps 1%nat 2 ++
  [QCall 2%nat (OEnq 1); QCancel 2%nat] ++ lbq_steps 2%nat 2.

Example c09_lbq_nonvacuous :
  option_map lbq_summary (lbq_run 0 c09_lbq_two) =
    Some ([5], None, 0%nat, (1%nat, []), (0%nat, []),
          [(1%nat, PParked, 0%nat); (2%nat, PParked, 0%nat); (3%nat, BClose, 0%nat)]) /\
  lbq_obs_of 0 c09_lbq_two (QStep 3%nat) =
    Some [(3%nat, OAt (OEnq 5) PRet); (1%nat, OAt ODeq PCaseSig); (2%nat, OAt ODeq PCaseSig)] /\
  lbq_obs_of 0 c09_lbq_two2 (QStep 2%nat) = Some [(2%nat, OAt ODeq PSig)] /\
  option_map lbq_summary (lbq_run 2 c09_lbq_window) =
    Some ([9], None, 0%nat, (1%nat, [0%nat]), (0%nat, []), [(1%nat, SRet, 0%nat); (2%nat, PRet, 0%nat)]) /\
  lbq_obs_of 2 (c09_lbq_window ++ [QStep 2%nat; QStep 1%nat]) (QStep 1%nat) =
    Some [(1%nat, OAt ODeq PCaseSig)] /\
  (* a stuck configuration: one parked Dequeue on the empty queue, nothing enabled *)
  option_map (fun c => (map (step_enabled c) [1%nat; 2%nat; 3%nat], q_items c, q_wlock c))
             (lbq_run 1 ([QCall 1%nat ODeq] ++ lbq_steps 1%nat 8)) =
    Some ([false; false; false], [], None) /\
  (* capacity after cancellations, maxSize 2 *)
  option_map lbq_summary (lbq_run 2 c09_lbq_cancels) =
    Some ([], None, 0%nat, (0%nat, []), (0%nat, []), []) /\
  (match lbq_run 2 c09_lbq_cancels with
   | Some c =>
     match call_alone c 5%nat (OEnq 10) with
     | Some (c1, Some RNil) =>
       match call_alone c1 6%nat (OEnq 11) with
       | Some (c2, Some RNil) =>
         match call_alone c2 7%nat (OEnq 12) with
         | Some (c3, None) => Some (lbq_summary c3)
         | _ => None
         end
       | _ => None
       end
     | _ => None
     end
   | None => None
   end) = Some ([10; 11], None, 0%nat, (2%nat, [1%nat; 0%nat]), (0%nat, []), [(7%nat, PParked, 0%nat)]).
Proof. repeat split; vm_compute; reflexivity. Qed.
