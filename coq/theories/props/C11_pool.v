(* C11 — pool.OnDemandBlockTaskPool never exceeds maxGo workers and its lifecycle is one-way.
   Only statements here; every proof is `exact <lemma>` from proof/PoolProof4.v (invariants in
   PoolProof2.v / PoolProof3.v).

   Model: model/PoolModel.v, one step = one Go statement of pool/task_pool.go (yield points of
   tools/instrument; lock-step correspondence in checks/part_pool.py).  All theorems quantify over
   EVERY event list the semantics accepts ([pexecs P evs = Some c]: any number of concurrent
   Submit / Start / Shutdown / ShutdownNow callers, any interleaving of their statements and of the
   workers' statements, timers firing and contexts being cancelled at any point, tasks finishing,
   panicking or blocking for ever) and over every configuration the constructor accepts
   ([pvalid P]; all values of the three fix flags, i.e. the bounds also hold for the code before the
   three `fix:` commits).  Trusted: the specifications of the run-time primitives stated at the top of
   PoolModel.v.  Not modelled: int32 wrap-around of the counters (2^31 workers), IEEE rounding of the
   backlog rate (rates are rationals; NaN is outside the model), States(). *)
From Ekit Require Import Common Conc PoolModel PoolProof PoolProof2 PoolProof3 PoolProof4 PoolExamples.

(* what the constructor guarantees about a configuration (theorem [constructor_accepts_valid]) *)
Definition valid_params (P : params) : Prop :=
  1 <= i_init P /\ i_init P <= i_core P /\ i_core P <= i_max P /\ 0 <= i_cap P /\ 0 < i_rd P.

(* ---- 1. the worker bound ------------------------------------------------------------------ *)

(* totalGo (what States reports as GoCnt) is between 0 and maxGo in every reachable configuration:
   creation is decided (allowToCreateGoroutine reads totalGo < maxGo) and counted
   (increaseTotalGo) inside the Submit critical section, while the state word is `locked`, so
   two submitters can never both pass the test (invariants v_hold / v_lock / v_res of PoolProof2) *)
Theorem totalgo_le_maxgo : forall P, valid_params P ->
  forall evs c, exec pstep_cfg (pinit P) evs = Some c ->
  0 <= s_total (c_sh c) <= i_max P.
Proof. exact totalgo_le_maxgo_lemma. Qed.
Print Assumptions totalgo_le_maxgo.

(* at every instant: #goroutines inside a task's user function <= numGoRunningTasks <= totalGo <= maxGo *)
Theorem running_tasks_le_totalgo : forall P, valid_params P ->
  forall evs c, exec pstep_cfg (pinit P) evs = Some c ->
  0 <= tsum (fun th => match pc th with WUser => 1 | _ => 0 end) (c_thr c) <= s_running (c_sh c) /\
  s_running (c_sh c) <= s_total (c_sh c) /\ s_total (c_sh c) <= i_max P.
Proof. exact running_tasks_le_totalgo_lemma. Qed.
Print Assumptions running_tasks_le_totalgo.

(* before a Start call has won its CAS created->locked: no task has started, no worker goroutine
   exists at all (tsum wany = number of worker goroutines), numGoRunningTasks = 0 *)
Theorem no_task_before_start : forall P, valid_params P ->
  forall evs c, exec pstep_cfg (pinit P) evs = Some c -> g_began (c_gh c) = false ->
  g_started (c_gh c) = [] /\ tsum wany (c_thr c) = 0 /\ s_running (c_sh c) = 0.
Proof. exact no_task_before_start_lemma. Qed.
Print Assumptions no_task_before_start.

(* ... where the history flag g_began means exactly: the state word is still `created`, or it is
   `locked` by a Submit that came from `created` (no Start holds it) *)
Theorem began_flag_meaning : forall P, valid_params P ->
  forall evs c, exec pstep_cfg (pinit P) evs = Some c ->
  (g_began (c_gh c) = false <->
   (s_state (c_sh c) = SCreated \/
    (s_state (c_sh c) = SLocked /\ s_prev (c_sh c) = SCreated /\ tsum thold (c_thr c) = 0))).
Proof. exact began_iff_not_fresh. Qed.
Print Assumptions began_flag_meaning.

(* ---- 2. the lifecycle --------------------------------------------------------------------- *)

(* lifecycle state = the state word with the `locked` excursions made transparent (a holder of
   `locked` returns the word to where it came from - s_prev - or, for Start, moves it to running);
   its rank (created 1, running 2, closing 3, stopped 4) never decreases, and from created the
   only way on is running *)
Theorem lifecycle_monotone : forall P, valid_params P ->
  forall evs c e c', exec pstep_cfg (pinit P) evs = Some c -> pstep_cfg c e = Some c' ->
  lrank (c_sh c) <= lrank (c_sh c') /\ (lrank (c_sh c) = 1 -> lrank (c_sh c') <= 2).
Proof. exact lifecycle_monotone_lemma. Qed.
Print Assumptions lifecycle_monotone.

(* the lifecycle state is one of created / running / closing / stopped (never `locked`) *)
Theorem lifecycle_state_range : forall P, valid_params P ->
  forall evs c, exec pstep_cfg (pinit P) evs = Some c -> 1 <= lrank (c_sh c) <= 4.
Proof. exact lstate_range_lemma. Qed.
Print Assumptions lifecycle_state_range.

(* Start returns nil at most once *)
Theorem start_once : forall P, valid_params P ->
  forall evs c, exec pstep_cfg (pinit P) evs = Some c -> 0 <= g_starts (c_gh c) <= 1.
Proof. exact start_once_lemma. Qed.
Print Assumptions start_once.

(* Shutdown and ShutdownNow return successfully at most once between them, and at most one of
   them ever wins its CAS *)
Theorem shutdown_once_between_them : forall P, valid_params P ->
  forall evs c, exec pstep_cfg (pinit P) evs = Some c ->
  0 <= g_shuts (c_gh c) <= 1 /\ (g_shut (c_gh c) = true -> g_now (c_gh c) = true -> False).
Proof. exact shutdown_once_lemma. Qed.
Print Assumptions shutdown_once_between_them.

(* a Shutdown / ShutdownNow has won its CAS  <->  the state word is closing or stopped
   (with lifecycle_monotone: for ever) *)
Theorem shutdown_is_forever : forall P, valid_params P ->
  forall evs c, exec pstep_cfg (pinit P) evs = Some c ->
  ((g_shut (c_gh c) = true \/ g_now (c_gh c) = true) <->
   (s_state (c_sh c) = SClosing \/ s_state (c_sh c) = SStopped)).
Proof. exact down_iff_shutdown_lemma. Qed.
Print Assumptions shutdown_is_forever.

(* a call (Submit, Start, Shutdown or ShutdownNow) invoked when the state word is closing or
   stopped - flag l_late, set by the invocation event, see late_call_definition - returns an
   error, in every schedule *)
Theorem calls_fail_after_shutdown : forall P, valid_params P ->
  forall evs c e c' obs t th r, exec pstep_cfg (pinit P) evs = Some c ->
  lookup t (c_thr c) = Some th -> l_late th = true ->
  pexec1 c e = Some (c', obs) -> In (t, ORet r) obs -> ret_err r = true.
Proof. exact calls_fail_after_shutdown_lemma. Qed.
Print Assumptions calls_fail_after_shutdown.

Theorem late_call_definition : forall c t op c' obs,
  pexec1 c (PCall t op) = Some (c', obs) ->
  exists th, lookup t (c_thr c') = Some th /\ l_late th = is_down (c_sh c).
Proof. exact late_at_call. Qed.
Print Assumptions late_call_definition.

(* ---- 3. the constructor ------------------------------------------------------------------- *)

(* NewOnDemandBlockTaskPool(initGo, queueSize, opts...) with options WithCoreGo / WithMaxGo /
   WithQueueBacklogRate applied in order: it fails exactly when initGo < 1, queueSize < 0,
   not initGo <= coreGo <= maxGo AFTER the defaulting rule, or the rate is outside [0,1];
   otherwise the pool has exactly the defaulted configuration, which is valid.
   Rates are rationals rn/rd with rd > 0; a NaN rate is outside the model (on the real code NaN
   passes both comparisons and is accepted - noted in the evidence). *)
Theorem constructor_rejects : forall initGo queueSize opts,
  let a := opts_st initGo opts in
  let cm := defaulted initGo (ct_core a) (ct_max a) in
  (pool_new initGo queueSize opts = CtErr <->
     (initGo < 1 \/ queueSize < 0 \/ ~ (initGo <= fst cm <= snd cm) \/ ct_rn a < 0 \/ ct_rd a < ct_rn a)) /\
  (forall i c m q rn rd, pool_new initGo queueSize opts = CtOk i c m q rn rd ->
     i = initGo /\ q = queueSize /\ (c, m) = cm /\ rn = ct_rn a /\ rd = ct_rd a /\
     1 <= i <= c /\ c <= m /\ 0 <= q /\ 0 <= rn <= rd).
Proof. exact constructor_rejects_lemma. Qed.
Print Assumptions constructor_rejects.

Theorem constructor_accepts_valid : forall initGo queueSize opts i c m q rn rd fa fb base fc,
  pool_new initGo queueSize opts = CtOk i c m q rn rd -> 0 < rd ->
  valid_params (mkPar i c m q rn rd fa fb base fc).
Proof. exact constructor_ok_valid. Qed.
Print Assumptions constructor_accepts_valid.

(* ---- non-vacuity --------------------------------------------------------------------------- *)
Local Open Scope nat_scope.

(* initGo 1, coreGo = maxGo 2, queue 2, rate 1/2: two tasks submitted before Start; Start spawns
   1 + (2 - 1) workers; both are inside their task at the same time: totalGo = maxGo = 2 = running *)
Definition ex_P := par 1 2 2 2 1 2.
Definition ex_full :=
  [DCall 1 (OpSubmit 0 false); DRun 1 100; DCall 1 (OpSubmit 1 false); DRun 1 100;
   DCall 2 OpStart; DRun 2 200; DRunTo 100 WUser; DRunTo 101 WUser].

Example bound_is_reached :
  exists c, exec pstep_cfg (pinit ex_P) (schedule ex_P ex_full) = Some c /\
            s_total (c_sh c) = i_max ex_P /\ s_running (c_sh c) = 2%Z /\
            tsum (fun th => match pc th with WUser => 1 | _ => 0 end)%Z (c_thr c) = 2%Z.
Proof. eexists. split; [vm_compute; reflexivity|]. vm_compute. repeat split; reflexivity. Qed.

(* on-demand creation from Submit: Start with an empty queue (one worker), a task that keeps the
   worker busy, then a second Submit finds len/cap = 1/2 >= rate and totalGo 1 < maxGo 2 and creates
   worker 101 inside its critical section, while a third submitter's CAS fails on the locked word *)
Definition ex_grow :=
  [DCall 2 OpStart; DRun 2 200; DRunTo 100 WParked;
   DCall 1 (OpSubmit 0 false); DRun 1 100; DRunTo 100 WUser;
   DCall 3 (OpSubmit 1 false); DRunTo 3 TsGo;
   DCall 4 (OpSubmit 2 false); DRunTo 4 TsCas; DRun 4 1;   (* CAS created->locked fails: running *)
   DRunTo 4 TsCas; DRun 4 1;                               (* CAS running->locked fails: locked by 3 *)
   DRun 3 1].                                              (* go b.goroutine(2) *)

Example submit_creates_worker_under_lock :
  exists c, exec pstep_cfg (pinit ex_P) (schedule ex_P ex_grow) = Some c /\
            s_total (c_sh c) = 2%Z /\ s_state (c_sh c) = SLocked /\
            map fst (c_thr c) = [100; 3; 4; 101].
Proof. eexists. split; [vm_compute; reflexivity|]. vm_compute. repeat split; reflexivity. Qed.

(* lifecycle: Shutdown wins, then Start, Submit and ShutdownNow - invoked afterwards - are late
   calls and all return errors (closing / closing / closing); Start succeeded once *)
Definition ex_life :=
  [DCall 2 OpStart; DRun 2 200; DCall 5 OpShutdown; DRun 5 50;
   DCall 6 OpStart; DCall 7 (OpSubmit 0 false); DCall 8 OpShutdownNow].

Example late_calls_exist :
  exists c, exec pstep_cfg (pinit ex_P) (schedule ex_P ex_life) = Some c /\
            s_state (c_sh c) = SClosing /\ g_starts (c_gh c) = 1%Z /\ g_shuts (c_gh c) = 1%Z /\
            map (fun x => l_late (snd x)) (c_thr c) = [false; true; true; true].
Proof. eexists. split; [vm_compute; reflexivity|]. vm_compute. repeat split; reflexivity. Qed.

(* constructor: defaulting rule and rejections *)
Example ctor_examples :
  pool_new 1 2 [OMax 3] = CtOk 1 3 3 2 0 1 /\            (* coreGo defaults to maxGo *)
  pool_new 1 2 [OCore 2] = CtOk 1 2 2 2 0 1 /\           (* maxGo defaults to coreGo *)
  pool_new 2 0 [OCore 3; OMax 5; ORate 1 2] = CtOk 2 3 5 0 1 2 /\
  pool_new 0 2 [] = CtErr /\ pool_new 1 (-1) [] = CtErr /\
  pool_new 3 2 [OCore 2; OMax 5] = CtErr /\ pool_new 1 2 [ORate 3 2] = CtErr /\
  pool_new 1 2 [ORate (-1) 2] = CtErr.
Proof. vm_compute. repeat split; reflexivity. Qed.
