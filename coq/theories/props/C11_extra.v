(* C11 (additions) - pool.OnDemandBlockTaskPool: the constructor's defaulting rule as an equation, and late
   calls that actually reach their return statement.  Only statements here; proofs are `exact <lemma>` from
   proof/PoolProofC2.v.  Model: model/PoolModel.v; companion file: props/C11_pool.v.

     pool_new_default            NewOnDemandBlockTaskPool(i, q) with no option, 1 <= i, 0 <= q: coreGo = maxGo = initGo,
                                 queue q, rate 0/1 (and the resulting record of params is valid: pool_new_default_valid)
     pool_new_no_growth          only WithQueueBacklogRate options: the constructor fails or coreGo = maxGo = initGo
     late_*_returns (Examples)   non-vacuity of calls_fail_after_shutdown (props/C11_pool.v): after a successful
                                 Shutdown a Start / Submit / ShutdownNow invoked afterwards (l_late) is run to its
                                 `return` statement and that step shows the closing error; after closing -> stopped a
                                 Submit shows the stopped error.  Each Example exhibits the event list, the
                                 configuration before the returning step (with the late thread in it), the step
                                 and its observation - exactly the premises of calls_fail_after_shutdown. *)
From Ekit Require Import Common Conc PoolModel PoolExamples PoolProof PoolProof4 PoolProofB PoolProofC2.

Theorem pool_new_default : forall i q, 1 <= i -> 0 <= q -> pool_new i q [] = CtOk i i i q 0 1.
Proof. exact pool_new_default_lemma. Qed.
Print Assumptions pool_new_default.

Theorem pool_new_no_growth : forall i q opts, forallb is_rate opts = true ->
  pool_new i q opts = CtErr \/ exists rn rd, pool_new i q opts = CtOk i i i q rn rd.
Proof. exact pool_new_no_growth_lemma. Qed.
Print Assumptions pool_new_no_growth.

(* the record the default constructor yields (flags: the code as it is) satisfies the validity premise of all
   pool theorems, with i_core = i_max = i_init *)
Theorem pool_new_default_valid : forall i q, 1 <= i -> 0 <= q ->
  pvalid (mkPar i i i q 0 1 true true 100%nat true).
Proof. exact pool_new_default_valid_lemma. Qed.
Print Assumptions pool_new_default_valid.

(* late_shape ds t r st (proof/PoolProofC2.v) :=
     exists evs c e c' th, last_step late_P ds = Some (evs, c, e, c', [(t, ORet r)]) /\
       exec pstep_cfg (pinit late_P) evs = Some c /\ lookup t (c_thr c) = Some th /\ l_late th = true /\
       pexec1 c e = Some (c', [(t, ORet r)]) /\ s_state (c_sh c) = st /\ ret_err r = true /\
       lookup t (c_thr c') = None
   late_P = par 1 2 2 2 1 2; late_pre = Start (thread 2), then Shutdown (thread 5) run to its return. *)
Example late_start_returns : late_shape late_start 6%nat (RStart PEClosing) SClosing.
Proof. exact late_start_returns_lemma. Qed.
Example late_submit_returns : late_shape late_submit 7%nat (RSubmit PEClosing) SClosing.
Proof. exact late_submit_returns_lemma. Qed.
Example late_shutdownnow_returns : late_shape late_now 8%nat (RShutdownNow PEClosing []) SClosing.
Proof. exact late_now_returns_lemma. Qed.
Example late_submit_after_stop_returns : late_shape late_stopped 7%nat (RSubmit PEStopped) SStopped.
Proof. exact late_stopped_returns_lemma. Qed.

(* the same without the abbreviation, for the Submit case *)
Example late_submit_returns_unfolded :
  exists evs c e c' th,
    exec pstep_cfg (pinit late_P) evs = Some c /\
    lookup 7%nat (c_thr c) = Some th /\ l_late th = true /\
    pexec1 c e = Some (c', [(7%nat, ORet (RSubmit PEClosing))]) /\
    In (7%nat, ORet (RSubmit PEClosing)) [(7%nat, ORet (RSubmit PEClosing))] /\
    ret_err (RSubmit PEClosing) = true.
Proof.
  destruct late_submit_returns_lemma as (evs & c & e & c' & th & _ & H1 & H2 & H3 & H4 & _ & H5 & _).
  exists evs, c, e, c', th. repeat split; auto. left; reflexivity.
Qed.
