(* C20 — struct copiers.  Only statements; proofs are `exact <lemma>` from proof/CopierProof.v. *)
From Ekit Require Import Common CopierModel CopierProof.

Theorem copier_ctor_panics_refuted :
  exists st dt, is_struct_kind st = true /\ is_struct_kind dt = true /\
    new_reflect_copier_pinned st dt [] = CPanic /\
    new_reflect_copier st dt [] = CErr CKind.
Proof. exact copier_ctor_panics_refuted_lemma. Qed.
Print Assumptions copier_ctor_panics_refuted.
