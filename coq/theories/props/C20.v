(* C20 — struct copiers copy every matching field faithfully and never panic.
   Only statements here; every proof is `exact <lemma>` from proof/CopierProof*.v.

   Universe (model/CopierModel.v): struct types over basic kinds, defined basic types,
   named / unnamed nested structs, single and multi-level pointers, slices, maps,
   time.Time, chan / array / func / interface; exported and unexported fields; no
   embedded fields or tags.  Values are trees (no aliasing between destination pointers);
   converters are pure functions that return an error, or an `any` that is the nil interface
   (possible only for a converter to an interface type: ConvertField[string, any], [int, error])
   or a dynamic value that has its dynamic type (`opt_ok`, Go's type system); the converter's
   Src type is a non-interface type.  `has_type` = the Go value has that type. *)
From Ekit Require Import Common CopierModel CopierProof CopierProof2 CopierProof3.

(* NewReflectCopier[Src, Dst](opts...) returns a copier or an error for ALL type pairs
   (struct or not) and all option lists: it never panics. *)
Theorem constructor_total : forall st dt ps, new_reflect_copier st dt ps <> CPanic.
Proof. exact constructor_total_lemma. Qed.
Print Assumptions constructor_total.

(* ... which was false before commit 79cd082: {F1 struct{F1 int}} -> {F1 int} *)
Theorem copier_ctor_panics_refuted :
  exists st dt, is_struct_kind st = true /\ is_struct_kind dt = true /\
    new_reflect_copier_pinned st dt [] = CPanic /\
    new_reflect_copier st dt [] = CErr CKind.
Proof. exact copier_ctor_panics_refuted_lemma. Qed.
Print Assumptions copier_ctor_panics_refuted.

(* CopyTo(src, dst, opts...) with a non-nil dst and Copy(src, opts...) never panic: for
   every constructed copier, every (possibly nil) source, every destination value,
   every default / per-call ignore set and converter set. *)
Theorem copy_total : forall st dt ps c src dv cps,
  new_reflect_copier st dt ps = COk c ->
  Forall opt_ok ps -> Forall opt_ok cps ->
  match src with None => True | Some sv => has_type st sv = true end ->
  has_type dt dv = true ->
  snd (reflect_copy_to c st dt src (Some dv) cps) <> SPanic /\
  snd (reflect_copy c st dt src cps) <> SPanic.
Proof. exact copy_total_lemma. Qed.
Print Assumptions copy_total.

(* The hypothesis "dst non-nil" is needed: CopyTo(src, nil) panics (reflect Set on the
   unaddressable ValueOf(dst)) — reported to the lead as a candidate finding. *)
Theorem copyto_nil_dst_panics : forall st dt ps c sv cps,
  new_reflect_copier st dt ps = COk c ->
  snd (reflect_copy_to c st dt (Some sv) None cps) = SPanic.
Proof. exact copyto_nil_dst_panics_lemma. Qed.
Print Assumptions copyto_nil_dst_panics.

(* After a successful CopyTo the destination satisfies `post` (proof/CopierProof.v), field by
   field of the destination type, recursively through nested structs and single pointers:
   - unexported / ignored / no exported source field of that name / source field of
     func-interface kind / nil source pointer: the destination field is UNTOUCHED;
   - a registered converter: the field holds the converter's result on the source field;
   - otherwise the field types are identical and the (allocated when nil) destination holds
     the source's value if that value is non-zero or the destination held the zero value
     (in particular if it was fresh), and keeps its old value if the source's value is zero.
   The source is unchanged by construction (the model only returns a new destination; the
   correspondence run compares the real source before and after every call).
   `effective_options c cps` = per-call copy of the defaults, then the call's options. *)
Theorem copy_spec : forall st dt ps c sv dv cps r,
  new_reflect_copier st dt ps = COk c ->
  Forall opt_ok ps -> Forall opt_ok cps ->
  has_type st sv = true -> has_type dt dv = true ->
  reflect_copy_to c st dt (Some sv) (Some dv) cps = (r, SOk) ->
  exists dv', r = Some dv' /\ has_type dt dv' = true /\
              post (effective_options c cps) st sv dt dv dv'.
Proof. exact copy_spec_lemma. Qed.
Print Assumptions copy_spec.

(* copy_spec read at one top-level field: an exported destination field whose name is not
   ignored and has no converter, matched by the exported source field of the same name
   and the same leaf type t (basic kind, slice, map, chan, array, time.Time), holds the
   source's value after a successful CopyTo whenever that value is non-zero or the
   destination field held the zero value (e.g. a fresh destination); an ignored field
   keeps its old value. *)
Theorem copy_leaf_value : forall sn sfs dname dfs ps c svs dvs cps r di si name t y x,
  let st := Struct sn sfs in
  let dt := Struct dname dfs in
  new_reflect_copier st dt ps = COk c ->
  Forall opt_ok ps -> Forall opt_ok cps ->
  has_type st (VStruct svs) = true -> has_type dt (VStruct dvs) = true ->
  reflect_copy_to c st dt (Some (VStruct svs)) (Some (VStruct dvs)) cps = (r, SOk) ->
  nth_opt dfs di = Some (name, true, t) ->
  assoc_find (field_map sfs 0 []) name = Some si ->
  nth_opt sfs si = Some (name, true, t) ->
  nth_opt svs si = Some y -> nth_opt dvs di = Some x ->
  (is_shadow_kind (kind_of t) || is_atomic_type t) = true ->
  find_conv (effective_options c cps) name = None ->
  exists dvs', r = Some (VStruct dvs') /\
    (in_ignore (effective_options c cps) name = true -> nth_opt dvs' di = Some x) /\
    (in_ignore (effective_options c cps) name = false ->
     (is_zero y = false \/ x = zero_value t) -> nth_opt dvs' di = Some y).
Proof. exact copy_leaf_value_lemma. Qed.
Print Assumptions copy_leaf_value.

(* a nil source pointer: success, destination untouched *)
Theorem copy_nil_src : forall st dt ps c dv cps,
  new_reflect_copier st dt ps = COk c ->
  reflect_copy_to c st dt None (Some dv) cps = (Some dv, SOk).
Proof. exact copy_nil_src_lemma. Qed.
Print Assumptions copy_nil_src.

(* options are cloned per call: the per-call copy behaves exactly like the defaults (and,
   the model being functional, a call cannot change the copier it is given) *)
Theorem default_options_cloned : forall o n,
  in_ignore (copy_default_options o) n = in_ignore o n /\
  find_conv (copy_default_options o) n = find_conv o n.
Proof. exact (fun o n => conj (in_ignore_copy_default o n) (find_conv_copy_default o n)). Qed.
Print Assumptions default_options_cloned.

(* By the letter, "sets every exported, same-named, same-typed destination field to the
   source's value" FAILS for a zero-valued source field and a non-fresh destination:
   struct{F1 int}{0} copied into struct{F1 int}{5} succeeds and leaves 5. *)
Theorem copyto_zero_skip_refuted :
  exists st dt c sv dv dv',
    new_reflect_copier st dt [] = COk c /\
    has_type st sv = true /\ has_type dt dv = true /\
    reflect_copy_to c st dt (Some sv) (Some dv) [] = (Some dv', SOk) /\
    st = dt /\ sfield sv 0 = Some (VNum 0) /\ sfield dv' 0 = Some (VNum 5).
Proof. exact copyto_zero_skip_refuted_lemma. Qed.
Print Assumptions copyto_zero_skip_refuted.

(* the plain recursive CopyTo(&src, &dst) never panics (non-nil pointers to structs) *)
Theorem pure_copy_total : forall st dt sv dv,
  has_type st sv = true -> has_type dt dv = true ->
  snd (pure_copy_to (Ptr st) (VPtr (Some sv)) (Ptr dt) (VPtr (Some dv))) <> SPanic.
Proof. exact pure_copy_total_lemma. Qed.
Print Assumptions pure_copy_total.

(* On the fragment `frag_ty` (structs built from basic kinds, defined basic types, slices,
   maps, nested structs and pointers to them: no time.Time, no chan/array/func/interface)
   the two copiers agree on a fresh destination whenever both succeed.  (They do NOT
   succeed on the same pairs: see copiers_differ_on_ptr_vs_value.) *)
Theorem copiers_agree_on_fresh : forall st dt c sv r1 r2,
  frag_ty st = true -> frag_ty dt = true ->
  has_type st sv = true ->
  new_reflect_copier st dt [] = COk c ->
  reflect_copy c st dt (Some sv) [] = (r1, SOk) ->
  pure_copy_to (Ptr st) (VPtr (Some sv)) (Ptr dt) (VPtr (Some (zero_value dt))) = (r2, SOk) ->
  r2 = VPtr r1.
Proof. exact copiers_agree_on_fresh_lemma. Qed.
Print Assumptions copiers_agree_on_fresh.

Theorem copiers_differ_on_ptr_vs_value :
  exists st dt c sv r,
    frag_ty st = true /\ frag_ty dt = true /\ has_type st sv = true /\
    new_reflect_copier st dt [] = COk c /\
    snd (reflect_copy c st dt (Some sv) []) = SOk /\
    pure_copy_to (Ptr st) (VPtr (Some sv)) (Ptr dt) (VPtr (Some (zero_value dt))) = (r, SErr CKind).
Proof. exact copiers_differ_lemma. Qed.
Print Assumptions copiers_differ_on_ptr_vs_value.

(* non-vacuity: a pair in the fragment with nested structs, pointers, a slice, an ignored
   field, on which both copiers succeed and agree; and the converter path *)
Example c20_nonvacuous :
  let inner := Struct None [(1, true, Basic KString); (2, true, Ptr (Basic KInt))] in
  let st := Struct (Some 1) [(1, true, Basic KInt); (2, true, Ptr inner);
                             (3, true, Slice (Basic KInt)); (4, false, Basic KInt)] in
  let dt := Struct (Some 2) [(3, true, Slice (Basic KInt)); (2, true, Ptr inner);
                             (9, true, Basic KInt); (1, true, Basic KInt)] in
  let sv := VStruct [VNum 7; VPtr (Some (VStruct [VStr [104]; VPtr (Some (VNum 3))]));
                     VSlice (Some [VNum 1; VNum 2]); VNum 9] in
  let want := VStruct [VSlice (Some [VNum 1; VNum 2]);
                       VPtr (Some (VStruct [VStr [104]; VPtr (Some (VNum 3))]));
                       VNum 0; VNum 7] in
  frag_ty st = true /\ frag_ty dt = true /\ has_type st sv = true /\
  (exists c, new_reflect_copier st dt [] = COk c /\
             reflect_copy c st dt (Some sv) [] = (Some want, SOk)) /\
  pure_copy_to (Ptr st) (VPtr (Some sv)) (Ptr dt) (VPtr (Some (zero_value dt)))
    = (VPtr (Some want), SOk) /\
  (exists c, new_reflect_copier st dt [OIgnore [1]; OConvert 3 (Some (mk_conv (Slice (Basic KInt)) (Slice (Basic KInt)) (FConst (VSlice (Some [])))))] = COk c /\
             reflect_copy c st dt (Some sv) [] =
               (* IgnoreFields is by NAME at every level: the nested F1 is ignored too *)
               (Some (VStruct [VSlice (Some []);
                               VPtr (Some (VStruct [VStr []; VPtr (Some (VNum 3))]));
                               VNum 0; VNum 0]), SOk)).
Proof.
  cbv zeta. repeat split; try (vm_compute; reflexivity);
    eexists; split; vm_compute; reflexivity.
Qed.
