(* C16, additional theorems: (a) the predicate-taking set functions for a GENERAL equivalence
   relation `equal`; (b) mapx.Keys alone; (c) KeysValues (ToMap ks vs).
   Only statements; every proof is `exact <lemma>` from proof/SliceExtraProof.v. *)
From Ekit Require Import Common SliceModel SliceProof SliceProof2 SliceProof3 SliceExtraProof.
From Coq Require Import Permutation.

(* ======== deduplicateFunc, for EVERY function equal (no law assumed) ======== *)
(* the last element always survives and removes every earlier element equal(last, earlier) *)
Theorem deduplicate_func_keeps_last_any : forall equal l v,
  deduplicate_func equal (l ++ [v]) = filter (fun y => negb (equal v y)) (deduplicate_func equal l) ++ [v].
Proof. exact deduplicate_func_snoc_any. Qed.
Print Assumptions deduplicate_func_keeps_last_any.

(* an occurrence survives exactly when no LATER element is equal to it (which representative is kept) *)
Theorem deduplicate_func_later_decides : forall equal l1 l2,
  deduplicate_func equal (l1 ++ l2) =
  filter (fun y => negb (contains_func l2 (fun s => equal s y))) (deduplicate_func equal l1) ++
  deduplicate_func equal l2.
Proof. exact deduplicate_func_app_any. Qed.
Print Assumptions deduplicate_func_later_decides.

Theorem contains_any_all_func_exact_any : forall equal src dst,
  (contains_any_func equal src dst = true <-> exists vd vs, In vd dst /\ In vs src /\ equal vs vd = true) /\
  (contains_all_func equal src dst = true <-> forall vd, In vd dst -> exists vs, In vs src /\ equal vs vd = true).
Proof. exact (fun equal src dst => conj (contains_any_func_any equal src dst) (contains_all_func_any equal src dst)). Qed.
Print Assumptions contains_any_all_func_exact_any.

(* ======== equal an equivalence relation: results exact up to the equivalence ======== *)
(* has_eq equal l x : some element of l is equal to x;  pairwise_distinct equal l : no two elements of l are equal *)
Theorem deduplicate_func_one_per_class : forall equal,
  (forall a, equal a a = true) -> (forall a b, equal a b = equal b a) ->
  (forall a b c, equal a b = true -> equal b c = true -> equal a c = true) ->
  forall l, (forall y, In y (deduplicate_func equal l) -> In y l) /\
            (forall x, In x l -> has_eq equal (deduplicate_func equal l) x) /\
            pairwise_distinct equal (deduplicate_func equal l).
Proof.
  exact (fun equal Hr Hs Ht l => conj (deduplicate_func_incl equal l)
           (conj (deduplicate_func_complete equal Hr Ht l) (deduplicate_func_distinct equal Hs l))).
Qed.
Print Assumptions deduplicate_func_one_per_class.

Theorem union_set_func_exact_equiv : forall equal,
  (forall a, equal a a = true) -> (forall a b, equal a b = equal b a) ->
  (forall a b c, equal a b = true -> equal b c = true -> equal a c = true) ->
  forall src dst,
  (forall y, In y (union_set_func equal src dst) -> In y src \/ In y dst) /\
  (forall x, In x src \/ In x dst -> has_eq equal (union_set_func equal src dst) x) /\
  pairwise_distinct equal (union_set_func equal src dst).
Proof. exact union_set_func_equiv. Qed.
Print Assumptions union_set_func_exact_equiv.

Theorem intersect_set_func_exact_equiv : forall equal,
  (forall a, equal a a = true) -> (forall a b, equal a b = equal b a) ->
  (forall a b c, equal a b = true -> equal b c = true -> equal a c = true) ->
  forall src dst,
  (forall y, In y (intersect_set_func equal src dst) -> In y dst /\ has_eq equal src y) /\
  (forall x, In x dst -> has_eq equal src x -> has_eq equal (intersect_set_func equal src dst) x) /\
  pairwise_distinct equal (intersect_set_func equal src dst).
Proof. exact intersect_set_func_equiv. Qed.
Print Assumptions intersect_set_func_exact_equiv.

Theorem diff_set_func_exact_equiv : forall equal,
  (forall a, equal a a = true) -> (forall a b, equal a b = equal b a) ->
  (forall a b c, equal a b = true -> equal b c = true -> equal a c = true) ->
  forall src dst,
  (forall y, In y (diff_set_func equal src dst) -> In y src /\ ~ has_eq equal dst y) /\
  (forall x, In x src -> ~ has_eq equal dst x -> has_eq equal (diff_set_func equal src dst) x) /\
  pairwise_distinct equal (diff_set_func equal src dst).
Proof. exact diff_set_func_equiv. Qed.
Print Assumptions diff_set_func_exact_equiv.

Theorem symdiff_set_func_exact_equiv : forall equal,
  (forall a, equal a a = true) -> (forall a b, equal a b = equal b a) ->
  (forall a b c, equal a b = true -> equal b c = true -> equal a c = true) ->
  forall src dst,
  (forall y, In y (symdiff_set_func equal src dst) ->
             (In y src /\ ~ has_eq equal dst y) \/ (In y dst /\ ~ has_eq equal src y)) /\
  (forall x, (In x src /\ ~ has_eq equal dst x) \/ (In x dst /\ ~ has_eq equal src x) ->
             has_eq equal (symdiff_set_func equal src dst) x) /\
  pairwise_distinct equal (symdiff_set_func equal src dst).
Proof. exact symdiff_set_func_equiv. Qed.
Print Assumptions symdiff_set_func_exact_equiv.

(* ======== mapx.Keys ======== *)
(* the keys of the map built by assigning kvs in order: each key once, exactly the keys assigned *)
Theorem map_keys_exact : forall kvs,
  NoDup (map_keys (map_build kvs)) /\
  (forall k, In k (map_keys (map_build kvs)) <-> In k (map fst kvs)) /\
  Permutation (map_keys (map_build kvs)) (nodup Z.eq_dec (map fst kvs)).
Proof. exact map_keys_lemma. Qed.
Print Assumptions map_keys_exact.

(* for every order in which Go may enumerate a map m: a duplicate-free permutation of m's key set *)
Theorem map_keys_any_order : forall m kvs, wf_map m -> Permutation kvs m ->
  NoDup (map fst kvs) /\ Permutation (map fst kvs) (map_keys m).
Proof. exact map_keys_any_order_lemma. Qed.
Print Assumptions map_keys_any_order.

(* ======== KeysValues (ToMap ks vs) ======== *)
(* lastwins keeps (k, v) exactly when no later pair has the key k *)
Theorem lastwins_is_last_wins : forall kvs k v,
  In (k, v) (lastwins kvs) <-> exists pre post, kvs = pre ++ (k, v) :: post /\ ~ In k (map fst post).
Proof. exact lastwins_spec. Qed.
Print Assumptions lastwins_is_last_wins.

Theorem keys_values_of_to_map : forall ks vs, length ks = length vs ->
  exists m, mapx_to_map (Some ks) (Some vs) = Ok m /\
            combine (fst (map_keys_values m)) (snd (map_keys_values m)) = m /\
            Permutation m (lastwins (combine ks vs)).
Proof. exact keys_values_of_to_map_lemma. Qed.
Print Assumptions keys_values_of_to_map.

(* ... for every enumeration order kvs of the map that ToMap returned *)
Theorem keys_values_of_to_map_any_order : forall ks vs kvs, length ks = length vs ->
  Permutation kvs (map_build (combine ks vs)) ->
  Permutation (combine (map fst kvs) (map snd kvs)) (lastwins (combine ks vs)).
Proof. exact keys_values_of_to_map_any_order_lemma. Qed.
Print Assumptions keys_values_of_to_map_any_order.

(* ======== non-vacuity ======== *)
Example c16_extra_nonvacuous :
  (forall a, eeval EMod3 a a = true) /\ (forall a b, eeval EMod3 a b = eeval EMod3 b a) /\
  (forall a b c, eeval EMod3 a b = true -> eeval EMod3 b c = true -> eeval EMod3 a c = true) /\
  union_set_func (eeval EMod3) [1; 5] [4; 2; 3] = [3; 1; 5] /\
  deduplicate_func (eeval ELe) [3; 1; 2] = [1; 2] /\
  lastwins [(1, 10); (2, 20); (1, 30)] = [(2, 20); (1, 30)] /\
  map_build [(1, 10); (2, 20); (1, 30)] = [(1, 30); (2, 20)] /\
  map_keys (map_build [(1, 10); (2, 20); (1, 30)]) = [1; 2].
Proof.
  destruct emod3_equivalence as [Hr [Hs Ht]].
  repeat split; try assumption; vm_compute; reflexivity.
Qed.
