(* C17 — AnyValue accessors are total and exact: the right value or an error.
   Only statements here; every proof is `exact <lemma>` from proof/ValueProof.v. *)
From Ekit Require Import Common ValueModel ValueProof.

(* As<Int N>: Ok z only for the held typed number or a numeral denoting z that fits;
   Err only when neither applies; never Panic.  For all held values and all 10 targets. *)
Theorem as_int_exact : forall k v,
  match as_int_now k v with
  | Ok (RInt z) =>
      v = HInt k false z \/
      exists s, v = HStr false s /\ denotes k s z /\ fits k z = true
  | Ok _ => False
  | Err _ =>
      (forall z, v <> HInt k false z) /\
      (forall s z, v = HStr false s -> denotes k s z -> fits k z = false)
  | Panic => False
  end.
Proof. exact as_int_exact_lemma. Qed.
Print Assumptions as_int_exact.

Theorem as_int_complete : forall k s z,
  denotes k s z -> fits k z = true -> as_int_now k (HStr false s) = Ok (RInt z).
Proof. exact as_int_complete_lemma. Qed.
Print Assumptions as_int_complete.

(* exact-type accessors return the held value iff it has exactly the requested type *)
Theorem exact_accessor_exact : forall t v,
  match exact t v with
  | Ok r => res_of_ty t r = true /\ v = typed_value t r
  | Err _ => forall r, res_of_ty t r = true -> v <> typed_value t r
  | Panic => False
  end.
Proof. exact exact_exact_lemma. Qed.
Print Assumptions exact_accessor_exact.

Theorem stored_err_returned_unchanged : forall a v,
  (forall t d, a <> AOrDef t d) ->
  access_now a {| val := v; has_err := true |} = Err EStored.
Proof. exact stored_err_lemma. Qed.
Print Assumptions stored_err_returned_unchanged.

(* JSONScan: a stored Err comes back unchanged (an instance of the theorem above); otherwise it unmarshals
   exactly the bytes AsBytes yields and fails exactly when AsBytes fails (json.Unmarshal itself is opaque) *)
Theorem jsonscan_goes_through_asbytes : forall av,
  access_now AJsonScan av =
  match access_now (AAs AsBytes) av with
  | Ok (RBytes b) => Ok (RJsonScan b)
  | Ok _ => Err EOther
  | Err e => Err e
  | Panic => Panic
  end.
Proof. exact jsonscan_lemma. Qed.
Print Assumptions jsonscan_goes_through_asbytes.

Theorem ordefault_iff_strict_fails : forall t d av,
  access_now (AOrDef t d) av =
  match access_now (AExact t) av with Ok r => Ok r | _ => Ok d end.
Proof. exact ordefault_lemma. Qed.
Print Assumptions ordefault_iff_strict_fails.

Theorem access_never_panics : forall a av, access_now a av <> Panic.
Proof. exact access_never_panics_lemma. Qed.
Print Assumptions access_never_panics.

(* the exact decimal text of an integer *)
Theorem format_int_denotes : forall z,
  - 2 ^ 64 < z < 2 ^ 64 -> denotes_s (format_int z) z.
Proof. exact format_int_denotes_lemma. Qed.
Print Assumptions format_int_denotes.

Theorem format_parse_roundtrip : forall k z,
  fits k z = true -> as_int_now k (HStr false (format_int z)) = Ok (RInt z).
Proof. exact format_parse_roundtrip_lemma. Qed.
Print Assumptions format_parse_roundtrip.

(* non-vacuity: the hypotheses are met by concrete non-trivial values *)
Example c17_nonvacuous :
  denotes I16 [45; 48; 48; 49; 50] (-12) /\ fits I16 (-12) = true /\
  as_int_now I16 (HStr false [45; 48; 48; 49; 50]) = Ok (RInt (-12)) /\
  as_int_now U8 (HStr false [50; 53; 54]) = Err ERange /\
  as_int_now I8 (HStr false [49; 50; 56]) = Err ERange /\
  access_now (AAs AsStr) {| val := HInt I64 true (-9223372036854775808); has_err := false |}
    = Ok (RStr [45;57;50;50;51;51;55;50;48;51;54;56;53;52;55;55;53;56;48;56]).
Proof.
  split; [right; right; exists [48;48;49;50], 12; repeat split; discriminate|].
  repeat split; vm_compute; reflexivity.
Qed.
