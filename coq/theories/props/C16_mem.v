(* C16, memory level: where the slice functions write, where their results live, nil-ness.
   Model: model/SliceMemModel.v (slice = header (array, offset, len, cap) over a store of arrays;
   make / load / store / append / reslice).  Only statements; proofs in proof/SliceMemProof.v.
   Vocabulary (proof/SliceMemProof.v):
     mk_st S1 pre w post S2 = S1 ++ (pre ++ w ++ post) :: S2     the store around one window w
     hmatch h S1 pre w       h points at that window: array |S1|, offset |pre|, len |w|
     wf st h / wfs st s      the header lies inside an existing array (nil is always fine)
     contents st h           the len elements the header shows
     pure_result st0 o w     o = Ok (st', Some h): h NON-NIL, its array did not exist in st0, every array of
                             st0 is unchanged in st' (same id, same elements), and contents st' h = w *)
From Ekit Require Import Common SliceModel SliceProof SliceProof2 SliceProof3 SliceMemModel SliceMemProof.

(* every well-formed header can be seen as such a window, so the theorems below cover every call *)
Theorem every_slice_is_a_window : forall st h, wf st h ->
  exists S1 pre post S2, st = mk_st S1 pre (contents st h) post S2 /\ hmatch h S1 pre (contents st h) /\
                         (h_cap h <= h_len h + length post)%nat.
Proof. exact decompose. Qed.
Print Assumptions every_slice_is_a_window.

(* ================= the in-place functions write exactly their own window ================= *)
Theorem reverse_self_in_place : forall h S1 pre w post S2, hmatch h S1 pre w ->
  reverse_self_m (mk_st S1 pre w post S2) (Some h) = Ok (mk_st S1 pre (rev w) post S2).
Proof. exact reverse_self_m_lemma. Qed.
Print Assumptions reverse_self_in_place.

(* Delete: the result SHARES the argument's array (same array, same offset, len-1, same cap); the window
   afterwards is SliceModel.delete's `after`; nothing else in the store changes *)
Theorem delete_shares_argument_array : forall h S1 pre w post S2 index, hmatch h S1 pre w -> (h_len h <= h_cap h)%nat ->
  delete_m (mk_st S1 pre w post S2) (Some h) index =
  match delete w index with
  | Ok (r, after) => Ok (mk_st S1 pre after post S2, Some (mkhdr (h_arr h) (h_off h) (h_len h - 1) (h_cap h)))
  | Err e => Err e
  | Panic => Panic
  end.
Proof. exact delete_m_lemma. Qed.
Print Assumptions delete_shares_argument_array.

Theorem filter_delete_shares_argument_array : forall mp h S1 pre w post S2, hmatch h S1 pre w -> (h_len h <= h_cap h)%nat ->
  filter_delete_m mp (mk_st S1 pre w post S2) (Some h) =
  match filter_delete mp w with
  | Ok (r, after) => Ok (mk_st S1 pre after post S2, Some (mkhdr (h_arr h) (h_off h) (length r) (h_cap h)))
  | Err e => Err e
  | Panic => Panic
  end.
Proof. exact filter_delete_m_lemma. Qed.
Print Assumptions filter_delete_shares_argument_array.

(* Add with spare capacity (len < cap): in place — the slot behind the window is consumed, the result shares the array *)
Theorem add_in_place_when_spare_capacity : forall extra h S1 pre w z post S2 e index,
  hmatch h S1 pre w -> (h_len h < h_cap h)%nat ->
  add_m extra (mk_st S1 pre w (z :: post) S2) (Some h) e index =
  match add w e index with
  | Ok r => Ok (mk_st S1 pre r post S2, Some (mkhdr (h_arr h) (h_off h) (S (h_len h)) (h_cap h)))
  | Err er => Err er
  | Panic => Panic
  end.
Proof. exact add_m_in_place. Qed.
Print Assumptions add_in_place_when_spare_capacity.

(* Add without spare capacity (cap <= len, nil included): a fresh array; the old store is untouched *)
Theorem add_fresh_array_when_full : forall extra st s w e index,
  firstn (mlen s) (skipn (h_off (hdr_of s)) (arr_of st (h_arr (hdr_of s)))) = w -> mlen s = length w ->
  (h_cap (hdr_of s) <= mlen s)%nat ->
  add_m extra st s e index =
  match add w e index with
  | Ok r => Ok (st ++ [r ++ repeat 0 (extra (length w))],
                Some (mkhdr (length st) 0 (S (length w)) (S (length w) + extra (length w))))
  | Err er => Err er
  | Panic => Panic
  end.
Proof. exact add_m_fresh. Qed.
Print Assumptions add_fresh_array_when_full.

Theorem in_place_functions_on_nil : forall extra mp st index,
  reverse_self_m st None = Ok st /\ delete_m st None index = Err EIndex /\
  filter_delete_m mp st None = Ok (st, None) /\
  add_m extra st None 7 0 = Ok (st ++ [7 :: repeat 0 (extra 0%nat)], Some (mkhdr (length st) 0 1 (1 + extra 0%nat))).
Proof.
  exact (fun extra mp st index => conj (reverse_self_m_nil st) (conj (delete_m_nil st index)
           (conj (filter_delete_m_nil mp st) (add_m_fresh extra st None [] 7 0 eq_refl eq_refl (le_n 0%nat))))).
Qed.
Print Assumptions in_place_functions_on_nil.

(* ================= what pure_result means ================= *)
Theorem pure_result_meaning : forall st0 o w, pure_result st0 o w ->
  exists st' h, o = Ok (st', Some h) /\
    (length st0 <= h_arr h)%nat /\ (h_arr h < length st')%nat /\
    (forall a, (a < length st0)%nat -> arr_of st' a = arr_of st0 a) /\
    (forall s, wfs st0 s -> wfs st' s /\ contents_s st' s = contents_s st0 s) /\
    contents st' h = w /\ length w = h_len h.
Proof. exact pure_result_unfold. Qed.
Print Assumptions pure_result_meaning.

(* ================= functions returning a new slice: fresh, non-nil, arguments untouched ================= *)
Theorem filter_map_pure : forall extra mf mp st s, wfs st s ->
  pure_result st (filter_map_m extra mf mp st s) (filter_map mf mp (contents_s st s)).
Proof. exact filter_map_m_lemma. Qed.
Print Assumptions filter_map_pure.

Theorem find_all_pure : forall extra mt st s, wfs st s ->
  pure_result st (find_all_m extra mt st s) (find_all mt (contents_s st s)).
Proof. exact find_all_m_lemma. Qed.
Print Assumptions find_all_pure.

Theorem index_all_pure : forall extra mt st s, wfs st s ->
  pure_result st (index_all_func_m extra mt st s) (index_all_func mt (contents_s st s)).
Proof. exact index_all_func_m_lemma. Qed.
Print Assumptions index_all_pure.

Theorem reverse_pure : forall extra st s, wfs st s -> pure_result st (reverse_m extra st s) (rev (contents_s st s)).
Proof. exact reverse_m_lemma. Qed.
Print Assumptions reverse_pure.

Theorem map_pure : forall mf st s, wfs st s -> pure_result st (map_m mf st s) (map_slice mf (contents_s st s)).
Proof. exact map_m_lemma. Qed.
Print Assumptions map_pure.

Theorem set_functions_pure : forall extra st src dst, wfs st src -> wfs st dst ->
  pure_result st (union_set_m extra st src dst) (union_set (contents_s st src) (contents_s st dst)) /\
  pure_result st (intersect_set_m extra st src dst) (intersect_set (contents_s st src) (contents_s st dst)) /\
  pure_result st (diff_set_m extra st src dst) (diff_set (contents_s st src) (contents_s st dst)) /\
  pure_result st (symdiff_set_m extra st src dst) (symdiff_set (contents_s st src) (contents_s st dst)).
Proof.
  exact (fun extra st src dst Hs Hd => conj (union_set_m_lemma extra st src dst Hs Hd)
          (conj (intersect_set_m_lemma extra st src dst Hs Hd)
          (conj (diff_set_m_lemma extra st src dst Hs Hd) (symdiff_set_m_lemma extra st src dst Hs Hd)))).
Qed.
Print Assumptions set_functions_pure.

Theorem mapx_keys_values_pure : forall extra st m,
  pure_result st (Ok (keys_m extra st m)) (map_keys m) /\ pure_result st (Ok (values_m extra st m)) (map_values m).
Proof. exact (fun extra st m => conj (keys_m_lemma extra st m) (values_m_lemma extra st m)). Qed.
Print Assumptions mapx_keys_values_pure.

(* ================= functions that only load: their value is SliceModel's on the contents ================= *)
Theorem readers_exact : forall st s, wfs st s ->
  (forall p, contains_func_m st s p = Ok (contains_func (contents_s st s) p)) /\
  (forall mt, index_func_m mt st s = Ok (index_func mt (contents_s st s))) /\
  (forall mt, last_index_func_m mt st s = last_index_func mt (contents_s st s)) /\
  sum_m st s = Ok (sum_slice (contents_s st s)) /\
  to_map_m st s = Ok (to_set (contents_s st s)).
Proof.
  exact (fun st s Hw => conj (fun p => contains_func_m_lemma st s p Hw) (conj (fun mt => index_func_m_lemma mt st s Hw)
          (conj (fun mt => last_index_func_m_lemma mt st s Hw) (conj (sum_m_lemma st s Hw) (to_map_m_lemma st s Hw))))).
Qed.
Print Assumptions readers_exact.

(* ================= non-vacuity ================= *)
Example c16_mem_nonvacuous :
  let extra := fun n : nat => n in
  add_m extra [[1; 2; 3; 0; 0]] (Some (mkhdr 0 0 3 5)) 9 1 = Ok ([[1; 9; 2; 3; 0]], Some (mkhdr 0 0 4 5)) /\
  add_m extra [[1; 2; 3]] (Some (mkhdr 0 0 3 3)) 9 1 = Ok ([[1; 2; 3]; [1; 9; 2; 3; 0; 0; 0]], Some (mkhdr 1 0 4 7)) /\
  delete_m [[5; 1; 2; 3; 6]] (Some (mkhdr 0 1 3 4)) 0 = Ok ([[5; 2; 3; 3; 6]], Some (mkhdr 0 1 2 4)) /\
  reverse_self_m [[5; 1; 2; 3; 6]] (Some (mkhdr 0 1 3 3)) = Ok [[5; 3; 2; 1; 6]] /\
  find_all_m extra (fun _ => false) [] None = Ok ([[0]], Some (mkhdr 0 0 0 1)) /\
  find_all_m extra Z.even [[4; 5; 6]] (Some (mkhdr 0 0 3 3)) = Ok ([[4; 5; 6]; [4]; [4; 6; 0]], Some (mkhdr 2 0 2 3)) /\
  wf [[5; 1; 2; 3; 6]] (mkhdr 0 1 3 4) /\ hmatch (mkhdr 0 1 3 4) [] [5] [1; 2; 3].
Proof.
  cbv zeta. repeat split; try (vm_compute; reflexivity); cbn; lia.
Qed.

(* ====================================================================================== *)
(* round 2: the remaining functions (model/SliceMemModel2.v, proof/SliceMemProof2.v)        *)
From Ekit Require Import SliceMemModel2 SliceMemProof2.

(* deduplicateFunc and the four ...Func set functions (for EVERY function equal): fresh, non-nil,
   arguments untouched, contents = SliceModel's *)
Theorem deduplicate_func_pure : forall extra equal st data, wfs st data ->
  pure_result st (deduplicate_func_m extra equal st data) (deduplicate_func equal (contents_s st data)).
Proof. exact deduplicate_func_m_lemma. Qed.
Print Assumptions deduplicate_func_pure.

Theorem set_func_functions_pure : forall extra equal st src dst, wfs st src -> wfs st dst ->
  pure_result st (union_set_func_m extra equal st src dst) (union_set_func equal (contents_s st src) (contents_s st dst)) /\
  pure_result st (intersect_set_func_m extra equal st src dst) (intersect_set_func equal (contents_s st src) (contents_s st dst)) /\
  pure_result st (diff_set_func_m extra equal st src dst) (diff_set_func equal (contents_s st src) (contents_s st dst)) /\
  pure_result st (symdiff_set_func_m extra equal st src dst) (symdiff_set_func equal (contents_s st src) (contents_s st dst)).
Proof.
  exact (fun extra equal st src dst Hs Hd => conj (union_set_func_m_lemma extra equal st src dst Hs Hd)
          (conj (intersect_set_func_m_lemma extra equal st src dst Hs Hd)
          (conj (diff_set_func_m_lemma extra equal st src dst Hs Hd) (symdiff_set_func_m_lemma extra equal st src dst Hs Hd)))).
Qed.
Print Assumptions set_func_functions_pure.

(* a result that is pure w.r.t. a later store is pure w.r.t. every earlier one *)
Theorem pure_result_composes : forall st0 st1 o w, keeps st0 st1 -> pure_result st1 o w -> pure_result st0 o w.
Proof. exact pure_result_trans. Qed.
Print Assumptions pure_result_composes.

(* the remaining readers: they only load (no store is returned) and compute SliceModel's value.
   Max / Min panic exactly like ts[0] on an empty slice; mapx.ToMap's nil / length errors included *)
Theorem readers_exact_2 : forall st s, wfs st s ->
  (forall mt, find_m mt st s = Ok (find mt (contents_s st s))) /\
  max_m st s = max_slice (contents_s st s) /\ min_m st s = min_slice (contents_s st s) /\
  (forall fk fv, to_map_v_m fk fv st s = Ok (to_map_v fk fv (contents_s st s))) /\
  (forall fk, to_map_kv_m fk st s = Ok (to_map fk (contents_s st s))).
Proof.
  exact (fun st s Hw => conj (fun mt => find_m_lemma mt st s Hw) (conj (max_m_lemma st s Hw) (conj (min_m_lemma st s Hw)
          (conj (fun fk fv => to_map_v_m_lemma fk fv st s Hw) (fun fk => to_map_v_m_lemma fk (fun e => e) st s Hw))))).
Qed.
Print Assumptions readers_exact_2.

Theorem binary_readers_exact : forall st src dst, wfs st src -> wfs st dst ->
  contains_any_m st src dst = Ok (contains_any (contents_s st src) (contents_s st dst)) /\
  contains_all_m st src dst = Ok (contains_all (contents_s st src) (contents_s st dst)) /\
  (forall equal, contains_any_func_m equal st src dst = Ok (contains_any_func equal (contents_s st src) (contents_s st dst))) /\
  (forall equal, contains_all_func_m equal st src dst = Ok (contains_all_func equal (contents_s st src) (contents_s st dst))) /\
  mapx_to_map_m st src dst =
    mapx_to_map (match src with Some _ => Some (contents_s st src) | None => None end)
                (match dst with Some _ => Some (contents_s st dst) | None => None end).
Proof.
  exact (fun st src dst Hs Hd => conj (contains_any_m_lemma st src dst Hs Hd) (conj (contains_all_m_lemma st src dst Hs Hd)
          (conj (fun equal => contains_any_func_m_lemma equal st src dst Hs Hd)
          (conj (fun equal => contains_all_func_m_lemma equal st src dst Hs Hd) (mapx_to_map_m_lemma st src dst Hs Hd))))).
Qed.
Print Assumptions binary_readers_exact.

Example c16_mem2_nonvacuous :
  let extra := fun n : nat => n in
  union_set_func_m extra Z.eqb [[1; 2]; [2; 3]] (Some (mkhdr 0 0 2 2)) (Some (mkhdr 1 0 2 2)) =
    Ok ([[1; 2]; [2; 3]; [2; 3; 1; 2]; [3; 1; 2; 0]], Some (mkhdr 3 0 3 4)) /\
  symdiff_set_func_m extra Z.eqb [] None None = Ok ([[]; []], Some (mkhdr 1 0 0 0)) /\
  max_m [[]] (Some (mkhdr 0 0 0 0)) = Panic /\
  mapx_to_map_m [[1; 1]; [5; 6]] (Some (mkhdr 0 0 2 2)) (Some (mkhdr 1 0 2 2)) = Ok [(1, 6)] /\
  mapx_to_map_m [[1; 1]] (Some (mkhdr 0 0 2 2)) None = Err EOther.
Proof. cbv zeta. repeat split; vm_compute; reflexivity. Qed.

(* ====================================================================================== *)
(* mapx.KeysValues (model/SliceMemModel3.v): two non-nil results in two DIFFERENT fresh arrays,
   every pre-existing array untouched, contents = SliceModel.map_keys_values *)
From Ekit Require Import SliceMemModel3 SliceMemProof3.
Theorem keys_values_pure : forall extra st m,
  exists st' ks vs, keys_values_m extra st m = (st', Some ks, Some vs) /\
    fresh st st' ks (fst (map_keys_values m)) /\ fresh st st' vs (snd (map_keys_values m)) /\ h_arr ks <> h_arr vs.
Proof. exact keys_values_m_lemma. Qed.
Print Assumptions keys_values_pure.

Example c16_mem3_nonvacuous :
  keys_values_m (fun n => n) [[9]] [(1, 5); (2, 6)] =
    ([[9]; [1; 2]; [5; 6]], Some (mkhdr 1 0 2 2), Some (mkhdr 2 0 2 2)).
Proof. vm_compute. reflexivity. Qed.
