(* C05, skip-list half — the skip list behaves as a sorted multiset whatever tower heights its
   random source produces.  Only statements here; every proof is `exact <lemma>` from
   proof/SkipProof.v.  Vocabulary (SkipModel.v): [final ops] / [outs ops] = state / outputs after
   the history [ops] starting from NewSkipList; every [OInsert v r] carries the number r of
   successful draws of randomLevel, so quantifying over all histories quantifies over all
   sequences of tower heights in [1,32] (random_level_covers_1_32); [cmp_total_preorder] = sign
   antisymmetric + (<=) transitive, ties allowed. *)
From Ekit Require Import Common SkipModel SkipProof.
From Coq Require Import Sorting.Sorted Sorting.Permutation.

(* the tower heights: exactly the range [1, MaxLevel] *)
Theorem random_level_covers_1_32 :
  (forall r, (1 <= random_level r <= MaxLevel)%nat) /\
  (forall h, (1 <= h <= MaxLevel)%nat -> exists r, random_level r = h).
Proof. exact (conj random_level_range_lemma random_level_onto_lemma). Qed.
Print Assumptions random_level_covers_1_32.

(* I1-I5 in every reachable state: level 0 sorted; identities unique; size = |level 0|; every
   tower between 1 and 32 high (so level i+1 is a sub-sequence of level i by construction of
   [chain]); no node at or above [level] and level = max(1, tallest tower); and the pointer
   surgery of Insert/DeleteElement never left the heights representation ([rep]). *)
Theorem skip_invariants_reachable : forall (T : Type) (cmp : T -> T -> Z),
  cmp_total_preorder T cmp -> forall ops, skip_inv T cmp (final T cmp ops).
Proof. exact skip_inv_reachable_tp. Qed.
Print Assumptions skip_invariants_reachable.

(* HEADLINE.  In every reachable state AsSlice is ascending, and every operation acts on it as on
   a sorted multiset (SkipModel.sorted_multiset_step): Insert adds exactly its value;
   DeleteElement returns true and removes exactly one element comparing equal to its argument if
   there is one, nothing otherwise; Search = "some element compares equal"; Get i = i-th element
   of the ascending sequence, index error exactly outside [0,Len); Peek = a minimum, error iff
   empty; Len = cardinality; AsSlice = the sequence. *)
Theorem skiplist_refines_sorted_multiset : forall (T : Type) (cmp : T -> T -> Z),
  cmp_total_preorder T cmp -> forall ops o,
    let s := final T cmp ops in
    let s' := fst (step T cmp s o) in
    sortedT T cmp (as_slice T s) /\ sortedT T cmp (as_slice T s') /\
    sorted_multiset_step T cmp (as_slice T s) o (as_slice T s') (snd (step T cmp s o)).
Proof. exact skip_step_tp. Qed.
Print Assumptions skiplist_refines_sorted_multiset.

(* the same for whole histories: AsSlice is a permutation of inserted-minus-deleted
   (SkipModel.contents_rel), in ascending order *)
Theorem skiplist_contents_are_inserted_minus_deleted : forall (T : Type) (cmp : T -> T -> Z),
  cmp_total_preorder T cmp -> forall ops,
    contents_rel T cmp ops (as_slice T (final T cmp ops)) /\ sortedT T cmp (as_slice T (final T cmp ops)).
Proof. exact skip_contents_tp. Qed.
Print Assumptions skiplist_contents_are_inserted_minus_deleted.

(* every output of every history equals the output of the executable specification (a sorted
   list with insert-before-first-not-smaller / delete-first-equal); this is the oracle the
   search layer runs (`modelrun skip spec`) *)
Theorem skiplist_outputs_eq_spec : forall (T : Type) (cmp : T -> T -> Z),
  cmp_total_preorder T cmp -> forall ops,
    outs T cmp ops = snd (ms_run T cmp ops) /\ as_slice T (final T cmp ops) = fst (ms_run T cmp ops).
Proof. exact skip_outputs_eq_spec_tp. Qed.
Print Assumptions skiplist_outputs_eq_spec.

(* Get never walks off the level-0 chain (nil dereference) and Peek never dereferences nil *)
Theorem skiplist_never_panics : forall (T : Type) (cmp : T -> T -> Z),
  cmp_total_preorder T cmp -> forall ops, ~ In (RVal Panic) (outs T cmp ops).
Proof. exact skip_never_panics_tp. Qed.
Print Assumptions skiplist_never_panics.

(* NewSkipListFromSlice = the history of Inserts; sorted permutation of the slice *)
Theorem skiplist_from_slice : forall (T : Type) (cmp : T -> T -> Z),
  cmp_total_preorder T cmp -> forall l,
    let s := from_slice T cmp l in
    s = final T cmp (map (fun vr => OInsert (fst vr) (snd vr)) l) /\
    skip_inv T cmp s /\ sortedT T cmp (as_slice T s) /\ Permutation (as_slice T s) (map fst l).
Proof. exact skip_from_slice_tp. Qed.
Print Assumptions skiplist_from_slice.

(* key lemma 12.4 in every reachable state: traverse (continuing on each level from the node
   reached one level up) ends at c0 = the number of elements smaller than v, i.e. directly in
   front of the first element >= v, and update[i].Forward[i] is that element exactly on the
   levels of its tower — the unlink loop of DeleteElement therefore unlinks all of it *)
Theorem skiplist_traverse_finds_predecessors : forall (T : Type) (cmp : T -> T -> Z),
  cmp_total_preorder T cmp -> forall ops v,
    let s := final T cmp ops in
    let u := traverse T cmp (nodes s) v (level s) in
    let c0 := upd u 0 in
    length u = level s /\
    (forall k n, nth_error (nodes s) k = Some n -> ltb T cmp v n = Nat.ltb k c0) /\
    (forall i nd, (i < level s)%nat -> nth_error (nodes s) c0 = Some nd ->
       (fwd T i (nodes s) (upd u i) = Some c0 <-> (i < nht nd)%nat)).
Proof. exact skip_traverse_tp. Qed.
Print Assumptions skiplist_traverse_finds_predecessors.

(* Layer B (bounded, by computation; NOT the general simulation theorem): the statement-by-
   statement pointer model (heap id -> value + Forward pointers, loops with fuel) and the heights
   model agree — level, size, all tower heights, all 32 chains, 13 probes — after every prefix of
   every history of at most 5 mutating operations over SkipModel.sweep_alphabet (keys 0,1,2 with
   0 and 1 comparing equal, towers 1..3, DeleteElement 0,1,2): 248832 histories. *)
Theorem ptr_matches_heights_bounded : ptr_sweep 5 (p_empty _) empty = true.
Proof. exact ptr_sweep_5. Qed.
Print Assumptions ptr_matches_heights_bounded.

(* ---------- non-vacuity ---------- *)
(* the comparators used by the correspondence check satisfy the premise; k mod 3 and k div 2
   have many ties (different values comparing equal) *)
Example asc_is_total_preorder : cmp_total_preorder (Z * Z) cmp_asc.
Proof. exact cmp_asc_tp. Qed.
Example desc_is_total_preorder : cmp_total_preorder (Z * Z) cmp_desc.
Proof. exact cmp_desc_tp. Qed.
Example mod3_is_total_preorder : cmp_total_preorder (Z * Z) cmp_mod3.
Proof. exact cmp_mod3_tp. Qed.
Example half_is_total_preorder : cmp_total_preorder (Z * Z) cmp_half.
Proof. exact cmp_half_tp. Qed.

(* a tie-heavy history (keys mod 3; tags tell equal elements apart) with towers 1,3,1,2,1:
   among equals the newest comes first; deleting "1" removes the first element of class 1;
   deleting the tallest tower (id 2) drops level from 3 to 2 *)
Definition ex_ops : list (op (Z * Z)) :=
  [OInsert (1, 1) 0%nat; OInsert (2, 2) 2%nat; OInsert (3, 3) 0%nat; OInsert (4, 4) 1%nat; OInsert (5, 5) 0%nat].
Example ex_state :
  let s := final (Z * Z) cmp_mod3 ex_ops in
  as_slice _ s = [(3, 3); (4, 4); (1, 1); (5, 5); (2, 2)] /\ level s = 3%nat /\ size s = 5 /\
  firstn 4 (towers _ s) = [[3; 4; 1; 5; 2]; [4; 2]; [2]; []]%nat.
Proof. vm_compute. repeat split. Qed.
Example ex_delete_tie :
  as_slice _ (final (Z * Z) cmp_mod3 (ex_ops ++ [ODelete (7, 0)])) = [(3, 3); (1, 1); (5, 5); (2, 2)].
Proof. vm_compute. reflexivity. Qed.
Example ex_delete_tallest :
  let s := final (Z * Z) cmp_mod3 (ex_ops ++ [ODelete (8, 0)]) in
  as_slice _ s = [(3, 3); (4, 4); (1, 1); (2, 2)] /\ level s = 3%nat /\
  level (final (Z * Z) cmp_mod3 (ex_ops ++ [ODelete (8, 0); ODelete (8, 0)])) = 2%nat.
Proof. vm_compute. repeat split. Qed.
Example ex_outputs :
  outs (Z * Z) cmp_mod3 (ex_ops ++ [OSearch (9, 0); OSearch (6, 0); OGet 1; OGet 5; OPeek; OLen; ODelete (9, 9)]) =
  [RUnit; RUnit; RUnit; RUnit; RUnit; RBool true; RBool true; RVal (Ok (4, 4)); RVal (Err EIndex);
   RVal (Ok (3, 3)); RLen 5; RBool true].
Proof. vm_compute. reflexivity. Qed.
