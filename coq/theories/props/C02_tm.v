(* C02 — balance and the comparator-call bound for the TreeMap / TreeSet operations built on the tree,
   and for one call of the POINTER-level model after any history.
   Only statements here; every proof is `exact <lemma>` from proof/TreeMapGap.v (Parts 1 and 2), which
   composes props/C02.v (RBBalance: rb_inv_reachable, size_is_card_reachable, cmp_calls_logarithmic) and
   props/C02_ptr.v (RBPtrProof8: ptr_refines_rec).

   Every theorem holds for EVERY comparator function cmp : Z -> Z -> Z (no law is needed) and EVERY history
   of mapx.TreeMap calls (list tm_op) resp. set.TreeSet calls (list ts_op) from the empty container, and for
   every next operation o.

   tm_op_calls / ts_op_calls (model/TreeMapModel.v) = number of comparator invocations of one public call:
   one descent (Add's insertion descent / findNode) for Get, Delete, and a Put that inserts; TWO descents for
   a Put of a key that is already there (Add reports the duplicate, then Set looks the key up again).
   The constant is the one of cmp_calls_logarithmic: 2 * Nat.log2 (card + 1) per descent.
   tm_get_finds cmp s k = true  iff  TreeMap.Get k in state s reports "found" (RBRefine-free definition in
   TreeMapGap.v); "o is not an updating Put" is: forall k v, o = TPut k v -> tm_get_finds cmp s k = false. *)
From Ekit Require Import Common RBModel TreeMapModel RBBalance RBPtrModel TreeMapGap.

(* a TreeMap / TreeSet history is an RBTree history: the state it reaches is reached by some list of
   tree.RBTree calls (a TreeMap call is zero, one or two of them), so everything props/C02.v proves about
   reachable trees holds for TreeMap / TreeSet *)
Theorem tm_history_is_rb_history : forall cmp (ops : list tm_op) s,
  exists r : list rb_op, tm_final cmp s ops = rb_final cmp s r.
Proof. exact tm_final_is_rb. Qed.
Print Assumptions tm_history_is_rb_history.

Theorem ts_history_is_rb_history : forall cmp (ops : list ts_op) s,
  exists r : list rb_op, ts_final cmp s ops = rb_final cmp s r.
Proof. exact ts_final_is_rb. Qed.
Print Assumptions ts_history_is_rb_history.

(* after any TreeMap history: valid red-black tree, size field = node count *)
Theorem tm_rb_inv_reachable : forall cmp (ops : list tm_op),
  rb_inv (root (tm_final cmp rb_empty ops)) /\
  size (tm_final cmp rb_empty ops) = Z.of_nat (card (root (tm_final cmp rb_empty ops))).
Proof. exact tm_rb_inv_reachable_lemma. Qed.
Print Assumptions tm_rb_inv_reachable.

Theorem ts_rb_inv_reachable : forall cmp (ops : list ts_op),
  rb_inv (root (ts_final cmp rb_empty ops)) /\
  size (ts_final cmp rb_empty ops) = Z.of_nat (card (root (ts_final cmp rb_empty ops))).
Proof. exact ts_rb_inv_reachable_lemma. Qed.
Print Assumptions ts_rb_inv_reachable.

(* comparator calls of one TreeMap call on a map holding n keys: at most 2 * (2*log2(n+1)) for every call,
   at most 2*log2(n+1) for every call that is not a Put of a key already present; n is also Len() *)
Theorem tm_op_calls_logarithmic : forall cmp (ops : list tm_op) (o : tm_op),
  let s := tm_final cmp rb_empty ops in
  let n := card (root s) in
  (tm_op_calls cmp s o <= 2 * (2 * Nat.log2 (n + 1)))%nat /\
  ((forall k v, o = TPut k v -> tm_get_finds cmp s k = false) ->
   (tm_op_calls cmp s o <= 2 * Nat.log2 (n + 1))%nat) /\
  n = Z.to_nat (size s).
Proof. exact tm_op_calls_logarithmic_lemma. Qed.
Print Assumptions tm_op_calls_logarithmic.

(* the same for TreeSet: Add of a member is the updating Put *)
Theorem ts_op_calls_logarithmic : forall cmp (ops : list ts_op) (o : ts_op),
  let s := ts_final cmp rb_empty ops in
  let n := card (root s) in
  (ts_op_calls cmp s o <= 2 * (2 * Nat.log2 (n + 1)))%nat /\
  ((forall k, o = SAdd k -> tm_get_finds cmp s k = false) ->
   (ts_op_calls cmp s o <= 2 * Nat.log2 (n + 1))%nat) /\
  n = Z.to_nat (size s).
Proof. exact ts_op_calls_logarithmic_lemma. Qed.
Print Assumptions ts_op_calls_logarithmic.

(* pointer level (RBPtrModel, the statement-by-statement transcription of the Go file): after any history,
   ONE MORE call of any operation runs to completion (no nil dereference, no fuel exhaustion) and invokes
   rb.compare exactly as often as the recursive model says — [pcalls] is reset at the start of ptr_step, so
   pcalls s' counts the invocations of this call only — which is at most 2*log2(n+1), n = the number of nodes
   read back from the heap = the size field *)
Theorem ptr_call_comparisons_logarithmic : forall cmp (ops : list rb_op) (o : rb_op),
  exists l sf out s',
    ptr_run cmp pinit ops = ROk l sf /\ ptr_step cmp o sf = ROk out s' /\
    pcalls s' = rb_call_count cmp (rb_final cmp rb_empty ops) o /\
    (pcalls s' <= 2 * Nat.log2 (card (abs_tree sf) + 1))%nat /\
    (pcalls s' <= 2 * Nat.log2 (Z.to_nat (psize sf) + 1))%nat.
Proof. exact ptr_call_comparisons_lemma. Qed.
Print Assumptions ptr_call_comparisons_logarithmic.

(* ... in particular Add: addNode's descent (the only place Add calls the comparator) *)
Theorem ptr_addNode_descent_logarithmic : forall cmp (ops : list rb_op) k v,
  exists l sf out s',
    ptr_run cmp pinit ops = ROk l sf /\ ptr_step cmp (OAdd k v) sf = ROk out s' /\
    pcalls s' = cmp_calls cmp k (abs_tree sf) /\
    (pcalls s' <= 2 * Nat.log2 (card (abs_tree sf) + 1))%nat /\
    (pcalls s' <= 2 * Nat.log2 (Z.to_nat (psize sf) + 1))%nat.
Proof. exact ptr_add_descent_lemma. Qed.
Print Assumptions ptr_addNode_descent_logarithmic.

(* ---- non-vacuity ---- *)
Definition puts7 : list tm_op := [TPut 1 10; TPut 2 20; TPut 3 30; TPut 4 40; TPut 5 50; TPut 6 60; TPut 7 70].

(* 7 keys inserted in ascending order: the path to 7 has 4 nodes.  Put 7 again = two descents = 8 calls:
   above the one-descent bound 2*log2(8) = 6 (so the factor 2 of the first clause is needed), within
   2 * 6 = 12; Put of the absent key 8 = one descent = 4 calls; Get 7 = 4 calls *)
Example tm_calls_concrete :
  let s := tm_final cmp_asc rb_empty puts7 in
  card (root s) = 7%nat /\ tm_get_finds cmp_asc s 7 = true /\ tm_get_finds cmp_asc s 8 = false /\
  tm_op_calls cmp_asc s (TPut 7 0) = 8%nat /\ tm_op_calls cmp_asc s (TPut 8 0) = 4%nat /\
  tm_op_calls cmp_asc s (TGet 7) = 4%nat /\ (2 * Nat.log2 (7 + 1) = 6)%nat.
Proof. vm_compute. repeat split; reflexivity. Qed.

Example ts_calls_concrete :
  let s := ts_final cmp_half rb_empty [SAdd 2; SAdd 4; SAdd 6; SAdd 8; SAdd 10] in
  card (root s) = 5%nat /\ ts_op_calls cmp_half s (SAdd 11) = 6%nat /\ ts_op_calls cmp_half s (SExist 11) = 3%nat /\
  ts_op_calls cmp_half s (SAdd 12) = 3%nat.
Proof. vm_compute. repeat split; reflexivity. Qed.

(* the pointer-level code run on a concrete history: the 8th ascending Add makes 4 comparator calls *)
Example ptr_add_concrete :
  match ptr_run cmp_asc pinit [OAdd 1 1; OAdd 2 2; OAdd 3 3; OAdd 4 4; OAdd 5 5; OAdd 6 6; OAdd 7 7] with
  | ROk _ sf => match ptr_step cmp_asc (OAdd 8 8) sf with
                | ROk out s' => out = RUnit /\ pcalls s' = 4%nat /\ card (abs_tree sf) = 7%nat /\ psize s' = 8
                | _ => False
                end
  | _ => False
  end.
Proof. vm_compute. repeat split; reflexivity. Qed.
