(* C03 — gaps closed after the audit: (1) which pairing of Keys() with Values() each map
   guarantees, (2) set.MapSet refines the abstract set.  Only statements; proofs in proof/HashGap.v. *)
From Ekit Require Import Common DecorSpec HashModel DecorModel SetModel DecorSpecProof HashProof DecorProof HashGap.

(* HashMap.Keys() / Values() are two separate loops over Go's map of buckets, whose iteration order
   is unspecified and may differ between the two loops.  Guaranteed, after EVERY history, for every
   Code/Equals satisfying the laws (arbitrary collisions) and every pool oracle, and for EVERY
   enumeration order t' of the bucket table: enumerating keys and values in that same order pairs
   each key with its own value (chains are walked in the same order), the pairs are a permutation
   of the abstract map's bindings, and Keys, Values separately are permutations of its keys, values. *)
Theorem hashmap_keys_values_aligned_per_order : forall (V : Type) (vzero : V) code eqb,
  eqb_equivalence eqb -> hash_consistent code eqb ->
  forall ops,
    let s := fst (run (hstep vzero code eqb) hinit ops) in
    let a := fst (run (astep vzero eqb) [] ops) in
    forall t', Permutation t' (tbl s) ->
      combine (hkeys (reordered s t')) (hvals (reordered s t')) = hflat (reordered s t') /\
      Permutation (hflat (reordered s t')) a /\
      Permutation (hkeys (reordered s t')) (map fst a) /\
      Permutation (hvals (reordered s t')) (map snd a).
Proof. exact hashmap_pairs_lemma. Qed.
Print Assumptions hashmap_keys_values_aligned_per_order.

(* ... and NOT more: a Keys() result and a separately obtained Values() result may use different
   orders, and then pairing them index by index is wrong (witness: two buckets).  The API has no
   paired accessor on HashMap; callers must not zip Keys() with Values(). *)
Theorem hashmap_keys_values_separate_calls_unaligned :
  let s := fst (run (hstep 0 (code_mod 2) eqb_exact) hinit [MPut 1 10 None; MPut 2 20 None]) in
  let a := fst (run (astep 0 eqb_exact) [] [MPut 1 10 None; MPut 2 20 None]) in
  exists t1 t2, Permutation t1 (tbl s) /\ Permutation t2 (tbl s) /\
    ~ Permutation (combine (hkeys (reordered s t1)) (hvals (reordered s t2))) a.
Proof. exact hashmap_separate_orders_unaligned_lemma. Qed.
Print Assumptions hashmap_keys_values_separate_calls_unaligned.

(* builtinMap (model = the abstract map over Go's trusted map; Keys/Values = mapx.Keys / mapx.Values,
   again two separate range loops): the same guarantee per enumeration order. *)
Theorem builtinmap_keys_values_aligned_per_order : forall ops,
  let a := fst (run builtin_step [] ops) in
  a = fst (run (astep 0 eqb_exact) [] ops) /\
  forall a', Permutation a' a ->
    combine (map fst a') (map snd a') = a' /\ Permutation (map fst a') (map fst a) /\
    Permutation (map snd a') (map snd a).
Proof. exact builtinmap_pairs_lemma. Qed.
Print Assumptions builtinmap_keys_values_aligned_per_order.

(* LinkedMap over any backing that refines the abstract map: Keys() and Values() both walk the
   order list, so after EVERY history they are exactly the key column and the value column of the
   abstract list — aligned index by index, in first-insertion order, on every call. *)
Theorem linkedmap_keys_values_aligned :
  forall (V : Type) (vzero : V) (M : Type) (B : backing M nat) eqb (R : M -> list (Z * nat) -> Prop),
  backing_refines 0%nat eqb B R ->
  forall m0, R m0 [] -> forall ops,
    let s := fst (run (lstep vzero B) (linit vzero m0) ops) in
    let a := fst (run (astep vzero eqb) [] ops) in
    snd (lstep vzero B s MKeys) = RKeys (map fst a) /\
    snd (lstep vzero B s MValues) = RVals (map snd a) /\
    combine (map fst a) (map snd a) = a.
Proof. exact linkedmap_pairs_lemma. Qed.
Print Assumptions linkedmap_keys_values_aligned.

(* the insertion-order semantics of that list (what linkedmap.go does: `lk.value = val` on an
   existing key): re-Put of an existing class keeps its POSITION and its stored key and changes only
   the value; a new class is appended at the end; Delete removes one binding in place. *)
Theorem insertion_order_semantics : forall (V : Type) eqb k (a : list (Z * V)),
  (forall v x, aget eqb k a = Some x ->
     map fst (aput eqb k v a) = map fst a /\
     exists l1 k0 l2, a = l1 ++ (k0, x) :: l2 /\ aput eqb k v a = l1 ++ (k0, v) :: l2) /\
  (forall v, aget eqb k a = None -> aput eqb k v a = a ++ [(k, v)]) /\
  (forall x, aget eqb k a = Some x ->
     exists l1 k0 l2, a = l1 ++ (k0, x) :: l2 /\ adel eqb k a = l1 ++ l2 /\ eqb k0 k = true).
Proof.
  intros V eqb k a. split; [|split].
  - intros v x. exact (aput_existing_keeps_position V eqb k v x a).
  - intro v. exact (aput_new_appends V eqb k v a).
  - intro x. exact (adel_removes_in_place V eqb k x a).
Qed.
Print Assumptions insertion_order_semantics.

(* MultiMap over the hash backing: Keys() = backing Keys(), Values() = copies of backing Values():
   aligned per enumeration order of the bucket table, pairs = the abstract map of lists. *)
Theorem multi_hashmap_keys_values_aligned_per_order : forall (V : Type) code eqb,
  eqb_equivalence eqb -> hash_consistent code eqb ->
  forall ops,
    let m := fst (run (mmstep (hash_backing (@nil V) code eqb)) hinit ops) in
    let a := fst (run (mm_spec_step eqb) [] ops) in
    forall t', Permutation t' (tbl m) ->
      combine (hkeys (reordered m t')) (map copy_slice (hvals (reordered m t'))) = hflat (reordered m t') /\
      Permutation (hflat (reordered m t')) a.
Proof. exact multi_hashmap_pairs_lemma. Qed.
Print Assumptions multi_hashmap_keys_values_aligned_per_order.

(* MapSet (model/SetModel.v: set.go over the builtin-map model) refines the abstract set given as a
   membership predicate: for EVERY history, Exist answers membership and every Keys() answer is a
   duplicate-free listing of exactly the members. *)
Theorem mapset_refines_set : forall ops, aset_accepts aset_empty ops (snd (run ms_step ms_new ops)).
Proof. exact mapset_refines_set_lemma. Qed.
Print Assumptions mapset_refines_set.

(* after every history and for EVERY enumeration order of Go's map: Keys is NoDup, has exactly the
   members, and is a permutation of any duplicate-free listing of the abstract set. *)
Theorem mapset_keys_nodup_permutation : forall ops,
  let s := fst (run ms_step ms_new ops) in
  let f := fold_left aset_next ops aset_empty in
  (forall k, ms_exist k s = f k) /\
  forall l, Permutation l (gm_range (sm s)) ->
    NoDup (ms_keys_of l) /\ (forall x, In x (ms_keys_of l) <-> f x = true) /\
    (forall l', lists_set l' f -> Permutation (ms_keys_of l) l').
Proof. exact mapset_keys_lemma. Qed.
Print Assumptions mapset_keys_nodup_permutation.

(* the model executed by the differential run (DecorModel.set_step, modelrun `hash`, container
   `set`) is this model *)
Theorem mapset_model_is_executed_model : forall s o,
  sm (fst (ms_step s o)) = fst (set_step (sm s) o) /\ snd (ms_step s o) = snd (set_step (sm s) o).
Proof. exact ms_step_is_set_step. Qed.
Print Assumptions mapset_model_is_executed_model.

(* ---- non-vacuity ---- *)
(* constant hash: one chain of three, keys and values aligned with the bindings; reordering a
   two-bucket table changes the enumeration but not the pairing *)
Example c03_pairs_nonvacuous :
  let ops := [MPut 10 1 None; MPut 20 2 None; MPut 30 3 None; MDelete 20; MPut 20 5 (Some 0%nat)] in
  let s := fst (run (hstep 0 (code_mod 1) eqb_exact) hinit ops) in
  combine (hkeys s) (hvals s) = [(10, 1); (30, 3); (20, 5)] /\
  let s2 := fst (run (hstep 0 (code_mod 2) eqb_exact) hinit [MPut 1 10 None; MPut 2 20 None; MPut 3 30 None]) in
  tbl s2 = [(1, [(1, 10); (3, 30)]); (0, [(2, 20)])] /\
  combine (hkeys (reordered s2 (rev (tbl s2)))) (hvals (reordered s2 (rev (tbl s2)))) = [(2, 20); (1, 10); (3, 30)].
Proof. vm_compute. repeat split. Qed.
(* linked map over the hash backing: re-Put of 10 keeps its first position; 20 deleted and re-put goes last *)
Example c03_linked_pairs_nonvacuous :
  let ops := [MPut 10 1 None; MPut 20 2 None; MPut 30 3 None; MPut 10 7 None; MDelete 20; MPut 20 5 (Some 0%nat)] in
  let s := fst (run (lstep 0 (hash_backing 0%nat (code_mod 1) eqb_exact)) (linit 0 hinit) ops) in
  snd (lstep 0 (hash_backing 0%nat (code_mod 1) eqb_exact) s MKeys) = RKeys [10; 30; 20] /\
  snd (lstep 0 (hash_backing 0%nat (code_mod 1) eqb_exact) s MValues) = RVals [7; 3; 5].
Proof. vm_compute. split; reflexivity. Qed.
(* MapSet: a history with a re-Add and a Delete; the set's answers are accepted by the abstract set *)
Example c03_mapset_nonvacuous :
  snd (run ms_step ms_new [SAdd 1; SAdd 2; SAdd 1; SExist 1; SDelete 1; SExist 1; SKeys])
  = [SRUnit; SRUnit; SRUnit; SRBool true; SRUnit; SRBool false; SRKeys [2]] /\
  lists_set [2] (fold_left aset_next [SAdd 1; SAdd 2; SAdd 1; SDelete 1] aset_empty).
Proof.
  split; [vm_compute; reflexivity|]. split; [constructor; [intros []|constructor]|].
  intro x. cbn [fold_left aset_next]. unfold aset_add, aset_remove, aset_empty. cbn [In].
  destruct (Z.eqb_spec x 1) as [->|H1]; [split; [intros [H|[]]; discriminate|discriminate]|].
  destruct (Z.eqb_spec x 2) as [->|H2]; [split; [reflexivity|left; reflexivity]|].
  split; [intros [H|[]]; congruence|discriminate].
Qed.
