(* C08 (DelayQueue) - the observable form of "never early": `Delay()` of the element a Dequeue returned is
   <= 0 immediately after the return and at every later time.  Only statements; proofs are `exact <lemma>`
   from proof/DQCapacity.v.  (props/C08_dq.v states it at the removal step: deadline <= now there; the
   clock is monotone - only DTick d with d >= 0 moves it - and the deadline is part of the element.) *)
From Ekit Require Import Common Conc DQModel DQProof DQProof2 DQProof3 DQProof4 DQProof5 DQProof6 DQProof7 DQCapacity.

(* every Dequeue in flight that has removed v (and is bound to return it) holds an expired v *)
Theorem dq_removed_element_is_expired : forall cap old evs c,
  exec dq_step (dq_init cap old) evs = Some c ->
  forall t th v, lookup t (q_thr c) = Some th -> t_eff th = Removed v -> e_dl v <= q_now c.
Proof. exact removed_expired_reach. Qed.
Print Assumptions dq_removed_element_is_expired.

(* whenever a Dequeue returns (v, nil): Delay(v) = deadline(v) - now <= 0 in the configuration right after
   the return and in every configuration reachable from it, whatever happens next *)
Theorem dq_returned_element_has_expired : forall cap old c e c' obs t v,
  dq_reach cap old c -> dq_exec1 c e = Some (c', obs) -> In (t, ORet (RVal v)) obs ->
  e_dl v - q_now c' <= 0 /\
  forall evs' c'', exec dq_step c' evs' = Some c'' -> e_dl v - q_now c'' <= 0.
Proof. exact dq_returned_element_expired_lemma. Qed.
Print Assumptions dq_returned_element_has_expired.

(* the clock never goes back *)
Theorem dq_clock_monotone : forall cap old evs c c',
  dq_reach cap old c -> exec dq_step c evs = Some c' -> q_now c <= q_now c' /\ dq_reach cap old c'.
Proof. exact dq_now_mono_exec. Qed.
Print Assumptions dq_clock_monotone.

(* ---------- non-vacuity: a Dequeue woken by its timer at 7 returns (902, 7); Delay = 0 then, -93 later ---------- *)
Definition sto (t : tid) (n : nat) : list dq_ev := repeat (DStep t 0) n.
Definition obs_sched : list dq_ev :=
  [DCallEnq 1%nat (902, 7)] ++ sto 1%nat 13 ++ [DCallDeq 2%nat] ++ sto 2%nat 16 ++ [DTick 7; DFire 2%nat] ++ sto 2%nat 13.

Example a_return_of_an_element_exactly_at_its_expiry :
  exists c c' obs, exec dq_step (dq_init 0 true) obs_sched = Some c /\
    dq_exec1 c (DStep 2%nat 0) = Some (c', obs) /\ In (2%nat, ORet (RVal (902, 7))) obs /\ q_now c' = 7 /\
    exists c'', exec dq_step c' [DTick 93] = Some c'' /\ e_dl (902, 7) - q_now c'' = -93.
Proof. eexists _, _, _. vm_compute. repeat split; try reflexivity. left; reflexivity. eexists. split; reflexivity. Qed.
