(* C02 — the red-black tree stays balanced: logarithmic lookups after any history.
   Only statements here; every proof is `exact <lemma>` from proof/RBBalance.v.

   All theorems hold for EVERY comparator function cmp : Z -> Z -> Z (no comparator law is
   needed for balance) and for EVERY history of Add / Delete / Set / Find / KeyValues / Size
   calls starting from the empty tree.

   rb_inv t  :=  col t = Black  /\  exists n, rbt n t
   rbt n t   :=  every root-to-leaf path of t has exactly n black nodes and no red node of t
                 has a red child                                   (Inductive in RBBalance.v)

   NOT proved in this file (clauses of the property statement handled elsewhere):
   * "parent links consistent with child links": the recursive model has no parent pointers;
     the clause is proved in props/C02_ptr.v (parent_links_consistent) about the pointer-level
     model RBPtrModel.v, a literal transcription of the Go code which ptr_refines_rec proves
     equal to the recursive model for every history; the walker of checks/c02.py additionally
     checks it on the real code after every operation.
   * "keys strictly ascending in-order": proved in props/C01.v (it needs the comparator laws;
     balance does not).
   * that [cmp_calls] is the number of comparator invocations the Go code makes per
     findNode / insertion descent is established by the correspondence check (the harness
     counts the real comparator's invocations), not by a theorem. *)
From Ekit Require Import Common RBModel RBBalance.

(* insertion keeps: black root, no red-red, equal black height *)
Theorem add_preserves_rb : forall cmp k v t t',
  rb_inv t -> add cmp k v t = Some t' -> rb_inv t'.
Proof. exact add_preserves_rb_lemma. Qed.
Print Assumptions add_preserves_rb.

(* deletion (all 2x4 fix-up cases, phantom leaf, root replacement) keeps it *)
Theorem delete_preserves_rb : forall cmp k t t' v,
  rb_inv t -> delete cmp k t = Some (t', v) -> rb_inv t'.
Proof. exact delete_preserves_rb_lemma. Qed.
Print Assumptions delete_preserves_rb.

Theorem set_preserves_rb : forall cmp k v t t',
  rb_inv t -> set cmp k v t = Some t' -> rb_inv t'.
Proof. exact set_preserves_rb_lemma. Qed.
Print Assumptions set_preserves_rb.

(* after any history the tree is a valid red-black tree *)
Theorem rb_inv_reachable : forall cmp ops,
  rb_inv (root (rb_final cmp rb_empty ops)).
Proof. exact rb_inv_reachable_lemma. Qed.
Print Assumptions rb_inv_reachable.

(* after any history the reported size equals the node count *)
Theorem size_is_card_reachable : forall cmp ops,
  size (rb_final cmp rb_empty ops) = Z.of_nat (card (root (rb_final cmp rb_empty ops))).
Proof. exact size_is_card_reachable_lemma. Qed.
Print Assumptions size_is_card_reachable.

(* the two counting facts behind the logarithmic bound *)
Theorem height_le_twice_black_height : forall n t,
  rbt n t -> (height t <= 2 * n + (if isred t then 1 else 0))%nat.
Proof. exact height_rbt. Qed.
Print Assumptions height_le_twice_black_height.

Theorem card_ge_pow2_black_height : forall n t,
  rbt n t -> (2 ^ n - 1 <= card t)%nat.
Proof. exact card_rbt_minus. Qed.
Print Assumptions card_ge_pow2_black_height.

(* a valid red-black tree with n nodes has height at most 2*log2(n+1) *)
Theorem height_logarithmic : forall t,
  rb_inv t -> (height t <= 2 * Nat.log2 (card t + 1))%nat.
Proof. exact height_logarithmic_lemma. Qed.
Print Assumptions height_logarithmic.

(* locating a key visits at most one node per level, one comparator call per node *)
Theorem cmp_calls_le_height : forall cmp k t,
  (cmp_calls cmp k t <= height t)%nat.
Proof. exact cmp_calls_height. Qed.
Print Assumptions cmp_calls_le_height.

(* after any history, locating any key (lookup, insertion descent, deletion's findNode) in the
   container holding n = card t keys makes at most 2*log2(n+1) comparator calls *)
Theorem cmp_calls_logarithmic : forall cmp ops k,
  let t := root (rb_final cmp rb_empty ops) in
  (cmp_calls cmp k t <= 2 * Nat.log2 (card t + 1))%nat.
Proof. exact cmp_calls_logarithmic_lemma. Qed.
Print Assumptions cmp_calls_logarithmic.

(* the same bound in terms of the size the container reports *)
Theorem cmp_calls_logarithmic_size : forall cmp ops k,
  let s := rb_final cmp rb_empty ops in
  (cmp_calls cmp k (root s) <= 2 * Nat.log2 (Z.to_nat (size s) + 1))%nat.
Proof. exact cmp_calls_logarithmic_size_lemma. Qed.
Print Assumptions cmp_calls_logarithmic_size.

(* rb_inv has an equivalent executable form (so it is neither unsatisfiable nor trivial) *)
Theorem rb_inv_decidable : forall t, rb_check t = true <-> rb_inv t.
Proof. exact rb_check_iff. Qed.
Print Assumptions rb_inv_decidable.

(* non-vacuity: a concrete history with duplicate Add, absent Delete, Set, deletions of a leaf,
   of an inner node with two children and of the root reaches a concrete 8-node tree of both
   colours; it satisfies rb_inv, its size field is 8, its height 4 <= 2*log2 9 = 6, a search
   for the deepest key costs 4 calls; and rb_inv is not trivially true: a two-node chain of
   black nodes and a red root are rejected. *)
Definition c02_ops : list rb_op :=
  [OAdd 5 50; OAdd 3 30; OAdd 8 80; OAdd 1 10; OAdd 4 40; OAdd 7 70; OAdd 9 90;
   OAdd 2 20; OAdd 6 60; OAdd 10 100; OAdd 5 55; ODelete 1; ODelete 8; OSet 4 44;
   ODelete 11; OAdd 11 110; ODelete 5].

Example c02_nonvacuous :
  rb_final cmp_asc rb_empty c02_ops =
    {| root := T Black (T Red (T Black E 2 20 E) 3 30 (T Black E 4 44 E)) 6 60
                 (T Red (T Black E 7 70 E) 9 90 (T Black E 10 100 (T Red E 11 110 E)));
       size := 8 |} /\
  rb_inv (root (rb_final cmp_asc rb_empty c02_ops)) /\
  rb_inv (root (rb_final cmp_desc rb_empty c02_ops)) /\
  (let t := root (rb_final cmp_asc rb_empty c02_ops) in
   card t = 8%nat /\ height t = 4%nat /\ Nat.log2 (card t + 1) = 3%nat /\
   cmp_calls cmp_asc 11 t = 4%nat) /\
  ~ rb_inv (T Black E 1 1 (T Black E 2 2 E)) /\
  ~ rb_inv (T Red E 1 1 E) /\
  ~ rb_inv (T Black (T Red (T Red E 1 1 E) 2 2 E) 3 3 E).
Proof.
  split; [vm_compute; reflexivity|].
  split; [apply rb_check_iff; vm_compute; reflexivity|].
  split; [apply rb_check_iff; vm_compute; reflexivity|].
  split; [vm_compute; repeat split; reflexivity|].
  repeat split; intro Hx; apply rb_check_iff in Hx; vm_compute in Hx; discriminate Hx.
Qed.
