(* C13 — provenance of wake-ups, and the decision about the schedule
   C13_cond.late_arrival_woken_by_forwarded_broadcast_token.

   DECISION.  The property text reads: "A Wait returns only after a Signal/Broadcast or with its context's error".
   In that schedule waiter 4 calls Wait after the Broadcast has RETURNED and later returns nil: its nil return
   happens AFTER a Broadcast (the one whose token, handed to the concurrently expiring waiter 1, was forwarded),
   so the text — which orders the nil return after some Signal/Broadcast, not the CALL of Wait before it — is not
   violated, and no wake-up is invented (the token was produced by that Broadcast and is consumed once).  What
   the text does NOT give, and the code does not provide, is the sync.Cond-style guarantee "only waiters that were
   waiting when Broadcast was called are released by it"; a caller that re-checks its condition in a loop (as the
   doc comment of Wait demands) is unaffected.  What the model guarantees instead is stated below.

   [runp c p0 evs] executes [evs] and follows every token from the step of a Signal / Broadcast call that produces
   it (named by that step's index in evs) through send, channel buffer, receive and forwarding to the nil return
   that consumes it; [p_cons] is the log of (index of the nil-return step, token = (producing step, index of the
   producing call's ECall event, its operation)).

   STATEMENT PROVED (for every execution, copied Cond or not): every nil return of Wait consumes exactly one token (the
   log has one entry per nil-return step, in order, and its length is g_nil); the tokens consumed by different nil
   returns are different; every consumed token was produced by a step of a Signal or Broadcast call whose invocation
   precedes that step, which precedes the nil return, in the schedule.  The link between the observer's tables and the
   model ([observer_tables_match_program_counters]: a thread at a token-holding program counter holds a token in the
   observer's table, a channel with a token has one in the observer's channel table) is proof/CondProvLink.v. *)
From Ekit Require Import Common Conc CondModel CondProof CondProofNodes CondProof2 CondProof3 CondProv CondProvLink.
Open Scope nat_scope.

(* [nilrets c i evs] = the indices (counted from i) of the steps of the execution of evs from c whose observations
   contain a nil return of Wait (definition in proof/CondProvLink.v, independent of the observer) *)
Theorem consumed_tokens_distinct_and_produced_before : forall copied evs c pr,
  runp (cond_init copied) p0 evs = Some (c, pr) ->
  (* one log entry per nil return, in the order of the returns *)
  map fst (p_cons pr) = rev (nilrets (cond_init copied) 0 evs) /\
  Z.of_nat (length (p_cons pr)) = g_nil c /\
  (* distinct tokens *)
  NoDup (map (fun x => tm (snd x)) (p_cons pr)) /\
  (* produced by a step of a Signal / Broadcast call: invocation k < producing step m < nil return r *)
  forall r m k op, In (r, (m, k, op)) (p_cons pr) ->
    k < m /\ m < r /\ is_notify op = true /\
    exists t' o t o', nth_error evs k = Some (ECall t' op) /\ nth_error evs m = Some (EStep t' o) /\
                      nth_error evs r = Some (EStep t o').
Proof. exact provenance_full_lemma. Qed.
Print Assumptions consumed_tokens_distinct_and_produced_before.

Theorem observer_tables_match_program_counters : forall copied evs c pr,
  runp (cond_init copied) p0 evs = Some (c, pr) ->
  (forall t p, lookup t (c_thr c) = Some p -> holds_tok p = true -> exists tk, lookup t (p_hold pr) = Some tk) /\
  (forall n, In n (c_tok c) -> exists tk, lookup n (p_chan pr) = Some tk).
Proof. exact link_lemma. Qed.
Print Assumptions observer_tables_match_program_counters.

(* the earlier, weaker form (kept for reference; implied by the theorem above) *)
Theorem consumed_tokens_distinct_and_produced_before_partial : forall copied evs c pr,
  runp (cond_init copied) p0 evs = Some (c, pr) ->
  NoDup (map (fun x => tm (snd x)) (p_cons pr)) /\
  forall r m k op, In (r, (m, k, op)) (p_cons pr) ->
    k < m /\ m < r /\ is_notify op = true /\
    exists t' o t o', nth_error evs k = Some (ECall t' op) /\ nth_error evs m = Some (EStep t' o) /\
                      nth_error evs r = Some (EStep t o').
Proof. exact provenance_lemma. Qed.
Print Assumptions consumed_tokens_distinct_and_produced_before_partial.

(* the observer follows exactly the executions of the model *)
Theorem provenance_observer_runs_the_model : forall c pr evs c',
  exec cond_step c evs = Some c' -> exists pr', runp c pr evs = Some (c', pr').
Proof. exact runp_total. Qed.
Print Assumptions provenance_observer_runs_the_model.

(* ---- the late-arrival schedule, decided ---- *)
Definition stp (t : tid) (k : nat) : list cev := repeat (EStep t 0) k.
Definition sched_late : list cev :=
  [ECall 1 OpWait] ++ stp 1 31 ++ [ECall 2 OpWait] ++ stp 2 24 ++ [ECancel 1] ++ stp 1 1 ++
  [ECall 3 OpBroadcast] ++ stp 3 33 ++
  [ECall 4 OpWait] ++ stp 4 24 ++
  stp 1 19 ++ [ECall 1 OpUnlock] ++ stp 4 3 ++ [ECall 4 OpUnlock] ++ stp 2 3.

(* two nil returns (waiter 4, then waiter 2), two log entries: both tokens were produced by steps 68 and 80 of the
   Broadcast call invoked at index 59; waiter 4's Wait was invoked at index 93, AFTER the Broadcast returned
   (its last step is index 92), and its nil return (index 140) consumed the token produced at step 68 — the one the Broadcast sent to
   the expiring waiter 1, which forwarded it *)
Example late_arrival_log :
  option_map (fun cp => (p_cons (snd cp), g_nil (fst cp), nth_error sched_late 59, nth_error sched_late 93))
             (runp (cond_init false) p0 sched_late)
  = Some ([(144, (80, 59, OpBroadcast)); (140, (68, 59, OpBroadcast))], 2%Z,
          Some (ECall 3 OpBroadcast), Some (ECall 4 OpWait)).
Proof. vm_compute. reflexivity. Qed.

(* expiry racing the Signal's send (C13_cond.sched_race): the forwarded token of the Signal call at index 59 is the
   one waiter 2 consumes *)
Example late_arrival_nilrets : nilrets (cond_init false) 0 sched_late = [140; 144].
Proof. vm_compute. reflexivity. Qed.

Example race_log :
  option_map (fun cp => (p_cons (snd cp), g_nil (fst cp)))
    (runp (cond_init false) p0
       ([ECall 1 OpWait] ++ stp 1 31 ++ [ECall 2 OpWait] ++ stp 2 24 ++ [ECancel 1] ++ stp 1 1 ++
        [ECall 3 OpSignal] ++ stp 3 20 ++ stp 1 19 ++ [ECall 1 OpUnlock] ++ stp 2 3))
  = Some ([(102, (68, 59, OpSignal))], 1%Z).
Proof. vm_compute. reflexivity. Qed.
