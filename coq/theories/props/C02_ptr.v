(* C02 (and the tie of C01/C02 to the code) — the POINTER-LEVEL red-black tree.
   Only statements here; every proof is `exact <lemma>` from proof/RBPtrProof8.v, which rests on
   proof/RBPtrProof.v .. RBPtrProof7.v (ghost trees + separation-style representation predicates, the two
   rotations, insertion fix-up, deletion fix-up with the phantom node, findNode / findSuccessor / deleteNode,
   the stack-based traversal) and on proof/RBBalance.v (C02 for the recursive model).

   Model:  model/RBPtrModel.v — the literal transcription of /repo/internal/tree/red_black_tree.go: a heap
           id -> node with the Go fields color/key/value/left/right/parent, root pointer, size field, every Go
           function statement by statement (iterative, with parent pointers, nil-tolerant getters, loops on
           fuel, nil dereference = RPanic, fuel exhausted = RFuel).  It is run against the real tree on every
           check (checks/part_rbptr.py: shape, colours, size, parent flag, comparator calls, outputs).
   Spec:   model/RBModel.v — the recursive functional model that C01 (props/C01.v) and C02 (props/C02.v)
           are proved about.

   All theorems are for EVERY history of Add/Delete/Find/Set/KeyValues/Size from the empty tree and EVERY
   comparator function cmp : Z -> Z -> Z — no comparator law is needed: the pointer algorithm and the recursive
   one make the same decisions whatever cmp answers.

   abs_tree s   reads the algebraic tree (shape, colours, keys, values) from the heap of s, following child
                links from the root pointer and IGNORING parent fields
   bad_parent s the parent-consistency flag exactly as the white-box walker of the correspondence check computes it
   links_ok s   (model/RBPtrModel.v) root.parent = nil; every reachable node's non-nil children point back to it;
                every reachable node has exactly one access path from the root (a tree: no sharing, no cycles)
   `ptr_run cmp pinit ops = ROk l sf` : no call of the history ended in RPanic (a Go nil dereference /
                index out of range) or RFuel (a loop of the model ran out of fuel); l = the state and the
                output after every call, sf = the final state.

   Clause of the property statement closed by this file: "parent links consistent with child links"
   (parent_links_consistent), which props/C02.v could not state for the model without pointers. *)
From Ekit Require Import Common RBModel RBBalance RBPtrModel RBPtrProof8.

(* 1. the pointer-level code refines the recursive model: it never panics / runs out of fuel, every call returns
      what the recursive model returns, and after every call the tree read back from the heap is EXACTLY the
      recursive model's tree (same shape, colours, keys, values), the size field is the model's, the walker's
      parent flag is clear, and the comparator was called as often as the model says *)
Theorem ptr_refines_rec : forall (cmp : Z -> Z -> Z) (ops : list rb_op),
  exists l sf, ptr_run cmp pinit ops = ROk l sf /\
    map snd l = map snd (rb_run cmp rb_empty ops) /\
    Forall2 (fun ps ms => abs_tree (fst ps) = root (fst ms) /\ psize (fst ps) = size (fst ms) /\
                          bad_parent (fst ps) = false)
            l (rb_run cmp rb_empty ops) /\
    map (fun ps => pcalls (fst ps)) l = rb_calls_run cmp rb_empty ops /\
    abs_tree sf = root (rb_final cmp rb_empty ops) /\ psize sf = size (rb_final cmp rb_empty ops).
Proof. exact ptr_refines_rec_lemma. Qed.
Print Assumptions ptr_refines_rec.

(* 2. parent links are consistent with child links and the reachable structure is a tree, in the final state
      and in the state after every call of every history *)
Theorem parent_links_consistent : forall (cmp : Z -> Z -> Z) (ops : list rb_op) l sf,
  ptr_run cmp pinit ops = ROk l sf ->
  ((forall r n, proot sf = Some r -> hget (pheap sf) r = Some n -> npar n = None) /\
   (forall i, reachable sf i -> exists n, hget (pheap sf) i = Some n /\
      (forall c, nleft n = Some c -> exists nc, hget (pheap sf) c = Some nc /\ npar nc = Some i) /\
      (forall c, nright n = Some c -> exists nc, hget (pheap sf) c = Some nc /\ npar nc = Some i)) /\
   (forall p1 p2 i, walk (pheap sf) (proot sf) p1 = Some i -> walk (pheap sf) (proot sf) p2 = Some i -> p1 = p2))
  /\ Forall (fun ps => links_ok (fst ps)) l.
Proof. exact parent_links_consistent_lemma. Qed.
Print Assumptions parent_links_consistent.

(* 3a. C02 transferred to the pointer level: after any history (and after every call of it) the tree in the heap
       has a black root, no red node with a red child, and the same number of black nodes on every path *)
Theorem ptr_rb_inv_reachable : forall (cmp : Z -> Z -> Z) (ops : list rb_op) l sf,
  ptr_run cmp pinit ops = ROk l sf ->
  rb_inv (abs_tree sf) /\ Forall (fun ps => rb_inv (abs_tree (fst ps))) l.
Proof. exact ptr_rb_inv_reachable_lemma. Qed.
Print Assumptions ptr_rb_inv_reachable.

(* 3b. the pointer-level findNode (the look-up of Find / Set / Delete; addNode's descent makes the same calls,
       see the pcalls clause of ptr_refines_rec), started in the state reached by any history, terminates without
       panic and invokes the comparator at most 2*log2(n+1) times, n = the number of nodes in the heap's tree
       = the size field *)
Theorem ptr_findNode_calls_logarithmic : forall (cmp : Z -> Z -> Z) (ops : list rb_op) l sf (k : Z),
  ptr_run cmp pinit ops = ROk l sf ->
  exists r s', findNode cmp (pfuel sf) k sf = ROk r s' /\
    (pcalls s' - pcalls sf <= 2 * Nat.log2 (card (abs_tree sf) + 1))%nat /\
    (pcalls s' - pcalls sf <= 2 * Nat.log2 (Z.to_nat (psize sf) + 1))%nat.
Proof. exact ptr_findNode_calls_lemma. Qed.
Print Assumptions ptr_findNode_calls_logarithmic.

(* ---- non-vacuity ---- *)
(* the history of props/C02.v (duplicate Add, absent Delete, Set, deletions of a leaf, of an inner node with two
   children and of the root) runs through the pointer model without panic, and the heap then holds the same
   8-node tree, the size field is 8 and the walker's flag is clear *)
Example c02_ptr_nonvacuous :
  match ptr_run cmp_asc pinit
          [OAdd 5 50; OAdd 3 30; OAdd 8 80; OAdd 1 10; OAdd 4 40; OAdd 7 70; OAdd 9 90;
           OAdd 2 20; OAdd 6 60; OAdd 10 100; OAdd 5 55; ODelete 1; ODelete 8; OSet 4 44;
           ODelete 11; OAdd 11 110; ODelete 5] with
  | ROk l sf =>
      abs_tree sf = T Black (T Red (T Black E 2 20 E) 3 30 (T Black E 4 44 E)) 6 60
                      (T Red (T Black E 7 70 E) 9 90 (T Black E 10 100 (T Red E 11 110 E))) /\
      psize sf = 8 /\ bad_parent sf = false /\ length l = 17%nat
  | _ => False
  end.
Proof. vm_compute. repeat split; reflexivity. Qed.

(* links_ok is not trivially true: a two-node heap whose child does not point back to its parent is rejected *)
Example links_ok_rejects_bad_parent :
  ~ links_ok (mkst (hset (hset hempty 1%positive (mkn Black 5 0 (Some 2%positive) None None))
                         2%positive (mkn Red 3 0 None None None))
                   (Some 1%positive) 2 3%positive O).
Proof.
  intros (_ & H & _).
  destruct (H 1%positive (ex_intro _ [] eq_refl)) as (n & Hn & Hl & _).
  vm_compute in Hn. injection Hn as <-.
  destruct (Hl 2%positive eq_refl) as (nc & Hnc & Hp).
  vm_compute in Hnc. injection Hnc as <-. discriminate Hp.
Qed.
(* ... and a heap in which two parents share a child is rejected by the unique-path clause *)
Example links_ok_rejects_sharing :
  ~ links_ok (mkst (hset (hset hempty 1%positive (mkn Black 5 0 (Some 2%positive) (Some 2%positive) None))
                         2%positive (mkn Red 3 0 None None (Some 1%positive)))
                   (Some 1%positive) 2 3%positive O).
Proof.
  intros (_ & _ & H).
  specialize (H [L] [R] 2%positive eq_refl eq_refl). discriminate H.
Qed.
