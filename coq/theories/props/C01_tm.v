(* C01 — ascending order, Keys/Values alignment, Len = cardinal and "a failed call changes nothing" for
   mapx.TreeMap and set.TreeSet HISTORIES, and the Keys[i] <-> Values[i] pairing of the multi tree map.
   props/C01.v states these clauses for tree.RBTree histories (list rb_op) only and gives output equality
   (treemap_refines_map / treeset_refines_set) for the wrappers; this file states them for list tm_op /
   list ts_op directly.  Only statements here; every proof is `exact <lemma>` from proof/TreeMapGap.v
   (Parts 3 and 4: tm_step_sim of RBRefineSim lifted to final states, plus the TreeSet invariant "every
   stored value is nil").

   For EVERY history and EVERY comparator that is a strict weak order (the three Section hypotheses, the
   same as in props/C01.v).

   abs_tm_final cmp [] ops / abs_ts_final cmp [] ops (TreeMapGap.v) = the state of the abstract sorted
   association list / sorted key list of model/AbsMapModel.v after the same history. *)
From Ekit Require Import Common RBModel TreeMapModel AbsMapModel RBRefine RBRefineSim.
From Ekit Require Import DecorSpec DecorModel RBDecor TreeMapGap.
From Coq Require Import Sorted Permutation.

Section C01_tm.
  Variable cmp : Z -> Z -> Z.
  Hypothesis cmp_antisym : forall a b, cmp a b < 0 <-> cmp b a > 0.
  Hypothesis cmp_trans : forall a b c, cmp a b < 0 -> cmp b c < 0 -> cmp a c < 0.
  Hypothesis cmp_eq_lt : forall a b c, cmp a b = 0 -> cmp a c < 0 -> cmp b c < 0.

  (* after every TreeMap history the tree's in-order contents are the abstract map, strictly ascending
     by the comparator, no key twice *)
  Theorem tm_state_sorted_nodup : forall ops : list tm_op,
    let kvs := inorder (root (tm_final cmp rb_empty ops)) in
    kvs = abs_tm_final cmp [] ops /\
    StronglySorted (fun a b : Z * Z => cmp (fst a) (fst b) < 0) kvs /\ NoDup (map fst kvs).
  Proof. exact (tm_state_sorted_lemma cmp cmp_antisym cmp_trans cmp_eq_lt). Qed.

  (* TreeMap.Keys() and TreeMap.Values() after any history: same length, paired position by position
     they are exactly the abstract map's bindings; Keys is strictly ascending without duplicates; and
     Get(Keys[i]) returns Values[i] *)
  Theorem tm_keys_values_sorted_aligned : forall (ops : list tm_op) ks vs,
    let s := tm_final cmp rb_empty ops in
    snd (tm_step cmp s TKeys) = TKeysOut ks ->
    snd (tm_step cmp s TValues) = TValsOut vs ->
    length ks = length vs /\
    combine ks vs = abs_tm_final cmp [] ops /\
    StronglySorted (fun a b => cmp a b < 0) ks /\ NoDup ks /\
    (forall i k v, nth_error ks i = Some k -> nth_error vs i = Some v ->
                   snd (tm_step cmp s (TGet k)) = TVal v).
  Proof. exact (tm_keys_values_aligned_lemma cmp cmp_antisym cmp_trans cmp_eq_lt). Qed.

  (* Len() = number of nodes = cardinal of the abstract map *)
  Theorem tm_len_is_cardinal : forall (ops : list tm_op) n,
    snd (tm_step cmp (tm_final cmp rb_empty ops) TLen) = TLenOut n ->
    n = Z.of_nat (card (root (tm_final cmp rb_empty ops))) /\
    n = Z.of_nat (length (abs_tm_final cmp [] ops)).
  Proof. exact (tm_len_is_cardinal_lemma cmp cmp_antisym cmp_trans cmp_eq_lt). Qed.

  (* a TreeMap call that reports failure — Get / Delete of an absent key ((zero, false)), or Put returning
     an error — leaves the whole state (shape, colours, values, size field) and the abstract map unchanged,
     and fails exactly when the abstract map's call does *)
  Theorem tm_failed_call_is_identity : forall (ops : list tm_op) op,
    let s := tm_final cmp rb_empty ops in
    let m := abs_tm_final cmp [] ops in
    match snd (tm_step cmp s op) with
    | TAbsent | TErr _ =>
        fst (tm_step cmp s op) = s /\ fst (abs_tm_step cmp m op) = m /\
        snd (abs_tm_step cmp m op) = snd (tm_step cmp s op)
    | _ => True
    end.
  Proof. exact (tm_failed_call_is_identity_lemma cmp cmp_antisym cmp_trans cmp_eq_lt). Qed.

  (* ... and Put never returns an error (Set after a duplicate Add always finds the key) *)
  Theorem tm_put_never_fails : forall (ops : list tm_op) k v,
    snd (tm_step cmp (tm_final cmp rb_empty ops) (TPut k v)) = TUnit.
  Proof. exact (tm_put_never_fails_lemma cmp cmp_antisym cmp_trans cmp_eq_lt). Qed.

  (* TreeSet.Keys() after any history: the abstract set, strictly ascending, no duplicates *)
  Theorem ts_keys_sorted_nodup : forall (ops : list ts_op) ks,
    snd (ts_step cmp (ts_final cmp rb_empty ops) TreeMapModel.SKeys) = SKeysOut ks ->
    ks = abs_ts_final cmp [] ops /\
    StronglySorted (fun a b => cmp a b < 0) ks /\ NoDup ks.
  Proof. exact (ts_keys_sorted_lemma cmp cmp_antisym cmp_trans cmp_eq_lt). Qed.

  (* the size field of the set's tree = number of nodes = cardinal of the abstract set *)
  Theorem ts_size_is_cardinal : forall ops : list ts_op,
    size (ts_final cmp rb_empty ops) = Z.of_nat (card (root (ts_final cmp rb_empty ops))) /\
    size (ts_final cmp rb_empty ops) = Z.of_nat (length (abs_ts_final cmp [] ops)).
  Proof. exact (ts_size_is_cardinal_lemma cmp cmp_antisym cmp_trans cmp_eq_lt). Qed.

  (* TreeSet calls return nothing, so "failed" = had nothing to do: Add of a member, Delete of a
     non-member, Exist, Keys leave the WHOLE state and the abstract set unchanged *)
  Theorem ts_noop_is_identity : forall (ops : list ts_op) op,
    let s := ts_final cmp rb_empty ops in
    let st := abs_ts_final cmp [] ops in
    match op with
    | TreeMapModel.SAdd k =>
        s_mem cmp k st = true -> fst (ts_step cmp s op) = s /\ fst (abs_ts_step cmp st op) = st
    | TreeMapModel.SDelete k =>
        s_mem cmp k st = false -> fst (ts_step cmp s op) = s /\ fst (abs_ts_step cmp st op) = st
    | _ => fst (ts_step cmp s op) = s /\ fst (abs_ts_step cmp st op) = st
    end.
  Proof. exact (ts_noop_is_identity_lemma cmp cmp_antisym cmp_trans cmp_eq_lt). Qed.

  (* NewMultiTreeMap: Keys() and Values() after any history have the same length; paired position by
     position they are (as a multiset of bindings) the abstract map of lists; Keys is strictly ascending;
     and the list at Values[i] is the one Get(Keys[i]) returns = the one the abstract map stores under
     Keys[i].  (multi_treemap_refines_map_of_lists compares Values as a multiset only.) *)
  Theorem multi_treemap_keys_values_aligned : forall (V : Type) (ops : list (mmop V)) ks vs,
    let B := tree_backing (@nil V) cmp in
    let s := fst (run (mmstep B) tree_init ops) in
    let a := fst (run (mm_spec_step (cmp_eqb cmp)) [] ops) in
    snd (mmstep B s MMKeys) = MRKeys ks ->
    snd (mmstep B s MMValues) = MRVals vs ->
    length ks = length vs /\
    Permutation (combine ks vs) a /\
    StronglySorted (fun x y => cmp x y < 0) ks /\
    (forall i k l, nth_error ks i = Some k -> nth_error vs i = Some l ->
                   snd (mmstep B s (MMGet k)) = MRFound l true /\ aget (cmp_eqb cmp) k a = Some l).
  Proof. exact (multi_treemap_aligned_lemma cmp cmp_antisym cmp_trans cmp_eq_lt). Qed.
End C01_tm.

Print Assumptions tm_state_sorted_nodup.
Print Assumptions tm_keys_values_sorted_aligned.
Print Assumptions tm_len_is_cardinal.
Print Assumptions tm_failed_call_is_identity.
Print Assumptions tm_put_never_fails.
Print Assumptions ts_keys_sorted_nodup.
Print Assumptions ts_size_is_cardinal.
Print Assumptions ts_noop_is_identity.
Print Assumptions multi_treemap_keys_values_aligned.

(* ---- non-vacuity: the hypotheses hold for the "by k/2" comparator (distinct keys that compare equal),
   so the theorems apply to it outright; and concrete histories exercise every clause ---- *)
Example tm_keys_values_sorted_aligned_half : forall (ops : list tm_op) ks vs,
  let s := tm_final cmp_half rb_empty ops in
  snd (tm_step cmp_half s TKeys) = TKeysOut ks ->
  snd (tm_step cmp_half s TValues) = TValsOut vs ->
  length ks = length vs /\
  combine ks vs = abs_tm_final cmp_half [] ops /\
  StronglySorted (fun a b => cmp_half a b < 0) ks /\ NoDup ks /\
  (forall i k v, nth_error ks i = Some k -> nth_error vs i = Some v ->
                 snd (tm_step cmp_half s (TGet k)) = TVal v).
Proof.
  exact (tm_keys_values_sorted_aligned cmp_half (proj1 cmp_half_laws) (proj1 (proj2 cmp_half_laws))
                                       (proj2 (proj2 cmp_half_laws))).
Qed.

Definition tm_hist : list tm_op :=
  [TPut 8 1; TPut 4 2; TPut 0 3; TPut 5 4; TPut 12 5; TPut 2 6; TDelete 9; TPut 6 7].

(* Put 5 updated the value stored under the first representative 4; Delete 9 removed 8; Keys ascending,
   Values aligned, Len 5; Get / Delete of the absent class 10..11 fail and leave the state as it is *)
Example tm_history_half :
  let s := tm_final cmp_half rb_empty tm_hist in
  snd (tm_step cmp_half s TKeys) = TKeysOut [0; 2; 4; 6; 12] /\
  snd (tm_step cmp_half s TValues) = TValsOut [3; 6; 4; 7; 5] /\
  snd (tm_step cmp_half s TLen) = TLenOut 5 /\
  abs_tm_final cmp_half [] tm_hist = [(0, 3); (2, 6); (4, 4); (6, 7); (12, 5)] /\
  snd (tm_step cmp_half s (TGet 5)) = TVal 4 /\
  tm_step cmp_half s (TDelete 11) = (s, TAbsent) /\ tm_step cmp_half s (TGet 10) = (s, TAbsent).
Proof. vm_compute. repeat split; reflexivity. Qed.

(* TreeSet: Add of a member (through the other representative) and Delete of a non-member return the
   very same state *)
Example ts_history_half :
  let ops := [TreeMapModel.SAdd 8; TreeMapModel.SAdd 4; TreeMapModel.SAdd 0; TreeMapModel.SAdd 13;
              TreeMapModel.SDelete 1; TreeMapModel.SAdd 6] in
  let s := ts_final cmp_half rb_empty ops in
  snd (ts_step cmp_half s TreeMapModel.SKeys) = SKeysOut [4; 6; 8; 13] /\
  abs_ts_final cmp_half [] ops = [4; 6; 8; 13] /\ size s = 4 /\
  fst (ts_step cmp_half s (TreeMapModel.SAdd 5)) = s /\ fst (ts_step cmp_half s (TreeMapModel.SDelete 2)) = s /\
  s_mem cmp_half 5 [4; 6; 8; 13] = true /\ s_mem cmp_half 2 [4; 6; 8; 13] = false.
Proof. vm_compute. repeat split; reflexivity. Qed.

(* the multi tree map: Keys ascending [0; 4; 9], Values in the same positions *)
Example multi_aligned_half :
  let ops : list (mmop Z) :=
    [MMPutMany 4 [1; 2] None; MMPutMany 9 [8] None; MMPutMany 5 [3] None; MMPutMany 0 [] None] in
  let B := tree_backing (@nil Z) cmp_half in
  let s := fst (run (mmstep B) tree_init ops) in
  snd (mmstep B s MMKeys) = MRKeys [0; 4; 9] /\
  snd (mmstep B s MMValues) = MRVals [[]; [1; 2; 3]; [8]] /\
  snd (mmstep B s (MMGet 4)) = MRFound [1; 2; 3] true /\
  snd (mmstep B s (MMGet 9)) = MRFound [8] true.
Proof. vm_compute. repeat split; reflexivity. Qed.
