(* C17 — float targets: dispatch and bit size (statements only; proofs in proof/ValueFloat.v). *)
From Ekit Require Import Common ValueModel ValueFloat.

Theorem as_float_exact : forall t w v,
  float_width t = Some w ->
  match as_ bits_now true t v with
  | Ok (RParseFloat w' s) => w' = w /\ v = HStr false s
  | Ok (RF32 b) => t = AsF32 /\ v = HF32 false b
  | Ok (RF64 b) => t = AsF64 /\ v = HF64 false b
  | Ok _ => False
  | Err e => e = EInvalidType /\ (forall s, v <> HStr false s) /\
             (t = AsF32 -> forall b, v <> HF32 false b) /\ (t = AsF64 -> forall b, v <> HF64 false b)
  | Panic => False
  end.
Proof. exact as_float_exact_lemma. Qed.
Print Assumptions as_float_exact.

Theorem as_float_of_string : forall t w s,
  float_width t = Some w -> as_ bits_now true t (HStr false s) = Ok (RParseFloat w s).
Proof. exact as_float_of_string_lemma. Qed.
Print Assumptions as_float_of_string.

Theorem as_string_of_float : forall n b,
  as_string_now (HF32 n b) = Ok (RFmtFloat 32 b) /\ as_string_now (HF64 n b) = Ok (RFmtFloat 64 b).
Proof. exact as_string_of_float_lemma. Qed.
Print Assumptions as_string_of_float.

Theorem float32_never_parsed_as_64 : forall s,
  access_now (AAs AsF32) {| val := HStr false s; has_err := false |} <> Ok (RParseFloat 64 s).
Proof. exact float32_never_parsed_as_64_lemma. Qed.
Print Assumptions float32_never_parsed_as_64.

Example c17_float_nonvacuous :
  float_width AsF32 = Some 32 /\
  as_ bits_now true AsF32 (HStr false [49; 101; 51; 57]) = Ok (RParseFloat 32 [49; 101; 51; 57]) /\
  as_ bits_now true AsF64 (HF64 false 4607182418800017408) = Ok (RF64 4607182418800017408) /\
  as_ bits_now true AsF32 (HF64 false 0) = Err EInvalidType /\
  as_ bits_now true AsF32 (HF32 true 0) = Err EInvalidType.
Proof. repeat split. Qed.
