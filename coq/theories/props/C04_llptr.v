(* C04 — the POINTER-LEVEL LinkedList (closes the audit's item 9: "LinkedList has no node/pointer model;
   AsSlice fresh by construction").  Only statements here; every proof is `exact <lemma>` from
   proof/LinkedPtrProof.v.

   Model:  model/LinkedPtrModel.v — the literal transcription of /repo/list/linked_list.go: a heap  id -> node
           with the Go fields val/prev/next, the list object (head, tail, length), every Go function statement
           by statement (NewLinkedList, NewLinkedListOf, findNode with the Go comparison `index <= Len()/2`,
           checkIndex, Get, Append, Add, Set, Delete, Len, Cap, Range, AsSlice); nil dereference / out-of-range
           slice store / make(<0) = RPanic; the slices made by AsSlice are arrays in a second heap.
   Spec:   model/ListModel.v — `ll_step` on `llist` (values + length), about which props/C04.v proves the
           refinement of the abstract sequence (`linkedlist_refines_seq`).

   Reading guide.
   `ll_wf s`        there are ids hd, tl and cells (id, value) such that: head = hd, tail = tl; hd, the cell ids and
                    tl are pairwise distinct (sentinels are not shared); every two consecutive nodes a, b of
                    hd, c1 .. cn, tl satisfy a.next = b and b.prev = a; tl.next = hd and hd.prev = tl (the ring of
                    NewLinkedList); every cell's node stores its value; length = n; allocators are above every id.
   `fwd_ring s`     the ids met following `next` from head for length+3 nodes;  `bwd_ring s` the same with `prev`
                    from tail;  `fwd_vals s` / `bwd_vals s` the values of the `length` nodes after head / before tail.
   `pstep o s = ROk r s'`   the call o returns r and leaves the state s' (no Go panic).
   `prun h s`       a history in ListModel's format (operation, capacity oracle — not used by a LinkedList).
   `mkll vals`      ListModel's LinkedList state holding vals (length field = number of values).
   `store_eq s s'`  node heap, head, tail, length, node allocator are equal (only the ghost link counter and,
                    for AsSlice, the array heap may differ).
   `lp_ticks`       ghost counter of the links followed by findNode's two loops. *)
From Coq Require Import FMapPositive.
From Ekit Require Import Common ListModel ListProof ListProof2 LinkedPtrModel LinkedPtrProof.

(* 1. the constructors establish the invariant; NewLinkedListOf(ts) holds ts in both directions *)
Theorem llptr_new_wf :
  exists s, pNew lp_empty = ROk tt s /\ ll_wf s /\ fwd_vals s = [] /\ lp_len s = 0.
Proof. exact new_wf_lemma. Qed.
Print Assumptions llptr_new_wf.

Theorem llptr_newof_wf : forall ts : list Z,
  exists s, pNewOf ts lp_empty = ROk tt s /\ ll_wf s /\ fwd_vals s = ts /\ bwd_vals s = rev ts /\
            lp_len s = zlen ts.
Proof. exact constructors_wf_lemma. Qed.
Print Assumptions llptr_newof_wf.

(* 2. what the invariant says about the two chains: the forward chain from head lists hd, n1 .. nlen, tl and
      closes on hd after exactly len+2 links; the backward chain from tail is its reverse; the ids are distinct
      (in particular the sentinels are not shared); the backward values are the reverse of the forward values;
      and for EVERY node x of the ring prev(next(x)) = x and next(prev(x)) = x, next/prev staying on the ring *)
Theorem llptr_wf_chains : forall s,
  ll_wf s ->
  exists hd tl ids,
    lp_head s = Some hd /\ lp_tail s = Some tl /\ lp_len s = zlen ids /\
    fwd_ring s = hd :: ids ++ [tl; hd] /\
    bwd_ring s = tl :: rev ids ++ [hd; tl] /\
    NoDup (hd :: ids ++ [tl]) /\
    bwd_vals s = rev (fwd_vals s) /\ zlen (fwd_vals s) = lp_len s /\
    (forall x, In x (hd :: ids ++ [tl]) ->
       exists y w, In y (hd :: ids ++ [tl]) /\ In w (hd :: ids ++ [tl]) /\
         fget nnext (lp_heap s) x = Some (Some y) /\ fget nprev (lp_heap s) y = Some (Some x) /\
         fget nprev (lp_heap s) x = Some (Some w) /\ fget nnext (lp_heap s) w = Some (Some x)).
Proof. exact wf_chains_lemma. Qed.
Print Assumptions llptr_wf_chains.

(* 3. EVERY operation, from EVERY well-formed store: it does not panic, preserves the invariant, keeps the two
      sentinels, returns exactly what ListModel's LinkedList returns on the forward chain's values, and the new
      forward chain holds ListModel's (= the abstract sequence's) new contents; the backward chain agrees *)
Theorem llptr_step_refines : forall s o,
  ll_wf s ->
  exists r s', pstep o s = ROk r s' /\ ll_wf s' /\
    lp_head s' = lp_head s /\ lp_tail s' = lp_tail s /\
    r = snd (ll_step (mkll (fwd_vals s)) o) /\
    mkll (fwd_vals s') = fst (ll_step (mkll (fwd_vals s)) o) /\
    canon r = snd (seq_step (fwd_vals s) o) /\
    fwd_vals s' = fst (seq_step (fwd_vals s) o) /\
    bwd_vals s' = rev (fwd_vals s') /\
    lp_len s' = zlen (fwd_vals s').
Proof. exact step_refines_lemma. Qed.
Print Assumptions llptr_step_refines.

(* 4. ALL histories (induction): the pointer model refines ListModel's LinkedList, hence — composed with
      ListProof2.lrun_refines, the lemma behind props/C04.v linkedlist_refines_seq — the abstract sequence *)
Theorem llptr_refines_listmodel : forall s (h : list (op * Z)),
  ll_wf s ->
  exists outs s', prun h s = ROk outs s' /\ ll_wf s' /\
    outs = lrun (SLinked (mkll (fwd_vals s))) h /\
    map canon outs = seq_run (fwd_vals s) h /\
    fwd_vals s' = seq_final (fwd_vals s) h /\
    bwd_vals s' = rev (seq_final (fwd_vals s) h) /\
    lp_head s' = lp_head s /\ lp_tail s' = lp_tail s.
Proof. exact run_refines_lemma. Qed.
Print Assumptions llptr_refines_listmodel.

(* ... from the constructors, for every initial slice and every history; no call panics *)
Theorem llptr_new_refines_seq : forall (ts : list Z) (h : list (op * Z)),
  exists s0 outs sf, pNewOf ts lp_empty = ROk tt s0 /\ prun h s0 = ROk outs sf /\
    outs = lrun (SLinked (mkll ts)) h /\ map canon outs = seq_run ts h /\
    Forall (fun r => r <> Panic) outs /\
    ll_wf sf /\ fwd_vals sf = seq_final ts h /\ bwd_vals sf = rev (seq_final ts h).
Proof. exact new_refines_lemma. Qed.
Print Assumptions llptr_new_refines_seq.

(* 5. a call that returns an error leaves the WHOLE state (node heap, sentinels, length, allocators, arrays,
      even the ghost counter) syntactically unchanged; a read (Get/Len/Cap/Range/AsSlice) leaves the store of the
      list unchanged *)
Theorem llptr_failed_call_store_unchanged : forall s o e s',
  ll_wf s -> pstep o s = ROk (Err e) s' -> s' = s.
Proof. exact failed_call_lemma. Qed.
Print Assumptions llptr_failed_call_store_unchanged.

Theorem llptr_read_store_unchanged : forall s o r s',
  ll_wf s -> is_read o = true -> pstep o s = ROk r s' -> store_eq s s' /\ fwd_vals s' = fwd_vals s.
Proof. exact read_call_lemma. Qed.
Print Assumptions llptr_read_store_unchanged.

(* 6. AsSlice: the result is a NEW array (its id was unallocated before the call), it holds the list's values,
      no other array and no part of the list changed; whatever history of list operations follows (including
      further AsSlice calls) the array still holds the same values; and, vice versa, a client's write into the
      array changes no part of the list and no output of any later history *)
Theorem llptr_asslice_fresh : forall s,
  ll_wf s ->
  exists a s1, pAsSlice s = ROk a s1 /\
    afind (lp_arrs s) a = None /\ afind (lp_arrs s1) a = Some (fwd_vals s) /\
    (forall j, j <> a -> afind (lp_arrs s1) j = afind (lp_arrs s) j) /\
    store_eq s s1 /\ ll_wf s1 /\ fwd_vals s1 = fwd_vals s /\
    (forall h outs s2, prun h s1 = ROk outs s2 -> afind (lp_arrs s2) a = Some (fwd_vals s)) /\
    (forall i v, store_eq s1 (arr_write a i v s1) /\ ll_wf (arr_write a i v s1) /\
                 fwd_vals (arr_write a i v s1) = fwd_vals s /\
                 forall h, exists outs s2 s2', prun h s1 = ROk outs s2 /\
                                            prun h (arr_write a i v s1) = ROk outs s2').
Proof. exact asslice_fresh_lemma. Qed.
Print Assumptions llptr_asslice_fresh.

(* 7. Delete(index) with a valid index unlinks exactly one node x, the one at ring position index+1: the new
      ring is the old ring without x (all other nodes keep their place), the length field drops by one, x's own
      links are nil, and x is reachable from neither sentinel by next links nor by prev links *)
Theorem llptr_delete_unlinks_one : forall s index,
  ll_wf s -> 0 <= index < lp_len s ->
  exists v s' x A B,
    pDelete index s = ROk (Ok (OVal v)) s' /\ ll_wf s' /\
    fwd_ring s = A ++ x :: B /\ length A = S (Z.to_nat index) /\
    fwd_ring s' = A ++ B /\
    ~ In x (fwd_ring s') /\
    lp_len s' = lp_len s - 1 /\
    fget nnext (lp_heap s') x = Some None /\ fget nprev (lp_heap s') x = Some None /\
    ~ reach_next s' x /\ ~ reach_prev s' x.
Proof. exact delete_unlinks_lemma. Qed.
Print Assumptions llptr_delete_unlinks_one.

(* 8. findNode(index), 0 <= index < length, ends on the node at ring position index+1, follows exactly
      index+1 links (forward, when index <= length/2) or length-index links (backward), hence at most
      length/2+1, and changes nothing but the ghost counter *)
Theorem llptr_findNode_links : forall s index,
  ll_wf s -> 0 <= index < lp_len s ->
  exists p s', findNode index s = ROk (Some p) s' /\
    nth_error (fwd_ring s) (S (Z.to_nat index)) = Some p /\
    Z.of_nat (lp_ticks s' - lp_ticks s) <= Z.quot (lp_len s) 2 + 1 /\
    Z.of_nat (lp_ticks s' - lp_ticks s) =
      (if index <=? Z.quot (lp_len s) 2 then index + 1 else lp_len s - index) /\
    store_eq s s' /\ lp_arrs s' = lp_arrs s.
Proof. exact findNode_links_lemma. Qed.
Print Assumptions llptr_findNode_links.

(* ---- non-vacuity ---- *)
(* a concrete history through both walks of findNode, a splice in the middle, at the front, an Append through
   Add(len), failing calls, Delete of an inner node and of the last one, Set, Range, AsSlice: no panic, the
   outputs, and both chains read back from the final store *)
Example c04_llptr_nonvacuous :
  match pNewOf [1; 2; 3; 4; 5] lp_empty with
  | ROk _ s0 =>
    match prun [(OpGet 4, 0); (OpGet 1, 0); (OpDelete 3, 0); (OpAdd 4 7, 0); (OpAdd 6 7, 0); (OpAdd 0 9, 0);
                (OpAdd 2 8, 0); (OpSet 5 6, 0); (OpSet 7 6, 0); (OpDelete 6, 0); (OpDelete (-1), 0);
                (OpRange 1, 0); (OpAsSlice, 0); (OpLen, 0)] s0 with
    | ROk outs sf =>
        outs = [Ok (OVal 5); Ok (OVal 2); Ok (OVal 4); Ok OUnit; Err EIndex; Ok OUnit; Ok OUnit; Ok OUnit;
                Err EIndex; Ok (OVal 7); Err EIndex; Ok (ORange [(0, 9); (1, 1)] true);
                Ok (OSlice false [9; 1; 8; 2; 3; 6]); Ok (OLen 6)] /\
        fwd_vals sf = [9; 1; 8; 2; 3; 6] /\ bwd_vals sf = [6; 3; 2; 8; 1; 9] /\
        fwd_ring sf = [1; 9; 3; 10; 4; 5; 7; 2; 1]%positive /\
        bwd_ring sf = [2; 7; 5; 4; 10; 3; 9; 1; 2]%positive /\
        lp_len sf = 6
    | RPanic => False
    end
  | RPanic => False
  end.
Proof. vm_compute. repeat split; reflexivity. Qed.

(* the hypotheses of theorems 3-8 are satisfiable on a non-trivial store: the state after NewLinkedListOf and
   any history is well formed (theorem llptr_new_refines_seq), e.g. *)
Example ll_wf_nonvacuous : exists s, ll_wf s /\ fwd_vals s = [1; 2; 3] /\ lp_len s = 3.
Proof.
  destruct (llptr_newof_wf [1; 2; 3]) as (s & _ & Hwf & Hv & _ & Hl). exists s. repeat split; assumption.
Qed.

(* ll_wf is not trivially true: a store whose second node does not point back is rejected ... *)
Example ll_wf_rejects_bad_prev :
  ~ ll_wf (mklp (hset (hset (hset (PositiveMap.empty lnode)
                        1%positive (mkln 0 (Some 2%positive) (Some 3%positive)))
                        2%positive (mkln 0 (Some 3%positive) (Some 1%positive)))
                        3%positive (mkln 7 None (Some 2%positive)))
                (Some 1%positive) (Some 2%positive) 1 4%positive (PositiveMap.empty (list Z)) 1%positive O).
Proof.
  intros (hd & tl & cells & Hh & Ht & _ & Hdl & _ & _ & _ & Hl & _).
  cbn [lp_head lp_tail lp_len lp_heap] in *. injection Hh as <-. injection Ht as <-.
  destruct cells as [|[c v] [|c2 cells]]; try (unfold zlen in Hl; cbn [length] in Hl; lia).
  cbn [map fst app dlinks] in Hdl. destruct Hdl as (H1 & H2 & _).
  vm_compute in H1. injection H1 as <-. vm_compute in H2. discriminate H2.
Qed.
(* ... and so is one whose length field disagrees with the chain *)
Example ll_wf_rejects_bad_length :
  ~ ll_wf (mklp (hset (hset (PositiveMap.empty lnode)
                        1%positive (mkln 0 (Some 2%positive) (Some 2%positive)))
                        2%positive (mkln 0 (Some 1%positive) (Some 1%positive)))
                (Some 1%positive) (Some 2%positive) 1 3%positive (PositiveMap.empty (list Z)) 1%positive O).
Proof.
  intros (hd & tl & cells & Hh & Ht & Hnd & Hdl & _ & _ & _ & Hl & _).
  cbn [lp_head lp_tail lp_len lp_heap] in *. injection Hh as <-. injection Ht as <-.
  destruct cells as [|[c v] cells]; [unfold zlen in Hl; cbn [length] in Hl; lia|].
  cbn [map fst app] in Hdl, Hnd.
  assert (H1 : fget nnext (hset (hset (PositiveMap.empty lnode)
                        1%positive (mkln 0 (Some 2%positive) (Some 2%positive)))
                        2%positive (mkln 0 (Some 1%positive) (Some 1%positive))) 1%positive = Some (Some c)).
  { destruct (map fst cells ++ [2%positive]); cbn [dlinks] in Hdl; tauto. }
  vm_compute in H1. injection H1 as <-.
  inversion Hnd as [|x l Hn1 Hnd1]; subst. inversion Hnd1 as [|x l Hn2 _]; subst.
  apply Hn2. apply in_or_app. right. now left.
Qed.
