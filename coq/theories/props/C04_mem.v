(* C04, memory level — ArrayList and CopyOnWriteArrayList over a store of backing arrays.
   Closes the audit's C04 items "asslice_fresh holds by construction", "CopyOnWrite: every mutator
   copies is not a theorem", "in-place append never models aliasing (NewArrayListOf shares ts)".
   (LinkedList at pointer level: props/C04_llptr.v.)   Only statements; proofs in proof/ListMemProof.v.

   Model: model/ListMemModel.v — list/array_list.go and list/copy_on_write_array_list.go statement by
   statement on the header/store primitives of model/SliceMemModel.v (a slice is a header (array id, offset,
   len, cap); the store is the list of all backing arrays; make / load / store_at / reslice / append;
   internal/slice Add and Delete are SliceMemModel.add_m / delete_internal_m; Shrink and the variadic append
   are in ListMemModel).  `grow` is append's growth policy: ANY function.
   Vocabulary (proof/SliceMemProof.v, proof/ListMemProof.v):
     wf st h            header h lies inside an existing array of st, len <= cap
     contents st h      the len elements h shows
     keeps st st'       every array of st exists unchanged in st' under the same id (st' may have more)
     frame_but a st st' the same, except possibly array a
     mal_step / mcow_step grow st (Some h) o = (st', Some h', r)   one call on the list whose field vals = h
     m_run / m_final    results / final (store, vals) of a history;  plain ops = the history without oracles
     reallocates h o    the exact condition under which an ArrayList call moves vals to a NEW array *)
From Ekit Require Import Common ListModel ListProof ListProof2 SliceModel SliceMemModel SliceMemProof
  ListMemModel ListMemProof.

(* 1. ArrayList, one call from ANY well-formed state: no panic, the live header stays well-formed, its
      contents and the result are the abstract sequence's, only the live array may change (or new arrays
      appear), the live array afterwards is the old one or a brand-new one, a FAILED call leaves the whole
      store and the header identical, and vals moves to a new array exactly when `reallocates` says so *)
Theorem arraylist_mem_step : forall grow st h o, wf st h ->
  exists st' h' r, mal_step grow st (Some h) o = (st', Some h', r) /\
    wf st' h' /\
    contents st' h' = fst (seq_step (contents st h) o) /\
    canon r = snd (seq_step (contents st h) o) /\
    frame_but (h_arr h) st st' /\
    (h_arr h' = h_arr h \/ (length st <= h_arr h')%nat) /\
    (forall e, r = Err e -> st' = st /\ h' = h) /\
    (h_arr h' = h_arr h <-> reallocates h o = false).
Proof. exact mal_step_spec. Qed.
Print Assumptions arraylist_mem_step.

(* 2. all histories: outputs equal ListModel's ArrayList (any capacity oracle), so every theorem of
      props/C04.v about `SArr` transfers to the memory-level list *)
Theorem arraylist_mem_refines_listmodel : forall grow st h (hist : list (op * Z)) (a : gslice),
  wf st h -> sv a = contents st h ->
  map canon (m_run (mal_step grow) st (Some h) (map fst hist)) = map canon (lrun (SArr a) hist).
Proof. exact mal_run_is_listmodel. Qed.
Print Assumptions arraylist_mem_refines_listmodel.

(* ... and the contents of the LIVE array after any history are the abstract sequence's; arrays other
   than the live one are never written and never become the live array *)
Theorem arraylist_mem_final : forall grow ops st h, wf st h ->
  exists st' h', m_final (mal_step grow) st (Some h) ops = (st', Some h') /\ wf st' h' /\
    contents st' h' = seq_final (contents st h) (plain ops) /\
    (length st <= length st')%nat /\
    (forall b, (b < length st)%nat -> b <> h_arr h -> arr_of st' b = arr_of st b /\ b <> h_arr h').
Proof. exact mal_final_spec. Qed.
Print Assumptions arraylist_mem_final.

(* 3. AsSlice returns a header into a FRESH array (id = number of arrays before the call) holding the
      contents; the list is untouched; whatever the list does later never changes that array; whatever the
      client writes through the returned header never changes the list (or any other array) *)
Theorem arraylist_asslice_fresh_mem : forall grow st h, wf st h ->
  let st1 := fst (m_as_slice st (Some h)) in
  let r := snd (m_as_slice st (Some h)) in
  h_arr r = length st /\ keeps st st1 /\ wf st1 r /\ contents st1 r = contents st h /\
  wf st1 h /\ contents st1 h = contents st h /\
  (forall ops st2 v2, m_final (mal_step grow) st1 (Some h) ops = (st2, v2) ->
     arr_of st2 (h_arr r) = arr_of st1 (h_arr r)) /\
  (forall i x st1', store_at st1 r i x = Ok st1' ->
     wf st1' h /\ contents st1' h = contents st1 h /\ forall b, b <> h_arr r -> arr_of st1' b = arr_of st1 b).
Proof. exact as_slice_fresh_mem. Qed.
Print Assumptions arraylist_asslice_fresh_mem.

(* 4. the constructors: NewArrayList allocates; NewArrayListOf(ts) IS ts's header (documented in the code:
      "uses ts directly, no copy") — so by theorem 1 Set, Delete's shifting, and Append/Add while they fit
      write into the caller's array, and the list leaves it exactly when `reallocates` holds *)
Theorem new_arraylist_allocates : forall st c, exists h,
  mal_new st c = (st ++ [repeat 0 c], Some h) /\ wf (st ++ [repeat 0 c]) h /\
  contents (st ++ [repeat 0 c]) h = [] /\ h_arr h = length st /\ h_cap h = c.
Proof. exact mal_new_wf. Qed.
Print Assumptions new_arraylist_allocates.

Theorem new_arraylist_of_shares_argument : forall st ts, mal_new_of st ts = (st, ts).
Proof. exact (fun st ts => eq_refl). Qed.
Print Assumptions new_arraylist_of_shares_argument.

(* a successful Set through the list is visible through the caller's header (same header!) *)
Theorem set_writes_through_to_shared_array : forall grow st h i x st' h' r,
  wf st h -> mal_step grow st (Some h) (OpSet i x) = (st', Some h', r) -> 0 <= i < zlen (contents st h) ->
  h' = h /\ load st' h (Z.to_nat i) = Ok x.
Proof. exact set_through_lemma. Qed.
Print Assumptions set_writes_through_to_shared_array.

(* 5. Delete + Shrink: the live header afterwards is well-formed in the new store and shows exactly the
      remaining elements — it never points at a stale array *)
Theorem delete_shrink_live_header : forall grow st h i, wf st h ->
  exists st' h' r, mal_step grow st (Some h) (OpDelete i) = (st', Some h', r) /\ wf st' h' /\
    contents st' h' = fst (seq_step (contents st h) (OpDelete i)).
Proof.
  exact (fun grow st h i Hw =>
    match mal_step_spec grow st h (OpDelete i) Hw with
    | ex_intro _ st' (ex_intro _ h' (ex_intro _ r (conj Hs (conj Hw' (conj Hc _))))) =>
        ex_intro _ st' (ex_intro _ h' (ex_intro _ r (conj Hs (conj Hw' Hc))))
    end).
Qed.
Print Assumptions delete_shrink_live_header.

Theorem shrink_moves_to_fresh_array_or_nothing : forall grow st h, wf st h ->
  exists st' h', mshrink grow st (Some h) = Ok (st', Some h') /\ wf st' h' /\
    contents st' h' = contents st h /\ keeps st st' /\
    ((st' = st /\ h' = h /\ snd (cal_capacity (Z.of_nat (h_cap h)) (Z.of_nat (h_len h))) = false) \/
     ((length st <= h_arr h')%nat /\ snd (cal_capacity (Z.of_nat (h_cap h)) (Z.of_nat (h_len h))) = true)).
Proof. exact mshrink_spec. Qed.
Print Assumptions shrink_moves_to_fresh_array_or_nothing.

(* 6. CopyOnWriteArrayList, one call from ANY well-formed state: contents/results are the abstract
      sequence's; EVERY array that existed before is unchanged (keeps) — also on failure (a failed Add only
      leaves a garbage array behind); the header is the old one or points at the array allocated by this
      call; a failed call keeps the header; a successful mutator publishes a fresh array *)
Theorem cow_mem_step : forall grow st h o, wf st h ->
  exists st' h' r, mcow_step grow st (Some h) o = (st', Some h', r) /\
    wf st' h' /\
    contents st' h' = fst (seq_step (contents st h) o) /\
    canon r = snd (seq_step (contents st h) o) /\
    keeps st st' /\
    (h' = h \/ h_arr h' = length st) /\
    (forall e, r = Err e -> h' = h) /\
    (mutates o = true -> (exists v, r = Ok v) -> h_arr h' = length st).
Proof. exact mcow_step_spec. Qed.
Print Assumptions cow_mem_step.

Theorem cow_mem_refines_listmodel : forall grow st h (hist : list (op * Z)) (a : gslice),
  wf st h -> sv a = contents st h ->
  map canon (m_run (mcow_step grow) st (Some h) (map fst hist)) = map canon (lrun (SCow a) hist).
Proof. exact mcow_run_is_listmodel. Qed.
Print Assumptions cow_mem_refines_listmodel.

(* a reader holding ANY header that was valid before a history (e.g. an old snapshot) sees the same array,
   the same contents, after it *)
Theorem cow_snapshots_are_constant : forall grow ops st h snap st' v',
  wf st h -> wf st snap -> m_final (mcow_step grow) st (Some h) ops = (st', v') ->
  wf st' snap /\ contents st' snap = contents st snap /\ arr_of st' (h_arr snap) = arr_of st (h_arr snap).
Proof. exact cow_snapshot_constant. Qed.
Print Assumptions cow_snapshots_are_constant.

Theorem new_cow_of_copies_argument : forall st ts, wfs st ts ->
  exists h, mcow_new_of st ts = (st ++ [contents_s st ts], Some h) /\ h_arr h = length st /\
    wf (st ++ [contents_s st ts]) h /\ contents (st ++ [contents_s st ts]) h = contents_s st ts /\
    keeps st (st ++ [contents_s st ts]).
Proof. exact mcow_new_of_fresh. Qed.
Print Assumptions new_cow_of_copies_argument.

(* non-vacuity and the sharing story on a concrete store.  ts = header (array 0, off 0, len 3, cap 4)
   over [1;2;3;0]; the list is NewArrayListOf(ts); growth policy: double. *)
Definition dbl (l n : nat) : nat := l.
Definition ts0 : hdr := mkhdr 0 0 3 4.
Definition st0 : store := [[1; 2; 3; 0]].
Example c04_mem_nonvacuous :
  wf st0 ts0 /\
  (* Set and an Append that fits write into the caller's array *)
  m_final (mal_step dbl) st0 (Some ts0) [OpSet 0 9; OpAppend [7]]
    = ([[9; 2; 3; 7]], Some (mkhdr 0 0 4 4)) /\
  reallocates (mkhdr 0 0 4 4) (OpAppend [8]) = true /\
  (* the next Append reallocates: array 0 is left behind and later Sets no longer reach it *)
  m_final (mal_step dbl) st0 (Some ts0) [OpSet 0 9; OpAppend [7]; OpAppend [8]; OpSet 1 5]
    = ([[9; 2; 3; 7]; [9; 5; 3; 7; 8; 0; 0; 0; 0]], Some (mkhdr 1 0 5 9)) /\
  (* Delete shifts inside the caller's array *)
  m_final (mal_step dbl) st0 (Some ts0) [OpDelete 0] = ([[2; 3; 3; 0]], Some (mkhdr 0 0 2 4)) /\
  (* a failed call: store and header identical *)
  mal_step dbl st0 (Some ts0) (OpAdd 7 1) = (st0, Some ts0, Err EIndex) /\
  (* CopyOnWrite: every mutator allocates; array 0 is never touched *)
  m_final (mcow_step dbl) st0 (Some ts0) [OpSet 0 9; OpDelete 1; OpAppend [7]; OpAdd 9 9]
    = ([[1; 2; 3; 0]; [9; 2; 3]; [9; 3]; [9; 3; 7]; [9; 3; 7; 0]], Some (mkhdr 3 0 3 3)) /\
  (* Delete + Shrink across the threshold: cap 65 -> 32 in a fresh array *)
  snd (fst (mal_step dbl [repeat 5 65] (Some (mkhdr 0 0 2 65)) (OpDelete 0))) = Some (mkhdr 1 0 1 32).
Proof.
  split; [unfold wf, st0, ts0; cbn; lia|]. repeat split; vm_compute; reflexivity.
Qed.
