(* C06 (part: the LOCK-BASED thread-safe containers) — queue.ConcurrentPriorityQueue,
   list.ConcurrentList, list.CopyOnWriteArrayList, syncx.Map are linearizable and never panic,
   for EVERY schedule of ANY number of threads.

   Only statements here; every proof is `exact <lemma>` from proof/LockedProof.v, proof/CowProof.v,
   proof/SyncMapProof.v.  Models: model/LockedModel.v (framework + lock-bracketed objects + the
   sequential specifications), model/CowModel.v, model/SyncMapModel.v — one model step = one Go
   statement of the current source (the lock-step check runs the real goroutines through the
   same statements and compares).

   Form of the statements (linearisation-point form).  The model keeps a ghost history of
   invocation (HCall), linearisation (HLin, at the statement named as linearisation point, with
   the result the sequential specification gives at that instant) and response (HRet) events.
     [seq_legal spec s0 (lin_ops h) s]   the linearisation events, in the order they happened, are a
                                         legal sequential execution of the specification from the
                                         initial abstract state to the CURRENT abstract state;
     [thread_hist t h ph]                thread t's events are (HCall.HLin.HRet)* followed by a
                                         prefix of such a block, the three events of a block carry
                                         the same operation and HLin and HRet the same result:
                                         each completed call has exactly one linearisation step
                                         between its invocation and its response and returns that
                                         step's result.
   Since the order of lin_ops is the real-time order of steps that lie inside their calls'
   intervals, it extends the real-time precedence order of the calls.  (The equivalence of this
   form with the textbook definition is not mechanised here.)

   Trusted specifications: sync.Mutex / sync.RWMutex (Lock enabled iff free; RLock iff no writer),
   sync.Map (each method atomic), Go slices as values for CopyOnWriteArrayList (see CowModel.v),
   the sequential specifications pq_seq_step / ls_seq_step / sm_seq_step of the inner objects
   (the inner heap / list algorithms are the subject of C05 / C04; here they are exercised
   against these specifications by the lock-step check only). *)
From Ekit Require Import Common Conc LockedModel CowModel SyncMapModel LockedProof CowProof SyncMapProof.

(* ===================== 0. reading the history predicate ===================== *)

(* [thread_hist] spelled out on the list: in a well-formed history every response of thread t is
   preceded by its invocation and by exactly ONE linearisation event of t in between, with the
   same operation and the same result, and t has no other event in between.  (Every prefix of a
   reachable history is itself a reachable history, so this holds at the moment of every return.) *)
Theorem completed_call_has_one_linearisation_point :
  forall (op ret : Type) (t : tid) (h : list (hev op ret)) (ph : phase op ret),
    thread_hist t h ph ->
    forall h1 o r h2, h = h1 ++ HRet t o r :: h2 ->
      exists ha hb hc, h1 = ha ++ HCall t o :: hb ++ HLin t o r :: hc /\
                       Forall (fun e => hev_tid e <> t) hb /\ Forall (fun e => hev_tid e <> t) hc.
Proof. exact completed_call_shape_lemma. Qed.
Print Assumptions completed_call_has_one_linearisation_point.

(* ===================== 1. lock-bracketed objects, generically ===================== *)

(* For an arbitrary sequential object (state, op, ret, seq_step) whose methods have the shape
     m.Lock() | m.RLock() ; defer unlock ; return inner.Op(args)
   with [excl o] the lock the code of method o takes: if every mutating operation takes the
   exclusive lock then, in every reachable configuration,
   - at most one thread is inside a write-locked section and then none inside a read-locked one;
   - the lock words agree with the sections;
   - the inner state is the result of running seq_step over the linearisation events (the
     `return inner.Op(args)` statements, in the order they completed), and every call returns
     the result of its own linearisation step.
   The inner operation is NOT atomic in the model (read, then write back): its atomicity is what
   is being proved. *)
Theorem locked_object_linearizable :
  forall (state op ret : Type) (seq_step : state -> op -> state * ret) (excl mutating : op -> bool),
    (forall o, mutating o = true -> excl o = true) ->
    (forall s o, mutating o = false -> fst (seq_step s o) = s) ->
    forall s0 evs c, exec (lk_step seq_step excl) (sys_init (lk_init s0)) evs = Some c ->
      count (lk_in_w excl) (s_thr c) <= 1 /\
      (count (lk_in_w excl) (s_thr c) = 1 -> count (lk_in_r excl) (s_thr c) = 0) /\
      (forall t1 t2 x1 x2, t1 <> t2 ->
         lookup t1 (s_thr c) = Some x1 -> lookup t2 (s_thr c) = Some x2 ->
         lk_in_w excl x1 = true -> lk_in_w excl x2 = false /\ lk_in_r excl x2 = false) /\
      count (lk_in_w excl) (s_thr c) = (if lk_w (s_sh c) then 1 else 0) /\
      count (lk_in_r excl) (s_thr c) = Z.of_nat (lk_r (s_sh c)) /\
      seq_legal seq_step s0 (lin_ops (s_hist c)) (lk_st (s_sh c)) /\
      (forall t, thread_hist t (s_hist c) (entry_phase lk_phase (lookup t (s_thr c)))) /\
      NoDup (tids (s_thr c)).
Proof. exact locked_object_linearizable_lemma. Qed.
Print Assumptions locked_object_linearizable.

(* step form: the inner state moves only at a linearisation step, and then exactly by seq_step *)
Theorem locked_object_step :
  forall (state op ret : Type) (seq_step : state -> op -> state * ret) (excl mutating : op -> bool),
    (forall o, mutating o = true -> excl o = true) ->
    (forall s o, mutating o = false -> fst (seq_step s o) = s) ->
    forall s0 evs c e c', exec (lk_step seq_step excl) (sys_init (lk_init s0)) evs = Some c ->
      lk_step seq_step excl c e = Some c' ->
      (lk_st (s_sh c') = lk_st (s_sh c) /\ lin_ops (s_hist c') = lin_ops (s_hist c)) \/
      (exists o r, seq_step (lk_st (s_sh c)) o = (lk_st (s_sh c'), r) /\
                   lin_ops (s_hist c') = lin_ops (s_hist c) ++ [(o, r)]).
Proof. exact locked_object_step_lemma. Qed.
Print Assumptions locked_object_step.

(* no statement of a read-only operation changes the inner state *)
Theorem locked_readonly_no_change :
  forall (state op ret : Type) (seq_step : state -> op -> state * ret) (excl mutating : op -> bool),
    (forall o, mutating o = true -> excl o = true) ->
    (forall s o, mutating o = false -> fst (seq_step s o) = s) ->
    forall s0 evs c t o p c', exec (lk_step seq_step excl) (sys_init (lk_init s0)) evs = Some c ->
      lookup t (s_thr c) = Some (o, p) -> mutating o = false ->
      lk_step seq_step excl c (EStep t) = Some c' -> lk_st (s_sh c') = lk_st (s_sh c).
Proof. exact locked_readonly_no_change_lemma. Qed.
Print Assumptions locked_readonly_no_change.

(* the side condition is necessary: if Append took only the read lock, two concurrent Appends
   lose an update (both linearise, the state is [2], the specification says [1; 2]) *)
Example locked_side_condition_needed :
  exists evs c,
    exec (lk_step ls_seq_step (fun _ => false)) (clist_init []) evs = Some c /\
    s_thr c = [] /\
    lin_ops (s_hist c) = [(LAppend [1], LRErr (Ok tt)); (LAppend [2], LRErr (Ok tt))] /\
    lk_st (s_sh c) = [2] /\
    ~ seq_legal ls_seq_step [] (lin_ops (s_hist c)) (lk_st (s_sh c)).
Proof.
  exists [ECall 1%nat (LAppend [1]); ECall 2%nat (LAppend [2]);
          EStep 1%nat; EStep 2%nat; EStep 1%nat; EStep 2%nat; EStep 1%nat; EStep 2%nat;
          EStep 1%nat; EStep 2%nat].
  eexists. split; [vm_compute; reflexivity|]. cbn.
  split; [reflexivity|split; [reflexivity|split; [reflexivity|]]].
  intros (_ & _ & H). discriminate H.
Qed.

(* ===================== 2. ConcurrentPriorityQueue, ConcurrentList ===================== *)

(* the instantiation comes from the code: [cpq_excl] / [clist_excl] list, per method, the lock the
   source takes (they also determine the labels the lock-step check expects from the source) *)
Theorem cpq_mutating_methods_take_exclusive_lock : forall o, pq_mutating o = true -> cpq_excl o = true.
Proof. exact cpq_side_condition. Qed.
Print Assumptions cpq_mutating_methods_take_exclusive_lock.

Theorem clist_mutating_methods_take_exclusive_lock : forall o, ls_mutating o = true -> clist_excl o = true.
Proof. exact clist_side_condition. Qed.
Print Assumptions clist_mutating_methods_take_exclusive_lock.

Theorem cpq_linearizable :
  forall capacity items evs c, exec cpq_step (cpq_init capacity items) evs = Some c ->
    count (lk_in_w cpq_excl) (s_thr c) <= 1 /\
    (count (lk_in_w cpq_excl) (s_thr c) = 1 -> count (lk_in_r cpq_excl) (s_thr c) = 0) /\
    (forall t1 t2 x1 x2, t1 <> t2 ->
       lookup t1 (s_thr c) = Some x1 -> lookup t2 (s_thr c) = Some x2 ->
       lk_in_w cpq_excl x1 = true -> lk_in_w cpq_excl x2 = false /\ lk_in_r cpq_excl x2 = false) /\
    count (lk_in_w cpq_excl) (s_thr c) = (if lk_w (s_sh c) then 1 else 0) /\
    count (lk_in_r cpq_excl) (s_thr c) = Z.of_nat (lk_r (s_sh c)) /\
    seq_legal pq_seq_step (lk_st (s_sh (cpq_init capacity items))) (lin_ops (s_hist c)) (lk_st (s_sh c)) /\
    (forall t, thread_hist t (s_hist c) (entry_phase lk_phase (lookup t (s_thr c)))) /\
    NoDup (tids (s_thr c)).
Proof. exact cpq_linearizable_lemma. Qed.
Print Assumptions cpq_linearizable.

Theorem clist_linearizable :
  forall items evs c, exec clist_step (clist_init items) evs = Some c ->
    count (lk_in_w clist_excl) (s_thr c) <= 1 /\
    (count (lk_in_w clist_excl) (s_thr c) = 1 -> count (lk_in_r clist_excl) (s_thr c) = 0) /\
    (forall t1 t2 x1 x2, t1 <> t2 ->
       lookup t1 (s_thr c) = Some x1 -> lookup t2 (s_thr c) = Some x2 ->
       lk_in_w clist_excl x1 = true -> lk_in_w clist_excl x2 = false /\ lk_in_r clist_excl x2 = false) /\
    count (lk_in_w clist_excl) (s_thr c) = (if lk_w (s_sh c) then 1 else 0) /\
    count (lk_in_r clist_excl) (s_thr c) = Z.of_nat (lk_r (s_sh c)) /\
    seq_legal ls_seq_step items (lin_ops (s_hist c)) (lk_st (s_sh c)) /\
    (forall t, thread_hist t (s_hist c) (entry_phase lk_phase (lookup t (s_thr c)))) /\
    NoDup (tids (s_thr c)).
Proof. exact clist_linearizable_lemma. Qed.
Print Assumptions clist_linearizable.

Theorem cpq_readonly_no_change :
  forall capacity items evs c t o p c', exec cpq_step (cpq_init capacity items) evs = Some c ->
    lookup t (s_thr c) = Some (o, p) -> pq_mutating o = false ->
    cpq_step c (EStep t) = Some c' -> lk_st (s_sh c') = lk_st (s_sh c).
Proof. exact cpq_readonly_no_change_lemma. Qed.
Print Assumptions cpq_readonly_no_change.

Theorem clist_readonly_no_change :
  forall items evs c t o p c', exec clist_step (clist_init items) evs = Some c ->
    lookup t (s_thr c) = Some (o, p) -> ls_mutating o = false ->
    clist_step c (EStep t) = Some c' -> lk_st (s_sh c') = lk_st (s_sh c).
Proof. exact clist_readonly_no_change_lemma. Qed.
Print Assumptions clist_readonly_no_change.

(* the priority-queue specification answers A MINIMUM of the multiset: its list stays ascending *)
Theorem pq_spec_dequeue_is_minimum :
  forall s x, ascending (pq_items s) -> snd (pq_seq_step s PQDequeue) = PRVal (Ok x) ->
    In x (pq_items s) /\ forall y, In y (pq_items s) -> x <= y.
Proof. exact pq_spec_dequeue_min. Qed.
Print Assumptions pq_spec_dequeue_is_minimum.

Theorem pq_spec_stays_ascending :
  forall s o, ascending (pq_items s) -> ascending (pq_items (fst (pq_seq_step s o))).
Proof. exact pq_spec_ascending. Qed.
Print Assumptions pq_spec_stays_ascending.

(* non-vacuity: two readers are inside the read-locked section together, the writer's Lock is
   not enabled; then everybody completes and the history is the expected one *)
Example clist_nonvacuous :
  let evs := [ECall 1%nat (LGet 0); ECall 2%nat LLen; ECall 3%nat (LAppend [7]); EStep 1%nat; EStep 2%nat] in
  (exists c, exec clist_step (clist_init [5]) evs = Some c /\
             s_sh c = {| lk_st := [5]; lk_w := false; lk_r := 2 |} /\
             clist_step c (EStep 3%nat) = None) /\
  (exists c, exec clist_step (clist_init [5])
               (evs ++ [EStep 1%nat; EStep 1%nat; EStep 1%nat; EStep 2%nat; EStep 2%nat; EStep 2%nat;
                        EStep 3%nat; EStep 3%nat; EStep 3%nat; EStep 3%nat]) = Some c /\
             s_sh c = {| lk_st := [5; 7]; lk_w := false; lk_r := 0 |} /\ s_thr c = [] /\
             s_hist c = [HCall 1%nat (LGet 0); HCall 2%nat LLen; HCall 3%nat (LAppend [7]);
                         HLin 1%nat (LGet 0) (LRVal (Ok 5)); HRet 1%nat (LGet 0) (LRVal (Ok 5));
                         HLin 2%nat LLen (LRInt 1); HRet 2%nat LLen (LRInt 1);
                         HLin 3%nat (LAppend [7]) (LRErr (Ok tt)); HRet 3%nat (LAppend [7]) (LRErr (Ok tt))]).
Proof.
  split; eexists; (split; [vm_compute; reflexivity|]); repeat split; reflexivity.
Qed.

(* ===================== 3. CopyOnWriteArrayList ===================== *)

(* linearizable w.r.t. the sequence specification, with the writers' field assignment
   [a.vals = newItems] and the readers' field read inside snapshot() as linearisation points
   (failed writers: their error return under the mutex; AsSlice: its copy under the mutex);
   at most one thread between Lock and Unlock *)
Theorem cow_linearizable :
  forall items evs c, exec cow_step (cow_init items) evs = Some c ->
    seq_legal ls_seq_step items (lin_ops (s_hist c)) (cw_vals (s_sh c)) /\
    (forall t, thread_hist t (s_hist c) (entry_phase cow_phase (lookup t (s_thr c)))) /\
    (forall t1 t2 x1 x2, t1 <> t2 ->
       lookup t1 (s_thr c) = Some x1 -> lookup t2 (s_thr c) = Some x2 ->
       cow_in_mutex x1 = true -> cow_in_mutex x2 = false) /\
    count cow_in_mutex (s_thr c) = (if cw_mu (s_sh c) then 1 else 0) /\
    NoDup (tids (s_thr c)).
Proof. exact cow_linearizable_lemma. Qed.
Print Assumptions cow_linearizable.

Theorem cow_step_by_spec :
  forall items evs c e c', exec cow_step (cow_init items) evs = Some c -> cow_step c e = Some c' ->
    (cw_vals (s_sh c') = cw_vals (s_sh c) /\ lin_ops (s_hist c') = lin_ops (s_hist c)) \/
    (exists o r, ls_seq_step (cw_vals (s_sh c)) o = (cw_vals (s_sh c'), r) /\
                 lin_ops (s_hist c') = lin_ops (s_hist c) ++ [(o, r)]).
Proof. exact cow_step_lemma. Qed.
Print Assumptions cow_step_by_spec.

(* no statement panics: Get indexes the snapshot it measured, the writers' index / make /
   newItems[...] statements stay in range *)
Theorem cow_no_panic :
  forall items evs c t c' ob, exec cow_step (cow_init items) evs = Some c ->
    cow_exec1 c (EStep t) = Some (c', ob) -> ob <> OPanic.
Proof. exact cow_no_panic_lemma. Qed.
Print Assumptions cow_no_panic.

(* documentation of the defect the fix removed — the PINNED reader
     Get = { l := a.Len(); if index < 0 || index >= l {...}; return a.vals[index], e }
   reads the field twice without the mutex:  Get(2) reads length 3 . Delete(0) . Get indexes -> panic *)
Theorem cow_get_panics_refuted :
  exists evs c c', exec cowp_step (cow_init [10; 20; 30]) evs = Some c /\
                   lookup 2%nat (s_thr c) = None /\
                   cw_vals (s_sh c) = [20; 30] /\
                   cowp_exec1 c (EStep 1%nat) = Some (c', OPanic).
Proof. exact cow_get_panics_refuted_lemma. Qed.
Print Assumptions cow_get_panics_refuted.

(* non-vacuity: the same interleaving on the current code — Get(2) takes its snapshot, Delete(0)
   runs to completion, Get returns the element of ITS snapshot; the history linearises Get first *)
Example cow_nonvacuous :
  exists c, exec cow_step (cow_init [10; 20; 30])
              ([ECall 1%nat (LGet 2); EStep 1%nat; EStep 1%nat; EStep 1%nat; EStep 1%nat;
                ECall 2%nat (LDelete 0)] ++ repeat (EStep 2%nat) 18 ++ [EStep 1%nat; EStep 1%nat; EStep 1%nat])
            = Some c /\
            s_sh c = {| cw_vals := [20; 30]; cw_mu := false |} /\ s_thr c = [] /\
            s_hist c = [HCall 1%nat (LGet 2); HLin 1%nat (LGet 2) (LRVal (Ok 30));
                        HCall 2%nat (LDelete 0); HLin 2%nat (LDelete 0) (LRVal (Ok 10));
                        HRet 2%nat (LDelete 0) (LRVal (Ok 10)); HRet 1%nat (LGet 2) (LRVal (Ok 30))].
Proof. eexists. split; [vm_compute; reflexivity|]. repeat split; reflexivity. Qed.

(* ===================== 4. syncx.Map ===================== *)

(* Load, Store, LoadOrStore, LoadOrStoreFunc, LoadAndDelete, Delete over sync.Map as an atomic map;
   LoadOrStoreFunc linearises at its Load when the key is present (or fn is going to fail), else
   at its LoadOrStore *)
Theorem syncmap_linearizable :
  forall m0 evs c, exec sm_step (sm_init m0) evs = Some c ->
    seq_legal sm_seq_step m0 (lin_ops (s_hist c)) (s_sh c) /\
    (forall t, thread_hist t (s_hist c) (entry_phase sm_phase (lookup t (s_thr c)))) /\
    NoDup (tids (s_thr c)).
Proof. exact syncmap_linearizable_lemma. Qed.
Print Assumptions syncmap_linearizable.

Theorem syncmap_step_by_spec :
  forall m0 evs c e c', exec sm_step (sm_init m0) evs = Some c -> sm_step c e = Some c' ->
    (s_sh c' = s_sh c /\ lin_ops (s_hist c') = lin_ops (s_hist c)) \/
    (exists o r, sm_seq_step (s_sh c) o = (s_sh c', r) /\
                 lin_ops (s_hist c') = lin_ops (s_hist c) ++ [(o, r)]).
Proof. exact syncmap_step_lemma. Qed.
Print Assumptions syncmap_step_by_spec.

Theorem syncmap_no_panic :
  forall m0 evs c t c' ob, exec sm_step (sm_init m0) evs = Some c ->
    sm_exec1 c (EStep t) = Some (c', ob) -> ob <> OPanic.
Proof. exact syncmap_no_panic_lemma. Qed.
Print Assumptions syncmap_no_panic.

(* non-vacuity: LoadOrStoreFunc(1, fn = 7) misses in its Load and calls fn; another thread stores
   (1, 9) before the LoadOrStore half; the call returns (9, loaded) — fn's value is discarded —
   and the history linearises the Store first *)
Example syncmap_nonvacuous :
  exists c, exec sm_step (sm_init [])
              ([ECall 1%nat (MLoadOrStoreFunc 1 7 false)] ++ repeat (EStep 1%nat) 7 ++
               [ECall 2%nat (MStore 1 9); EStep 2%nat] ++ repeat (EStep 1%nat) 6) = Some c /\
            s_sh c = [(1, 9)] /\ s_thr c = [] /\
            s_hist c = [HCall 1%nat (MLoadOrStoreFunc 1 7 false);
                        HCall 2%nat (MStore 1 9); HLin 2%nat (MStore 1 9) MRUnit; HRet 2%nat (MStore 1 9) MRUnit;
                        HLin 1%nat (MLoadOrStoreFunc 1 7 false) (MRVal 9 true false);
                        HRet 1%nat (MLoadOrStoreFunc 1 7 false) (MRVal 9 true false)].
Proof. eexists. split; [vm_compute; reflexivity|]. repeat split; reflexivity. Qed.
