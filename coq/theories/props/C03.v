(* C03 — hash-backed maps and sets are correct under arbitrary hash collisions.
   Only statements here; every proof is `exact <lemma>` from proof/HashProof.v and
   proof/DecorProof.v.  All theorems are for EVERY history `ops` (whose Put operations carry
   the node-pool oracle choice, so "all pool choices" is part of "all histories"), every value
   type, and every user-supplied Code / Equals satisfying
     eqb_equivalence eqb   (Equals is an equivalence)
     hash_consistent code eqb   (Equals a b -> Code a = Code b). *)
From Ekit Require Import Common DecorSpec HashModel DecorModel DecorSpecProof HashProof DecorProof.

(* Put/Get/Delete return values, Len, and Keys/Values (as multisets: out_equiv) of the hash map
   model equal those of the abstract association list keyed by Equals. *)
Theorem hashmap_refines_map : forall (V : Type) (vzero : V) code eqb,
  eqb_equivalence eqb -> hash_consistent code eqb ->
  forall ops,
    Forall2 out_equiv (snd (run (hstep vzero code eqb) hinit ops))
                      (snd (run (astep vzero eqb) [] ops)).
Proof. exact hashmap_refines_map_lemma. Qed.
Print Assumptions hashmap_refines_map.

(* The invariant of DESIGN 12.2 holds after every history: one bucket per code, no empty chain,
   every key in the bucket of its code, keys pairwise non-Equal across the table, pooled nodes
   zeroed with empty tail, size = number of nodes. *)
Theorem hashmap_wf : forall (V : Type) (vzero : V) code eqb,
  eqb_equivalence eqb -> hash_consistent code eqb ->
  forall ops, WF V vzero code eqb (fst (run (hstep vzero code eqb) hinit ops)).
Proof. exact hashmap_wf_lemma. Qed.
Print Assumptions hashmap_wf.

(* The nil dereference `pre.next = newNode` on an empty bucket chain is never reached. *)
Theorem hashmap_never_panics : forall (V : Type) (vzero : V) code eqb,
  eqb_equivalence eqb -> hash_consistent code eqb ->
  forall ops, ~ In (RPut Panic) (snd (run (hstep vzero code eqb) hinit ops)).
Proof. exact hashmap_never_panics_lemma. Qed.
Print Assumptions hashmap_never_panics.

(* Len = number of keys listed by Keys; these are pairwise non-Equal; and a key is found by Get
   exactly when an Equal key is listed: Len is the number of distinct live keys. *)
Theorem len_is_cardinal : forall (V : Type) (vzero : V) code eqb,
  eqb_equivalence eqb -> hash_consistent code eqb ->
  forall ops,
    let s := fst (run (hstep vzero code eqb) hinit ops) in
    hlen s = Z.of_nat (length (hkeys s)) /\
    ForallOrdPairs (fun a b => eqb a b = false) (hkeys s) /\
    (forall k, snd (hget vzero code eqb k s) = true <-> exists k', In k' (hkeys s) /\ eqb k' k = true).
Proof. exact len_is_cardinal_lemma. Qed.
Print Assumptions len_is_cardinal.

(* Deleting or overwriting k never changes what Get returns for a non-Equal key k' — whether
   or not k' shares k's hash code (head / middle / tail of the same chain included). *)
Theorem delete_does_not_disturb_colliding_keys : forall (V : Type) (vzero : V) code eqb,
  eqb_equivalence eqb -> hash_consistent code eqb ->
  forall ops k k', eqb k k' = false ->
    let s := fst (run (hstep vzero code eqb) hinit ops) in
    hget vzero code eqb k' (fst (hdelete vzero code eqb k s)) = hget vzero code eqb k' s /\
    (forall v ch, hget vzero code eqb k' (fst (hput vzero code eqb k v ch s)) = hget vzero code eqb k' s).
Proof. exact delete_does_not_disturb_lemma. Qed.
Print Assumptions delete_does_not_disturb_colliding_keys.

(* Every pooled node is (zero key, zero value, nil next), so whichever node the pool hands out
   (any oracle choice), newNode yields exactly (key, value, nil): nothing of a previous entry. *)
Theorem recycled_nodes_do_not_leak : forall (V : Type) (vzero : V) code eqb,
  eqb_equivalence eqb -> hash_consistent code eqb ->
  forall ops,
    let s := fst (run (hstep vzero code eqb) hinit ops) in
    Forall (fun n => n = {| nkey := 0; nval := vzero; nnext := [] |}) (pool s) /\
    (forall ch k v, fst (new_node vzero ch k v (pool s)) = {| nkey := k; nval := v; nnext := [] |}).
Proof. exact recycled_nodes_do_not_leak_lemma. Qed.
Print Assumptions recycled_nodes_do_not_leak.

(* HashMap satisfies the assumption of the decorator theorems. *)
Theorem hash_backing_refines : forall (V : Type) (vzero : V) code eqb,
  eqb_equivalence eqb -> hash_consistent code eqb ->
  backing_refines vzero eqb (hash_backing vzero code eqb) (hR V vzero code eqb).
Proof. exact hash_backing_refines_lemma. Qed.
Print Assumptions hash_backing_refines.

(* LinkedMap over ANY backing B that refines the abstract map (simulation R, initial state m0):
   every output — including Keys and Values AS SEQUENCES — equals that of the abstract
   association list, whose order is first-insertion order of the live key classes (aput appends
   a new class at the end, updates an existing one in place; adel removes in place).  The walk
   of the order list never runs out of fuel (ROutOfFuel is not an output of astep). *)
Theorem linkedmap_refines_insertion_ordered_map :
  forall (V : Type) (vzero : V) (M : Type) (B : backing M nat) eqb (R : M -> list (Z * nat) -> Prop),
  backing_refines 0%nat eqb B R ->
  forall m0, R m0 [] -> forall ops,
    snd (run (lstep vzero B) (linit vzero m0) ops) = snd (run (astep vzero eqb) [] ops).
Proof. exact linkedmap_refines_lemma. Qed.
Print Assumptions linkedmap_refines_insertion_ordered_map.

(* ... in particular the linked HASH map (NewLinkedHashMap), for every Code / Equals / pool oracle *)
Theorem linked_hashmap_refines_insertion_ordered_map :
  forall (V : Type) (vzero : V) code eqb,
  eqb_equivalence eqb -> hash_consistent code eqb ->
  forall ops,
    snd (run (lstep vzero (hash_backing 0%nat code eqb)) (linit vzero hinit) ops)
    = snd (run (astep vzero eqb) [] ops).
Proof. exact linked_hashmap_lemma. Qed.
Print Assumptions linked_hashmap_refines_insertion_ordered_map.

(* MultiMap over any backing that refines the abstract map: Get/Delete results, Len, and
   Keys/Values (as multisets) equal those of the abstract map of lists, where PutMany k vs
   appends vs to the list stored under k.  A returned slice is a copy BY CONSTRUCTION in this
   functional model (lists are values); the harness checks the real code by overwriting every
   returned slice. *)
Theorem multimap_refines_map_of_lists :
  forall (V : Type) (M : Type) (B : backing M (list V)) eqb (R : M -> list (Z * list V) -> Prop),
  backing_refines (@nil V) eqb B R ->
  forall m0, R m0 [] -> forall ops,
    Forall2 (@mmout_equiv V) (snd (run (mmstep B) m0 ops)) (snd (run (mm_spec_step eqb) [] ops)).
Proof. exact multimap_refines_lemma. Qed.
Print Assumptions multimap_refines_map_of_lists.

Theorem multi_hashmap_refines_map_of_lists : forall (V : Type) code eqb,
  eqb_equivalence eqb -> hash_consistent code eqb ->
  forall ops,
    Forall2 (@mmout_equiv V) (snd (run (mmstep (hash_backing [] code eqb)) hinit ops))
                             (snd (run (mm_spec_step eqb) [] ops)).
Proof. exact multi_hashmap_lemma. Qed.
Print Assumptions multi_hashmap_refines_map_of_lists.

(* MapSet (model = the abstract set over Go's trusted builtin map): Add / Delete / Exist / Keys
   have the set semantics and keep the elements distinct. *)
Theorem mapset_is_abstract_set : forall s o,
  distinct eqb_exact s ->
  distinct eqb_exact (fst (set_step s o)) /\
  match o with
  | SAdd k => forall k', In k' (map fst (fst (set_step s o))) <-> k' = k \/ In k' (map fst s)
  | SDelete k => forall k', In k' (map fst (fst (set_step s o))) <-> k' <> k /\ In k' (map fst s)
  | SExist k => snd (set_step s o) = SRBool true <-> In k (map fst s)
  | SKeys => snd (set_step s o) = SRKeys (map fst s)
  end.
Proof. exact set_step_spec. Qed.
Print Assumptions mapset_is_abstract_set.

(* ---- non-vacuity: the laws hold for the families the harness uses ---- *)
Example c03_laws_exact : forall m, eqb_equivalence eqb_exact /\ hash_consistent (code_mod m) eqb_exact.
Proof. intro m. split; [exact eqb_exact_equivalence|exact (code_mod_consistent m)]. Qed.
(* a coarser Equals: k and k' are the same key when k/2 = k'/2 (2 and 3 are Equal, not identical) *)
Example c03_laws_half : forall m, eqb_equivalence eqb_half /\ hash_consistent (code_half m) eqb_half /\
  eqb_half 2 3 = true /\ 2 <> 3.
Proof.
  intro m. split; [exact eqb_half_equivalence|]. split; [exact (code_half_consistent m)|].
  split; [reflexivity|discriminate].
Qed.
(* a non-trivial reachable state: constant hash (m = 1), a chain of three, middle node deleted and
   its node recycled; with the coarse Equals the first inserted representative 2 stays stored
   when 3 is put *)
Example c03_nonvacuous :
  let ops := [MPut 10 1 None; MPut 20 2 None; MPut 30 3 None; MDelete 20; MPut 40 4 (Some 0%nat); MGet 20; MLen] in
  let r := run (hstep 0 (code_mod 1) eqb_exact) hinit ops in
  tbl (fst r) = [(0, [(10, 1); (30, 3); (40, 4)])] /\ pool (fst r) = [] /\
  snd r = [RPut (Ok tt); RPut (Ok tt); RPut (Ok tt); RFound 2 true; RPut (Ok tt); RFound 0 false; RLen 3] /\
  hkeys (fst (run (hstep 0 (code_half 2) eqb_half) hinit [MPut 2 1 None; MPut 3 5 None])) = [2].
Proof. vm_compute. repeat split. Qed.
