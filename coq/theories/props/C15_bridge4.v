(* C15 (bridge, part 4) — (1) the PUBLICATION clause for the lock-based queues on the traces of
   props/C15_bridge.v, (2) trace-level data-race freedom for the four thread-safe types that had no trace
   theorem: syncx.Map, syncx.Pool, atomicx.Value, a shared bean/copier ReflectCopier.  Only statements here;
   proofs are `exact <lemma>` from proof/FootprintBridge5.v / FootprintBridge6.v; the new models are in
   model/FootprintObjModels.v (Map: the existing model/SyncMapModel.v).

   (1) In abq_trace / lbq_trace / dq_trace / cpq_trace the element storage of the queue is ONE location
   (data[] / linkedlist.* / q.* / pq.*: all slots and elements collapsed), accessed only under the queue's mutex,
   writers exclusively.  <o>_publication: for EVERY execution, every write into the storage (index i, goroutine
   t1) and every LATER access to it by another goroutine (index j > i, t2): every event of t1 up to i
   happens-before every event of t2 from j on (t1's Unlock -sw-> t2's Lock, lib/HB.locked_pair_hb).  No element
   identity is needed: the statement holds for every (write, later access) pair, in particular for the
   write of v by Enqueue(v) and the read by the Dequeue that returns v — in a sequentially consistent trace the
   read is later than the write it reads from.  Semaphore / cond-channel edges are not emitted by these traces
   and not needed.

   (2) Map / Pool: the wrappers perform no memory access of their own (the single field is the embedded
   sync.Map / sync.Pool; KDelegate rows): the trace consists of the release / acquire events of the trusted
   std-lib object, no plain or atomic access (last conjunct).  Value: only sync/atomic operations.
   ReflectCopier: the side condition is part of the trace — goroutine 0 executes the constructor's plain writes
   (copier_ctor), THEN starts (HB.Fork) the goroutines cs, and only those call Copy / CopyTo; every goroutine
   writes only its own destination ("dst", t).  Then: wf, no race, every client access is to its own
   destination or a READ that is an instance of a GConst row of copier_table.  Without the happens-before edge
   from the construction there is a race (copier_unpublished_race). *)
From Coq Require Import List String ZArith.
From Ekit Require Import Common FootprintModel C15Bridge Conc.
From Ekit Require Import LBQModel ABQModel DQModel LockedModel SyncMapModel FootprintObjModels.
From Ekit Require Import C15BridgeLBQ C15BridgeABQ2 C15BridgeDQ2 C15BridgeLocked2.
From Ekit Require Import FootprintBridge5 FootprintBridge6.
From Ekit Require Import HB.
Import ListNotations.
Open Scope string_scope.
Open Scope nat_scope.
Open Scope list_scope.

(* ================= (1) publication through the lock-based queues ================= *)
Theorem locked_storage_publication : forall tbl f l k (e : execution) i j a b aa wb ab i' j' a' b',
  locked_field tbl f l = true -> wf e -> guards_respected tbl e ->
  ev_at e i a -> access_of (act a) = Some ((f, k), true, aa) ->
  ev_at e j b -> access_of (act b) = Some ((f, k), wb, ab) ->
  i < j -> tid a <> tid b ->
  ev_at e i' a' -> tid a' = tid a -> i' <= i ->
  ev_at e j' b' -> tid b' = tid b -> j <= j' ->
  hb e i' j'.
Proof. exact locked_publication. Qed.
Print Assumptions locked_storage_publication.

Theorem abq_publication : forall cap evs c,
  (1 <= cap)%Z -> Conc.exec abq_next (abq_init cap) evs = Some c ->
  forall i j a b aa wb ab i' j' a' b',
    ev_at (abq_trace cap evs) i a -> access_of (act a) = Some (ABQ_DATA, true, aa) ->
    ev_at (abq_trace cap evs) j b -> access_of (act b) = Some (ABQ_DATA, wb, ab) ->
    i < j -> tid a <> tid b ->
    ev_at (abq_trace cap evs) i' a' -> tid a' = tid a -> i' <= i ->
    ev_at (abq_trace cap evs) j' b' -> tid b' = tid b -> j <= j' ->
    hb (abq_trace cap evs) i' j'.
Proof. exact abq_publication_lemma. Qed.
Print Assumptions abq_publication.

Theorem lbq_publication : forall m evs c,
  Conc.exec lbq_step (lbq_init m) evs = Some c ->
  forall i j a b aa wb ab i' j' a' b',
    ev_at (lbq_trace m evs) i a -> access_of (act a) = Some (LBQ_LIST, true, aa) ->
    ev_at (lbq_trace m evs) j b -> access_of (act b) = Some (LBQ_LIST, wb, ab) ->
    i < j -> tid a <> tid b ->
    ev_at (lbq_trace m evs) i' a' -> tid a' = tid a -> i' <= i ->
    ev_at (lbq_trace m evs) j' b' -> tid b' = tid b -> j <= j' ->
    hb (lbq_trace m evs) i' j'.
Proof. exact lbq_publication_lemma. Qed.
Print Assumptions lbq_publication.

Theorem dq_publication : forall cap old evs c,
  Conc.exec dq_step (dq_init cap old) evs = Some c ->
  forall i j a b aa wb ab i' j' a' b',
    ev_at (dq_trace cap old evs) i a -> access_of (act a) = Some (DQ_HEAP, true, aa) ->
    ev_at (dq_trace cap old evs) j b -> access_of (act b) = Some (DQ_HEAP, wb, ab) ->
    i < j -> tid a <> tid b ->
    ev_at (dq_trace cap old evs) i' a' -> tid a' = tid a -> i' <= i ->
    ev_at (dq_trace cap old evs) j' b' -> tid b' = tid b -> j <= j' ->
    hb (dq_trace cap old evs) i' j'.
Proof. exact dq_publication_lemma. Qed.
Print Assumptions dq_publication.

Theorem cpq_publication : forall capacity items evs c,
  Conc.exec cpq_step (cpq_init capacity items) evs = Some c ->
  forall i j a b aa wb ab i' j' a' b',
    ev_at (cpq_trace capacity items evs) i a -> access_of (act a) = Some (CPQ_HEAP, true, aa) ->
    ev_at (cpq_trace capacity items evs) j b -> access_of (act b) = Some (CPQ_HEAP, wb, ab) ->
    i < j -> tid a <> tid b ->
    ev_at (cpq_trace capacity items evs) i' a' -> tid a' = tid a -> i' <= i ->
    ev_at (cpq_trace capacity items evs) j' b' -> tid b' = tid b -> j <= j' ->
    hb (cpq_trace capacity items evs) i' j'.
Proof. exact cpq_publication_lemma. Qed.
Print Assumptions cpq_publication.

(* non-vacuity: Enqueue(7) by goroutine 1, then Dequeue by goroutine 2, complete calls *)
Example abq_publication_example :
  let tr := abq_trace 2%Z abq_pub_evs in
  (exists c, Conc.exec abq_next (abq_init 2%Z) abq_pub_evs = Some c /\ ABQModel.q_thr c = []) /\
  ev_at tr 6 (mkEv 1 (Write ABQ_DATA)) /\ ev_at tr 21 (mkEv 2 (Read ABQ_DATA)) /\ hb tr 6 21 /\ hb tr 0 33.
Proof. exact abq_pub_example_lemma. Qed.
Example lbq_publication_example :
  let tr := lbq_trace 2%Z lbq_pub_evs in
  (exists c, Conc.exec lbq_step (lbq_init 2%Z) lbq_pub_evs = Some c /\ LBQModel.q_thr c = []) /\
  ev_at tr 6 (mkEv 1 (Write LBQ_LIST)) /\ ev_at tr 15 (mkEv 2 (Read LBQ_LIST)) /\ hb tr 6 15.
Proof. exact lbq_pub_example_lemma. Qed.
Example dq_publication_example :
  let tr := dq_trace 2%Z false dq_pub_evs in
  (exists c, Conc.exec dq_step (dq_init 2%Z false) dq_pub_evs = Some c /\ DQModel.q_thr c = []) /\
  ev_at tr 2 (mkEv 1 (Write DQ_HEAP)) /\ ev_at tr 10 (mkEv 2 (Read DQ_HEAP)) /\ hb tr 2 10.
Proof. exact dq_pub_example_lemma. Qed.
Example cpq_publication_example :
  let tr := cpq_trace 4%Z [] cpq_pub_evs in
  (exists c, Conc.exec cpq_step (cpq_init 4%Z []) cpq_pub_evs = Some c /\ s_thr c = []) /\
  ev_at tr 1 (mkEv 1 (Write CPQ_HEAP)) /\ ev_at tr 4 (mkEv 2 (Write CPQ_HEAP)) /\ hb tr 1 4.
Proof. exact cpq_pub_example_lemma. Qed.

(* ================= (2) atomicx.Value ================= *)
Theorem value_trace_drf : forall evs c,
  Conc.exec (ostep value_prog) [] evs = Some c ->
  wf (value_trace evs) /\ instances_of value_table (value_trace evs) /\
  guards_respected value_table (value_trace evs) /\ ~ race (value_trace evs).
Proof. exact value_trace_drf_lemma. Qed.
Print Assumptions value_trace_drf.

Theorem value_acts_cover_table :
  forallb (fun r => forallb (fun a => existsb (fun m => existsb (action_inb a) (value_body m)) [0; 1; 2; 3])
                            (actions_of_row r)) value_table = true.
Proof. exact acts_cover_table_Value. Qed.
Print Assumptions value_acts_cover_table.

Example value_trace_example :
  let tr := value_trace value_example_evs in
  (exists c, Conc.exec (ostep value_prog) [] value_example_evs = Some c /\ c = []) /\
  tr = [mkEv 1 (AWrite V_VAL); mkEv 2 (ARead V_VAL); mkEv 3 (ARmw V_VAL); mkEv 1 (ARmw V_VAL)] /\
  hb tr 0 1 /\ hb tr 2 3 /\ wf tr /\ guards_respected value_table tr /\ ~ race tr.
Proof. exact value_example_lemma. Qed.

(* ================= syncx.Pool ================= *)
Theorem pool_wrapper_trace_drf : forall evs c,
  Conc.exec (ostep pool_prog) [] evs = Some c ->
  wf (pool_obj_trace evs) /\ instances_of pool_table (pool_obj_trace evs) /\
  guards_respected pool_table (pool_obj_trace evs) /\ ~ race (pool_obj_trace evs) /\
  Forall (fun ev => access_of (act ev) = None) (pool_obj_trace evs).
Proof. exact pool_obj_trace_drf_lemma. Qed.
Print Assumptions pool_wrapper_trace_drf.

Example pool_wrapper_trace_example :
  let tr := pool_obj_trace pool_example_evs in
  (exists c, Conc.exec (ostep pool_prog) [] pool_example_evs = Some c /\ c = []) /\
  tr = [mkEv 1 (SRel P_P); mkEv 2 (SAcq P_P)] /\ wf tr /\ ~ race tr.
Proof. exact pool_example_lemma. Qed.

(* ================= syncx.Map (model/SyncMapModel.v; Range is not part of that model) ================= *)
Theorem map_trace_drf : forall m0 evs c,
  Conc.exec sm_step (sm_init m0) evs = Some c ->
  wf (map_trace m0 evs) /\ instances_of map_table (map_trace m0 evs) /\
  guards_respected map_table (map_trace m0 evs) /\ ~ race (map_trace m0 evs) /\
  Forall (fun ev => access_of (act ev) = None) (map_trace m0 evs).
Proof. exact map_trace_drf_lemma. Qed.
Print Assumptions map_trace_drf.

Example map_trace_example :
  let tr := map_trace [] map_example_evs in
  (exists c, Conc.exec sm_step (sm_init []) map_example_evs = Some c /\ s_thr c = [] /\ s_sh c = [(1, 5)]%Z) /\
  tr = [mkEv 1 (SRel (M_KEY 1%Z)); mkEv 2 (SAcq (M_KEY 1%Z))] /\ hb tr 0 1 /\ wf tr /\ ~ race tr.
Proof. exact map_example_lemma. Qed.

(* ================= bean/copier ReflectCopier shared by goroutines ================= *)
Theorem copier_trace_drf : forall cs evs c,
  ~ In 0 cs -> Conc.exec (ostep (copier_prog cs)) [] evs = Some c ->
  wf (copier_trace cs evs) /\ ~ race (copier_trace cs evs) /\
  (forall i ev x w a, ev_at (copier_trace cs evs) i ev -> access_of (act ev) = Some (x, w, a) ->
     (i < List.length copier_ctor /\ tid ev = 0 /\ w = true) \/
     (List.length copier_ctor + List.length cs <= i /\ In (tid ev) cs /\
      (x = C_DST (tid ev) \/
       (w = false /\ exists r, In r copier_table /\ r_loc r = fst x /\ kind_matches (r_kind r) w a = true /\
                               r_guard r = GConst)))).
Proof. exact copier_trace_drf_lemma. Qed.
Print Assumptions copier_trace_drf.

Theorem copier_acts_cover_table :
  forallb (fun r => forallb (fun a => existsb (action_inb a) (copier_body 1 1)) (actions_of_row r)) copier_table = true.
Proof. exact acts_cover_table_Copier. Qed.
Print Assumptions copier_acts_cover_table.

(* the side condition is necessary *)
Theorem copier_unpublished_race : wf copier_unpublished_exec /\ race copier_unpublished_exec.
Proof. exact copier_unpublished_race_lemma. Qed.
Print Assumptions copier_unpublished_race.

Example copier_trace_example :
  let tr := copier_trace [1; 2] copier_example_evs in
  (exists c, Conc.exec (ostep (copier_prog [1; 2])) [] copier_example_evs = Some c /\ c = []) /\
  List.length tr = 54 /\
  ev_at tr 1 (mkEv 0 (Write C_NAME)) /\ ev_at tr 13 (mkEv 0 (Fork 2)) /\ ev_at tr 32 (mkEv 2 (Read C_NAME)) /\
  hb tr 1 32 /\ ev_at tr 33 (mkEv 2 (Write (C_DST 2))) /\ ev_at tr 36 (mkEv 1 (Write (C_DST 1))) /\
  wf tr /\ ~ race tr.
Proof. exact copier_example_lemma. Qed.
