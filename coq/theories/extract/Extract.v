(* Extraction of the executable models to OCaml. ExtrOcamlBasic only: bool, option,
   unit, prod, list, sumbool map to OCaml's own; nat, positive, N, Z stay Coq datatypes.
   No Extract Constant / Extract Inductive directives of our own.
   Run by ocaml/build.sh with coqc started in ocaml/gen (output lands in the cwd). *)
From Coq Require Extraction.
From Coq Require Import ExtrOcamlBasic.
From Coq Require Import ZArith NArith.
From Ekit Require Import Common ValueModel.
Extraction Language OCaml.
Separate Extraction
  Z.add Z.mul Z.sub Z.opp Z.div_eucl Z.div Z.modulo Z.of_nat Z.to_nat Z.of_N Z.to_N
  Z.eqb Z.ltb Z.leb Z.compare Nat.add
  ValueModel.access_now ValueModel.access_pinned.
