(* Proofs about SliceModel (C16), part 2: the array loops (Reverse, ReverseSelf,
   FilterDelete, Add, Delete) and the aggregates. *)
From Ekit Require Import Common SliceModel SliceProof.
From Coq Require Import ZifyBool.

(* ---------- array access inside  pre ++ x :: post ---------- *)
Lemma get_chk_mid pre x post i : i = length pre -> get_chk (pre ++ x :: post) i = Ok x.
Proof.
  intros Hi. subst i. unfold get_chk. rewrite nth_opt_nth_error, nth_error_app2 by lia.
  rewrite Nat.sub_diag. reflexivity.
Qed.

Lemma set_nth_mid (pre : list Z) x post v : set_nth (pre ++ x :: post) (length pre) v = pre ++ v :: post.
Proof.
  induction pre as [|a t IH]; cbn [app length set_nth]; [reflexivity|]. rewrite IH. reflexivity.
Qed.

Lemma set_chk_mid pre x post i v : i = length pre -> set_chk (pre ++ x :: post) i v = Ok (pre ++ v :: post).
Proof.
  intros Hi. subst i. unfold set_chk.
  assert (Hlt : (length pre <? length (pre ++ x :: post))%nat = true).
  { apply Nat.ltb_lt. rewrite app_length. cbn [length]. lia. }
  rewrite Hlt, set_nth_mid. reflexivity.
Qed.

Lemma list_snoc_case (l : list Z) : l = [] \/ exists l' a, l = l' ++ [a].
Proof.
  induction l as [|a l' _] using rev_ind; [left; reflexivity|right; exists l', a; reflexivity].
Qed.

(* ---------- Reverse ---------- *)
Lemma firstn_S_nth (l : list Z) : forall i v, nth_opt l i = Some v -> firstn (S i) l = firstn i l ++ [v].
Proof.
  induction l as [|a t IH]; intros [|i] v Hv; cbn [nth_opt] in Hv; try discriminate.
  - injection Hv as Hv. subst v. reflexivity.
  - cbn [firstn app]. f_equal. apply IH. exact Hv.
Qed.

Lemma reverse_loop_spec src : forall n ret, (n <= length src)%nat ->
  reverse_loop src n ret = Ok (ret ++ rev (firstn n src)).
Proof.
  induction n as [|i IH]; intros ret Hn; cbn [reverse_loop].
  - cbn [firstn rev]. rewrite app_nil_r. reflexivity.
  - destruct (nth_opt_lt_Some src i) as [v Hv]; [lia|].
    unfold get_chk. rewrite Hv. cbn [obind]. rewrite IH by lia.
    rewrite (firstn_S_nth src i v Hv), rev_app_distr. cbn [rev app]. rewrite <- app_assoc. reflexivity.
Qed.

Lemma reverse_lemma src : reverse src = Ok (rev src).
Proof. unfold reverse. rewrite reverse_loop_spec by lia. rewrite firstn_all. reflexivity. Qed.

(* ---------- ReverseSelf ---------- *)
Lemma reverse_self_loop_spec : forall fuel mid pre post, (length mid <= fuel)%nat ->
  reverse_self_loop fuel (pre ++ mid ++ post) (Z.of_nat (length pre))
                    (Z.of_nat (length pre) + Z.of_nat (length mid) - 1) = Ok (pre ++ rev mid ++ post).
Proof.
  induction fuel as [|f IH]; intros mid pre post Hf.
  - destruct mid as [|x m]; [|cbn [length] in Hf; lia].
    cbn [reverse_self_loop length rev app].
    assert (Hlt : (Z.of_nat (length pre) <? Z.of_nat (length pre) + Z.of_nat 0 - 1) = false) by lia.
    rewrite Hlt. reflexivity.
  - destruct mid as [|x m].
    + cbn [reverse_self_loop length rev app].
      assert (Hlt : (Z.of_nat (length pre) <? Z.of_nat (length pre) + Z.of_nat 0 - 1) = false) by lia.
      rewrite Hlt. reflexivity.
    + destruct (list_snoc_case m) as [Hm|[m' [y Hm]]]; subst m.
      * cbn [reverse_self_loop length rev app].
        assert (Hlt : (Z.of_nat (length pre) <? Z.of_nat (length pre) + Z.of_nat 1 - 1) = false) by lia.
        rewrite Hlt. reflexivity.
      * cbn [reverse_self_loop].
        assert (Hlen : length (x :: m' ++ [y]) = S (S (length m'))).
        { cbn [length]. rewrite app_length. cbn [length]. lia. }
        rewrite Hlen in *.
        assert (Hlt : (Z.of_nat (length pre) <? Z.of_nat (length pre) + Z.of_nat (S (S (length m'))) - 1) = true) by lia.
        rewrite Hlt.
        assert (Ha1 : pre ++ (x :: m' ++ [y]) ++ post = pre ++ x :: (m' ++ y :: post)).
        { cbn [app]. rewrite <- app_assoc. reflexivity. }
        rewrite Ha1.
        rewrite (get_chk_mid pre x (m' ++ y :: post)) by (rewrite Nat2Z.id; reflexivity).
        cbn [obind].
        assert (Ha2 : pre ++ x :: (m' ++ y :: post) = (pre ++ x :: m') ++ y :: post).
        { rewrite <- app_assoc. reflexivity. }
        assert (Hj : Z.to_nat (Z.of_nat (length pre) + Z.of_nat (S (S (length m'))) - 1) = length (pre ++ x :: m')).
        { rewrite app_length. cbn [length]. lia. }
        rewrite Ha2 at 1. rewrite (get_chk_mid (pre ++ x :: m') y post) by exact Hj.
        cbn [obind].
        rewrite (set_chk_mid pre x (m' ++ y :: post)) by (rewrite Nat2Z.id; reflexivity).
        cbn [obind].
        assert (Ha3 : pre ++ y :: (m' ++ y :: post) = (pre ++ y :: m') ++ y :: post).
        { rewrite <- app_assoc. reflexivity. }
        assert (Hj' : Z.to_nat (Z.of_nat (length pre) + Z.of_nat (S (S (length m'))) - 1) = length (pre ++ y :: m')).
        { rewrite app_length. cbn [length]. lia. }
        rewrite Ha3. rewrite (set_chk_mid (pre ++ y :: m') y post) by exact Hj'.
        cbn [obind].
        assert (Ha4 : (pre ++ y :: m') ++ x :: post = (pre ++ [y]) ++ m' ++ (x :: post)).
        { rewrite <- !app_assoc. reflexivity. }
        rewrite Ha4.
        replace (Z.of_nat (length pre) + 1) with (Z.of_nat (length (pre ++ [y])))
          by (rewrite app_length; cbn [length]; lia).
        replace (Z.of_nat (length pre) + Z.of_nat (S (S (length m'))) - 1 - 1)
          with (Z.of_nat (length (pre ++ [y])) + Z.of_nat (length m') - 1)
          by (rewrite app_length; cbn [length]; lia).
        rewrite IH by lia.
        cbn [rev]. rewrite rev_app_distr. cbn [rev app]. rewrite <- !app_assoc. reflexivity.
Qed.

Lemma reverse_self_lemma src : reverse_self src = Ok (rev src).
Proof.
  unfold reverse_self.
  pose proof (reverse_self_loop_spec (length src) src [] [] (le_n _)) as H.
  cbn [app length] in H. rewrite !app_nil_r in H.
  replace (Z.of_nat (length src) - 1) with (Z.of_nat 0 + Z.of_nat (length src) - 1) by lia.
  exact H.
Qed.

(* ---------- FilterDelete ---------- *)
Section FilterDeleteProof.
  Variable mp : Z -> Z -> bool.

  (* the elements that stay: those whose (index, value) does NOT satisfy the predicate *)
  Definition fd_keep (k : nat) (rest : list Z) : list Z :=
    map snd (filter (fun iv => negb (mp (fst iv) (snd iv))) (combine (map Z.of_nat (seq k (length rest))) rest)).

  Lemma fd_keep_cons k v r :
    fd_keep k (v :: r) = if mp (Z.of_nat k) v then fd_keep (S k) r else v :: fd_keep (S k) r.
  Proof.
    unfold fd_keep. cbn [length seq map combine filter fst snd].
    destruct (mp (Z.of_nat k) v); reflexivity.
  Qed.

  Lemma filter_delete_loop_spec : forall rest kept junk,
    filter_delete_loop mp (kept ++ junk ++ rest) (length kept) (length kept + length junk) (length rest) =
    Ok (kept ++ fd_keep (length kept + length junk) rest ++
             skipn (length (fd_keep (length kept + length junk) rest)) (junk ++ rest),
        (length kept + length (fd_keep (length kept + length junk) rest))%nat).
  Proof.
    induction rest as [|v r IH]; intros kept junk.
    - cbn [filter_delete_loop length]. unfold fd_keep. cbn [length seq map combine filter app skipn].
      rewrite Nat.add_0_r. reflexivity.
    - cbn [length filter_delete_loop].
      assert (Ha : kept ++ junk ++ v :: r = (kept ++ junk) ++ v :: r) by (rewrite app_assoc; reflexivity).
      rewrite Ha at 1.
      rewrite (get_chk_mid (kept ++ junk) v r) by (rewrite app_length; reflexivity).
      cbn [obind]. rewrite fd_keep_cons.
      destruct (mp (Z.of_nat (length kept + length junk)) v) eqn:Hp.
      + (* deleted: the slot becomes junk *)
        assert (Hb : kept ++ junk ++ v :: r = kept ++ (junk ++ [v]) ++ r).
        { rewrite <- !app_assoc. reflexivity. }
        rewrite Hb.
        replace (S (length kept + length junk)) with (length kept + length (junk ++ [v]))%nat
          by (rewrite app_length; cbn [length]; lia).
        rewrite IH. rewrite <- !app_assoc. reflexivity.
      + destruct junk as [|j js].
        * cbn [app length]. rewrite Nat.add_0_r.
          rewrite (set_chk_mid kept v r) by reflexivity. cbn [obind].
          assert (Hb : kept ++ v :: r = (kept ++ [v]) ++ [] ++ r) by (rewrite <- app_assoc; reflexivity).
          rewrite Hb.
          replace (S (length kept)) with (length (kept ++ [v])) by (rewrite app_length; cbn [length]; lia).
          replace (length (kept ++ [v])) with (length (kept ++ [v]) + length (@nil Z))%nat at 2
            by (cbn [length]; lia).
          rewrite IH. cbn [app length skipn]. rewrite Nat.add_0_r.
          rewrite <- app_assoc. cbn [app].
          f_equal. f_equal. rewrite app_length. cbn [length]. lia.
        * cbn [app].
          rewrite (set_chk_mid kept j (js ++ v :: r)) by reflexivity. cbn [obind].
          assert (Hb : kept ++ v :: js ++ v :: r = (kept ++ [v]) ++ (js ++ [v]) ++ r).
          { rewrite <- !app_assoc. reflexivity. }
          rewrite Hb.
          replace (S (length kept)) with (length (kept ++ [v])) by (rewrite app_length; cbn [length]; lia).
          replace (S (length kept + length (j :: js))) with (length (kept ++ [v]) + length (js ++ [v]))%nat
            by (rewrite !app_length; cbn [length]; lia).
          rewrite IH.
          replace (length (kept ++ [v]) + length (js ++ [v]))%nat with (S (length kept + length (j :: js)))
            by (rewrite !app_length; cbn [length]; lia).
          cbn [length skipn]. rewrite <- !app_assoc. cbn [app].
          f_equal. f_equal. rewrite app_length. cbn [length]. lia.
  Qed.

  (* FilterDelete never panics; the result is the filter of the negated predicate and the
     argument afterwards holds the result followed by its own untouched tail *)
  Lemma filter_delete_lemma src :
    filter_delete mp src = Ok (fd_keep 0 src, fd_keep 0 src ++ skipn (length (fd_keep 0 src)) src).
  Proof.
    unfold filter_delete.
    pose proof (filter_delete_loop_spec src [] []) as H. cbn [app length Nat.add] in H.
    rewrite H. cbn [obind fst snd].
    rewrite firstn_app, firstn_all, Nat.sub_diag. cbn [firstn]. rewrite app_nil_r. reflexivity.
  Qed.
End FilterDeleteProof.

Lemma fd_keep_enumerate mp src :
  fd_keep mp 0 src = map snd (filter (fun iv => negb (mp (fst iv) (snd iv))) (enumerate src)).
Proof. reflexivity. Qed.

(* when the predicate ignores the index this is List.filter *)
Lemma fd_keep_noidx (p : Z -> bool) src : forall k,
  fd_keep (fun _ v => p v) k src = filter (fun v => negb (p v)) src.
Proof.
  induction src as [|v r IH]; intros k; [reflexivity|].
  rewrite fd_keep_cons, IH. cbn [filter]. destruct (p v); reflexivity.
Qed.

(* ---------- Add ---------- *)
Lemma shift_right_spec : forall t pre z post,
  shift_right (pre ++ t ++ z :: post) (length pre) (length t) = Ok (pre ++ hd z t :: t ++ post).
Proof.
  induction t as [|x t' IH] using rev_ind; intros pre z post.
  - reflexivity.
  - rewrite app_length. cbn [length]. rewrite Nat.add_1_r. cbn [shift_right].
    assert (Ha1 : pre ++ (t' ++ [x]) ++ z :: post = (pre ++ t') ++ x :: z :: post).
    { rewrite <- !app_assoc. reflexivity. }
    rewrite Ha1 at 1.
    rewrite (get_chk_mid (pre ++ t') x (z :: post)) by (rewrite app_length; lia).
    cbn [obind].
    assert (Ha2 : pre ++ (t' ++ [x]) ++ z :: post = (pre ++ t' ++ [x]) ++ z :: post).
    { rewrite <- !app_assoc. reflexivity. }
    rewrite Ha2.
    rewrite (set_chk_mid (pre ++ t' ++ [x]) z post) by (rewrite !app_length; cbn [length]; lia).
    cbn [obind].
    assert (Ha3 : (pre ++ t' ++ [x]) ++ x :: post = pre ++ t' ++ x :: (x :: post)).
    { rewrite <- !app_assoc. reflexivity. }
    rewrite Ha3, IH.
    assert (Hhd : hd z (t' ++ [x]) = hd x t') by (destruct t'; reflexivity).
    rewrite Hhd, <- !app_assoc. reflexivity.
Qed.

(* inserting at position |pre| *)
Lemma add_at_lemma pre t e : add (pre ++ t) e (Z.of_nat (length pre)) = Ok (pre ++ e :: t).
Proof.
  unfold add.
  assert (Hr : (Z.of_nat (length pre) <? 0) || (Z.of_nat (length pre) >? Z.of_nat (length (pre ++ t))) = false).
  { rewrite app_length. lia. }
  rewrite Hr, Nat2Z.id.
  assert (Hn : (length ((pre ++ t) ++ [0%Z]) - 1 - length pre)%nat = length t).
  { rewrite !app_length. cbn [length]. lia. }
  rewrite Hn.
  assert (Ha : (pre ++ t) ++ [0] = pre ++ t ++ 0 :: []) by (rewrite <- app_assoc; reflexivity).
  rewrite Ha, shift_right_spec. cbn [obind].
  rewrite (set_chk_mid pre (hd 0 t) (t ++ [])) by reflexivity. rewrite app_nil_r. reflexivity.
Qed.

Lemma add_lemma src e index :
  add src e index =
  if (0 <=? index) && (index <=? Z.of_nat (length src))
  then Ok (firstn (Z.to_nat index) src ++ e :: skipn (Z.to_nat index) src)
  else Err EIndex.
Proof.
  destruct ((0 <=? index) && (index <=? Z.of_nat (length src))) eqn:Hr.
  - pose proof (add_at_lemma (firstn (Z.to_nat index) src) (skipn (Z.to_nat index) src) e) as H.
    rewrite firstn_skipn in H. rewrite firstn_length_le in H by lia.
    rewrite Z2Nat.id in H by lia. exact H.
  - unfold add.
    assert (Hb : (index <? 0) || (index >? Z.of_nat (length src)) = true) by lia.
    rewrite Hb. reflexivity.
Qed.

(* ---------- Delete ---------- *)
Lemma last_cons_default (t : list Z) : forall y x, last (y :: t) x = last t y.
Proof.
  induction t as [|a t' IH]; intros y x; [reflexivity|].
  change (last (y :: a :: t') x) with (last (a :: t') x). rewrite (IH a x), (IH a y). reflexivity.
Qed.

Lemma last_mid (pre : list Z) : forall x t d, last (pre ++ x :: t) d = last t x.
Proof.
  induction pre as [|a p IH]; intros x t d.
  - apply last_cons_default.
  - cbn [app]. rewrite last_cons_default. apply IH.
Qed.

Lemma shift_left_spec : forall t pre x,
  shift_left (pre ++ x :: t) (length pre) (length t) = Ok (pre ++ t ++ [last t x]).
Proof.
  induction t as [|y t' IH]; intros pre x.
  - reflexivity.
  - cbn [length shift_left].
    assert (Ha1 : pre ++ x :: y :: t' = (pre ++ [x]) ++ y :: t') by (rewrite <- app_assoc; reflexivity).
    rewrite Ha1 at 1.
    rewrite (get_chk_mid (pre ++ [x]) y t') by (rewrite app_length; cbn [length]; lia).
    cbn [obind].
    rewrite (set_chk_mid pre x (y :: t')) by reflexivity. cbn [obind].
    assert (Ha2 : pre ++ y :: y :: t' = (pre ++ [y]) ++ y :: t') by (rewrite <- app_assoc; reflexivity).
    rewrite Ha2.
    replace (S (length pre)) with (length (pre ++ [y])) by (rewrite app_length; cbn [length]; lia).
    rewrite IH, last_cons_default, <- !app_assoc. reflexivity.
Qed.

(* deleting position |pre|: result, removed element, and what the argument shows afterwards *)
Lemma delete_at_lemma pre x t :
  delete_internal (pre ++ x :: t) (Z.of_nat (length pre)) = Ok (pre ++ t, x, pre ++ t ++ [last t x]).
Proof.
  unfold delete_internal.
  assert (Hr : (Z.of_nat (length pre) <? 0) || (Z.of_nat (length pre) >=? Z.of_nat (length (pre ++ x :: t))) = false).
  { rewrite app_length. cbn [length]. lia. }
  rewrite Hr, Nat2Z.id. rewrite (get_chk_mid pre x t) by reflexivity. cbn [obind].
  assert (Hn : (length (pre ++ x :: t) - 1 - length pre)%nat = length t).
  { rewrite app_length. cbn [length]. lia. }
  rewrite Hn, shift_left_spec. cbn [obind].
  assert (Hl : (length (pre ++ x :: t) - 1)%nat = length (pre ++ t)).
  { rewrite !app_length. cbn [length]. lia. }
  rewrite Hl, app_assoc, firstn_app, firstn_all, Nat.sub_diag. cbn [firstn]. rewrite app_nil_r.
  rewrite <- app_assoc. reflexivity.
Qed.

Lemma split_at (src : list Z) i : (i < length src)%nat ->
  exists x, src = firstn i src ++ x :: skipn (S i) src.
Proof.
  revert i. induction src as [|a t IH]; intros i Hi; [cbn [length] in Hi; lia|].
  destruct i as [|i].
  - exists a. reflexivity.
  - destruct (IH i) as [x Hx]; [cbn [length] in Hi; lia|]. exists x.
    cbn [firstn skipn app]. f_equal. exact Hx.
Qed.

Lemma delete_lemma src index :
  match delete src index with
  | Ok (r, after) =>
      0 <= index < Z.of_nat (length src) /\
      r = firstn (Z.to_nat index) src ++ skipn (S (Z.to_nat index)) src /\
      after = r ++ [last src 0]
  | Err e => e = EIndex /\ (index < 0 \/ index >= Z.of_nat (length src))
  | Panic => False
  end.
Proof.
  destruct ((0 <=? index) && (index <? Z.of_nat (length src))) eqn:Hr.
  - destruct (split_at src (Z.to_nat index)) as [x Hx]; [lia|].
    pose proof (delete_at_lemma (firstn (Z.to_nat index) src) x (skipn (S (Z.to_nat index)) src)) as H.
    rewrite <- Hx in H. rewrite firstn_length_le in H by lia. rewrite Z2Nat.id in H by lia.
    unfold delete. rewrite H. cbn [obind fst snd].
    split; [lia|]. split; [reflexivity|].
    rewrite <- app_assoc. f_equal. f_equal. f_equal.
    rewrite Hx at 2. symmetry. apply last_mid.
  - unfold delete, delete_internal.
    assert (Hb : (index <? 0) || (index >=? Z.of_nat (length src)) = true) by lia.
    rewrite Hb. cbn [obind]. split; [reflexivity|lia].
Qed.

(* Delete undoes Add at the same index *)
Lemma add_delete_roundtrip_lemma src e index r :
  add src e index = Ok r ->
  exists after, delete_internal r index = Ok (src, e, after).
Proof.
  rewrite add_lemma. destruct ((0 <=? index) && (index <=? Z.of_nat (length src))) eqn:Hr; [|discriminate].
  intros H. injection H as H. subst r.
  pose proof (delete_at_lemma (firstn (Z.to_nat index) src) e (skipn (Z.to_nat index) src)) as Hd.
  rewrite firstn_length_le in Hd by lia. rewrite Z2Nat.id in Hd by lia.
  rewrite firstn_skipn in Hd. eexists. exact Hd.
Qed.

(* ---------- Max / Min / Sum ---------- *)
Lemma fold_max_spec t : forall x,
  let m := fold_left (fun res v => if v >? res then v else res) t x in
  In m (x :: t) /\ forall y, In y (x :: t) -> y <= m.
Proof.
  induction t as [|a t' IH]; intros x; cbn [fold_left].
  - split; [left; reflexivity|]. intros y [Hy|[]]. lia.
  - destruct (IH (if a >? x then a else x)) as [Hin Hub]. cbn zeta. split.
    + destruct Hin as [He|Hin]; [|right; right; exact Hin].
      rewrite <- He. destruct (a >? x); [right; left; reflexivity|left; reflexivity].
    + intros y Hy.
      assert (Hstep : x <= (if a >? x then a else x) /\ a <= (if a >? x then a else x)).
      { destruct (a >? x) eqn:Hc; lia. }
      destruct Hy as [Hy|[Hy|Hy]].
      * subst y. etransitivity; [exact (proj1 Hstep)|]. apply Hub. left. reflexivity.
      * subst y. etransitivity; [exact (proj2 Hstep)|]. apply Hub. left. reflexivity.
      * apply Hub. right. exact Hy.
Qed.

Lemma fold_min_spec t : forall x,
  let m := fold_left (fun res v => if v <? res then v else res) t x in
  In m (x :: t) /\ forall y, In y (x :: t) -> m <= y.
Proof.
  induction t as [|a t' IH]; intros x; cbn [fold_left].
  - split; [left; reflexivity|]. intros y [Hy|[]]. lia.
  - destruct (IH (if a <? x then a else x)) as [Hin Hlb]. cbn zeta. split.
    + destruct Hin as [He|Hin]; [|right; right; exact Hin].
      rewrite <- He. destruct (a <? x); [right; left; reflexivity|left; reflexivity].
    + intros y Hy.
      assert (Hstep : (if a <? x then a else x) <= x /\ (if a <? x then a else x) <= a).
      { destruct (a <? x) eqn:Hc; lia. }
      destruct Hy as [Hy|[Hy|Hy]].
      * subst y. etransitivity; [|exact (proj1 Hstep)]. apply Hlb. left. reflexivity.
      * subst y. etransitivity; [|exact (proj2 Hstep)]. apply Hlb. left. reflexivity.
      * apply Hlb. right. exact Hy.
Qed.

Lemma max_slice_lemma ts :
  match max_slice ts with
  | Ok m => In m ts /\ forall y, In y ts -> y <= m
  | Err _ => False
  | Panic => ts = []
  end.
Proof. destruct ts as [|x t]; cbn [max_slice]; [reflexivity|]. apply fold_max_spec. Qed.

Lemma min_slice_lemma ts :
  match min_slice ts with
  | Ok m => In m ts /\ forall y, In y ts -> m <= y
  | Err _ => False
  | Panic => ts = []
  end.
Proof. destruct ts as [|x t]; cbn [min_slice]; [reflexivity|]. apply fold_min_spec. Qed.

Definition zsum (l : list Z) : Z := fold_right Z.add 0 l.

Lemma wrap_s_mod a : (wrap_s 64 a) mod 2 ^ 64 = a mod 2 ^ 64.
Proof.
  unfold wrap_s. cbn zeta. destruct (a mod 2 ^ 64 <? 2 ^ (64 - 1)).
  - apply Z.mod_mod. lia.
  - replace (a mod 2 ^ 64 - 2 ^ 64) with (a mod 2 ^ 64 + (-1) * 2 ^ 64) by lia.
    rewrite Z_mod_plus_full. apply Z.mod_mod. lia.
Qed.

Lemma wrap_s_congr x y : x mod 2 ^ 64 = y mod 2 ^ 64 -> wrap_s 64 x = wrap_s 64 y.
Proof. intros H. unfold wrap_s. rewrite H. reflexivity. Qed.

Lemma sum_fold_spec l : forall acc z, acc = wrap_s 64 z ->
  fold_left (fun res n => wrap_s 64 (res + n)) l acc = wrap_s 64 (z + zsum l).
Proof.
  induction l as [|n t IH]; intros acc z Hacc; cbn [fold_left zsum fold_right].
  - rewrite Z.add_0_r. exact Hacc.
  - rewrite (IH _ (z + n)).
    + f_equal. unfold zsum. lia.
    + subst acc. apply wrap_s_congr.
      rewrite <- Z.add_mod_idemp_l by lia. rewrite wrap_s_mod. rewrite Z.add_mod_idemp_l by lia. reflexivity.
Qed.

(* Sum is the mathematical sum reduced to a signed 64-bit int ... *)
Lemma sum_slice_wrap_lemma ts : sum_slice ts = wrap_s 64 (zsum ts).
Proof. unfold sum_slice. rewrite (sum_fold_spec ts 0 0); [reflexivity|reflexivity]. Qed.

Lemma wrap_s_small z : in_s 64 z = true -> wrap_s 64 z = z.
Proof.
  unfold in_s, wrap_s. change (2 ^ (64 - 1)) with 9223372036854775808.
  change (2 ^ 64) with 18446744073709551616. cbn zeta. intros H.
  assert (Hr : -9223372036854775808 <= z < 9223372036854775808) by lia.
  destruct (Z_lt_le_dec z 0) as [Hneg|Hpos].
  - assert (Hm : z mod 18446744073709551616 = z + 18446744073709551616).
    { symmetry. apply (Z.mod_unique _ _ (-1)); lia. }
    rewrite Hm.
    assert (Hc : (z + 18446744073709551616 <? 9223372036854775808) = false) by lia.
    rewrite Hc. lia.
  - rewrite Z.mod_small by lia.
    assert (Hc : (z <? 9223372036854775808) = true) by lia. rewrite Hc. reflexivity.
Qed.

(* ... hence exact whenever the mathematical sum fits in 64 bits *)
Lemma sum_slice_exact_lemma ts : in_s 64 (zsum ts) = true -> sum_slice ts = zsum ts.
Proof. intros H. rewrite sum_slice_wrap_lemma. apply wrap_s_small. exact H. Qed.
