(* Proofs about RetryLSModel (C19, lock-step slice): the statement-granular interleaving model of
   the two Next functions REFINES RetryModel's three-step concurrent semantics, so the theorems
   proved there for every schedule (budget_exact, interval_in_bounds) hold for every interleaving
   of the individual Go statements.  The property theorems in props/C19_ls.v are `exact` these. *)
From Ekit Require Import Common Conc RetryModel RetryProof RetryLSModel.
From Coq Require Import ZifyBool Arith PeanoNat Permutation.

(* ---------- thread tables (Conc) and per-thread projections ---------- *)
Section FlatMap.
  Variables (A B : Type) (f : tid * A -> list B).

  Lemma fm_remove t a l :
    Conc.lookup t l = Some a ->
    Permutation (flat_map f l) (f (t, a) ++ flat_map f (Conc.remove t l)).
  Proof.
    induction l as [|[u b] l IH]; cbn [Conc.lookup Conc.remove flat_map]; [discriminate|].
    destruct (Nat.eqb t u) eqn:E.
    - intros H. injection H as ->. apply Nat.eqb_eq in E. subst u. reflexivity.
    - intros H. cbn [flat_map]. rewrite (IH H). rewrite !app_assoc.
      apply Permutation_app_tail. apply Permutation_app_comm.
  Qed.

  Lemma fm_update t a a' l :
    Conc.lookup t l = Some a ->
    Permutation (flat_map f (Conc.update t a' l)) (f (t, a') ++ flat_map f (Conc.remove t l)).
  Proof.
    induction l as [|[u b] l IH]; cbn [Conc.lookup Conc.remove Conc.update flat_map]; [discriminate|].
    destruct (Nat.eqb t u) eqn:E.
    - intros _. apply Nat.eqb_eq in E. subst u. reflexivity.
    - intros H. cbn [flat_map]. rewrite (IH H). rewrite !app_assoc.
      apply Permutation_app_tail. apply Permutation_app_comm.
  Qed.

  Lemma fm_spawn t a l : flat_map f (spawn t a l) = flat_map f l ++ f (t, a).
  Proof. unfold spawn. rewrite flat_map_app. cbn [flat_map]. rewrite app_nil_r. reflexivity. Qed.
End FlatMap.

Lemma notin_tids_remove (A : Type) t (a : A) l :
  NoDup (tids l) -> Conc.lookup t l = Some a -> ~ In t (tids (Conc.remove t l)).
Proof.
  induction l as [|[u b] l IH]; cbn [Conc.lookup Conc.remove tids map fst]; [discriminate|].
  intros Hnd Hl. inversion Hnd as [|x xs Hx Hxs]; subst.
  destruct (Nat.eqb t u) eqn:E.
  - apply Nat.eqb_eq in E. subst u. exact Hx.
  - apply Nat.eqb_neq in E. cbn [tids map fst]. intros [Heq|Hin]; [congruence|].
    exact (IH Hxs Hl Hin).
Qed.

Lemma forall_update (A : Type) (P : tid * A -> Prop) t a l :
  Forall P l -> P (t, a) -> Forall P (Conc.update t a l).
Proof.
  intros Hl Ha. induction l as [|[u b] l IH]; cbn [Conc.update]; [constructor|].
  inversion Hl as [|x xs Hx Hxs]; subst.
  destruct (Nat.eqb t u) eqn:E.
  - apply Nat.eqb_eq in E. subst u. constructor; assumption.
  - constructor; [exact Hx|exact (IH Hxs)].
Qed.

Lemma forall_remove_thr (A : Type) (P : tid * A -> Prop) t l :
  Forall P l -> Forall P (Conc.remove t l).
Proof.
  intros Hl. induction l as [|[u b] l IH]; cbn [Conc.remove]; [constructor|].
  inversion Hl as [|x xs Hx Hxs]; subst.
  destruct (Nat.eqb t u); [exact Hxs|constructor; [exact Hx|exact (IH Hxs)]].
Qed.

Lemma forall_lookup (A : Type) (P : tid * A -> Prop) t a l :
  Forall P l -> Conc.lookup t l = Some a -> P (t, a).
Proof.
  intros Hl. induction l as [|[u b] l IH]; cbn [Conc.lookup]; [discriminate|].
  inversion Hl as [|x xs Hx Hxs]; subst.
  destruct (Nat.eqb t u) eqn:E.
  - intros H. injection H as ->. apply Nat.eqb_eq in E. subst u. exact Hx.
  - exact (IH Hxs).
Qed.

Lemma nodup_update (A : Type) t (a : A) l : NoDup (tids l) -> NoDup (tids (Conc.update t a l)).
Proof. rewrite tids_update. auto. Qed.

Lemma inflight_keys p l u : In u (map fst (ls_inflight p l)) -> In u (tids l).
Proof.
  unfold ls_inflight. induction l as [|[w pc] l IH]; cbn [flat_map tids map fst]; [auto|].
  rewrite map_app, in_app_iff. intros [H|H]; [|right; exact (IH H)].
  unfold ls_fl1 in H. cbn [fst snd] in H. destruct (ls_fl p pc); cbn in H; [|tauto].
  destruct H as [H|[]]. left. exact H.
Qed.

(* ---------- RetryModel's table of calls in flight, up to permutation ---------- *)
Lemma rm_lookup_unique t x l :
  In (t, x) l -> (forall y, In (t, y) l -> y = x) -> lookup t l = Some x.
Proof.
  induction l as [|[u z] l IH]; cbn [lookup]; [intros []|].
  intros Hin Huniq. destruct (Nat.eqb u t) eqn:E.
  - apply Nat.eqb_eq in E. subst u. f_equal. apply Huniq. left. reflexivity.
  - apply Nat.eqb_neq in E. apply IH.
    + destruct Hin as [Heq|Hin]; [congruence|exact Hin].
    + intros y Hy. apply Huniq. right. exact Hy.
Qed.

Lemma rm_lookup_notin t l : ~ In t (map fst l) -> lookup t l = None.
Proof.
  induction l as [|[u z] l IH]; cbn [lookup map fst]; [reflexivity|].
  intros Hn. destruct (Nat.eqb u t) eqn:E.
  - apply Nat.eqb_eq in E. subst u. exfalso. apply Hn. left. reflexivity.
  - apply IH. intros H. apply Hn. right. exact H.
Qed.

Lemma rm_remove_perm t l l' : Permutation l l' -> Permutation (remove t l) (remove t l').
Proof.
  unfold remove. intros H. induction H as [|x l l' H IH|x y l|l l' l'' H1 IH1 H2 IH2]; cbn [filter].
  - constructor.
  - destruct (negb (Nat.eqb (fst x) t)); [constructor|]; exact IH.
  - destruct (negb (Nat.eqb (fst x) t)), (negb (Nat.eqb (fst y) t)); try reflexivity. constructor.
  - exact (perm_trans IH1 IH2).
Qed.

Lemma rm_view_none t fl rest :
  Permutation fl rest -> ~ In t (map fst rest) ->
  lookup t fl = None /\ Permutation (remove t fl) rest.
Proof.
  intros Hp Hn. split.
  - apply rm_lookup_notin. intros H. apply Hn.
    exact (Permutation_in _ (Permutation_map fst Hp) H).
  - rewrite (rm_remove_perm t _ _ Hp). rewrite remove_notin by exact Hn. reflexivity.
Qed.

Lemma rm_view_some t x fl rest :
  Permutation fl ((t, x) :: rest) -> ~ In t (map fst rest) ->
  lookup t fl = Some x /\ Permutation (remove t fl) rest.
Proof.
  intros Hp Hn. split.
  - apply rm_lookup_unique.
    + apply (Permutation_in _ (Permutation_sym Hp)). left. reflexivity.
    + intros y Hy. pose proof (Permutation_in _ Hp Hy) as [Heq|Hin]; [congruence|].
      exfalso. apply Hn. apply in_map_iff. exists (t, y). split; [reflexivity|exact Hin].
  - rewrite (rm_remove_perm t _ _ Hp). unfold remove at 1. cbn [filter fst].
    rewrite Nat.eqb_refl. cbn [negb]. fold (remove t rest).
    rewrite remove_notin by exact Hn. reflexivity.
Qed.

Lemma count_ok_app h1 h2 : count_ok (h1 ++ h2) = (count_ok h1 + count_ok h2)%nat.
Proof. unfold count_ok. rewrite filter_app, app_length. reflexivity. Qed.

Lemma count_ok_perm h1 h2 : Permutation h1 h2 -> count_ok h1 = count_ok h2.
Proof.
  intros H. induction H as [|x l l' H IH|x y l|l l' l'' H1 IH1 H2 IH2].
  - reflexivity.
  - rewrite !count_ok_cons. rewrite IH. reflexivity.
  - rewrite !count_ok_cons. lia.
  - congruence.
Qed.

(* ---------- well-formedness of the statement-level configurations ---------- *)
Record ls_wf (p : params) (c : ls_cfg) : Prop := {
  wf_nodup : NoDup (tids (ls_thr c));
  wf_pc : Forall (fun x => ls_pc_ok p (snd x)) (ls_thr c)
}.

Lemma ls_wf_init p : ls_wf p ls_init.
Proof. split; cbn; constructor. Qed.

Ltac wf_goto Hnd Hpc :=
  split; cbn [ls_thr]; [apply nodup_update; exact Hnd|apply forall_update; [exact Hpc|cbn; auto]].
Ltac wf_ret Hnd Hpc :=
  split; cbn [ls_thr]; [apply nodup_remove; exact Hnd|apply forall_remove_thr; exact Hpc].

Lemma ls_wf_step p c e c' : ls_wf p c -> ls_step p c e = Some c' -> ls_wf p c'.
Proof.
  intros [Hnd Hpc] Hstep. unfold ls_step in Hstep.
  destruct e as [t|t]; cbn [ls_exec1] in Hstep.
  - destruct (Conc.lookup t (ls_thr c)) eqn:El; [discriminate|]. injection Hstep as <-.
    split; cbn [ls_thr].
    + apply nodup_spawn; assumption.
    + unfold spawn. apply Forall_app. split; [exact Hpc|]. constructor; [cbn; auto|constructor].
  - destruct (Conc.lookup t (ls_thr c)) as [pc0|] eqn:El; [|discriminate].
    unfold ls_goto, ls_ret in Hstep.
    destruct pc0 as [|r|r|r|r|r|r|r|r|r|r|r].
    + injection Hstep as <-. wf_goto Hnd Hpc.
    + destruct (budget_ok p r); [destruct (p_kind p)|]; injection Hstep as <-; wf_goto Hnd Hpc.
    + destruct (p_kind p) as [v|]; [|discriminate].
      destruct (reached (ls_st c)); injection Hstep as <-; [wf_goto Hnd Hpc|].
      destruct v; wf_goto Hnd Hpc.
    + injection Hstep as <-. wf_ret Hnd Hpc.
    + injection Hstep as <-. wf_goto Hnd Hpc.
    + injection Hstep as <-. wf_goto Hnd Hpc.
    + destruct (p_kind p) as [v|] eqn:Ek; [|discriminate].
      destruct (snd (compute v p r)) eqn:Eo; injection Hstep as <-; [|wf_goto Hnd Hpc].
      split; cbn [ls_thr]; [apply nodup_update; exact Hnd|].
      apply forall_update; [exact Hpc|]. cbn. exists v. split; [exact Ek|exact Eo].
    + injection Hstep as <-. wf_goto Hnd Hpc.
    + injection Hstep as <-. wf_ret Hnd Hpc.
    + destruct (p_kind p) as [v|]; [|discriminate]. injection Hstep as <-. wf_ret Hnd Hpc.
    + injection Hstep as <-. wf_ret Hnd Hpc.
    + injection Hstep as <-. wf_ret Hnd Hpc.
Qed.

Lemma ls_wf_exec p evs c :
  Conc.exec (ls_step p) ls_init evs = Some c -> ls_wf p c.
Proof.
  apply (invariant_reachable _ _ (ls_step p) (ls_wf p)).
  - intros c0 e c1. apply ls_wf_step.
  - apply ls_wf_init.
Qed.

(* ---------- the simulation ---------- *)
Record ls_sim (p : params) (c : ls_cfg) (a : config) : Prop := {
  sim_st : c_st a = ls_st c;
  sim_calls : c_calls a = ls_calls c;
  sim_fl : Permutation (c_fl a) (ls_inflight p (ls_thr c));
  sim_hist : Permutation (c_hist a) (ls_hist c ++ ls_pending p (ls_thr c))
}.

Lemma ls_sim_init p : ls_sim p ls_init init_config.
Proof. split; cbn; constructor. Qed.

(* what RetryModel's configuration looks like from the point of view of one thread *)
Lemma sim_view p c a t pc0 :
  NoDup (tids (ls_thr c)) -> ls_sim p c a -> Conc.lookup t (ls_thr c) = Some pc0 ->
  lookup t (c_fl a) = ls_fl p pc0 /\
  Permutation (remove t (c_fl a)) (ls_inflight p (Conc.remove t (ls_thr c))) /\
  Permutation (c_hist a)
    (ls_hist c ++ ls_pd1 p (t, pc0) ++ ls_pending p (Conc.remove t (ls_thr c))) /\
  Permutation (c_fl a) (ls_fl1 p (t, pc0) ++ ls_inflight p (Conc.remove t (ls_thr c))).
Proof.
  intros Hnd [_ _ Hfl Hhist] El.
  assert (Hnot : ~ In t (map fst (ls_inflight p (Conc.remove t (ls_thr c))))).
  { intros H. apply inflight_keys in H. exact (notin_tids_remove _ _ _ _ Hnd El H). }
  pose proof (fm_remove _ _ (ls_fl1 p) t pc0 _ El) as Vfl. fold (ls_inflight p) in Vfl.
  pose proof (fm_remove _ _ (ls_pd1 p) t pc0 _ El) as Vpd. fold (ls_pending p) in Vpd.
  rewrite Vfl in Hfl. rewrite Vpd in Hhist.
  split; [|split; [|split; [exact Hhist|exact Hfl]]].
  - unfold ls_fl1 in Hfl. cbn [fst snd] in Hfl. destruct (ls_fl p pc0) as [x|]; cbn [app] in Hfl.
    + exact (proj1 (rm_view_some _ _ _ _ Hfl Hnot)).
    + exact (proj1 (rm_view_none _ _ _ Hfl Hnot)).
  - unfold ls_fl1 in Hfl. cbn [fst snd] in Hfl. destruct (ls_fl p pc0) as [x|]; cbn [app] in Hfl.
    + exact (proj2 (rm_view_some _ _ _ _ Hfl Hnot)).
    + exact (proj2 (rm_view_none _ _ _ Hfl Hnot)).
Qed.

Lemma sim_goto p c t pc0 pc' st calls a' :
  Conc.lookup t (ls_thr c) = Some pc0 ->
  c_st a' = st -> c_calls a' = calls ->
  Permutation (c_fl a') (ls_fl1 p (t, pc') ++ ls_inflight p (Conc.remove t (ls_thr c))) ->
  Permutation (c_hist a') (ls_hist c ++ ls_pd1 p (t, pc') ++ ls_pending p (Conc.remove t (ls_thr c))) ->
  ls_sim p {| ls_st := st; ls_thr := Conc.update t pc' (ls_thr c); ls_hist := ls_hist c; ls_calls := calls |} a'.
Proof.
  intros El Hst Hcalls Hfl Hhist. split; cbn [ls_st ls_thr ls_hist ls_calls]; try assumption; try reflexivity.
  - unfold ls_inflight at 1. rewrite (fm_update _ _ (ls_fl1 p) t pc0 pc' _ El). exact Hfl.
  - unfold ls_pending at 1. rewrite (fm_update _ _ (ls_pd1 p) t pc0 pc' _ El). exact Hhist.
Qed.

Lemma remove_cons_self t x l : remove t ((t, x) :: l) = remove t l.
Proof. unfold remove. cbn [filter fst]. rewrite Nat.eqb_refl. reflexivity. Qed.

(* one statement of the statement-level model = zero or one step of RetryModel *)
Lemma ls_sim_step p c a e c' :
  ls_wf p c -> ls_sim p c a -> ls_step p c e = Some c' ->
  ls_sim p c' (exec p a (ls_project p c [e])).
Proof.
  intros [Hnd Hpc] Hsim Hstep. cbn [ls_project]. rewrite Hstep. unfold ls_step in Hstep.
  destruct e as [t|t]; cbn [ls_exec1] in Hstep.
  - (* a new call: no shared access yet *)
    destruct (Conc.lookup t (ls_thr c)) eqn:El; [discriminate|]. injection Hstep as <-.
    destruct Hsim as [Hst Hcalls Hfl Hhist].
    cbn [exec fold_left]. split; cbn [ls_st ls_calls ls_thr ls_hist]; try assumption; try reflexivity.
    + unfold ls_inflight. rewrite fm_spawn. cbn. rewrite app_nil_r. exact Hfl.
    + unfold ls_pending. rewrite fm_spawn. cbn. rewrite app_nil_r. exact Hhist.
  - destruct (Conc.lookup t (ls_thr c)) as [pc0|] eqn:El; [|discriminate].
    destruct (sim_view p c a t pc0 Hnd Hsim El) as (Hlk & Hrm & Hh & Hf).
    pose proof (forall_lookup _ _ _ _ _ Hpc El) as Hok. cbn [snd] in Hok.
    destruct Hsim as [Hst Hcalls Hfl Hhist].
    unfold ls_goto, ls_ret in Hstep.
    destruct pc0 as [|r|r|r|r|r|r|r|r|r|r|r];
      cbn [ls_is_atomic_step ls_fl ls_pd1 ls_pend fst snd app] in *.
    + (* LAdd: step 1 of RetryModel *)
      injection Hstep as <-. cbn [exec fold_left]. unfold step. rewrite Hlk. rewrite Hst.
      set (r := i32 (retries (ls_st c) + 1)).
      apply (sim_goto p c t LAdd _ _ _ _ El); unfold ls_fl1, ls_pd1; cbn [ls_fl ls_pend fst snd].
      * destruct (budget_ok p r); [destruct (p_kind p)|]; reflexivity.
      * destruct (budget_ok p r); [destruct (p_kind p)|]; unfold finish; cbn [c_calls]; congruence.
      * destruct (budget_ok p r); [destruct (p_kind p)|]; unfold finish; cbn [c_fl app].
        -- constructor. rewrite <- Hrm. rewrite remove_notin; [reflexivity|].
           apply lookup_none_notin. exact Hlk.
        -- exact Hrm.
        -- exact Hrm.
      * destruct (budget_ok p r); [destruct (p_kind p)|]; unfold finish; cbn [c_hist app].
        -- exact Hh.
        -- rewrite Hh. apply Permutation_middle.
        -- rewrite Hh. apply Permutation_middle.
    + (* LBudget: local *)
      assert (Hsame : forall pc', ls_fl1 p (t, pc') = ls_fl1 p (t, LBudget r) ->
                                 ls_pd1 p (t, pc') = ls_pd1 p (t, LBudget r) ->
              ls_sim p {| ls_st := ls_st c; ls_thr := Conc.update t pc' (ls_thr c);
                          ls_hist := ls_hist c; ls_calls := ls_calls c |} a).
      { intros pc' E1 E2. apply (sim_goto p c t _ _ _ _ _ El); try assumption; try reflexivity.
        - rewrite E1. exact Hf.
        - rewrite E2. exact Hh. }
      cbn [exec fold_left].
      destruct (budget_ok p r) eqn:Eb; [destruct (p_kind p) eqn:Ek|]; injection Hstep as <-;
        apply Hsame; unfold ls_fl1, ls_pd1; cbn [ls_fl ls_pend fst snd]; rewrite ?Eb, ?Ek; reflexivity.
    + (* LLoad: step 2 of RetryModel *)
      destruct (p_kind p) as [v|] eqn:Ek; [|discriminate].
      cbn [exec fold_left]. unfold step. rewrite Hlk. rewrite Hst.
      destruct (reached (ls_st c)); injection Hstep as <-.
      * apply (sim_goto p c t _ _ _ _ _ El); unfold ls_fl1, ls_pd1, finish;
          cbn [ls_fl ls_pend fst snd c_st c_calls c_fl c_hist app]; try assumption; try reflexivity.
        rewrite Hh. apply Permutation_middle.
      * apply (sim_goto p c t _ _ _ _ _ El); unfold ls_fl1, ls_pd1;
          cbn [c_st c_calls c_fl c_hist]; try assumption; try reflexivity.
        -- destruct v; cbn [after_load ls_fl fst snd app]; constructor; exact Hrm.
        -- destruct v; cbn [after_load ls_pend fst snd app]; exact Hh.
    + (* LRetMax0: return *)
      injection Hstep as <-. cbn [exec fold_left].
      split; cbn [ls_st ls_calls ls_thr ls_hist]; try assumption; try reflexivity.
      rewrite Hh. unfold mk_event. cbn [app]. symmetry. apply Permutation_middle.
    + (* LFactor: local *)
      injection Hstep as <-. cbn [exec fold_left].
      apply (sim_goto p c t _ _ _ _ _ El); solve [assumption | reflexivity | exact Hf | exact Hh].
    + (* LInterval: local *)
      injection Hstep as <-. cbn [exec fold_left].
      apply (sim_goto p c t _ _ _ _ _ El); solve [assumption | reflexivity | exact Hf | exact Hh].
    + (* LChk: step 3 of RetryModel when the test fails, local otherwise *)
      destruct (p_kind p) as [v|] eqn:Ek; [|discriminate].
      destruct (snd (compute v p r)) eqn:Eo; injection Hstep as <-; cbn [negb exec fold_left].
      * apply (sim_goto p c t _ _ _ _ _ El); solve [assumption | reflexivity | exact Hf | exact Hh].
      * unfold step. rewrite Hlk, Ek. destruct (compute v p r) as [iv over] eqn:Ec.
        cbn [snd] in Eo. subst over.
        apply (sim_goto p c t _ _ _ _ _ El); unfold ls_fl1, ls_pd1, finish;
          cbn [ls_fl ls_pend fst snd c_st c_calls c_fl c_hist app]; try assumption; try reflexivity.
        unfold ls_variant. rewrite Ek, Ec. cbn [fst]. rewrite Hh. apply Permutation_middle.
    + (* LStore: step 3 of RetryModel *)
      destruct Hok as [v [Ek Eo]]. injection Hstep as <-. cbn [exec fold_left].
      unfold step. rewrite Hlk, Ek. destruct (compute v p r) as [iv over] eqn:Ec.
      cbn [snd] in Eo. subst over.
      apply (sim_goto p c t _ _ _ _ _ El); unfold ls_fl1, ls_pd1, finish;
        cbn [ls_fl ls_pend fst snd c_st c_calls c_fl c_hist app retries]; try assumption; try reflexivity.
      * rewrite Hst. reflexivity.
      * rewrite Hh. apply Permutation_middle.
    + (* LRetMax1: return *)
      injection Hstep as <-. cbn [exec fold_left].
      split; cbn [ls_st ls_calls ls_thr ls_hist]; try assumption; try reflexivity.
      rewrite Hh. unfold mk_event. cbn [app]. symmetry. apply Permutation_middle.
    + (* LRetIv: return *)
      destruct (p_kind p) as [v|] eqn:Ek; [|discriminate].
      injection Hstep as <-. cbn [exec fold_left].
      split; cbn [ls_st ls_calls ls_thr ls_hist]; try assumption; try reflexivity.
      rewrite Hh. unfold mk_event, ls_variant. rewrite Ek. cbn [app]. symmetry. apply Permutation_middle.
    + (* LRetFixed: return *)
      injection Hstep as <-. cbn [exec fold_left].
      split; cbn [ls_st ls_calls ls_thr ls_hist]; try assumption; try reflexivity.
      rewrite Hh. unfold mk_event. cbn [app]. symmetry. apply Permutation_middle.
    + (* LRetNo: return *)
      injection Hstep as <-. cbn [exec fold_left].
      split; cbn [ls_st ls_calls ls_thr ls_hist]; try assumption; try reflexivity.
      rewrite Hh. unfold mk_event. cbn [app]. symmetry. apply Permutation_middle.
Qed.

(* ---------- every statement-level schedule projects to a three-step schedule ---------- *)
Lemma rm_exec_app p a s1 s2 : exec p a (s1 ++ s2) = exec p (exec p a s1) s2.
Proof. unfold exec. apply fold_left_app. Qed.

Lemma ls_project_cons p c e rest c' :
  ls_step p c e = Some c' -> ls_project p c (e :: rest) = ls_project p c [e] ++ ls_project p c' rest.
Proof.
  intros Hs. cbn [ls_project]. rewrite Hs.
  destruct e as [t|t]; [reflexivity|].
  destruct (Conc.lookup t (ls_thr c)) as [pc|]; [|reflexivity].
  destruct (ls_is_atomic_step p pc); reflexivity.
Qed.

Lemma ls_sim_exec p evs : forall c a c',
  ls_wf p c -> ls_sim p c a -> Conc.exec (ls_step p) c evs = Some c' ->
  ls_sim p c' (exec p a (ls_project p c evs)).
Proof.
  induction evs as [|e rest IH]; intros c a c' Hwf Hsim Hex.
  - cbn in Hex. injection Hex as <-. exact Hsim.
  - cbn [Conc.exec] in Hex. destruct (ls_step p c e) as [c1|] eqn:Es; [|discriminate].
    rewrite (ls_project_cons p c e rest c1 Es). rewrite rm_exec_app.
    apply IH; [exact (ls_wf_step p c e c1 Hwf Es)|exact (ls_sim_step p c a e c1 Hwf Hsim Es)|exact Hex].
Qed.

(* REFINEMENT: the configuration reached by any statement-level event list and the configuration
   RetryModel reaches on the projected schedule have the same shared state and the same number of
   tickets drawn; RetryModel's history is the statement-level history plus the answers of the calls
   that have not yet executed their return statement; its calls in flight are the statement-level
   calls between their first and their last atomic step *)
Lemma ls_refines_lemma : forall p evs c,
  Conc.exec (ls_step p) ls_init evs = Some c ->
  let a := exec p init_config (ls_project p ls_init evs) in
  c_st a = ls_st c /\ c_calls a = ls_calls c /\
  Permutation (c_hist a) (ls_hist c ++ ls_pending p (ls_thr c)) /\
  Permutation (c_fl a) (ls_inflight p (ls_thr c)).
Proof.
  intros p evs c Hex a.
  destruct (ls_sim_exec p evs ls_init init_config c (ls_wf_init p) (ls_sim_init p) Hex) as [H1 H2 H3 H4].
  auto.
Qed.

(* the same returned values: every call completed at statement level is a call completed by
   RetryModel on the projected schedule, with the same thread, ticket, interval and verdict *)
Lemma ls_returns_lemma : forall p evs c e,
  Conc.exec (ls_step p) ls_init evs = Some c -> In e (ls_hist c) ->
  In e (c_hist (exec p init_config (ls_project p ls_init evs))).
Proof.
  intros p evs c e Hex Hin. destruct (ls_refines_lemma p evs c Hex) as (_ & _ & Hh & _).
  apply (Permutation_in _ (Permutation_sym Hh)). apply in_or_app. left. exact Hin.
Qed.

(* the value a return statement hands to the caller is the one recorded in the history *)
Lemma ls_ret_recorded_lemma : forall p c e c' iv ok,
  ls_exec1 p c e = Some (c', LSRet iv ok) ->
  exists t r, e = LSStep t /\
    ls_hist c' = {| ev_tid := t; ev_ticket := r; ev_iv := iv; ev_ok := ok |} :: ls_hist c /\
    ls_thr c' = Conc.remove t (ls_thr c) /\ ls_st c' = ls_st c.
Proof.
  intros p c e c' iv ok H. destruct e as [t|t]; cbn [ls_exec1] in H.
  - destruct (Conc.lookup t (ls_thr c)); [discriminate|]. injection H as _ H. discriminate.
  - exists t. destruct (Conc.lookup t (ls_thr c)) as [pc0|]; [|discriminate].
    unfold ls_goto, ls_ret in H.
    destruct pc0 as [|r|r|r|r|r|r|r|r|r|r|r];
      repeat match type of H with
             | context [if ?b then _ else _] => destruct b
             | context [match p_kind p with _ => _ end] => destruct (p_kind p)
             end;
      try discriminate; try (injection H as _ H; discriminate);
      injection H as <- <- <-; exists r; auto.
Qed.

(* ---------- budget ---------- *)
Lemma grant_count p l :
  Z.of_nat (count_ok (ls_pending p l)) + Z.of_nat (length (ls_inflight p l)) =
  Conc.count (ls_will_grant p) l.
Proof.
  unfold ls_pending, ls_inflight.
  induction l as [|[t pc] l IH]; cbn [flat_map Conc.count]; [reflexivity|].
  rewrite count_ok_app, app_length. rewrite <- IH.
  assert (H : Z.of_nat (count_ok (ls_pd1 p (t, pc))) + Z.of_nat (length (ls_fl1 p (t, pc))) =
              if ls_will_grant p pc then 1 else 0).
  { unfold ls_pd1, ls_fl1. cbn [fst snd].
    destruct pc as [|r|r|r|r|r|r|r|r|r|r|r]; cbn [ls_pend ls_fl ls_will_grant]; try reflexivity.
    destruct (budget_ok p r); [destruct (p_kind p)|]; reflexivity. }
  lia.
Qed.

Lemma ls_budget_exact_lemma : forall p evs c,
  Conc.exec (ls_step p) ls_init evs = Some c ->
  Z.of_nat (ls_calls c) < 2 ^ 31 ->
  Z.of_nat (count_ok (ls_hist c)) + Conc.count (ls_will_grant p) (ls_thr c) =
  if p_maxr p <=? 0 then Z.of_nat (ls_calls c) else Z.min (Z.of_nat (ls_calls c)) (p_maxr p).
Proof.
  intros p evs c Hex Hb. destruct (ls_refines_lemma p evs c Hex) as (_ & Hc & Hh & Hf).
  pose proof (budget_exact_lemma p (ls_project p ls_init evs)) as HB. cbv zeta in HB.
  rewrite Hc in HB. specialize (HB Hb).
  rewrite (count_ok_perm _ _ Hh), count_ok_app in HB.
  rewrite (Permutation_length Hf) in HB.
  rewrite <- grant_count. lia.
Qed.

(* tickets drawn = calls completed + calls in flight past their atomic add *)
Lemma ls_calls_inv p evs c :
  Conc.exec (ls_step p) ls_init evs = Some c ->
  Z.of_nat (ls_calls c) = Z.of_nat (length (ls_hist c)) + Conc.count ls_has_ticket (ls_thr c).
Proof.
  apply (invariant_reachable _ _ (ls_step p)
           (fun c => Z.of_nat (ls_calls c) = Z.of_nat (length (ls_hist c)) + Conc.count ls_has_ticket (ls_thr c))).
  - intros c0 e c1 Hinv Hstep. unfold ls_step in Hstep.
    destruct e as [t|t]; cbn [ls_exec1] in Hstep.
    + destruct (Conc.lookup t (ls_thr c0)); [discriminate|]. injection Hstep as <-.
      cbn [ls_calls ls_hist ls_thr]. rewrite count_spawn. cbn [ls_has_ticket]. lia.
    + destruct (Conc.lookup t (ls_thr c0)) as [pc0|] eqn:El; [|discriminate].
      unfold ls_goto, ls_ret in Hstep.
      pose proof (count_update _ ls_has_ticket t) as HU.
      pose proof (count_remove _ ls_has_ticket t pc0 _ El) as HR.
      destruct pc0 as [|r|r|r|r|r|r|r|r|r|r|r];
        repeat match type of Hstep with
               | context [if ?b then _ else _] => destruct b
               | context [match p_kind p with _ => _ end] => destruct (p_kind p)
               | context [after_load ?v _] => destruct v; cbn [after_load] in Hstep
               end;
        try discriminate; injection Hstep as <-; cbn [ls_calls ls_hist ls_thr length];
        try (rewrite (HU _ _ _ El)); cbn [ls_has_ticket] in *; lia.
  - reflexivity.
Qed.

(* with no call in flight: of the N calls made, exactly min(N, maxRetries) were granted *)
Lemma ls_budget_quiescent_lemma : forall p evs c,
  Conc.exec (ls_step p) ls_init evs = Some c -> ls_thr c = [] ->
  Z.of_nat (length (ls_hist c)) < 2 ^ 31 ->
  Z.of_nat (count_ok (ls_hist c)) =
  if p_maxr p <=? 0 then Z.of_nat (length (ls_hist c))
  else Z.min (Z.of_nat (length (ls_hist c))) (p_maxr p).
Proof.
  intros p evs c Hex Hq Hb. pose proof (ls_calls_inv p evs c Hex) as Hc.
  rewrite Hq in Hc. cbn [Conc.count] in Hc.
  pose proof (ls_budget_exact_lemma p evs c Hex ltac:(lia)) as HB.
  rewrite Hq in HB. cbn [Conc.count] in HB. rewrite Hc in HB. rewrite !Z.add_0_r in HB. exact HB.
Qed.

(* ---------- bounds ---------- *)
Lemma ls_interval_in_bounds_lemma : forall p evs c e,
  wf p -> Conc.exec (ls_step p) ls_init evs = Some c -> In e (ls_hist c) -> good_event p e.
Proof.
  intros p evs c e Hwf Hex Hin.
  exact (interval_in_bounds_lemma p _ e Hwf (ls_returns_lemma p evs c e Hex Hin)).
Qed.

(* what the lock-step run observes: the value of every return statement executed in a reachable
   configuration of a constructed strategy is a good answer *)
Lemma ls_observed_return_in_bounds_lemma : forall p evs c ev c' iv ok,
  wf p -> Conc.exec (ls_step p) ls_init evs = Some c -> ls_exec1 p c ev = Some (c', LSRet iv ok) ->
  if ok then p_init p <= iv <= p_max p else iv = 0.
Proof.
  intros p evs c ev c' iv ok Hwf Hex H1.
  destruct (ls_ret_recorded_lemma p c ev c' iv ok H1) as (t & r & -> & Hh & _).
  assert (Hex' : Conc.exec (ls_step p) ls_init (evs ++ [LSStep t]) = Some c').
  { rewrite exec_app, Hex. cbn [Conc.exec]. unfold ls_step. rewrite H1. reflexivity. }
  pose proof (ls_interval_in_bounds_lemma p _ c' _ Hwf Hex' ltac:(rewrite Hh; left; reflexivity)) as Hg.
  unfold good_event in Hg. cbn [ev_ok ev_iv ev_ticket] in Hg. destruct ok; tauto.
Qed.

(* ---------- the pinned arithmetic at statement level ---------- *)
Lemma ls_interval_wrap_refuted_lemma :
  exists p c e,
    new_exp VPinned (2 ^ 40 + 1) (2 ^ 62) 0 = CtorOk p /\
    Conc.exec (ls_step p) ls_init (ls_wrap_witness 3) = Some c /\
    In e (ls_hist c) /\
    ev_tid e = 25%nat /\ ev_ok e = true /\ ev_ticket e = 25 /\ ev_iv e = 2 ^ 24 /\ ev_iv e < p_init p /\
    reached (ls_st c) = false.
Proof.
  eexists. eexists. eexists. split; [reflexivity|]. split; [vm_compute; reflexivity|].
  split; [left; reflexivity|]. vm_compute. repeat split; reflexivity.
Qed.

(* the same interleaving on the current code (4 statements remain after the load): the cap *)
Lemma ls_interval_wrap_fixed_lemma :
  exists p c,
    new_exp VNow (2 ^ 40 + 1) (2 ^ 62) 0 = CtorOk p /\
    Conc.exec (ls_step p) ls_init (ls_wrap_witness 5) = Some c /\
    hd_error (ls_hist c) = Some {| ev_tid := 25; ev_ticket := 25; ev_iv := 2 ^ 62; ev_ok := true |} /\
    reached (ls_st c) = true.
Proof.
  eexists. eexists. split; [reflexivity|]. split; [vm_compute; reflexivity|].
  vm_compute. split; reflexivity.
Qed.
