(* Proofs about SliceModel (C16), part 3: Go maps (mapx, slice.ToMap), pairs, and the
   statements about `run` (non-nil promises, untouched arguments). *)
From Ekit Require Import Common SliceModel SliceProof SliceProof2.
From Coq Require Import ZifyBool Permutation.

(* ---------- Go map = association list with distinct keys ---------- *)
Definition wf_map (m : gmap) : Prop := NoDup (map fst m).

Lemma map_get_put_same k v m : map_get k (map_put k v m) = Some v.
Proof.
  induction m as [|[k' v'] t IH]; cbn [map_put map_get].
  - rewrite Z.eqb_refl. reflexivity.
  - destruct (Z.eqb_spec k k') as [He|Hne]; cbn [map_get].
    + rewrite Z.eqb_refl. reflexivity.
    + destruct (Z.eqb_spec k k') as [Hc|_]; [exfalso; exact (Hne Hc)|]. exact IH.
Qed.

Lemma map_get_put_other k k' v m : k <> k' -> map_get k (map_put k' v m) = map_get k m.
Proof.
  intros Hne. induction m as [|[k0 v0] t IH]; cbn [map_put map_get].
  - destruct (Z.eqb_spec k k') as [Hc|_]; [exfalso; exact (Hne Hc)|]. reflexivity.
  - destruct (Z.eqb_spec k' k0) as [He|Hne0]; cbn [map_get].
    + subst k0. destruct (Z.eqb_spec k k') as [Hc|_]; [exfalso; exact (Hne Hc)|]. reflexivity.
    + destruct (Z.eqb_spec k k0); [reflexivity|exact IH].
Qed.

Lemma map_put_keys k v m y : In y (map fst (map_put k v m)) <-> y = k \/ In y (map fst m).
Proof.
  induction m as [|[k0 v0] t IH]; cbn [map_put map fst In].
  - split; [intros [H|[]]; left; symmetry; exact H|intros [H|[]]; left; symmetry; exact H].
  - destruct (Z.eqb_spec k k0) as [He|Hne]; cbn [map fst In].
    + subst k0. split.
      * intros [H|H]; [left; symmetry; exact H|right; right; exact H].
      * intros [H|[H|H]]; [left; symmetry; exact H|left; exact H|right; exact H].
    + rewrite IH. split.
      * intros [H|[H|H]]; [right; left; exact H|left; exact H|right; right; exact H].
      * intros [H|[H|H]]; [right; left; exact H|left; exact H|right; right; exact H].
Qed.

Lemma map_put_wf k v m : wf_map m -> wf_map (map_put k v m).
Proof.
  unfold wf_map. induction m as [|[k0 v0] t IH]; cbn [map_put map fst]; intros Hn.
  - constructor; [intros []|constructor].
  - inversion Hn as [|x l Hnin Hn']. subst x l.
    destruct (Z.eqb_spec k k0) as [He|Hne]; cbn [map fst].
    + subst k0. constructor; assumption.
    + constructor; [|apply IH; exact Hn'].
      intros Hc. apply map_put_keys in Hc. destruct Hc as [Hc|Hc]; [apply Hne; symmetry; exact Hc|exact (Hnin Hc)].
Qed.

Lemma map_build_snoc kvs k v : map_build (kvs ++ [(k, v)]) = map_put k v (map_build kvs).
Proof. unfold map_build. rewrite fold_left_app. reflexivity. Qed.

Lemma map_build_wf kvs : wf_map (map_build kvs).
Proof.
  induction kvs as [|[k v] t IH] using rev_ind; [constructor|].
  rewrite map_build_snoc. apply map_put_wf. exact IH.
Qed.

(* later duplicates win: the value of k is the one of its LAST occurrence *)
Lemma map_build_get_lemma kvs k :
  map_get k (map_build kvs) = option_map snd (List.find (fun kv => Z.eqb (fst kv) k) (rev kvs)).
Proof.
  induction kvs as [|[k' v] t IH] using rev_ind; [reflexivity|].
  rewrite map_build_snoc, rev_app_distr. cbn [rev app List.find fst].
  destruct (Z.eqb_spec k' k) as [He|Hne].
  - subst k'. rewrite map_get_put_same. reflexivity.
  - rewrite map_get_put_other by (intros Hc; apply Hne; symmetry; exact Hc). exact IH.
Qed.

Lemma map_get_In m : wf_map m -> forall k v, map_get k m = Some v <-> In (k, v) m.
Proof.
  unfold wf_map. induction m as [|[k0 v0] t IH]; intros Hn k v; cbn [map_get In].
  - split; [discriminate|intros []].
  - cbn [map fst] in Hn. inversion Hn as [|x l Hnin Hn']. subst x l.
    destruct (Z.eqb_spec k k0) as [He|Hne].
    + subst k0. split.
      * intros H. injection H as H. subst v0. left. reflexivity.
      * intros [H|H]; [injection H as H; subst v0; reflexivity|].
        exfalso. apply Hnin. apply (in_map fst) in H. exact H.
    + rewrite (IH Hn'). split; [intros H; right; exact H|].
      intros [H|H]; [injection H as H1 H2; exfalso; apply Hne; symmetry; exact H1|exact H].
Qed.

(* inserting entries with fresh, pairwise distinct keys appends them in order *)
Lemma map_put_fresh k v m : ~ In k (map fst m) -> map_put k v m = m ++ [(k, v)].
Proof.
  induction m as [|[k0 v0] t IH]; cbn [map_put map fst In app]; intros Hn; [reflexivity|].
  destruct (Z.eqb_spec k k0) as [He|Hne]; [exfalso; apply Hn; left; symmetry; exact He|].
  rewrite IH; [reflexivity|]. intros Hc. apply Hn. right. exact Hc.
Qed.

Lemma fold_put_fresh kvs : forall acc, NoDup (map fst (acc ++ kvs)) ->
  fold_left (fun m kv => map_put (fst kv) (snd kv) m) kvs acc = acc ++ kvs.
Proof.
  induction kvs as [|[k v] t IH]; intros acc Hn; cbn [fold_left fst snd].
  - rewrite app_nil_r. reflexivity.
  - assert (Hfresh : ~ In k (map fst acc)).
    { rewrite map_app in Hn. cbn [map fst] in Hn. apply NoDup_remove_2 in Hn.
      intros Hc. apply Hn. apply in_or_app. left. exact Hc. }
    rewrite map_put_fresh by exact Hfresh.
    rewrite IH; [rewrite <- app_assoc; reflexivity|].
    rewrite <- app_assoc. exact Hn.
Qed.

Lemma map_build_wf_id m : wf_map m -> map_build m = m.
Proof. intros Hn. unfold map_build. apply (fold_put_fresh m []). exact Hn. Qed.

(* ---------- mapx.Keys / Values / KeysValues / ToMap ---------- *)
Lemma map_values_lemma m : wf_map m -> map_values m = map snd m.
Proof.
  intros Hn. unfold map_values, map_keys. rewrite map_map. apply map_ext_in.
  intros [k v] Hin. cbn [fst snd]. unfold map_lookup0.
  rewrite (proj2 (map_get_In m Hn k v) Hin). reflexivity.
Qed.

Lemma combine_fst_snd (m : list (Z * Z)) : combine (map fst m) (map snd m) = m.
Proof. induction m as [|[k v] t IH]; cbn [map combine fst snd]; [reflexivity|]. rewrite IH. reflexivity. Qed.

(* ToMap (KeysValues m) = m, in the model's canonical order ... *)
Lemma to_map_keys_values_lemma m : wf_map m ->
  mapx_to_map (Some (fst (map_keys_values m))) (Some (snd (map_keys_values m))) = Ok m.
Proof.
  intros Hn. unfold map_keys_values. cbn [fst snd mapx_to_map].
  rewrite (map_values_lemma m Hn). unfold map_keys. rewrite !map_length, Nat.eqb_refl. cbn [negb].
  rewrite combine_fst_snd, (map_build_wf_id m Hn). reflexivity.
Qed.

Lemma option_eq_iff (a b : option Z) : (forall v, a = Some v <-> b = Some v) -> a = b.
Proof.
  intros H. destruct a as [x|], b as [y|]; try reflexivity.
  - symmetry. apply (proj1 (H x)). reflexivity.
  - pose proof (proj1 (H x) eq_refl) as Hc. discriminate Hc.
  - pose proof (proj2 (H y) eq_refl) as Hc. discriminate Hc.
Qed.

(* ... and for EVERY order in which Go may enumerate the entries *)
Lemma to_map_any_order_lemma m kvs : wf_map m -> Permutation kvs m ->
  exists m', mapx_to_map (Some (map fst kvs)) (Some (map snd kvs)) = Ok m' /\
             wf_map m' /\ forall k, map_get k m' = map_get k m.
Proof.
  intros Hn Hp.
  assert (Hn' : wf_map kvs).
  { unfold wf_map. apply (Permutation_NoDup (l := map fst m)); [|exact Hn].
    apply Permutation_map. apply Permutation_sym. exact Hp. }
  exists kvs. cbn [mapx_to_map]. rewrite !map_length, Nat.eqb_refl. cbn [negb].
  rewrite combine_fst_snd, (map_build_wf_id kvs Hn'). split; [reflexivity|]. split; [exact Hn'|].
  intros k. apply option_eq_iff. intros v.
  rewrite (map_get_In kvs Hn'), (map_get_In m Hn). split; intros H.
  - apply (Permutation_in _ Hp). exact H.
  - apply (Permutation_in _ (Permutation_sym Hp)). exact H.
Qed.

Lemma mapx_to_map_lemma keys values :
  match mapx_to_map keys values with
  | Ok m => exists ks vs, keys = Some ks /\ values = Some vs /\ length ks = length vs /\
                          m = map_build (combine ks vs)
  | Err _ => keys = None \/ values = None \/ length (els keys) <> length (els values)
  | Panic => False
  end.
Proof.
  destruct keys as [ks|], values as [vs|]; cbn [mapx_to_map]; try (right; left; reflexivity); try (left; reflexivity).
  destruct (Nat.eqb_spec (length ks) (length vs)) as [He|Hne]; cbn [negb].
  - exists ks, vs. repeat split; try reflexivity. exact He.
  - right. right. exact Hne.
Qed.

(* ---------- slice.ToMap / ToMapV ---------- *)
Lemma to_map_v_lemma fk fv l : to_map_v fk fv l = map_build (map (fun e => (fk e, fv e)) l).
Proof.
  unfold to_map_v, map_build. generalize (@nil (Z * Z)) as acc.
  induction l as [|e t IH]; intros acc; cbn [fold_left map fst snd]; [reflexivity|]. apply IH.
Qed.
Lemma to_map_lemma fk l : to_map fk l = map_build (map (fun e => (fk e, e)) l).
Proof. unfold to_map. apply to_map_v_lemma. Qed.

(* ---------- pairs ---------- *)
Lemma combine_map_fst (ks : list Z) : forall vs : list Z, length ks = length vs -> map fst (combine ks vs) = ks.
Proof.
  induction ks as [|k t IH]; intros vs Hl; [reflexivity|].
  destruct vs as [|v u]; [cbn [length] in Hl; discriminate Hl|].
  cbn [combine map fst]. rewrite IH; [reflexivity|]. cbn [length] in Hl. lia.
Qed.
Lemma combine_map_snd (ks : list Z) : forall vs : list Z, length ks = length vs -> map snd (combine ks vs) = vs.
Proof.
  induction ks as [|k t IH]; intros vs Hl.
  - destruct vs as [|v u]; [reflexivity|cbn [length] in Hl; discriminate Hl].
  - destruct vs as [|v u]; [cbn [length] in Hl; discriminate Hl|].
    cbn [combine map snd]. rewrite IH; [reflexivity|]. cbn [length] in Hl. lia.
Qed.

Lemma new_pairs_lemma keys values :
  match new_pairs keys values with
  | Ok p => exists ks vs, keys = Some ks /\ values = Some vs /\ length ks = length vs /\ p = Some (combine ks vs)
  | Err _ => keys = None \/ values = None \/ length (els keys) <> length (els values)
  | Panic => False
  end.
Proof.
  destruct keys as [ks|], values as [vs|]; cbn [new_pairs]; try (right; left; reflexivity); try (left; reflexivity).
  destruct (Nat.eqb_spec (length ks) (length vs)) as [He|Hne]; cbn [negb].
  - exists ks, vs. repeat split; try reflexivity. exact He.
  - right. right. exact Hne.
Qed.

Lemma split_new_pairs_lemma ks vs : length ks = length vs ->
  obind (new_pairs (Some ks) (Some vs)) (fun p => Ok (split_pairs p)) = Ok (Some ks, Some vs).
Proof.
  intros Hl. cbn [new_pairs]. rewrite Hl, Nat.eqb_refl. cbn [negb obind split_pairs].
  rewrite combine_map_fst, combine_map_snd by exact Hl. reflexivity.
Qed.

Lemma new_split_pairs_lemma l :
  new_pairs (fst (split_pairs (Some l))) (snd (split_pairs (Some l))) = Ok (Some l).
Proof.
  cbn [split_pairs fst snd new_pairs]. rewrite !map_length, Nat.eqb_refl. cbn [negb].
  rewrite combine_fst_snd. reflexivity.
Qed.

Lemma pack_flatten_list l : pack_list (flat_map (fun p => [FInt (fst p); FInt (snd p)]) l) = Ok l.
Proof.
  induction l as [|[k v] t IH]; [reflexivity|].
  cbn [flat_map app fst snd pack_list]. rewrite IH. reflexivity.
Qed.
Lemma pack_flatten_pairs_lemma ps : pack_pairs (flatten_pairs ps) = Ok ps.
Proof.
  destruct ps as [l|]; cbn [flatten_pairs pack_pairs]; [|reflexivity].
  rewrite pack_flatten_list. reflexivity.
Qed.

Lemma flatten_pairs_length l fl : flatten_pairs (Some l) = Some fl -> length fl = (2 * length l)%nat.
Proof.
  cbn [flatten_pairs]. intros H. injection H as H. subst fl.
  induction l as [|p t IH]; [reflexivity|]. cbn [flat_map app length]. rewrite IH. lia.
Qed.

Lemma nil_pairs_lemma :
  split_pairs None = (None, None) /\ flatten_pairs None = None /\ pack_pairs None = Ok None.
Proof. repeat split. Qed.

(* ---------- statements about run: non-nil promises ---------- *)
Definition promises_nonnil (c : call) : bool :=
  match c with
  | CUnionSet _ _ | CIntersectSet _ _ | CDiffSet _ _ | CSymDiffSet _ _
  | CUnionSetFunc _ _ _ | CIntersectSetFunc _ _ _ | CDiffSetFunc _ _ _ | CSymDiffSetFunc _ _ _
  | CIndexAll _ _ | CIndexAllFunc _ _ | CFindAll _ _ | CFilterMap _ _ _ | CMap _ _
  | CToMap _ _ | CToMapV _ _ _ | CReverse _ | CKeys _ | CValues _ => true
  | _ => false
  end.
Definition ov_nonnil (o : ov) : bool :=
  match o with
  | VSlice (Some _) | VSet (Some _) | VMap (Some _) | VPairs (Some _) | VFlat (Some _) => true
  | _ => false
  end.

Lemma nonnil_promises_lemma c :
  promises_nonnil c = true -> exists r rest, run c = r :: rest /\ ov_nonnil r = true.
Proof.
  destruct c; cbn [promises_nonnil]; try discriminate; intros _; cbn [run];
    unfold pure1, pure2; try rewrite reverse_lemma; cbn [of_outcome app];
    eexists; eexists; (split; [reflexivity|reflexivity]).
Qed.

(* ---------- statements about run: pure functions leave their arguments alone ---------- *)
Definition slice_args (c : call) : list sl :=
  match c with
  | CUnionSet a b | CIntersectSet a b | CDiffSet a b | CSymDiffSet a b | CContainsAny a b | CContainsAll a b
  | CUnionSetFunc _ a b | CIntersectSetFunc _ a b | CDiffSetFunc _ a b | CSymDiffSetFunc _ a b
  | CContainsAnyFunc _ a b | CContainsAllFunc _ a b | CMapxToMap a b | CNewPairs a b => [a; b]
  | CContains a _ | CContainsFunc a _ | CIndex a _ | CIndexFunc a _ | CLastIndex a _ | CLastIndexFunc a _
  | CIndexAll a _ | CIndexAllFunc a _ | CFind a _ | CFindAll a _ | CFilterMap a _ _ | CMap a _
  | CToMap a _ | CToMapV a _ _ | CReverse a | CMax a | CMin a | CSum a => [a]
  | _ => []
  end.
(* the in-place functions: ReverseSelf, FilterDelete, Add, Delete *)
Definition in_place (c : call) : bool :=
  match c with CReverseSelf _ | CFilterDelete _ _ | CAdd _ _ _ _ | CDelete _ _ => true | _ => false end.

Lemma pure_args_unchanged_lemma c :
  in_place c = false -> exists r, run c = r ++ map VSlice (slice_args c).
Proof.
  destruct c; cbn [in_place]; try discriminate; intros _; cbn [run slice_args map];
    unfold pure1, pure2;
    try (eexists; reflexivity);
    try (eexists; rewrite app_nil_r; reflexivity).
  - pose proof (mapx_to_map_lemma ks vs) as H.
    destruct (mapx_to_map ks vs); [eexists; reflexivity|eexists; reflexivity|destruct H].
  - pose proof (new_pairs_lemma ks vs) as H.
    destruct (new_pairs ks vs); [eexists; reflexivity|eexists; reflexivity|destruct H].
Qed.

(* ---------- small corollaries used by props/C16.v ---------- *)
Lemma reverse_involutive_lemma l : obind (reverse l) reverse = Ok l.
Proof. rewrite reverse_lemma. cbn [obind]. rewrite reverse_lemma, rev_involutive. reflexivity. Qed.

Lemma reverse_self_same_lemma l : reverse_self l = reverse l.
Proof. rewrite reverse_self_lemma, reverse_lemma. reflexivity. Qed.

Lemma func_variants_NoDup_lemma src dst :
  NoDup (union_set_func Z.eqb src dst) /\ NoDup (intersect_set_func Z.eqb src dst) /\
  NoDup (diff_set_func Z.eqb src dst) /\ NoDup (symdiff_set_func Z.eqb src dst).
Proof. repeat split; apply deduplicate_func_NoDup. Qed.

Lemma add_arg_after_lemma spare src e index :
  add_arg_after spare src e index =
  if spare && (0 <=? index) && (index <=? Z.of_nat (length src))
  then firstn (length src) (firstn (Z.to_nat index) src ++ e :: skipn (Z.to_nat index) src)
  else src.
Proof.
  unfold add_arg_after. rewrite add_lemma.
  destruct ((0 <=? index) && (index <=? Z.of_nat (length src))) eqn:Hr.
  - rewrite <- andb_assoc, Hr, andb_true_r. reflexivity.
  - rewrite <- andb_assoc, Hr, andb_false_r. reflexivity.
Qed.
