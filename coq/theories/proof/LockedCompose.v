(* C06 — composition of the lock-bracketed object theorem (proof/LockedProof.v) with the REAL
   sequential models of the inner containers and their C05 / C04 refinement theorems:

     ConcurrentPriorityQueue  = RWMutex bracket around HeapModel.step cmp  (the array heap of
                                internal/queue/priority_queue.go, USER comparator, ties allowed)
     ConcurrentList           = RWMutex bracket around ListModel.lstep     (ArrayList, LinkedList, ...)

   1. a generic layer: for a lock-bracketed object over any sequential object with an invariant
      [Inv] preserved by its steps, (a) the inner state of every reachable configuration satisfies
      Inv, (b) if every step from an Inv-state refines a relational abstract specification then the
      linearisation events of every concurrent history are a run of that abstract specification,
      (c) if no step from an Inv-state answers a "bad" result (panic) then no statement of any
      concurrent execution returns one;
   2. the two instances. *)
From Ekit Require Import Common Conc LockedModel LockedProof.
From Ekit Require HeapModel HeapProof HeapProof2 ListModel ListProof2.
From Coq Require Import Arith PeanoNat Permutation.

(* ---------------------------------------------------------------------------------------- *)
Section LockedRefine.
  Variables (state op ret : Type).
  Variable seq_step : state -> op -> state * ret.
  Variable excl : op -> bool.
  Variable mutating : op -> bool.
  Hypothesis Hexcl : forall o, mutating o = true -> excl o = true.
  Hypothesis Hro : forall s o, mutating o = false -> fst (seq_step s o) = s.

  (* the sequential object's own invariant *)
  Variable Inv : state -> Prop.
  Hypothesis Inv_step : forall s o, Inv s -> Inv (fst (seq_step s o)).

  Notation cfg := (sys_cfg op ret (lk_shared state) (lk_pc state)).

  Lemma seq_legal_inv s l s' : Inv s -> seq_legal seq_step s l s' -> Inv s'.
  Proof.
    revert s. induction l as [|[o r] l IH]; intros s Hs; cbn [seq_legal].
    - intros ->. exact Hs.
    - intros [_ Hl]. eapply IH; [|exact Hl]. apply Inv_step. exact Hs.
  Qed.

  Lemma lk_reach s0 evs (c : cfg) :
    exec (lk_step seq_step excl) (sys_init (lk_init s0)) evs = Some c ->
    sys_inv state op ret (lk_shared state) (lk_pc state) seq_step lk_st lk_phase
            (lk_I state op excl) (lk_init s0) c.
  Proof.
    exact (sys_inv_reachable state op ret (lk_shared state) (lk_pc state) seq_step lk_entry
             (lk_tstep seq_step excl) lk_st lk_phase (lk_I state op excl)
             (lk_Hentry state op ret) (lk_Hcall state op excl)
             (lk_Hstep state op ret seq_step excl mutating Hexcl Hro)
             (lk_init s0) (lk_I_init state op excl s0) evs c).
  Qed.

  (* (a) the inner state always satisfies the sequential invariant *)
  Theorem locked_inner_invariant_lemma s0 : Inv s0 ->
    forall evs (c : cfg), exec (lk_step seq_step excl) (sys_init (lk_init s0)) evs = Some c ->
      Inv (lk_st (s_sh c)).
  Proof.
    intros H0 evs c He. destruct (lk_reach s0 evs c He) as [_ _ Hleg _].
    eapply seq_legal_inv; [exact H0|exact Hleg].
  Qed.

  (* (b) a relational abstract specification refined by the sequential steps *)
  Variable astate : Type.
  Variable absf : state -> astate.
  Variable arel : astate -> op -> ret -> astate -> Prop.
  Hypothesis Hrefine : forall s o, Inv s ->
    arel (absf s) o (snd (seq_step s o)) (absf (fst (seq_step s o))).

  Inductive arel_run : astate -> list (op * ret) -> astate -> Prop :=
  | arel_nil a : arel_run a [] a
  | arel_cons a o r a1 l a2 : arel a o r a1 -> arel_run a1 l a2 -> arel_run a ((o, r) :: l) a2.

  Lemma seq_legal_arel s l s' : Inv s -> seq_legal seq_step s l s' -> arel_run (absf s) l (absf s').
  Proof.
    revert s. induction l as [|[o r] l IH]; intros s Hs; cbn [seq_legal].
    - intros ->. constructor.
    - intros [Hr Hl]. econstructor.
      + rewrite <- Hr. apply Hrefine. exact Hs.
      + apply IH; [apply Inv_step; exact Hs|exact Hl].
  Qed.

  Theorem locked_refines_abstract_lemma s0 : Inv s0 ->
    forall evs (c : cfg), exec (lk_step seq_step excl) (sys_init (lk_init s0)) evs = Some c ->
      arel_run (absf s0) (lin_ops (s_hist c)) (absf (lk_st (s_sh c))).
  Proof.
    intros H0 evs c He. destruct (lk_reach s0 evs c He) as [_ _ Hleg _].
    apply seq_legal_arel; assumption.
  Qed.

  (* (c) results that no step from an Inv-state gives are never returned by any statement *)
  Variable bad : ret -> Prop.
  Hypothesis Hnobad : forall s o, Inv s -> ~ bad (snd (seq_step s o)).

  Theorem locked_no_bad_result_lemma s0 : Inv s0 ->
    forall evs (c : cfg) t c' ob,
      exec (lk_step seq_step excl) (sys_init (lk_init s0)) evs = Some c ->
      lk_exec1 seq_step excl c (EStep t) = Some (c', ob) ->
      ob <> OPanic /\ forall r, ob = ORet r -> ~ bad r.
  Proof.
    intros H0 evs c t c' ob He E.
    pose proof (locked_inner_invariant_lemma s0 H0 evs c He) as Hinv.
    destruct (lk_reach s0 evs c He) as [(_ & _ & _ & Hmid) _ _ _].
    unfold lk_exec1 in E. cbn [sys_exec1] in E.
    destruct (lookup t (s_thr c)) as [[o p]|] eqn:Hl; [|discriminate].
    destruct p as [| | |s1]; cbn [lk_tstep] in E.
    - destruct (excl o).
      + destruct (lk_w (s_sh c) || negb (Nat.eqb (lk_r (s_sh c)) 0)); [discriminate|].
        injection E as _ <-. split; [discriminate|intros r Hr; discriminate].
      + destruct (lk_w (s_sh c)); [discriminate|].
        injection E as _ <-. split; [discriminate|intros r Hr; discriminate].
    - injection E as _ <-. split; [discriminate|intros r Hr; discriminate].
    - injection E as _ <-. split; [discriminate|intros r Hr; discriminate].
    - injection E as _ <-. split; [discriminate|].
      intros r Hr. injection Hr as <-. rewrite (Hmid _ _ _ Hl). apply Hnobad. exact Hinv.
  Qed.
End LockedRefine.

Arguments arel_run {op ret astate}.
Arguments arel_nil {op ret astate}.
Arguments arel_cons {op ret astate}.

(* ---------------------------------------------------------------------------------------- *)
(* ConcurrentPriorityQueue over the array heap                                                *)
(* ---------------------------------------------------------------------------------------- *)
(* the five public methods; Cap reads the immutable capacity field *)
Inductive hq_op := HQ (o : HeapModel.op) | HQCap.
Notation hq_ret := (HeapModel.hres HeapModel.ret).

Definition hq_step (cmp : Z -> Z -> Z) (p : HeapModel.pq) (o : hq_op) : HeapModel.pq * hq_ret :=
  match o with
  | HQ o => HeapModel.step cmp p o
  | HQCap => (p, HeapModel.HOk (HeapModel.RLen (HeapModel.capacity p)))
  end.

(* queue/concurrent_priority_queue.go: Len, Cap, Peek under RLock; Enqueue, Dequeue under Lock *)
Definition hq_excl (o : hq_op) : bool :=
  match o with
  | HQ (HeapModel.Enqueue _) => true
  | HQ HeapModel.Dequeue => true
  | HQ HeapModel.Peek => false
  | HQ HeapModel.Len => false
  | HQCap => false
  end.
Definition hq_mutating (o : hq_op) : bool :=
  match o with HQ (HeapModel.Enqueue _) | HQ HeapModel.Dequeue => true | _ => false end.

(* the abstract sorted multiset of HeapModel, extended by Cap (c = the constructor's argument) *)
Inductive hq_abs_step (cmp : Z -> Z -> Z) (c : Z) (bag : list Z) : hq_op -> hq_ret -> list Z -> Prop :=
| hq_abs_op o r bag' : HeapModel.abs_step cmp c bag o r bag' -> hq_abs_step cmp c bag (HQ o) r bag'
| hq_abs_cap : hq_abs_step cmp c bag HQCap (HeapModel.HOk (HeapModel.RLen (if c <? 1 then 0 else c))) bag.

Definition hq_crash (r : hq_ret) : Prop := r = HeapModel.HPanic \/ r = HeapModel.HOutOfFuel.

Definition hq_cfg := sys_cfg hq_op hq_ret (lk_shared HeapModel.pq) (lk_pc HeapModel.pq).
Definition hq_init (c : Z) : hq_cfg := sys_init (lk_init (HeapModel.new_pq c)).
Definition hq_cstep (cmp : Z -> Z -> Z) : hq_cfg -> sys_ev hq_op -> option hq_cfg := lk_step (hq_step cmp) hq_excl.
Definition hq_cexec1 (cmp : Z -> Z -> Z) := lk_exec1 (hq_step cmp) hq_excl.

Section CpqCompose.
  Variable cmp : Z -> Z -> Z.
  Hypothesis cmp_total : forall x y, 0 <= cmp x y -> cmp y x <= 0.
  Hypothesis cmp_trans : forall x y z, cmp x y <= 0 -> cmp y z <= 0 -> cmp x z <= 0.

  Lemma hq_side : forall o, hq_mutating o = true -> hq_excl o = true.
  Proof. intros [[v| | |]|]; cbn; congruence. Qed.

  Lemma hq_ro : forall p o, hq_mutating o = false -> fst (hq_step cmp p o) = p.
  Proof. intros p [[v| | |]|]; cbn; try reflexivity; discriminate. Qed.

  Lemma hq_inv_step c : forall p o, HeapModel.reachable cmp c p -> HeapModel.reachable cmp c (fst (hq_step cmp p o)).
  Proof. intros p [o|] H; cbn [hq_step fst]; [constructor; exact H|exact H]. Qed.

  Lemma hq_refine c : forall p o, HeapModel.reachable cmp c p ->
    hq_abs_step cmp c (HeapModel.contents p) o (snd (hq_step cmp p o))
                (HeapModel.contents (fst (hq_step cmp p o))).
  Proof.
    intros p [o|] H; cbn [hq_step fst snd].
    - constructor. apply HeapProof2.pq_step_refines_lemma; assumption.
    - destruct (HeapProof2.reachable_wf cmp cmp_total cmp_trans c p H) as [_ Hc].
      unfold HeapProof2.cap_rel in Hc. rewrite Hc. constructor.
  Qed.

  Lemma hq_nocrash c : forall p o, HeapModel.reachable cmp c p -> ~ hq_crash (snd (hq_step cmp p o)).
  Proof.
    intros p o H Hbad. pose proof (hq_refine c p o H) as Hs.
    remember (snd (hq_step cmp p o)) as r eqn:Er. clear Er.
    remember (HeapModel.contents (fst (hq_step cmp p o))) as b' eqn:Eb. clear Eb.
    destruct Hs as [o' r bag' Ha|].
    - destruct (HeapProof2.abs_step_no_crash cmp _ _ _ _ _ Ha) as [N1 N2].
      destruct Hbad; contradiction.
    - destruct Hbad; discriminate.
  Qed.

  (* exclusion + linearizability w.r.t. the HEAP model (inherited), in one statement *)
  Definition cpq_heap_locked_lemma (c : Z) :=
    locked_object_linearizable_lemma HeapModel.pq hq_op hq_ret (hq_step cmp) hq_excl hq_mutating
      hq_side hq_ro (HeapModel.new_pq c).

  Theorem cpq_heap_state_reachable_lemma c evs (cf : hq_cfg) :
    exec (hq_cstep cmp) (hq_init c) evs = Some cf -> HeapModel.reachable cmp c (lk_st (s_sh cf)).
  Proof.
    exact (locked_inner_invariant_lemma HeapModel.pq hq_op hq_ret (hq_step cmp) hq_excl hq_mutating
             hq_side hq_ro (HeapModel.reachable cmp c) (hq_inv_step c) (HeapModel.new_pq c)
             (HeapModel.reach_new cmp c) evs cf).
  Qed.

  Theorem cpq_sorted_multiset_lemma c evs (cf : hq_cfg) :
    exec (hq_cstep cmp) (hq_init c) evs = Some cf ->
    arel_run (hq_abs_step cmp c) [] (lin_ops (s_hist cf)) (HeapModel.contents (lk_st (s_sh cf))).
  Proof.
    exact (locked_refines_abstract_lemma HeapModel.pq hq_op hq_ret (hq_step cmp) hq_excl hq_mutating
             hq_side hq_ro (HeapModel.reachable cmp c) (hq_inv_step c) (list Z) HeapModel.contents
             (hq_abs_step cmp c) (hq_refine c) (HeapModel.new_pq c) (HeapModel.reach_new cmp c) evs cf).
  Qed.

  Theorem cpq_no_panic_lemma c evs (cf : hq_cfg) t cf' ob :
    exec (hq_cstep cmp) (hq_init c) evs = Some cf ->
    hq_cexec1 cmp cf (EStep t) = Some (cf', ob) ->
    ob <> OPanic /\ ob <> ORet HeapModel.HPanic /\ ob <> ORet HeapModel.HOutOfFuel.
  Proof.
    intros He E.
    destruct (locked_no_bad_result_lemma HeapModel.pq hq_op hq_ret (hq_step cmp) hq_excl hq_mutating
                hq_side hq_ro (HeapModel.reachable cmp c) (hq_inv_step c) hq_crash (hq_nocrash c)
                (HeapModel.new_pq c) (HeapModel.reach_new cmp c) evs cf t cf' ob He E) as [H1 H2].
    split; [exact H1|split].
    - intros ->. apply (H2 _ eq_refl). left; reflexivity.
    - intros ->. apply (H2 _ eq_refl). right; reflexivity.
  Qed.
End CpqCompose.

(* ---------------------------------------------------------------------------------------- *)
(* ConcurrentList over ArrayList / LinkedList (any ListModel.lstate)                          *)
(* ---------------------------------------------------------------------------------------- *)
(* an operation together with the capacity oracle of that call (ListModel's convention) *)
Definition cl_op := (ListModel.op * Z)%type.
Notation cl_ret := (outcome ListModel.out).

Definition cl_step (s : ListModel.lstate) (o : cl_op) : ListModel.lstate * cl_ret :=
  ListModel.lstep s (fst o) (snd o).

Definition cl_mutating (o : cl_op) : bool :=
  match fst o with
  | ListModel.OpAppend _ | ListModel.OpAdd _ _ | ListModel.OpSet _ _ | ListModel.OpDelete _ => true
  | _ => false
  end.
(* list/concurrent_list.go: Get, Len, Cap, Range, AsSlice under RLock; Append, Add, Set, Delete under Lock *)
Definition cl_excl (o : cl_op) : bool :=
  match fst o with
  | ListModel.OpGet _ => false
  | ListModel.OpAppend _ => true
  | ListModel.OpAdd _ _ => true
  | ListModel.OpSet _ _ => true
  | ListModel.OpDelete _ => true
  | ListModel.OpLen => false
  | ListModel.OpCap => false
  | ListModel.OpRange _ => false
  | ListModel.OpAsSlice => false
  end.

(* the abstract sequence: the answer (capacities erased) and the next sequence are ListModel.seq_step's *)
Definition cl_abs_step (l : list Z) (o : cl_op) (r : cl_ret) (l' : list Z) : Prop :=
  ListModel.canon r = snd (ListModel.seq_step l (fst o)) /\ l' = fst (ListModel.seq_step l (fst o)).

Definition cl_cfg := sys_cfg cl_op cl_ret (lk_shared ListModel.lstate) (lk_pc ListModel.lstate).
Definition cl_init (s0 : ListModel.lstate) : cl_cfg := sys_init (lk_init s0).
Definition cl_cstep : cl_cfg -> sys_ev cl_op -> option cl_cfg := lk_step cl_step cl_excl.
Definition cl_cexec1 := lk_exec1 cl_step cl_excl.

Lemma cl_side : forall o, cl_mutating o = true -> cl_excl o = true.
Proof. intros [o c]; destruct o; cbn; congruence. Qed.

Lemma lstep_readonly : forall s o c,
  cl_mutating (o, c) = false -> fst (ListModel.lstep s o c) = s.
Proof.
  induction s as [a|l|a|s IH]; intros o c Hm.
  - destruct o; cbn in Hm; try discriminate; reflexivity.
  - destruct o; cbn in Hm; try discriminate; reflexivity.
  - destruct o; cbn in Hm; try discriminate; reflexivity.
  - cbn [ListModel.lstep]. specialize (IH o c Hm).
    destruct (ListModel.lstep s o c) as [s' r]. cbn [fst] in *. rewrite IH. reflexivity.
Qed.

Lemma cl_ro : forall s o, cl_mutating o = false -> fst (cl_step s o) = s.
Proof. intros s [o c] H. apply lstep_readonly. exact H. Qed.

Lemma cl_inv_step : forall s o, ListModel.wf s -> ListModel.wf (fst (cl_step s o)).
Proof. intros s [o c] H. apply (ListProof2.lstep_refines s o c H). Qed.

Lemma cl_refine : forall s o, ListModel.wf s ->
  cl_abs_step (ListModel.contents s) o (snd (cl_step s o)) (ListModel.contents (fst (cl_step s o))).
Proof.
  intros s [o c] H. destruct (ListProof2.lstep_refines s o c H) as (H1 & H2 & _).
  split; [exact H2|exact H1].
Qed.

Lemma cl_nopanic : forall s o, ListModel.wf s -> ~ (snd (cl_step s o) = Panic).
Proof. intros s [o c] H. apply ListProof2.lstep_no_panic. exact H. Qed.

Definition clist_impl_locked_lemma (s0 : ListModel.lstate) :=
  locked_object_linearizable_lemma ListModel.lstate cl_op cl_ret cl_step cl_excl cl_mutating
    cl_side cl_ro s0.

Theorem clist_impl_wf_lemma s0 evs (cf : cl_cfg) :
  ListModel.wf s0 -> exec cl_cstep (cl_init s0) evs = Some cf -> ListModel.wf (lk_st (s_sh cf)).
Proof.
  intros H0.
  exact (locked_inner_invariant_lemma ListModel.lstate cl_op cl_ret cl_step cl_excl cl_mutating
           cl_side cl_ro ListModel.wf cl_inv_step s0 H0 evs cf).
Qed.

Theorem clist_impl_sequence_lemma s0 evs (cf : cl_cfg) :
  ListModel.wf s0 -> exec cl_cstep (cl_init s0) evs = Some cf ->
  arel_run cl_abs_step (ListModel.contents s0) (lin_ops (s_hist cf)) (ListModel.contents (lk_st (s_sh cf))).
Proof.
  intros H0.
  exact (locked_refines_abstract_lemma ListModel.lstate cl_op cl_ret cl_step cl_excl cl_mutating
           cl_side cl_ro ListModel.wf cl_inv_step (list Z) ListModel.contents cl_abs_step cl_refine
           s0 H0 evs cf).
Qed.

Theorem clist_no_panic_lemma s0 evs (cf : cl_cfg) t cf' ob :
  ListModel.wf s0 -> exec cl_cstep (cl_init s0) evs = Some cf ->
  cl_cexec1 cf (EStep t) = Some (cf', ob) -> ob <> OPanic /\ ob <> ORet Panic.
Proof.
  intros H0 He E.
  destruct (locked_no_bad_result_lemma ListModel.lstate cl_op cl_ret cl_step cl_excl cl_mutating
              cl_side cl_ro ListModel.wf cl_inv_step (fun r => r = Panic) cl_nopanic
              s0 H0 evs cf t cf' ob He E) as [H1 H2].
  split; [exact H1|]. intros ->. exact (H2 _ eq_refl eq_refl).
Qed.

(* the abstract run, read as a run of the functional specification ListModel.seq_step *)
Lemma cl_arel_run_seq : forall l ops l',
  arel_run cl_abs_step l ops l' ->
  map ListModel.canon (map snd ops) = ListModel.seq_run l (map fst ops) /\
  l' = ListModel.seq_final l (map fst ops).
Proof.
  intros l ops l' H. induction H as [a|a o r a1 ops a2 [Hr Ha] Hrun [IH1 IH2]].
  - split; reflexivity.
  - destruct o as [o c]. cbn [map fst snd ListModel.seq_run ListModel.seq_final] in *.
    destruct (ListModel.seq_step a o) as [a' r'] eqn:E. cbn [fst snd] in *. subst a1.
    split; [rewrite Hr, IH1; reflexivity|exact IH2].
Qed.

Theorem clist_impl_seq_run_lemma s0 evs (cf : cl_cfg) :
  ListModel.wf s0 -> exec cl_cstep (cl_init s0) evs = Some cf ->
  map ListModel.canon (map snd (lin_ops (s_hist cf))) =
    ListModel.seq_run (ListModel.contents s0) (map fst (lin_ops (s_hist cf))) /\
  ListModel.contents (lk_st (s_sh cf)) = ListModel.seq_final (ListModel.contents s0) (map fst (lin_ops (s_hist cf))).
Proof.
  intros H0 He. apply cl_arel_run_seq. exact (clist_impl_sequence_lemma s0 evs cf H0 He).
Qed.
