(* Proofs about LBQModel (C09): capacity after cancellations.
   In every reachable QUIESCENT configuration (no call in flight) a whole Enqueue executed
   ALONE ([call_alone] of the model: CALL, then only its own statements) returns nil without
   ever parking and appends its value iff the queue is unbounded or not full; on a full bounded
   queue it parks in its select on the open, current channel of notFull.  Hence exactly
   maxSize - Len successive solo Enqueues complete and the next one parks.

   The solo run is NOT evaluated symbolically in one piece: there is one equation per statement
   (section Statements: [lbq_exec1] on a one-thread table with a concrete pc), the equations are
   chained through [run_alone] by rewriting, and the quiescent configuration reached is again
   reachable (the solo run is a schedule), so the invariants of LBQProof*.v apply to it.

   Definitions used by the statement that are not in the (frozen) model file: [fill_alone],
   [quiescent], [parked_full]. *)
From Ekit Require Import Common Conc LBQModel LBQProof LBQProof2 LBQProof3 LBQProof4.
From Coq Require Import ZifyBool Arith PeanoNat.

(* ---------- definitions of the statement ---------- *)
(* no call in flight *)
Definition quiescent (c : lbq_cfg) : Prop := q_thr c = [].

(* the Enqueues (goroutine id, value) of [calls], one after the other, each executed alone;
   Some c' = every one of them returned nil; None = one of them did not return nil (it parked,
   returned something else, or its goroutine id was busy) *)
Fixpoint fill_alone (c : lbq_cfg) (calls : list (tid * Z)) : option lbq_cfg :=
  match calls with
  | [] => Some c
  | (t, v) :: r =>
    match call_alone c t (OEnq v) with
    | Some (c1, Some RNil) => fill_alone c1 r
    | _ => None
    end
  end.

(* thread t is an Enqueue of v really blocked in its select: parked, context live, waiting on
   the CURRENT channel of notFull, which is open; the mutex is free; STEP t is not enabled *)
Definition parked_full (c : lbq_cfg) (t : tid) (v : Z) : Prop :=
  q_thr c = [(t, mkloc (OEnq v) PParked false (q_nf c) O RNil)] /\
  mem (q_nf c) (q_nfc c) = false /\
  q_wlock c = None /\ q_readers c = O /\
  step_enabled c t = false.

(* ---------- one-thread tables ---------- *)
Section Single.
  Variable A : Type.
  Lemma lookup_single t (l : A) : lookup t [(t, l)] = Some l.
  Proof. cbn [lookup]. rewrite Nat.eqb_refl. reflexivity. Qed.
  Lemma update_single t (l l' : A) : update t l' [(t, l)] = [(t, l')].
  Proof. cbn [update]. rewrite Nat.eqb_refl. reflexivity. Qed.
  Lemma remove_single t (l : A) : remove t [(t, l)] = [].
  Proof. cbn [remove]. rewrite Nat.eqb_refl. reflexivity. Qed.
End Single.
Arguments lookup_single {A}. Arguments update_single {A}. Arguments remove_single {A}.

Local Arguments lbq_exec1 : simpl never.
Local Arguments run_alone : simpl never.

(* ---------- one equation per statement of a solo Enqueue ---------- *)
Section Statements.
  Variables (m : Z) (items : list Z) (ne nf : nat) (nec nfc : list nat) (h : list lbq_hev).
  Variables (t : tid) (v : Z).

  (* configuration: mutex w, no reader, no error, the only call in flight is t's Enqueue(v)
     at pc with locals (sg, old) *)
  Definition K (its : list Z) (w : option tid) (e f : nat) (ec : list nat)
             (pc : lbq_pc) (sg old : nat) (hh : list lbq_hev) : lbq_cfg :=
    mkcfg m its w O e f ec nfc false [(t, mkloc (OEnq v) pc false sg old RNil)] hh.

  Ltac one_step :=
    unfold K, lbq_exec1; cbn [q_thr]; rewrite lookup_single;
    cbn [l_op is_qop]; unfold step_q, mv, fin, unlock;
    cbn [l_pc l_op l_cancel l_sig l_old l_res set_pc set_sig set_old set_res
         q_thr q_wlock q_readers q_max q_items q_ne q_nf q_nec q_nfc q_bad q_hist
         set_thr set_wlock set_items add_hist set_cur add_closed cur closed wcond bcond];
    rewrite ?update_single, ?remove_single.

  (* CALL *)
  Lemma so_call :
    lbq_step (mkcfg m items None O ne nf nec nfc false [] h) (QCall t (OEnq v)) =
    Some (K items None ne nf nec PIf O O (HCall t (OEnq v) :: h)).
  Proof. reflexivity. Qed.

  (* if ctx.Err() != nil *)
  Lemma so_if its w e ec sg old hh :
    lbq_exec1 (K its w e nf ec PIf sg old hh) (QStep t) =
    Some (K its w e nf ec PLock sg old hh, [(t, OAt (OEnq v) PLock)]).
  Proof. one_step. reflexivity. Qed.

  (* c.mutex.Lock() *)
  Lemma so_lock its e ec sg old hh :
    lbq_exec1 (K its None e nf ec PLock sg old hh) (QStep t) =
    Some (K its (Some t) e nf ec PFor sg old hh, [(t, OAt (OEnq v) PFor)]).
  Proof. one_step. reflexivity. Qed.

  (* for c.maxSize > 0 && c.linkedlist.Len() == c.maxSize *)
  Lemma so_for its w e ec sg old hh :
    lbq_exec1 (K its w e nf ec PFor sg old hh) (QStep t) =
    Some (K its w e nf ec (if (0 <? m) && (Z.of_nat (length its) =? m) then PSig else PAct) sg old hh,
          [(t, OAt (OEnq v) (if (0 <? m) && (Z.of_nat (length its) =? m) then PSig else PAct))]).
  Proof. one_step. reflexivity. Qed.

  (* err := c.linkedlist.Append(t) *)
  Lemma so_act its w e ec sg old hh :
    lbq_exec1 (K its w e nf ec PAct sg old hh) (QStep t) =
    Some (K (its ++ [v]) w e nf ec PBcast sg old (HLin t (OEnq v) RNil :: hh), [(t, OAt (OEnq v) PBcast)]).
  Proof. one_step. reflexivity. Qed.

  (* c.notEmpty.broadcast() *)
  Lemma so_bcast its w e ec sg old hh :
    lbq_exec1 (K its w e nf ec PBcast sg old hh) (QStep t) =
    Some (K its w e nf ec BMake sg old hh, [(t, OAt (OEnq v) BMake)]).
  Proof. one_step. reflexivity. Qed.

  (* signal := make(chan struct{}) *)
  Lemma so_bmake its w e ec sg old hh :
    lbq_exec1 (K its w e nf ec BMake sg old hh) (QStep t) =
    Some (K its w e nf ec BOld sg old hh, [(t, OAt (OEnq v) BOld)]).
  Proof. one_step. reflexivity. Qed.

  (* old := c.signal *)
  Lemma so_bold its w e ec sg old hh :
    lbq_exec1 (K its w e nf ec BOld sg old hh) (QStep t) =
    Some (K its w e nf ec BSet sg e hh, [(t, OAt (OEnq v) BSet)]).
  Proof. one_step. reflexivity. Qed.

  (* c.signal = signal *)
  Lemma so_bset its w e ec sg old hh :
    lbq_exec1 (K its w e nf ec BSet sg old hh) (QStep t) =
    Some (K its w (S e) nf ec BUnlock sg old hh, [(t, OAt (OEnq v) BUnlock)]).
  Proof. one_step. reflexivity. Qed.

  (* c.l.Unlock() *)
  Lemma so_bunlock its w e ec sg old hh :
    lbq_exec1 (K its (Some w) e nf ec BUnlock sg old hh) (QStep t) =
    Some (K its None e nf ec BClose sg old hh, [(t, OAt (OEnq v) BClose)]).
  Proof. one_step. reflexivity. Qed.

  (* close(old): the channel is open, nobody waits on it *)
  Lemma so_bclose its w e ec sg old hh :
    mem old ec = false ->
    lbq_exec1 (K its w e nf ec BClose sg old hh) (QStep t) =
    Some (K its w e nf (old :: ec) PRet sg old hh, [(t, OAt (OEnq v) PRet)]).
  Proof.
    intros Hm. one_step. rewrite Hm.
    cbn [wake_all wake1 woken woken_obs l_pc pc_eqb andb app]. reflexivity.
  Qed.

  (* return err *)
  Lemma so_ret its w e ec sg old hh :
    lbq_exec1 (K its w e nf ec PRet sg old hh) (QStep t) =
    Some (mkcfg m its w O e nf ec nfc false [] (HRet t RNil :: hh), [(t, ORet RNil)]).
  Proof. one_step. reflexivity. Qed.

  (* signal := c.notFull.signalCh() *)
  Lemma so_sig its w e ec sg old hh :
    lbq_exec1 (K its w e nf ec PSig sg old hh) (QStep t) =
    Some (K its w e nf ec SRes sg old hh, [(t, OAt (OEnq v) SRes)]).
  Proof. one_step. reflexivity. Qed.

  (* res := c.signal *)
  Lemma so_sres its w e ec sg old hh :
    lbq_exec1 (K its w e nf ec SRes sg old hh) (QStep t) =
    Some (K its w e nf ec SUnlock nf old hh, [(t, OAt (OEnq v) SUnlock)]).
  Proof. one_step. reflexivity. Qed.

  (* c.l.Unlock() *)
  Lemma so_sunlock its w e ec sg old hh :
    lbq_exec1 (K its (Some w) e nf ec SUnlock sg old hh) (QStep t) =
    Some (K its None e nf ec SRet sg old hh, [(t, OAt (OEnq v) SRet)]).
  Proof. one_step. reflexivity. Qed.

  (* return res *)
  Lemma so_sret its w e ec sg old hh :
    lbq_exec1 (K its w e nf ec SRet sg old hh) (QStep t) =
    Some (K its w e nf ec PSelect sg old hh, [(t, OAt (OEnq v) PSelect)]).
  Proof. one_step. reflexivity. Qed.

  (* select: the channel is open and the context live: the call parks, no observation *)
  Lemma so_select its w e ec sg old hh :
    mem sg nfc = false ->
    lbq_exec1 (K its w e nf ec PSelect sg old hh) (QStep t) =
    Some (K its w e nf ec PParked sg old hh, []).
  Proof. intros Hm. one_step. rewrite Hm. reflexivity. Qed.

  (* parked: no step *)
  Lemma so_parked its w e ec sg old hh :
    lbq_exec1 (K its w e nf ec PParked sg old hh) (QStep t) = None.
  Proof. one_step. reflexivity. Qed.

  Lemma K_lookup its w e f ec pc sg old hh :
    lookup t (q_thr (K its w e f ec pc sg old hh)) = Some (mkloc (OEnq v) pc false sg old RNil).
  Proof. unfold K. cbn [q_thr]. apply lookup_single. Qed.
End Statements.

(* ---------- chaining through run_alone ---------- *)
Lemma run_alone_cont f c t c' obs l :
  lbq_exec1 c (QStep t) = Some (c', obs) -> lookup t (q_thr c') = Some l ->
  run_alone (S f) c t = run_alone f c' t.
Proof. intros H1 H2. unfold run_alone at 1. fold run_alone. rewrite H1, H2. reflexivity. Qed.

Lemma run_alone_ret f c t c' r rest :
  lbq_exec1 c (QStep t) = Some (c', (t, ORet r) :: rest) -> lookup t (q_thr c') = None ->
  run_alone (S f) c t = Some (c', Some r).
Proof. intros H1 H2. unfold run_alone at 1. fold run_alone. rewrite H1, H2. reflexivity. Qed.

Lemma run_alone_blocked f c t :
  lbq_exec1 c (QStep t) = None -> run_alone (S f) c t = Some (c, None).
Proof. intros H1. unfold run_alone at 1. fold run_alone. rewrite H1. reflexivity. Qed.

Ltac cont L := erewrite run_alone_cont; [ | apply L | apply K_lookup ].

(* the whole Enqueue, alone, with room (or unbounded) *)
Lemma enq_alone_room m items ne nf nec nfc h t v :
  (0 <? m) && (Z.of_nat (length items) =? m) = false ->
  mem ne nec = false ->
  call_alone (mkcfg m items None O ne nf nec nfc false [] h) t (OEnq v) =
  Some (mkcfg m (items ++ [v]) None O (S ne) nf (ne :: nec) nfc false []
          (HRet t RNil :: HLin t (OEnq v) RNil :: HCall t (OEnq v) :: h), Some RNil).
Proof.
  intros Hroom Hopen. unfold call_alone. rewrite so_call.
  cont so_if. cont so_lock. cont so_for. rewrite Hroom.
  cont so_act. cont so_bcast. cont so_bmake. cont so_bold. cont so_bset. cont so_bunlock.
  erewrite run_alone_cont; [ | apply so_bclose; exact Hopen | apply K_lookup ].
  erewrite run_alone_ret; [ reflexivity | apply so_ret | reflexivity ].
Qed.

(* the whole Enqueue, alone, on the full bounded queue *)
Lemma enq_alone_full m items ne nf nec nfc h t v :
  (0 <? m) && (Z.of_nat (length items) =? m) = true ->
  mem nf nfc = false ->
  call_alone (mkcfg m items None O ne nf nec nfc false [] h) t (OEnq v) =
  Some (mkcfg m items None O ne nf nec nfc false [(t, mkloc (OEnq v) PParked false nf O RNil)]
          (HCall t (OEnq v) :: h), None).
Proof.
  intros Hfull Hopen. unfold call_alone. rewrite so_call.
  cont so_if. cont so_lock. cont so_for. rewrite Hfull.
  cont so_sig. cont so_sres. cont so_sunlock. cont so_sret.
  erewrite run_alone_cont; [ | apply so_select; exact Hopen | apply K_lookup ].
  erewrite run_alone_blocked; [ reflexivity | apply so_parked ].
Qed.

(* ---------- a solo run is a schedule ---------- *)
Lemma run_alone_exec f : forall c t c' r,
  run_alone f c t = Some (c', r) -> exists n, exec lbq_step c (lbq_steps t n) = Some c'.
Proof.
  induction f as [|f IH]; intros c t c' r H.
  - injection H as <- _. exists O. reflexivity.
  - unfold run_alone in H. fold run_alone in H.
    destruct (lbq_exec1 c (QStep t)) as [[c1 obs]|] eqn:E.
    + destruct (lookup t (q_thr c1)) as [l1|] eqn:El.
      * destruct (IH _ _ _ _ H) as [n Hn]. exists (S n).
        unfold lbq_steps. cbn [repeat exec]. unfold lbq_step at 1. rewrite E. exact Hn.
      * injection H as <- _. exists 1%nat.
        unfold lbq_steps. cbn [repeat exec]. unfold lbq_step. rewrite E. reflexivity.
    + injection H as <- _. exists O. reflexivity.
Qed.

Lemma call_alone_exec c t o c' r :
  call_alone c t o = Some (c', r) -> exists n, exec lbq_step c (QCall t o :: lbq_steps t n) = Some c'.
Proof.
  unfold call_alone. intros H. destruct (lbq_step c (QCall t o)) as [c1|] eqn:E; [|discriminate].
  destruct (run_alone_exec _ _ _ _ _ H) as [n Hn]. exists n. cbn [exec]. rewrite E. exact Hn.
Qed.

Lemma call_alone_reachable m evs c t o c' r :
  exec lbq_step (lbq_init m) evs = Some c -> call_alone c t o = Some (c', r) ->
  exists evs', exec lbq_step (lbq_init m) evs' = Some c'.
Proof.
  intros Hr H. destruct (call_alone_exec _ _ _ _ _ H) as [n Hn].
  exists (evs ++ QCall t o :: lbq_steps t n). rewrite exec_app, Hr. exact Hn.
Qed.

(* ---------- the shape of a reachable quiescent configuration ---------- *)
Lemma quiescent_shape m evs c :
  exec lbq_step (lbq_init m) evs = Some c -> quiescent c ->
  exists items ne nf nec nfc h,
    c = mkcfg m items None O ne nf nec nfc false [] h /\
    mem ne nec = false /\ mem nf nfc = false /\ (0 < m -> Z.of_nat (length items) <= m).
Proof.
  intros Hr Hq. destruct (lbq_reachable _ _ _ Hr) as [I M].
  pose proof (v1 c I) as I1. pose proof (vF c I) as F. pose proof (d_cap c (vD c I)) as Hcap.
  pose proof (i_owner c I1) as Hown. pose proof (i_readers c I1) as Hrd.
  pose proof (f_bad c F) as Hbad.
  pose proof (f_closed c F CNotEmpty) as Hce. pose proof (f_closed c F CNotFull) as Hcf.
  unfold quiescent in Hq. unfold qlen in Hcap.
  destruct c as [m0 items w rd ne nf nec nfc bad thr h].
  cbn [q_max q_items q_wlock q_readers q_ne q_nf q_nec q_nfc q_bad q_thr cur closed] in *.
  subst m0 thr bad.
  assert (Hw : w = None).
  { destruct w as [t0|]; [|reflexivity]. destruct (Hown t0 eq_refl) as [l [Hl _]]. discriminate Hl. }
  assert (Hr0 : rd = O) by (cbn [count] in Hrd; lia).
  subst w rd.
  exists items, ne, nf, nec, nfc, h. split; [reflexivity|].
  split; [|split; [|exact Hcap]].
  - destruct (mem ne nec) eqn:E; [|reflexivity]. apply mem_in, Hce in E. lia.
  - destruct (mem nf nfc) eqn:E; [|reflexivity]. apply mem_in, Hcf in E. lia.
Qed.

(* ---------- one solo Enqueue from a reachable quiescent configuration ---------- *)
Lemma enqueue_alone_completes m evs c t v :
  exec lbq_step (lbq_init m) evs = Some c -> quiescent c ->
  (0 < m -> qlen c < m) ->
  exists c' evs',
    call_alone c t (OEnq v) = Some (c', Some RNil) /\
    q_items c' = q_items c ++ [v] /\ quiescent c' /\
    exec lbq_step (lbq_init m) evs' = Some c'.
Proof.
  intros Hr Hq Hroom.
  destruct (quiescent_shape _ _ _ Hr Hq) as [items [ne [nf [nec [nfc [h [-> [He [Hf Hcap]]]]]]]]].
  unfold qlen in Hroom. cbn [q_items] in Hroom.
  assert (Hb : (0 <? m) && (Z.of_nat (length items) =? m) = false) by lia.
  pose proof (enq_alone_room m items ne nf nec nfc h t v Hb He) as Hrun.
  destruct (call_alone_reachable _ _ _ _ _ _ _ Hr Hrun) as [evs' Hr'].
  eexists. exists evs'. split; [exact Hrun|]. split; [reflexivity|]. split; [reflexivity|exact Hr'].
Qed.

Lemma enqueue_alone_parks_when_full m evs c t v :
  exec lbq_step (lbq_init m) evs = Some c -> quiescent c ->
  0 < m -> qlen c = m ->
  exists c',
    call_alone c t (OEnq v) = Some (c', None) /\
    parked_full c' t v /\ q_items c' = q_items c.
Proof.
  intros Hr Hq Hm Hfull.
  destruct (quiescent_shape _ _ _ Hr Hq) as [items [ne [nf [nec [nfc [h [-> [He [Hf Hcap]]]]]]]]].
  unfold qlen in Hfull. cbn [q_items] in Hfull.
  assert (Hb : (0 <? m) && (Z.of_nat (length items) =? m) = true) by lia.
  pose proof (enq_alone_full m items ne nf nec nfc h t v Hb Hf) as Hrun.
  eexists. split; [exact Hrun|]. split; [|reflexivity].
  unfold parked_full. cbn [q_thr q_nf q_nfc q_wlock q_readers].
  split; [reflexivity|]. split; [exact Hf|]. split; [reflexivity|]. split; [reflexivity|].
  pose proof (so_parked m nf nfc t v items None ne nec nf O (HCall t (OEnq v) :: h)) as Hs.
  unfold K in Hs. unfold step_enabled. rewrite Hs. reflexivity.
Qed.

(* ---------- counting ---------- *)
Lemma fill_alone_app a : forall c b,
  fill_alone c (a ++ b) = match fill_alone c a with Some c1 => fill_alone c1 b | None => None end.
Proof.
  induction a as [|[t v] r IH]; intros c b; cbn [app fill_alone]; [reflexivity|].
  destruct (call_alone c t (OEnq v)) as [[c1 [[]|]]|]; try reflexivity. apply IH.
Qed.

(* as long as there is room (always, when unbounded) every solo Enqueue of the sequence
   returns nil, appends its value, and leaves a reachable quiescent configuration *)
Lemma fill_alone_ok m : forall calls evs c,
  exec lbq_step (lbq_init m) evs = Some c -> quiescent c ->
  (0 < m -> Z.of_nat (length calls) <= m - qlen c) ->
  exists c' evs',
    fill_alone c calls = Some c' /\
    q_items c' = q_items c ++ map snd calls /\ quiescent c' /\
    exec lbq_step (lbq_init m) evs' = Some c'.
Proof.
  induction calls as [|[t v] r IH]; intros evs c Hr Hq Hlen.
  - exists c, evs. cbn [fill_alone map]. rewrite app_nil_r. auto.
  - cbn [length] in Hlen.
    destruct (enqueue_alone_completes m evs c t v Hr Hq) as [c1 [evs1 [Hrun [Hit [Hq1 Hr1]]]]];
      [intros Hm; specialize (Hlen Hm); lia|].
    destruct (IH evs1 c1 Hr1 Hq1) as [c' [evs' [Hfill [Hit' [Hq' Hr']]]]].
    { intros Hm. specialize (Hlen Hm). unfold qlen in *. rewrite Hit, app_length. cbn [length]. lia. }
    exists c', evs'. cbn [fill_alone]. rewrite Hrun. split; [exact Hfill|].
    split; [|auto]. rewrite Hit', Hit, <- app_assoc. reflexivity.
Qed.

(* the full statement *)
Theorem capacity_after_cancellations_lemma m evs c :
  exec lbq_step (lbq_init m) evs = Some c -> quiescent c ->
  (0 < m ->
     (* exactly m - Len solo Enqueues complete ... *)
     (forall calls, Z.of_nat (length calls) = m - qlen c ->
        exists c',
          fill_alone c calls = Some c' /\
          q_items c' = q_items c ++ map snd calls /\ qlen c' = m /\ quiescent c' /\
          (exists evs', exec lbq_step (lbq_init m) evs' = Some c') /\
          (* ... and the next one parks in its select *)
          forall t v, exists c'',
            call_alone c' t (OEnq v) = Some (c'', None) /\
            parked_full c'' t v /\ q_items c'' = q_items c') /\
     (* fewer complete as well, more do not *)
     (forall calls, Z.of_nat (length calls) <= m - qlen c ->
        exists c', fill_alone c calls = Some c' /\ q_items c' = q_items c ++ map snd calls /\ quiescent c') /\
     (forall calls, m - qlen c < Z.of_nat (length calls) -> fill_alone c calls = None)) /\
  (m <= 0 ->
     forall calls, exists c',
       fill_alone c calls = Some c' /\ q_items c' = q_items c ++ map snd calls /\ quiescent c').
Proof.
  intros Hr Hq.
  assert (Hexact : 0 < m -> forall calls, Z.of_nat (length calls) = m - qlen c ->
        exists c',
          fill_alone c calls = Some c' /\
          q_items c' = q_items c ++ map snd calls /\ qlen c' = m /\ quiescent c' /\
          (exists evs', exec lbq_step (lbq_init m) evs' = Some c') /\
          forall t v, exists c'',
            call_alone c' t (OEnq v) = Some (c'', None) /\
            parked_full c'' t v /\ q_items c'' = q_items c').
  { intros Hm calls Hlen.
    destruct (fill_alone_ok m calls evs c Hr Hq) as [c' [evs' [Hfill [Hit [Hq' Hr']]]]]; [lia|].
    assert (Hfull : qlen c' = m).
    { unfold qlen in *. rewrite Hit, app_length, map_length. lia. }
    exists c'. split; [exact Hfill|]. split; [exact Hit|]. split; [exact Hfull|].
    split; [exact Hq'|]. split; [eauto|].
    intros t v. apply (enqueue_alone_parks_when_full m evs' c' t v Hr' Hq' Hm Hfull). }
  split.
  - intros Hm. split; [exact (Hexact Hm)|]. split.
    + intros calls Hlen.
      destruct (fill_alone_ok m calls evs c Hr Hq) as [c' [evs' [Hfill [Hit [Hq' _]]]]]; [lia|].
      exists c'. auto.
    + intros calls Hlen.
      pose proof (proj2 (lbq_capacity_lemma m evs c Hr) Hm) as Hcap.
      set (n := Z.to_nat (m - qlen c)).
      assert (Hn : (n < length calls)%nat) by lia.
      rewrite <- (firstn_skipn n calls), fill_alone_app.
      destruct (Hexact Hm (firstn n calls)) as [c' [Hfill [_ [_ [_ [_ Hnext]]]]]].
      { rewrite firstn_length. lia. }
      rewrite Hfill.
      destruct (skipn n calls) as [|[t v] rest] eqn:Es.
      { exfalso. pose proof (skipn_length n calls) as Hs. rewrite Es in Hs. cbn [length] in Hs. lia. }
      cbn [fill_alone]. destruct (Hnext t v) as [c'' [Hrun _]]. rewrite Hrun. reflexivity.
  - intros Hm calls.
    destruct (fill_alone_ok m calls evs c Hr Hq) as [c' [evs' [Hfill [Hit [Hq' _]]]]]; [lia|].
    exists c'. auto.
Qed.

(* ---------- a parked call stays parked until it is cancelled or its channel is closed ---------- *)
Lemma parked_moved_only_by_lemma c e c' obs tp lp :
  lbq_exec1 c e = Some (c', obs) -> lookup tp (q_thr c) = Some lp -> l_pc lp = PParked ->
  lookup tp (q_thr c') = Some lp \/
  e = QCancel tp \/
  (exists b lb, e = QStep b /\ b <> tp /\ lookup b (q_thr c) = Some lb /\ l_pc lb = BClose /\
                bcond (l_op lb) = wcond (l_op lp) /\ l_old lb = l_sig lp).
Proof.
  intros H Hl0 Hp.
  step_cases H.
  all: destruct (Nat.eq_dec t tp) as [Heq|Hne];
    [ try (subst t; first [ congruence | (rewrite Hl0 in Hl; injection Hl as <-; first [congruence | idtac]) ])
    | ].
  all: try solve [exfalso; apply pc_eqb_eq in E0; congruence].
  all: try solve [right; left; reflexivity].
  all: try solve [exfalso; apply andb_true_iff in E; destruct E as [E _]; apply andb_true_iff in E;
                  destruct E as [_ E]; apply pc_eqb_eq in E; congruence].
  all: try solve [left; cbn [q_thr set_thr add_hist set_wlock set_items set_readers set_bad];
                  rewrite ?q_thr_set_cur, ?q_thr_add_closed;
                  rewrite ?(lookup_update_other _ _ _ _ _ (not_eq_sym Hne)),
                    ?(lookup_remove_other _ _ _ (not_eq_sym Hne)), ?lookup_spawn, ?Hl0; reflexivity].
  all: try solve [left; unfold unlock; destruct (q_wlock c); cbn [q_thr set_thr set_wlock set_bad];
                  rewrite ?(lookup_update_other _ _ _ _ _ (not_eq_sym Hne)); exact Hl0].
  all: try solve [left; unfold runlock; destruct (q_readers c); cbn [q_thr set_thr set_readers set_bad add_hist];
                  rewrite ?(lookup_remove_other _ _ _ (not_eq_sym Hne)); exact Hl0].
  (* close(old) *)
  cbn [q_thr set_thr]. rewrite lookup_wake_all.
  rewrite (lookup_update_other _ _ _ _ _ (not_eq_sym Hne)), Hl0.
  destruct (wake1_pc (bcond (l_op l)) (l_old l) lp) as [[Hw _]|[_ Ew]].
  - right; right. apply woken_spec in Hw. destruct Hw as [_ [Hk Hg]].
    exists t, l. repeat split; auto.
  - left. rewrite Ew. reflexivity.
Qed.

(* for a parked Enqueue the closer is a Dequeue (the only caller of notFull.broadcast) *)
Lemma parked_enqueue_moved_only_by_lemma c e c' obs tp lp v :
  lbq_exec1 c e = Some (c', obs) -> lookup tp (q_thr c) = Some lp -> l_pc lp = PParked ->
  l_op lp = OEnq v ->
  lookup tp (q_thr c') = Some lp \/
  e = QCancel tp \/
  (exists b lb, e = QStep b /\ b <> tp /\ lookup b (q_thr c) = Some lb /\ l_pc lb = BClose /\
                l_op lb = ODeq /\ l_old lb = l_sig lp).
Proof.
  intros H Hl Hp Ho.
  destruct (parked_moved_only_by_lemma c e c' obs tp lp H Hl Hp) as [Hs|[Hs|[b [lb [A1 [A2 [A3 [A4 [A5 A6]]]]]]]]];
    [left; exact Hs|right; left; exact Hs|].
  right; right. exists b, lb. rewrite Ho in A5.
  repeat split; auto. destruct (l_op lb); cbn in A5; try discriminate A5. reflexivity.
Qed.

(* the statement instantiated to "two slots left" (used by the non-vacuity example) *)
Lemma capacity_two_left m evs c :
  exec lbq_step (lbq_init m) evs = Some c -> quiescent c -> 0 < m -> m - qlen c = 2 ->
  forall t1 v1 t2 v2, exists c',
    fill_alone c [(t1, v1); (t2, v2)] = Some c' /\ q_items c' = q_items c ++ [v1; v2] /\
    forall t v, exists c'', call_alone c' t (OEnq v) = Some (c'', None) /\ parked_full c'' t v.
Proof.
  intros E Hq Hm Hlen t1 v1 t2 v2.
  pose proof (capacity_after_cancellations_lemma m evs c E Hq) as T.
  destruct T as [T _]. specialize (T Hm). destruct T as [H _].
  specialize (H [(t1, v1); (t2, v2)]).
  assert (Hlen2 : Z.of_nat (length [(t1, v1); (t2, v2)]) = m - qlen c) by (rewrite Hlen; reflexivity).
  specialize (H Hlen2). destruct H as [c' [A1 [A2 [_ [_ [_ A3]]]]]].
  exists c'. split; [exact A1|]. split; [exact A2|].
  intros t v. destruct (A3 t v) as [c'' [B1 [B2 _]]]. exists c''. auto.
Qed.
