(* PoolModel (pool.OnDemandBlockTaskPool), proofs for C12 / liveness side of C10 - BR: ShutdownNow's result list is empty as long as no ShutdownNow has succeeded *)
From Ekit Require Import Common Conc PoolModel PoolProofB0 PoolProofB1 PoolProofB2d.
From Coq Require Import ZifyBool Arith PeanoNat.

Record invR (c : pcfg) : Prop := {
  r_ret : g_now (c_gh c) = false -> g_returned (c_gh c) = []
}.

Lemma invR_init P : invR (pinit P).
Proof. constructor. reflexivity. Qed.

Lemma invR_step c e c' : invP c -> invR c -> pstep_cfg c e = Some c' -> invR c'.
Proof.
  intros HP [I0] Hstep.
  destruct (step_cases _ _ _ Hstep) as [(t & op & -> & Hl & Hb & -> & _)|(th & o & obs & Hl & Ho & Ha)].
  - constructor. cbn [call_cfg c_gh]. exact I0.
  - destruct (apply_out_fields _ _ _ _ _ Ha) as (Hp & Hsh & Hgh & Hnt).
    constructor. rewrite Hgh. intros Hgn0.
    pose proof (p_sn2 c HP) as Ps.
    pose proof (tsum_ge_lookup (pcf g_sn) _ _ _ (pcf_nonneg _ g_sn_nn) Hl) as N.
    clear Ha Hstep HP Hp Hsh Hgh Hnt Hl.
    destruct e as [t op|t ch|t|t|t]; cbn [ev_out ev_tid] in *; [discriminate Ho| | | |];
      generalize dependent (parked_of (c_thr c)); intros pk; intros;
      generalize dependent (c_par c); intros P; intros;
      destruct (c_sh c) as [st pv q cl tot run mp gn bw br gw gr idc ictx];
      destruct (c_gh c) as [gsent gstarted gdone gret gacc grej gstarts gshuts gnow ggrace gbegan gshut];
      cbn [g_now g_returned] in *;
      [ pstep_split Ho th ch
      | destruct (l_cancel th); [discriminate Ho|injection Ho as <-]
      | destruct (l_tm th); try discriminate Ho; injection Ho as <-
      | destruct (pc th) eqn:Hpc; try discriminate Ho; injection Ho as <- ].
    all: break_if; msimp_in Hgn0; msimp; try (apply I0; exact Hgn0); try discriminate Hgn0.
    all: cbn [pcf] in N; rewrite ?Hpc in N; cbn [g_sn] in N; subst gnow; cbn [bz] in Ps; lia.
Qed.
