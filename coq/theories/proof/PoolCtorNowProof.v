(* Proofs about the current and the pinned constructor of OnDemandBlockTaskPool (C11). *)
From Ekit Require Import Common Conc PoolModel PoolProof PoolProof2 PoolProof4 PoolCtorNow.
From Coq Require Import ZifyBool.

Lemma max_int32_val : max_int32 = 2147483647. Proof. reflexivity. Qed.

Lemma pool_new_now_agrees_lemma i q opts :
  i <= max_int32 -> pool_new_now i q opts = pool_new i q opts.
Proof.
  intros H. unfold pool_new_now. destruct (max_int32 <? i) eqn:E; [lia|reflexivity].
Qed.

Lemma pool_new_now_rejects_lemma i q opts :
  i < 1 \/ max_int32 < i \/ q < 0 -> pool_new_now i q opts = CtErr.
Proof.
  intros H. unfold pool_new_now. destruct (max_int32 <? i) eqn:E; [reflexivity|].
  unfold pool_new. destruct (i <? 1) eqn:E1; [reflexivity|]. destruct (q <? 0) eqn:E2; [reflexivity|]. lia.
Qed.

Lemma pool_new_now_valid_lemma i q opts i' c m q' rn rd fa fb base fc :
  pool_new_now i q opts = CtOk i' c m q' rn rd -> 0 < rd ->
  i' = i /\ q' = q /\ 1 <= i' <= max_int32 /\ i' <= c /\ c <= m /\ 0 <= q' /\ 0 <= rn <= rd /\
  pvalid (mkPar i' c m q' rn rd fa fb base fc).
Proof.
  unfold pool_new_now. destruct (max_int32 <? i) eqn:E; [discriminate|]. intros H Hrd.
  pose proof (constructor_ok_valid i q opts i' c m q' rn rd fa fb base fc H Hrd) as HV.
  destruct (constructor_rejects_lemma i q opts) as [_ Hk].
  destruct (Hk _ _ _ _ _ _ H) as (-> & -> & _ & _ & _ & H1 & H2 & H3 & H4).
  rewrite max_int32_val in *. destruct HV as (V1 & V2 & V3 & V4 & V5). cbn in V1, V2, V3, V4, V5.
  unfold pvalid. cbn. repeat split; auto; lia.
Qed.

(* in range the conversion is the identity, so the pinned constructor was right there *)
Lemma wrap_s32_id x : - 2 ^ 31 <= x < 2 ^ 31 -> wrap_s 32 x = x.
Proof.
  intros Hx. unfold wrap_s. change (2 ^ (32 - 1)) with 2147483648 in *. change (2 ^ 32) with 4294967296.
  change (2 ^ 31) with 2147483648 in Hx.
  destruct (x mod 4294967296 <? 2147483648) eqn:E;
    pose proof (Z.mod_pos_bound x 4294967296 ltac:(lia));
    pose proof (Z.div_mod x 4294967296 ltac:(lia)); nia.
Qed.

Lemma pool_new_trunc_in_range_lemma i q opts :
  1 <= i <= max_int32 -> pool_new_trunc i q opts = pool_new i q opts.
Proof.
  intros H. unfold pool_new_trunc, pool_new. rewrite max_int32_val in H.
  rewrite (wrap_s32_id i) by (change (2 ^ 31) with 2147483648; lia). reflexivity.
Qed.

(* the pinned constructor accepts initGo = 2^32 with ZERO workers, and 2^31 with a negative count *)
Lemma pool_new_trunc_zero_lemma :
  pool_new_trunc (2 ^ 32) 1 [] = CtOk 0 0 0 1 0 1 /\
  pool_new_trunc (2 ^ 31) 1 [] = CtOk (- 2 ^ 31) (- 2 ^ 31) (- 2 ^ 31) 1 0 1 /\
  pool_new_trunc (2 ^ 32 + 1) 1 [] = pool_new 1 1 [] /\
  (forall fa fb base fc, ~ pvalid (mkPar 0 0 0 1 0 1 fa fb base fc)) /\
  pool_new_now (2 ^ 32) 1 [] = CtErr /\ pool_new_now (2 ^ 31) 1 [] = CtErr.
Proof.
  repeat split; try (vm_compute; reflexivity).
  intros fa fb base fc (H & _). cbn in H. lia.
Qed.
