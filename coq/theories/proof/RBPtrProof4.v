(* Pointer-level red-black tree: addNode / Add against RBModel.add. *)
From Ekit Require Import Common RBModel RBPtrModel RBPtrProof RBPtrProof2 RBPtrProof3.
From Coq Require Import Arith.

Lemma iplug_app a b t : iplug (a ++ b) t = iplug b (iplug a t).
Proof. revert t. induction a as [|f a IH]; intro t; [reflexivity|]. cbn [app]. rewrite !iplug_cons. apply IH. Qed.
Lemma ectx_app a b : ectx (a ++ b) = ectx a ++ ectx b.
Proof. apply map_app. Qed.
Lemma plug_app a b t : plug (a ++ b) t = plug b (plug a t).
Proof. revert t. induction a as [|f a IH]; intro t; [reflexivity|]. cbn [app plug]. apply IH. Qed.

Lemma height_iplug ctx t : (length ctx + height (erase t) <= height (erase (iplug ctx t)))%nat.
Proof.
  revert t. induction ctx as [|f rest IH]; intro t; [cbn; lia|].
  rewrite iplug_cons. specialize (IH (iplug1 f t)). destruct f; cbn [iplug1 erase height length] in *; lia.
Qed.
Lemma root_black_iplug ctx t : col (erase (iplug ctx t)) = Black -> ctx <> [] -> root_black ctx.
Proof.
  revert t. induction ctx as [|f rest IH]; intros t Hc Hne; [congruence|].
  destruct rest as [|g rest'].
  - destruct f; cbn in Hc |- *; exact Hc.
  - rewrite iplug_cons in Hc. cbn [root_black]. apply (IH _ Hc). discriminate.
Qed.
Lemma same_nil_r l : same l [] -> l = [].
Proof. intro H. destruct l as [|x l]; [reflexivity|]. destruct (proj1 (H x) (or_introl eq_refl)). Qed.

Lemma height_le_card t : (height t <= card t)%nat.
Proof. induction t as [|c l IHl k v r IHr]; cbn [height card]; lia. Qed.

Lemma cfg_hset_fresh h rt ctx t i n : cfg h rt ctx t -> ~ In i (ids t ++ cids ctx) -> cfg (hset h i n) rt ctx t.
Proof.
  intros (Hc & Hr & Hnd) Hni. apply notin_app in Hni. destruct Hni as [H1 H2].
  split; [apply ictx_hset_other; assumption|]. split; [apply irep_hset_other; assumption|exact Hnd].
Qed.

Definition isL (f : iframe) : bool := match f with IFL _ _ _ _ _ => true | IFR _ _ _ _ _ => false end.
Definition pc_ok (ctx : ictxt) (parent : ptr) (c : Z) : Prop :=
  match ctx with [] => True | f :: _ => parent = Some (fid f) /\ (c <? 0) = isL f end.

(* what the whole heap looks like between two calls *)
Definition tree_inv (s : pstate) (t : itree) : Prop :=
  cfg (pheap s) (proot s) [] t /\ phs t = [] /\ (forall j, In j (ids t) -> (j < pnext s)%positive).

Section Add.
  Variable cmp : Z -> Z -> Z.

  Lemma up_ins_not_dup f res : snd res <> Dup -> snd (up_ins f res) <> Dup.
  Proof.
    destruct res as [t st]. cbn [snd]. intro H.
    destruct f as [c k' v' r|c l k' v']; cbn [up_ins]; destruct st; try congruence; cbn [snd]; try discriminate.
    - destruct c; discriminate.
    - unfold fix_add_left. destruct (isred r); discriminate.
    - destruct c; discriminate.
    - unfold fix_add_right. destruct (isred l); discriminate.
  Qed.
  Lemma unwind_ins_not_dup ctx res : snd res <> Dup -> snd (unwind_ins ctx res) <> Dup.
  Proof. revert res. induction ctx as [|f rest IH]; intros res H; [exact H|]. cbn [unwind_ins]. apply IH. apply up_ins_not_dup. exact H. Qed.

  Lemma addNode_loop_spec k v nd ndn : forall t ctx fuel parent c h rt sz nx cl,
    cfg h rt ctx t -> phs t = [] -> hget h nd = Some ndn -> nkey ndn = k ->
    (height (erase t) < fuel)%nat -> pc_ok ctx parent c ->
    exists r, addNode_loop cmp fuel (Some nd) (rid t) parent c (mkst h rt sz nx cl)
              = ROk r (mkst h rt sz nx (cmp_calls cmp k (erase t) + cl)%nat) /\
      match r with
      | None => snd (ins cmp k v (erase t)) = Dup
      | Some (parent', c') =>
          exists ctx', cfg h rt (ctx' ++ ctx) IE /\ iplug ctx' IE = t /\ path_ok cmp k (ectx ctx') /\
                       pc_ok (ctx' ++ ctx) parent' c'
      end.
  Proof.
    induction t as [|i k0 v0|i c0 l IHl k' v' r IHr]; intros ctx fuel parent c h rt sz nx cl H Hph Hnd Hk Hfuel Hpc.
    - destruct fuel as [|fuel]; [cbn in Hfuel; lia|]. exists (Some (parent, c)). split; [reflexivity|].
      exists []. split; [exact H|]. split; [reflexivity|]. split; [constructor|exact Hpc].
    - cbn in Hph. discriminate.
    - cbn [phs] in Hph. apply app_eq_nil in Hph. destruct Hph as [Hpl Hpr].
      destruct fuel as [|fuel]; [cbn in Hfuel; lia|]. cbn [erase height] in Hfuel.
      pose proof H as H0. destruct H0 as (_ & Hr & _). cbn [irep] in Hr. destruct Hr as (Hi & _ & _).
      cbn [addNode_loop rid isnil]. unfold compare. munfold. mrun. rewrite Hk. cbn [cmp_calls erase].
      destruct (cmp k k' <? 0) eqn:Hlt.
      + mrun. destruct (IHl (IFL i c0 k' v' r :: ctx) fuel (Some i) (cmp k k') h rt sz nx (S cl)) as (res & Hrun & Hres);
          [apply cfg_down; exact H|exact Hpl|exact Hnd|exact Hk|lia|split; [reflexivity|exact Hlt]|].
        exists res. split; [rewrite Hrun; f_equal; f_equal; lia|].
        destruct res as [[parent' c']|].
        * destruct Hres as (ctx' & Hcfg' & Hpl' & Hpath & Hpc').
          exists (ctx' ++ [IFL i c0 k' v' r]). rewrite <- app_assoc. cbn [app].
          split; [exact Hcfg'|]. split; [rewrite iplug_app, Hpl'; reflexivity|].
          split; [|exact Hpc']. rewrite ectx_app. apply Forall_app. split; [exact Hpath|].
          constructor; [exact Hlt|constructor].
        * cbn [ins]. rewrite Hlt. destruct (ins cmp k v (erase l)) as [l' st]. cbn [snd] in Hres. subst st. reflexivity.
      + destruct (0 <? cmp k k') eqn:Hgt.
        * mrun. destruct (IHr (IFR i c0 l k' v' :: ctx) fuel (Some i) (cmp k k') h rt sz nx (S cl)) as (res & Hrun & Hres);
            [apply cfg_down; exact H|exact Hpr|exact Hnd|exact Hk|lia|split; [reflexivity|exact Hlt]|].
          exists res. split; [rewrite Hrun; f_equal; f_equal; lia|].
          destruct res as [[parent' c']|].
          -- destruct Hres as (ctx' & Hcfg' & Hpl' & Hpath & Hpc').
             exists (ctx' ++ [IFR i c0 l k' v']). rewrite <- app_assoc. cbn [app].
             split; [exact Hcfg'|]. split; [rewrite iplug_app, Hpl'; reflexivity|].
             split; [|exact Hpc']. rewrite ectx_app. apply Forall_app. split; [exact Hpath|].
             constructor; [split; [exact Hlt|exact Hgt]|constructor].
          -- cbn [ins]. rewrite Hlt, Hgt. destruct (ins cmp k v (erase r)) as [r' st]. cbn [snd] in Hres. subst st. reflexivity.
        * assert (He : (cmp k k' =? 0) = true) by lia. rewrite He.
          exists None. split; [f_equal; f_equal; lia|]. cbn [ins]. rewrite Hlt, Hgt. reflexivity.
  Qed.

  Lemma add_of_dup k v t : snd (ins cmp k v t) = Dup -> add cmp k v t = None.
  Proof. unfold add. destruct (ins cmp k v t) as [t' st]. cbn [snd]. intros ->. reflexivity. Qed.
  Lemma add_of_unwind k v ctx :
    path_ok cmp k ctx ->
    add cmp k v (plug ctx E) = Some (setcol Black (fst (unwind_ins ctx (T Red E k v E, RedNode)))).
  Proof.
    intro Hp. unfold add. rewrite (ins_plug cmp k v ctx Hp E); [|cbn; discriminate].
    cbn [ins]. pose proof (unwind_ins_not_dup ctx (T Red E k v E, RedNode)) as Hnd.
    destruct (unwind_ins ctx (T Red E k v E, RedNode)) as [t' st]. cbn [snd fst] in *.
    destruct st; try reflexivity. exfalso. apply Hnd; [discriminate|reflexivity].
  Qed.

  Lemma rbAdd_spec k v s it :
    tree_inv s it -> col (erase it) = Black -> psize s = Z.of_nat (card (erase it)) ->
    match add cmp k v (erase it) with
    | None => exists s', rbAdd cmp k v s = ROk (Some EDuplicate) s' /\ tree_inv s' it /\ psize s' = psize s /\
                         pcalls s' = (cmp_calls cmp k (erase it) + pcalls s)%nat
    | Some t' => exists s' it', rbAdd cmp k v s = ROk None s' /\ tree_inv s' it' /\ erase it' = t' /\
                         psize s' = psize s + 1 /\ pcalls s' = (cmp_calls cmp k (erase it) + pcalls s)%nat
    end.
  Proof.
    destruct s as [h rt sz nx cl]. intros (Hcfg & Hph & Hbound) Hcol Hsz. cbn [pheap proot psize pnext pcalls] in *.
    assert (Hfresh : forall i, (nx <= i)%positive -> ~ In i (ids it ++ cids [])).
    { intros i Hi Hin. cbn [cids] in Hin. rewrite app_nil_r in Hin. specialize (Hbound i Hin). lia. }
    destruct it as [|i0 k0 v0|r0 c0 l0 k0 v0 r1].
    - (* empty tree *)
      cbn [erase add ins setcol fst cmp_calls].
      pose proof Hcfg as (Hc & _ & _). cbn [ictx rid] in Hc. subst rt.
      pose (fx := Pos.succ nx : id).
      assert (H1 : cfg (hset (hset h nx (mkn Red k v None None None)) fx (mkn Red k v None None None)) (Some fx) [] (IT fx Red IE k v IE)).
      { unfold cfg. cbn [ictx irep ids rid cids cpar app]. repeat split; hsimp; fin. }
      destruct (fixAfterAdd_spec (pfuel (mkst h None sz nx cl)) [] fx IE k v IE _ _ (sz + 1) (Pos.succ fx) cl H1 I) as (h' & rt' & t' & Hrun & Hcfg' & He & Hids & Hphs).
      { unfold pfuel. cbn. lia. }
      exists (mkst h' rt' (sz + 1) (Pos.succ fx) cl), t'. split.
      { unfold rbAdd, addNode, newRBNode, alloc. munfold. mrun. fold fx. assert (nx <> fx) by (unfold fx; lia). mrun. fold fx.
        rewrite Hrun. reflexivity. }
      split; [|split; [rewrite He; reflexivity|split; reflexivity]].
      split; [exact Hcfg'|]. cbn [pnext]. split.
      + apply same_nil_r. exact Hphs.
      + intros j Hj. apply Hids in Hj. cbn in Hj. destruct Hj as [<-|[]]. unfold fx. lia.
    - cbn in Hph. discriminate.
    - (* non-empty tree *)
      set (t := IT r0 c0 l0 k0 v0 r1) in *.
      pose proof Hcfg as (Hc & _ & _). cbn [ictx rid t] in Hc. subst rt.
      pose (g1 := Pos.succ nx : id). pose (fx := Pos.succ g1 : id).
      set (h2 := hset (hset h nx (mkn Red k v None None None)) g1 (mkn Red 0 0 None None None)).
      assert (Hcfg2 : cfg h2 (Some r0) [] t).
      { unfold h2. apply cfg_hset_fresh; [apply cfg_hset_fresh; [exact Hcfg|]|]; apply Hfresh; unfold g1; lia. }
      assert (Hnd2 : hget h2 nx = Some (mkn Red k v None None None)).
      { unfold h2. rewrite hgso by (unfold g1; lia). apply hgss. }
      assert (Hfuel : (height (erase t) < pfuel (mkst h (Some r0) sz nx cl))%nat).
      { unfold pfuel. cbn [psize]. rewrite Hsz, Nat2Z.id. pose proof (height_le_card (erase t)). lia. }
      destruct (addNode_loop_spec k v nx _ t [] _ (Some g1) 0 h2 (Some r0) sz fx cl Hcfg2 Hph Hnd2 eq_refl Hfuel I)
        as (res & Hrun & Hres).
      change (rid t) with (Some r0) in Hrun.
      destruct res as [[parent' c']|].
      + destruct Hres as (ctx' & Hcfg3 & Hplug & Hpath & Hpc). rewrite app_nil_r in Hcfg3, Hpc.
        assert (He : erase t = plug (ectx ctx') E) by (rewrite <- Hplug, erase_iplug; reflexivity).
        rewrite He, (add_of_unwind k v _ Hpath).
        destruct ctx' as [|f ctx'']; [cbn in Hplug; discriminate|].
        destruct Hpc as [-> Hc'].
        assert (Hsub : forall j, In j (cids (f :: ctx'')) -> In j (ids t)).
        { intros j Hj. rewrite <- Hplug. apply ids_iplug. cbn [ids app]. exact Hj. }
        assert (Hf1 : ~ In nx (cids (f :: ctx''))) by (intro Hj; apply Hsub in Hj; apply Hbound in Hj; lia).
        assert (Hf2 : ~ In g1 (cids (f :: ctx''))) by (intro Hj; apply Hsub in Hj; apply Hbound in Hj; unfold g1 in Hj; lia).
        assert (Hf3 : ~ In fx (cids (f :: ctx''))) by (intro Hj; apply Hsub in Hj; apply Hbound in Hj; unfold fx, g1 in Hj; lia).
        assert (Hn1 : nx <> g1) by (unfold g1; lia). assert (Hn2 : nx <> fx) by (unfold fx, g1; lia). assert (Hn3 : g1 <> fx) by (unfold fx; lia).
        assert (Hrb : root_black (f :: ctx'')) by (apply (root_black_iplug _ IE); [rewrite Hplug; exact Hcol|discriminate]).
        assert (Hlen : (length (f :: ctx'') < pfuel (mkst h (Some r0) sz nx cl))%nat).
        { pose proof (height_iplug (f :: ctx'') IE) as Hh. rewrite Hplug in Hh. lia. }
        assert (Hstep : exists h4, cfg h4 (Some r0) (f :: ctx'') (IT fx Red IE k v IE) /\
                  rbAdd cmp k v (mkst h (Some r0) sz nx cl) =
                  match fixAfterAdd (pfuel (mkst h (Some r0) sz nx cl)) (Some fx)
                          (mkst h4 (Some r0) (sz + 1) (Pos.succ fx) (cmp_calls cmp k (erase t) + cl)%nat) with
                  | ROk _ s' => ROk None s' | RPanic => RPanic | RFuel => RFuel end).
        { clear Hcfg Hcfg2. destruct f as [p pc pk pv ps|p pc ps pk pv]; cfg_open Hcfg3; cbn [isL fid] in *;
            eexists; (split; [|unfold rbAdd, addNode, newRBNode, alloc; munfold; mrun; fold g1; fold h2; fold fx;
                                rewrite Hrun; mrun; rewrite Hc'; mrun; reflexivity]); cfg_tac. }
        destruct Hstep as (h4 & Hcfg4 & Hstep).
        destruct (fixAfterAdd_spec (pfuel (mkst h (Some r0) sz nx cl)) (f :: ctx'') fx IE k v IE h4 (Some r0) (sz + 1) (Pos.succ fx) (cmp_calls cmp k (erase t) + cl)%nat Hcfg4 Hrb Hlen)
          as (h5 & rt5 & t5 & Hrun5 & Hcfg5 & He5 & Hids5 & Hphs5).
        exists (mkst h5 rt5 (sz + 1) (Pos.succ fx) (cmp_calls cmp k (erase t) + cl)%nat), t5. split.
        { rewrite Hstep, Hrun5. reflexivity. }
        split; [|split; [rewrite He5; reflexivity|split; [reflexivity|cbn [pcalls]; rewrite <- He; reflexivity]]].
        split; [exact Hcfg5|]. cbn [pnext]. split.
        * apply same_nil_r. intro j. rewrite (Hphs5 j). cbn [phs app]. split; [|intros []].
          intro Hj. assert (Hj' : In j (phs (iplug (f :: ctx'') IE))) by (apply phs_iplug; exact Hj).
          rewrite Hplug, Hph in Hj'. exact Hj'.
        * intros j Hj. apply Hids5 in Hj. cbn [ids app In] in Hj. destruct Hj as [<-|Hj]; [lia|].
          apply Hsub in Hj. apply Hbound in Hj. unfold fx, g1. lia.
      + rewrite (add_of_dup k v _ Hres).
        exists (mkst h2 (Some r0) sz fx (cmp_calls cmp k (erase t) + cl)%nat). split.
        { unfold rbAdd, addNode, newRBNode, alloc. munfold. mrun. fold g1. fold h2. fold fx.
          rewrite Hrun. reflexivity. }
        split; [|split; reflexivity]. split; [exact Hcfg2|]. split; [exact Hph|].
        cbn [pnext]. intros j Hj. apply Hbound in Hj. unfold fx, g1. lia.
  Qed.
End Add.
