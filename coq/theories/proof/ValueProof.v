(* Proofs about ValueModel (C17). *)
From Ekit Require Import Common ValueModel.
From Coq Require Import ZifyBool.
Ltac Zify.zify_post_hook ::= Z.div_mod_to_equations.

(* ---------- independent specification of decimal numerals ---------- *)
Definition dstep (n c : Z) : Z := n * 10 + (c - 48).
Definition horner (s : list Z) (n : Z) : Z := fold_left dstep s n.
Definition dec_value (s : list Z) : Z := horner s 0.
Definition all_digits (s : list Z) : bool := forallb is_digit s.

(* unsigned numerals: one or more decimal digits, nothing else *)
Definition denotes_u (s : list Z) (z : Z) : Prop :=
  s <> [] /\ all_digits s = true /\ z = dec_value s.
(* signed numerals: optional single '+' or '-' followed by an unsigned numeral *)
Definition denotes_s (s : list Z) (z : Z) : Prop :=
  denotes_u s z
  \/ (exists b, s = 43 :: b /\ denotes_u b z)
  \/ (exists b n, s = 45 :: b /\ denotes_u b n /\ z = - n).
Definition denotes (k : ikind) (s : list Z) (z : Z) : Prop :=
  if signed k then denotes_s s z else denotes_u s z.

Lemma horner_cons c t n : horner (c :: t) n = horner t (dstep n c).
Proof. reflexivity. Qed.

Lemma horner_ge s : forall n, 0 <= n -> all_digits s = true -> n <= horner s n.
Proof.
  induction s as [|c t IH]; intros n Hn Hd.
  - cbn. lia.
  - rewrite horner_cons. cbn [all_digits forallb] in Hd.
    apply andb_prop in Hd as [Hc Ht].
    unfold is_digit in Hc.
    assert (H : 0 <= dstep n c) by (unfold dstep; lia).
    specialize (IH (dstep n c) H Ht). unfold dstep in *. lia.
Qed.

Lemma horner_nonneg s n : 0 <= n -> all_digits s = true -> 0 <= horner s n.
Proof. intros; pose proof (horner_ge s n); lia. Qed.

Lemma denotes_u_nonneg s z : denotes_u s z -> 0 <= z.
Proof. intros (_ & Hd & ->). apply horner_nonneg; [lia|exact Hd]. Qed.

Lemma denotes_u_fun s z z' : denotes_u s z -> denotes_u s z' -> z = z'.
Proof. intros (_ & _ & ->) (_ & _ & ->); reflexivity. Qed.

Lemma is_digit_43 : is_digit 43 = false. Proof. reflexivity. Qed.
Lemma is_digit_45 : is_digit 45 = false. Proof. reflexivity. Qed.

Lemma denotes_u_head c t z : denotes_u (c :: t) z -> is_digit c = true.
Proof. intros (_ & Hd & _). cbn in Hd. apply andb_prop in Hd. tauto. Qed.

Lemma denotes_s_fun s z z' : denotes_s s z -> denotes_s s z' -> z = z'.
Proof.
  intros H H'.
  destruct H as [H|[(b & -> & H)|(b & n & -> & H & ->)]];
  destruct H' as [H'|[(b' & E' & H')|(b' & n' & E' & H' & ->)]].
  - eapply denotes_u_fun; eassumption.
  - subst s. apply denotes_u_head in H. discriminate.
  - subst s. apply denotes_u_head in H. discriminate.
  - apply denotes_u_head in H'. discriminate.
  - injection E' as <-. eapply denotes_u_fun; eassumption.
  - discriminate.
  - apply denotes_u_head in H'. discriminate.
  - discriminate.
  - injection E' as <-. f_equal. eapply denotes_u_fun; eassumption.
Qed.

(* ---------- parse_digits computes horner, with exact range detection ---------- *)
Definition two64 : Z := 18446744073709551616.
Lemma two64_eq : 2 ^ 64 = two64. Proof. reflexivity. Qed.

Lemma parse_digits_spec w s : 0 < w <= 64 -> forall n, 0 <= n ->
  match parse_digits w s n with
  | Ok m => all_digits s = true /\ m = horner s n /\ (s <> [] -> m <= 2 ^ w - 1)
  | Err ESyntax => all_digits s = false
  | Err ERange => all_digits s = true -> 2 ^ w - 1 < horner s n
  | _ => False
  end.
Proof.
  intros Hw.
  assert (HP : 0 < 2 ^ w <= 2 ^ 64).
  { split; [apply Z.pow_pos_nonneg; lia|apply Z.pow_le_mono_r; lia]. }
  rewrite two64_eq in HP. unfold two64 in HP.
  remember (2 ^ w) as P eqn:EP.
  induction s as [|c t IH]; intros n Hn; cbn [parse_digits].
  - cbn. repeat split; congruence.
  - destruct (is_digit c) eqn:Hc.
    + rewrite two64_eq; unfold two64.
      change ((18446744073709551616 - 1) / 10 + 1) with 1844674407370955162.
      destruct (1844674407370955162 <=? n) eqn:Hcut.
      * intros Hd. cbn in Hd. rewrite Hc in Hd. cbn in Hd.
        rewrite horner_cons.
        pose proof (horner_ge t (dstep n c)) as Hge.
        unfold is_digit in Hc. unfold dstep in *.
        assert (0 <= n * 10 + (c - 48)) by lia.
        specialize (Hge H Hd). lia.
      * rewrite <- EP.
        destruct ((18446744073709551616 <=? n * 10 + (c - 48)) || (P - 1 <? n * 10 + (c - 48))) eqn:Hov.
        -- intros Hd. cbn in Hd. rewrite Hc in Hd. cbn in Hd.
           rewrite horner_cons.
           pose proof (horner_ge t (dstep n c)) as Hge.
           unfold is_digit in Hc. unfold dstep in *.
           assert (0 <= n * 10 + (c - 48)) by lia.
           specialize (Hge H Hd). lia.
        -- unfold is_digit in Hc.
           assert (Hn1 : 0 <= n * 10 + (c - 48)) by lia.
           specialize (IH _ Hn1).
           destruct (parse_digits w t (n * 10 + (c - 48))) as [m|e|] eqn:Hp.
           ++ destruct IH as (Hd & -> & Hle).
              split; [|split].
              ** cbn [all_digits forallb]. fold (all_digits t).
                 rewrite Hd. unfold is_digit. lia.
              ** reflexivity.
              ** intros _. destruct t as [|c' t'].
                 --- cbn. lia.
                 --- apply Hle. discriminate.
           ++ destruct e; try contradiction.
              ** cbn [all_digits forallb]. fold (all_digits t). rewrite IH. apply andb_false_r.
              ** intros Hd. cbn [all_digits forallb] in Hd. fold (all_digits t) in Hd.
                 apply andb_prop in Hd as [_ Hd].
                 rewrite horner_cons. unfold dstep. apply IH, Hd.
           ++ contradiction.
    + cbn [all_digits forallb]. rewrite Hc. reflexivity.
Qed.

Lemma parse_uint_spec w s : 0 < w <= 64 ->
  match parse_uint w s with
  | Ok m => denotes_u s m /\ 0 <= m <= 2 ^ w - 1
  | Err _ => forall z, denotes_u s z -> 2 ^ w - 1 < z
  | Panic => False
  end.
Proof.
  intros Hw. destruct s as [|c t].
  - cbn. intros z (H & _). congruence.
  - unfold parse_uint.
    pose proof (parse_digits_spec w (c :: t) Hw 0 ltac:(lia)) as H.
    destruct (parse_digits w (c :: t) 0) as [m|e|].
    + destruct H as (Hd & -> & Hle). split.
      * repeat split; [discriminate|exact Hd].
      * split; [apply horner_nonneg; [lia|exact Hd]|apply Hle; discriminate].
    + destruct e; try contradiction.
      * intros z (_ & Hd & _). congruence.
      * intros z (_ & Hd & ->). apply H, Hd.
    + contradiction.
Qed.

Lemma in_u_iff w z : in_u w z = true <-> 0 <= z <= 2 ^ w - 1.
Proof. unfold in_u. lia. Qed.
Lemma in_s_iff w z : in_s w z = true <-> - 2 ^ (w - 1) <= z <= 2 ^ (w - 1) - 1.
Proof. unfold in_s. lia. Qed.

Lemma pow_pred_le w : 0 < w <= 64 -> 0 < 2 ^ (w - 1) /\ 2 ^ (w - 1) <= 2 ^ 63.
Proof.
  intros Hw. split; [apply Z.pow_pos_nonneg; lia|apply Z.pow_le_mono_r; lia].
Qed.

(* exactness of the model of strconv.ParseInt *)
Lemma parse_int_spec w s : 0 < w <= 64 ->
  match parse_int w s with
  | Ok m => denotes_s s m /\ in_s w m = true
  | Err _ => forall z, denotes_s s z -> in_s w z = false
  | Panic => False
  end.
Proof.
  intros Hw. destruct s as [|c t].
  { cbn. intros z [H|[(b & E & _)|(b & n & E & _)]]; try discriminate.
    destruct H as (H & _); congruence. }
  unfold parse_int.
  pose proof (pow_pred_le w Hw) as [Hc0 Hc1].
  change (2 ^ 63) with 9223372036854775808 in Hc1.
  remember (2 ^ (w - 1)) as C eqn:EC.
  set (body := if (c =? 43) || (c =? 45) then t else c :: t).
  pose proof (parse_uint_spec 64 body ltac:(lia)) as HU.
  rewrite two64_eq in HU. unfold two64 in HU.
  (* relate denotes_s (c::t) to denotes_u body *)
  assert (Hrel : forall z, denotes_s (c :: t) z ->
            exists n, denotes_u body n /\ z = if c =? 45 then - n else n).
  { intros z [H|[(b & E & H)|(b & n & E & H & ->)]].
    - assert (Hc : is_digit c = true).
      { destruct H as (_ & Hd & _). cbn in Hd. apply andb_prop in Hd. tauto. }
      unfold is_digit in Hc.
      assert (E1 : (c =? 43) || (c =? 45) = false) by lia.
      assert (E2 : c =? 45 = false) by lia.
      subst body. rewrite E1, E2. eauto.
    - injection E as -> <-. subst body. cbn. eauto.
    - injection E as -> <-. subst body. cbn. eauto. }
  assert (Hconv : forall n, denotes_u body n ->
            denotes_s (c :: t) (if c =? 45 then - n else n)).
  { intros n Hn. subst body.
    destruct (c =? 43) eqn:E43; [|destruct (c =? 45) eqn:E45].
    - assert (c = 43) by lia; subst c. cbn in *. right; left; eauto.
    - assert (c = 45) by lia; subst c. cbn in *. right; right; eauto.
    - cbn in Hn. left. exact Hn. }
  destruct (parse_uint 64 body) as [un|e|] eqn:HP.
  - destruct HU as (Hden & Hr).
    destruct (negb (c =? 45) && (C <=? un)) eqn:E1; [|destruct ((c =? 45) && (C <? un)) eqn:E2].
    + intros z Hz. apply Hrel in Hz as (n & Hn & ->).
      rewrite (denotes_u_fun _ _ _ Hn Hden).
      assert (E45 : c =? 45 = false) by lia. rewrite E45.
      unfold in_s. rewrite <- EC. lia.
    + intros z Hz. apply Hrel in Hz as (n & Hn & ->).
      rewrite (denotes_u_fun _ _ _ Hn Hden).
      assert (E45 : c =? 45 = true) by lia. rewrite E45.
      unfold in_s. rewrite <- EC. lia.
    + split; [apply Hconv, Hden|].
      unfold in_s. rewrite <- EC. destruct (c =? 45) eqn:E45; lia.
  - destruct e.
    all: try (
      change (2 ^ 64 - 1) with 18446744073709551615;
      destruct (c =? 45) eqn:E45; cbn [negb andb];
      [ assert (EE : C <? 18446744073709551615 = true) by lia; rewrite EE
      | assert (EE : C <=? 18446744073709551615 = true) by lia; rewrite EE ];
      intros z Hz; apply Hrel in Hz as (n & Hn & ->); specialize (HU _ Hn);
      rewrite ?E45; unfold in_s; rewrite <- EC; lia).
    intros z Hz; apply Hrel in Hz as (n & Hn & ->); specialize (HU _ Hn).
    unfold in_s; rewrite <- EC; destruct (c =? 45); lia.
  - contradiction.
Qed.

(* ---------- narrowing is the identity on values that fit ---------- *)
Lemma wrap_u_id w z : 0 < w -> in_u w z = true -> wrap_u w z = z.
Proof.
  intros Hw H. apply in_u_iff in H. unfold wrap_u. apply Z.mod_small. lia.
Qed.

Lemma wrap_s_id w z : 0 < w -> in_s w z = true -> wrap_s w z = z.
Proof.
  intros Hw H. apply in_s_iff in H. unfold wrap_s.
  assert (E : 2 ^ w = 2 * 2 ^ (w - 1)).
  { replace w with (1 + (w - 1)) at 1 by lia. rewrite Z.pow_add_r by lia. reflexivity. }
  assert (0 < 2 ^ (w - 1)) by (apply Z.pow_pos_nonneg; lia).
  remember (2 ^ (w - 1)) as C. rewrite E.
  destruct (Z_lt_le_dec z 0).
  - assert (Em : z mod (2 * C) = z + 2 * C).
    { symmetry. apply Z.mod_unique with (-1); lia. }
    rewrite Em. destruct (z + 2 * C <? C) eqn:X; lia.
  - rewrite Z.mod_small by lia. destruct (z <? C) eqn:X; lia.
Qed.

Lemma bits_range k : 0 < bits k <= 64.
Proof. destruct k; cbn; lia. Qed.

Lemma narrow_id k z : fits k z = true -> narrow k z = z.
Proof.
  unfold fits, narrow. pose proof (bits_range k).
  destruct (signed k); [apply wrap_s_id|apply wrap_u_id]; lia.
Qed.

Lemma ikind_eqb_eq a b : ikind_eqb a b = true <-> a = b.
Proof. destruct a, b; cbn; split; congruence. Qed.

(* exactness of the string half of As<Int> for the bit size the code passes *)
Lemma parse_for_kind k s :
  match (if signed k then parse_int (bits k) s else parse_uint (bits k) s) with
  | Ok n => denotes k s n /\ fits k n = true
  | Err _ => forall z, denotes k s z -> fits k z = false
  | Panic => False
  end.
Proof.
  pose proof (bits_range k) as Hb. unfold denotes, fits.
  destruct (signed k).
  - apply parse_int_spec, Hb.
  - pose proof (parse_uint_spec (bits k) s Hb) as H.
    destruct (parse_uint (bits k) s) as [m|e|]; [| |exact H].
    + destruct H as [Hd Hr]. split; [exact Hd|]. apply in_u_iff. lia.
    + intros z Hz. specialize (H z Hz).
      destruct (in_u (bits k) z) eqn:E; [|reflexivity].
      apply in_u_iff in E. lia.
Qed.

(* C17, the As<Int> accessors: exactly the denoted number iff it fits *)
Lemma as_int_exact_lemma k v :
  match as_int_now k v with
  | Ok (RInt z) =>
      v = HInt k false z \/
      exists s, v = HStr false s /\ denotes k s z /\ fits k z = true
  | Ok _ => False
  | Err _ =>
      (forall z, v <> HInt k false z) /\
      (forall s z, v = HStr false s -> denotes k s z -> fits k z = false)
  | Panic => False
  end.
Proof.
  unfold as_int_now, as_int, bits_now.
  destruct v as [|k' nm z|nm b|nm b|nm s|nm b|nm b| |]; try (split; intros; discriminate).
  - destruct nm; [split; intros; discriminate|].
    destruct (ikind_eqb k k') eqn:E.
    + apply ikind_eqb_eq in E. subst. left; reflexivity.
    + split; [|intros; discriminate].
      intros z' Hz. injection Hz as -> _.
      assert (ikind_eqb k k = true) by (apply ikind_eqb_eq; reflexivity). congruence.
  - destruct nm; [split; intros; discriminate|].
    pose proof (parse_for_kind k s) as H.
    destruct (if signed k then parse_int (bits k) s else parse_uint (bits k) s) as [n|e|].
    + destruct H as [Hd Hf]. right. exists s. rewrite (narrow_id _ _ Hf). auto.
    + split; [intros; discriminate|].
      intros s' z E. injection E as <-. apply H.
    + exact H.
Qed.

(* converse direction, stated separately for readability *)
Lemma as_int_complete_lemma k s z :
  denotes k s z -> fits k z = true -> as_int_now k (HStr false s) = Ok (RInt z).
Proof.
  intros Hd Hf. pose proof (as_int_exact_lemma k (HStr false s)) as H.
  destruct (as_int_now k (HStr false s)) as [[z'| | | | | | | | ]|e|]; try contradiction.
  - destruct H as [H|(s' & E & Hd' & _)]; [discriminate|].
    injection E as <-. f_equal. f_equal.
    unfold denotes in *. destruct (signed k).
    + eapply denotes_s_fun; eassumption.
    + eapply denotes_u_fun; eassumption.
  - destruct H as [_ H]. rewrite (H s z eq_refl Hd) in Hf. discriminate.
Qed.

(* exact-type accessors *)
Definition typed_value (t : ty) (r : res) : held :=
  match t, r with
  | TInt k, RInt z => HInt k false z
  | TF32, RF32 b => HF32 false b
  | TF64, RF64 b => HF64 false b
  | TStr, RStr s => HStr false s
  | TBytes, RBytes b => HBytes false b
  | TBool, RBool b => HBool false b
  | _, _ => HNil
  end.
Definition res_of_ty (t : ty) (r : res) : bool :=
  match t, r with
  | TInt _, RInt _ | TF32, RF32 _ | TF64, RF64 _ | TStr, RStr _
  | TBytes, RBytes _ | TBool, RBool _ => true
  | _, _ => false
  end.

Lemma exact_exact_lemma t v :
  match exact t v with
  | Ok r => res_of_ty t r = true /\ v = typed_value t r
  | Err _ => forall r, res_of_ty t r = true -> v <> typed_value t r
  | Panic => False
  end.
Proof.
  destruct t as [k| | | | |];
  destruct v as [|k' nm z|nm b|nm b|nm s|nm b|nm b| |]; cbn;
    try (intros r Hr; destruct r; cbn in *; congruence);
    try (destruct nm; cbn; [intros r Hr; destruct r; cbn in *; congruence|auto]).
  destruct (ikind_eqb k k') eqn:E.
  - apply ikind_eqb_eq in E. subst. auto.
  - intros r Hr. destruct r; cbn in *; try congruence.
    intros X. injection X as <- _.
    rewrite (proj2 (ikind_eqb_eq _ _) eq_refl) in E. discriminate.
Qed.

(* a stored Err is returned unchanged by every strict accessor *)
Lemma stored_err_lemma a v :
  (forall t d, a <> AOrDef t d) ->
  access_now a {| val := v; has_err := true |} = Err EStored.
Proof. destruct a; cbn; auto. intros H. exfalso. eapply H; reflexivity. Qed.

(* JSONScan hands exactly the bytes AsBytes yields to json.Unmarshal, and fails as AsBytes fails *)
Lemma jsonscan_lemma av :
  access_now AJsonScan av =
  match access_now (AAs AsBytes) av with
  | Ok (RBytes b) => Ok (RJsonScan b)
  | Ok _ => Err EOther
  | Err e => Err e
  | Panic => Panic
  end.
Proof. destruct av as [v e]; destruct e; reflexivity. Qed.

(* OrDefault returns the default exactly when the strict accessor fails *)
Lemma ordefault_lemma t d av :
  access_now (AOrDef t d) av =
  match access_now (AExact t) av with Ok r => Ok r | _ => Ok d end.
Proof. reflexivity. Qed.

(* no accessor panics, whatever is held *)
Lemma parse_digits_no_panic w s : forall n, parse_digits w s n <> Panic.
Proof.
  induction s as [|c t IH]; intros n; cbn; [discriminate|].
  destruct (is_digit c); [|discriminate].
  destruct (_ <=? n); [discriminate|].
  destruct (_ || _); [discriminate|apply IH].
Qed.
Lemma parse_uint_no_panic w s : parse_uint w s <> Panic.
Proof. destruct s; cbn -[parse_digits]; [discriminate|apply parse_digits_no_panic]. Qed.
Lemma parse_int_no_panic w s : parse_int w s <> Panic.
Proof.
  destruct s as [|c t]; [discriminate|]. unfold parse_int.
  pose proof (parse_uint_no_panic 64 (if (c =? 43) || (c =? 45) then t else c :: t)) as H.
  destruct (parse_uint 64 _) as [n|e|]; [| |congruence].
  - destruct (_ && _); [discriminate|]. destruct (_ && _); discriminate.
  - destruct e; try discriminate;
    (destruct (_ && _); [discriminate|]; destruct (_ && _); discriminate).
Qed.

Lemma access_never_panics_lemma a av : access_now a av <> Panic.
Proof.
  destruct av as [v e]. destruct a as [t|t|t d|]; unfold access_now, access; cbn [has_err val].
  - destruct e; [discriminate|].
    pose proof (exact_exact_lemma t v). destruct (exact t v); [discriminate..|contradiction].
  - destruct e; [discriminate|].
    destruct t as [k| | | |]; cbn [as_].
    + unfold as_int. destruct v as [|k' nm z|nm b|nm b|nm s|nm b|nm b| |]; try discriminate.
      * destruct nm; [discriminate|]. destruct (ikind_eqb k k'); discriminate.
      * destruct nm; [discriminate|].
        destruct (signed k).
        -- pose proof (parse_int_no_panic (bits_now k) s).
           destruct (parse_int (bits_now k) s); congruence.
        -- pose proof (parse_uint_no_panic (bits_now k) s).
           destruct (parse_uint (bits_now k) s); congruence.
    + destruct v as [|? ? ?|[] ?|? ?|[] ?|? ?|? ?| |]; discriminate.
    + destruct v as [|? ? ?|? ?|[] ?|[] ?|? ?|? ?| |]; discriminate.
    + destruct v; discriminate.
    + destruct v as [|? ? ?|? ?|? ?|[] ?|[] ?|? ?| |]; discriminate.
  - destruct (if e then _ else _); discriminate.
  - destruct e; [discriminate|].
    destruct v as [|? ? ?|? ?|? ?|[] ?|[] ?|? ?| |]; discriminate.
Qed.

(* AsString on an integer gives its exact decimal text *)
Lemma horner_app s1 s2 n : horner (s1 ++ s2) n = horner s2 (horner s1 n).
Proof. unfold horner. apply fold_left_app. Qed.

Lemma all_digits_app s1 s2 : all_digits (s1 ++ s2) = all_digits s1 && all_digits s2.
Proof. unfold all_digits. apply forallb_app. Qed.

Lemma fmt_pos_spec fuel : forall n acc, 0 <= n < 10 ^ Z.of_nat fuel -> (0 < fuel)%nat ->
  exists ds, fmt_pos_fuel fuel n acc = ds ++ acc /\ ds <> [] /\
             all_digits ds = true /\ dec_value ds = n.
Proof.
  induction fuel as [|f IH]; intros n acc Hn Hf; [lia|].
  cbn [fmt_pos_fuel]. destruct (n <? 10) eqn:E.
  - exists [48 + n]. repeat split; [discriminate| |].
    + unfold all_digits; cbn [forallb]; unfold is_digit. lia.
    + unfold dec_value, horner; cbn [fold_left]; unfold dstep. lia.
  - assert (Hf' : (0 < f)%nat).
    { destruct f; [|lia]. cbn in Hn. lia. }
    assert (Hn' : 0 <= n / 10 < 10 ^ Z.of_nat f).
    { rewrite Nat2Z.inj_succ, Z.pow_succ_r in Hn by lia. lia. }
    destruct (IH (n / 10) ((48 + n mod 10) :: acc) Hn' Hf') as (ds & -> & Hne & Hd & Hv).
    exists (ds ++ [48 + n mod 10]). repeat split.
    + rewrite <- app_assoc. reflexivity.
    + destruct ds; discriminate.
    + rewrite all_digits_app, Hd. unfold all_digits; cbn [forallb]; unfold is_digit. lia.
    + unfold dec_value in *. rewrite horner_app, Hv. unfold horner; cbn [fold_left]; unfold dstep. lia.
Qed.

Lemma format_int_denotes_lemma z :
  - 2 ^ 64 < z < 2 ^ 64 -> denotes_s (format_int z) z.
Proof.
  intros Hz. unfold format_int.
  assert (H20 : 2 ^ 64 < 10 ^ Z.of_nat 20) by (vm_compute; reflexivity).
  destruct (z <? 0) eqn:E.
  - destruct (fmt_pos_spec 20 (- z) [] ltac:(lia) ltac:(lia)) as (ds & -> & Hne & Hd & Hv).
    rewrite app_nil_r. right; right. exists ds, (- z). repeat split; auto; lia.
  - destruct (fmt_pos_spec 20 z [] ltac:(lia) ltac:(lia)) as (ds & -> & Hne & Hd & Hv).
    rewrite app_nil_r. left. repeat split; auto.
Qed.

(* consequently AsString followed by AsInt64/AsUint64 restores the number *)
Lemma format_parse_roundtrip_lemma k z :
  fits k z = true ->
  as_int_now k (HStr false (format_int z)) = Ok (RInt z).
Proof.
  intros Hf. apply as_int_complete_lemma; [|exact Hf].
  assert (Hr : - 2 ^ 64 < z < 2 ^ 64).
  { unfold fits in Hf. pose proof (bits_range k) as Hb.
    change (2 ^ 64) with 18446744073709551616.
    destruct k; cbn in Hf; unfold in_s, in_u in Hf; cbn in Hf; lia. }
  pose proof (format_int_denotes_lemma z Hr) as Hd.
  unfold denotes. destruct (signed k) eqn:Hs; [exact Hd|].
  (* unsigned: z >= 0 so the text has no sign *)
  assert (0 <= z) by (unfold fits in Hf; rewrite Hs in Hf; unfold in_u in Hf; lia).
  unfold format_int in *. assert (E : z <? 0 = false) by lia. rewrite E in *.
  assert (H20 : 2 ^ 64 < 10 ^ Z.of_nat 20) by (vm_compute; reflexivity).
  destruct (fmt_pos_spec 20 z [] ltac:(lia) ltac:(lia)) as (ds & -> & Hne & Hdg & Hv).
  rewrite app_nil_r. repeat split; auto.
Qed.

(* ---------- the pinned (pre-fix) behaviour, kept as documentation ---------- *)
Definition s128 : list Z := [49; 50; 56].
Lemma as_int8_wraps_refuted :
  access_pinned (AAs (AsI I8)) {| val := HStr false s128; has_err := false |} = Ok (RInt (-128))
  /\ denotes I8 s128 128 /\ fits I8 128 = false.
Proof.
  split; [vm_compute; reflexivity|]. split; [|reflexivity].
  left. repeat split. discriminate.
Qed.
Lemma as_string_nil_panics_refuted :
  access_pinned (AAs AsStr) {| val := HNil; has_err := false |} = Panic.
Proof. reflexivity. Qed.
